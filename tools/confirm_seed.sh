#!/bin/sh
# usage: tools/confirm_seed.sh <seed-name> ...   (development aid)
# Confirms in a scratch worktree (/tmp/wt_confirm, pristine 9a57388 = the pinned commit the sub-agents worked on):
#   with patch: crate compiles, lib+bins+integration tests pass, demo FAILS; without patch: demo PASSES.
WT=/tmp/wt_confirm
export CARGO_NET_OFFLINE=true CARGO_TARGET_DIR=$WT/target
[ -d $WT ] || git -C /repo worktree add -q --detach $WT HEAD; git -C $WT checkout -q --detach $(git -C /repo rev-parse HEAD)
for name in "$@"; do
  d=/verif/seeded/$name
  cd $WT && git checkout -q -- . && rm -f tests/seed_demo.rs
  cp $d/seed_demo.rs tests/seed_demo.rs
  cargo test --offline --test seed_demo >$d/confirm_demo_without.log 2>&1; r_without=$?
  git apply $d/patch.diff || { echo "$name: patch does not apply"; continue; }
  cargo test --offline --test seed_demo >$d/confirm_demo_with.log 2>&1; r_with=$?
  cargo test --offline --lib >$d/confirm_lib.log 2>&1; r_lib=$?
  cargo test --offline --bins >$d/confirm_bins.log 2>&1; r_bins=$?
  timeout 900 cargo test --offline --test integration_bin -- --skip bin_remote_invalidport --skip bin_remote_ex002 >$d/confirm_integ.log 2>&1; r_int=$?
  git checkout -q -- . ; rm -f tests/seed_demo.rs
  for f in $d/confirm_*.log; do tail -n 12 $f > $f.tail; mv $f.tail $f; done
  echo "{\"demo_without_patch_rc\": $r_without, \"demo_with_patch_rc\": $r_with, \"lib_tests_with_patch_rc\": $r_lib, \"bins_tests_with_patch_rc\": $r_bins, \"integration_with_patch_rc\": $r_int}" > $d/confirm.json
  echo "$name: $(cat $d/confirm.json)"
done
