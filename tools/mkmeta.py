#!/usr/bin/env python3
"""Writes seeded/<name>/meta.json from notes.md (what breaks / what it needs), confirm.json (what was run to confirm the seed)
and detect.json (which check catches it)."""
import json, os, re, sys
ROOT = os.path.dirname(os.path.dirname(os.path.abspath(__file__)))
props = {json.loads(l)['id']: json.loads(l) for l in open(os.path.join(ROOT, 'properties.jsonl'))}
for n in sorted(os.listdir(os.path.join(ROOT, 'seeded'))):
    d = os.path.join(ROOT, 'seeded', n)
    notes = open(os.path.join(d, 'notes.md'), errors='replace').read() if os.path.exists(os.path.join(d, 'notes.md')) else ''
    def section(pat, limit=1500):
        m = re.search(r'^#+[^\n]*(' + pat + r')[^\n]*\n(.*?)(?=^#+ |\Z)', notes, re.S | re.M | re.I)
        return re.sub(r'\s+', ' ', m.group(2)).strip()[:limit] if m else ''
    change = section(r'change') or re.sub(r'\s+', ' ', notes[:800])
    needs = section(r'manifest|needed|needs|requires')
    clause = section(r'clause|breaks|which part|property')
    conf = json.load(open(os.path.join(d, 'confirm.json'))) if os.path.exists(os.path.join(d, 'confirm.json')) else None
    det = json.load(open(os.path.join(d, 'detect.json'))) if os.path.exists(os.path.join(d, 'detect.json')) else None
    files = sorted(set(re.findall(r'^\+\+\+ b/(\S+)', open(os.path.join(d, 'patch.diff')).read(), re.M)))
    meta = {
        'seed': n, 'property': n[:3], 'property_title': props[n[:3]]['title'],
        'files_changed': files,
        'change': change, 'breaks': clause, 'needs_to_manifest': needs,
        'origin': 'written by a fresh sub-agent that was given only the text of the property and a scratch worktree of /repo (nothing from /verif)',
        'confirmation': {
            'how': 'tools/confirm_seed.sh in a scratch worktree of /repo HEAD: demo (seed_demo.rs as tests/seed_demo.rs) without and with the patch; with the patch: cargo test --lib, --bins, --test integration_bin (bin_remote_invalidport / bin_remote_ex002_* skipped as baseline-flaky)',
            'result': conf,
            'valid': bool(conf and conf.get('demo_without_patch_rc') == 0 and conf.get('demo_with_patch_rc') not in (0, None) and conf.get('lib_tests_with_patch_rc') == 0 and conf.get('bins_tests_with_patch_rc') == 0 and conf.get('integration_with_patch_rc') == 0) if conf else None,
        },
        'detection': {
            'how': 'tools/seedmatrix.py: git -C /repo apply patch.diff; ./check %s (quick tier); git -C /repo checkout -- .' % n[:3],
            'result': det,
        },
    }
    json.dump(meta, open(os.path.join(d, 'meta.json'), 'w'), indent=1)
    print(n, 'valid=%s' % meta['confirmation']['valid'], 'caught=%s' % (det or {}).get('caught'))
