#!/usr/bin/env python3
"""Prints the prompt handed to a fresh sub-agent that seeds a property-breaking change (development aid)."""
import json,sys
pid=sys.argv[1]; suffix=sys.argv[2] if len(sys.argv)>2 else ''
avoid=sys.argv[3] if len(sys.argv)>3 else ''
wt=f"/tmp/wt_{pid}{suffix}"
p=[json.loads(l) for l in open('/verif/properties.jsonl') if json.loads(l)['id']==pid][0]
print(f"""You are working in a scratch git worktree of the Rust project mbehr1/adlt (library + CLI for parsing, lifecycle-detecting, sorting, filtering and serving automotive DLT log files) at {wt}. Work ONLY inside {wt}: never touch or read /repo or /verif. There is no network: always pass --offline to cargo, and set CARGO_TARGET_DIR={wt}/target for every cargo command.

Here is a semantic property that the code is supposed to satisfy:

TITLE: {p['title']}
STATEMENT: {p['statement']}
RANGE: {p['quantifier']['text']}
(The relevant code is in: {', '.join(p['anchors']['files'])})

YOUR TASK: produce ONE small change to the sources under src/ that BREAKS this property while (a) the crate still compiles without new warnings-as-errors and (b) the existing test suite still passes. The change should look like a plausible regression or refactoring slip a maintainer could make, and it must need something specific to manifest -- a particular interleaving, a fault at a particular point, a multi-step sequence of operations, an unusual input, or two cooperating sites that each look fine alone -- NOT something ordinary use would expose at once. Do not just insert a panic or an obviously artificial special case (no `if x == 12345`).""" + ((" Earlier exercises already covered these ideas, choose a different part of the behaviour: " + avoid) if avoid else '') + f"""

Steps:
1. Read the relevant code. Design the change.
2. Write a demonstration: an integration test file tests/seed_demo.rs (using only the crate's public API, or the built binary) that PASSES on the unchanged code and FAILS with your change. Verify both.
3. Verify the existing tests still pass WITH your change: run `cargo test --offline --lib` and `cargo test --offline --bins` and `timeout 900 cargo test --offline --test integration_bin -- --skip bin_remote_invalidport` (bin_remote_invalidport hangs in this sandbox: always skip it and always use the timeout; bin_remote_ex002_open / bin_remote_ex002_stream are flaky on the unchanged code and may be ignored). Never use `pkill`/`killall`: other adlt processes that are not yours run on this machine; if a test of yours leaves a server process behind, kill exactly that pid. If an existing test fails because of your change, redesign the change.
4. Deliverables, in {wt}/seed/: `patch.diff` (output of `git diff -- src` with your change; must apply with `git apply` to the pristine tree), `seed_demo.rs` (copy of the demonstration), `notes.md` (which clause of the property breaks; what exactly is needed for it to manifest; the commands you ran and their results: suite with patch, demo with and without patch).
5. Finally leave the worktree's tracked files pristine (`git checkout -- .`), remove tests/seed_demo.rs from tests/ (the copy stays in seed/), and delete {wt}/target to free disk space.

Report back in under 150 words: what the change is, what it needs to manifest, and whether all verifications succeeded.""")
