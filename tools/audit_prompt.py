#!/usr/bin/env python3
"""Prints the prompt handed to a fresh sub-agent that audits the unchanged code against one property (development aid)."""
import json,sys
pid=sys.argv[1]
wt=f"/tmp/wt_audit_{pid}"
p=[json.loads(l) for l in open('/verif/properties.jsonl') if json.loads(l)['id']==pid][0]
known=sys.argv[2] if len(sys.argv)>2 else ''
print(f"""You are working in a scratch git worktree of the Rust project mbehr1/adlt (library + CLI for parsing, lifecycle-detecting, sorting, filtering and serving automotive DLT log files) at {wt}. Work ONLY inside {wt}: never touch or read /repo or /verif. There is no network: always pass --offline to cargo, and set CARGO_TARGET_DIR={wt}/target for every cargo command. Never use `pkill`/`killall` (other adlt processes that are not yours run on this machine); never run `cargo test --test integration_bin` without `timeout 900` and `-- --skip bin_remote_invalidport`.

Here is a semantic property that the code is supposed to satisfy:

TITLE: {p['title']}
STATEMENT: {p['statement']}
RANGE: {p['quantifier']['text']}
(The relevant code is in: {', '.join(p['anchors']['files'])})

YOUR TASK: audit the code AS IT IS (do not change anything under src/) and try to find a concrete input, operation sequence or schedule within the stated range on which the current code VIOLATES this property. Read the relevant code closely - boundary values, stale cached state, off-by-one in windows and offsets, integer overflow/underflow, early returns that skip bookkeeping, state that is not reset, assumptions that only hold for the inputs the existing tests use. When you have a suspicion, write a small integration test (tests/audit_demo.rs, using the crate's public API or the built binary) that demonstrates the violation on the unchanged code, and run it. Only a demonstrated violation counts; keep going through several suspicions if the first ones turn out fine. {('Already known and repaired, do not report again: ' + known) if known else ''}

Deliverables, in {wt}/audit/: `audit_demo.rs` (copy of the demonstration test, failing on the unchanged code, one #[test] per finding), `notes.md` (for each finding: which clause is violated, the exact input, what the code does and what the property demands, where in the source the cause is, and a minimal repair you would suggest; also list the suspicions you examined that turned out fine). If you find nothing after a thorough audit, say so and list what you examined. Finally remove tests/audit_demo.rs from tests/ (the copy stays in audit/) and delete {wt}/target.

Report back in under 200 words.""")
