#!/usr/bin/env python3
"""Prints the prompt handed to a fresh sub-agent that produces behaviour-preserving rewrites near a property's anchors
(development aid: the checks must stay quiet on them)."""
import json,sys
pid=sys.argv[1]
wt=f"/tmp/wt_benign_{pid}"
p=[json.loads(l) for l in open('/verif/properties.jsonl') if json.loads(l)['id']==pid][0]
print(f"""You are working in a scratch git worktree of the Rust project mbehr1/adlt (library + CLI for parsing, lifecycle-detecting, sorting, filtering and serving automotive DLT log files) at {wt}. Work ONLY inside {wt}: never touch or read /repo or /verif. There is no network: always pass --offline to cargo, and set CARGO_TARGET_DIR={wt}/target for every cargo command.

Here is a semantic property that the code satisfies:

TITLE: {p['title']}
STATEMENT: {p['statement']}
RANGE: {p['quantifier']['text']}
(The relevant code is in: {', '.join(p['anchors']['files'])})

YOUR TASK: produce FOUR independent, realistic source changes (each one a separate patch against the pristine tree) to the code this property is about, of the kind a maintainer commits every week, that do NOT break the property and do not change any behaviour the property talks about. Make them genuinely different in kind, e.g.:
 1. a refactoring of control flow in the core mechanism (loop <-> iterator chain, early returns, match <-> if let, splitting a long function into helpers, moving code between functions, renaming locals/private items);
 2. a change of an internal representation or a performance tweak that keeps the observable results (another container, pre-allocation, avoiding a clone, caching a value, reordering independent statements, integer arithmetic written differently, a named constant instead of a literal or the reverse);
 3. a change to diagnostics only: log / trace / debug / error message texts, comments, doc comments, an added debug counter or an extra (unused by tests) pub accessor;
 4. a robustness change that does not alter results in the property's range: replacing an `unwrap()`/index by an explicit check with the same outcome, `saturating_`/`checked_` arithmetic where no overflow can happen, an added defensive early return for a case that cannot occur.
Each patch should touch 5-60 lines. The public API used by tests must keep compiling. Do not change test code.

For EACH patch: apply it alone to the pristine tree, make sure `cargo build --offline` succeeds without new errors, and run `cargo test --offline --lib` and `cargo test --offline --bins` (both must pass). For at most two of the four also run `timeout 900 cargo test --offline --test integration_bin -- --skip bin_remote_invalidport --skip bin_remote_ex002` (bin_remote_invalidport hangs in this sandbox: always skip it and always use the timeout). Never use `pkill`/`killall`.

Deliverables, in {wt}/benign/: `p1.diff` ... `p4.diff` (each the output of `git diff -- src` with only that change; must apply with `git apply` to the pristine tree) and `notes.md` (per patch: what it changes, why the property and all observable behaviour are unaffected, the commands you ran and their results).
Finally leave the worktree's tracked files pristine (`git checkout -- .`) and delete {wt}/target to free disk space.

Report back in under 120 words: one line per patch, and whether all verifications succeeded.""")
