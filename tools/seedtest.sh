#!/bin/sh
# usage: tools/seedtest.sh <seed-dir-name> <Cxx> [<Cxx>...]  -- applies seeded/<name>/patch.diff to /repo, runs the checks, reverts.
name=$1; shift
cd /verif
git -C /repo diff --quiet || { echo "/repo has uncommitted changes"; exit 2; }
git -C /repo apply /verif/seeded/$name/patch.diff || exit 2
for c in "$@"; do ./check $c; echo "rc=$? ($c on seed $name)"; done
git -C /repo checkout -- .
