#!/bin/sh
# runs every registered check (quick tier by default) on the current tree; prints one line per property
cd "$(dirname "$0")/.."
tier=${1:-quick}
for id in $(python3 -c "
import sys; sys.path.insert(0,'lib')
from registry import PROPS; print(' '.join(sorted(PROPS)))"); do ./check $id --tier $tier 2>&1 | grep -v "^LowMarkBuf" | tail -3; done
