#!/usr/bin/env python3
import json, jsonschema, glob, sys
m=json.load(open('/verif/MANIFEST.json')); s=json.load(open('/root/.vp/MANIFEST.schema.json')); jsonschema.validate(m,s); print('manifest valid,', len(m['checks']), 'checks')
s=json.load(open('/root/.vp/EVIDENCE.schema.json'))
for f in sorted(glob.glob('/verif/evidence/*.json')):
    e=json.load(open(f)); jsonschema.validate(e,s); print(f, 'valid', e['coverage'].get('obligations'), e['coverage'].get('discharged'), e['violations'])
