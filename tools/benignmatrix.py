#!/usr/bin/env python3
"""Development aid: applies each behaviour-preserving rewrite under benign/<Cxx>/p*.diff to /repo, runs the check of its
property plus the checks given with --also (quick tier, evidence to a scratch dir), reverts, and records the outcome in
benign/<Cxx>/result.json. Every non-zero exit is a false alarm of the machinery (or a patch that is not benign: look).
usage: tools/benignmatrix.py [--also C03,C05] [Cxx ...]"""
import json, os, subprocess, sys, time, glob
ROOT = os.path.dirname(os.path.dirname(os.path.abspath(__file__)))
args = sys.argv[1:]
also = []
if args and args[0] == '--also':
    also = args[1].split(','); args = args[2:]
names = args or sorted(os.listdir(os.path.join(ROOT, 'benign')))
if subprocess.run(['git', '-C', '/repo', 'diff', '--quiet']).returncode != 0:
    sys.exit('/repo has uncommitted changes')
for n in names:
    d = os.path.join(ROOT, 'benign', n)
    out = {}
    for patch in sorted(glob.glob(os.path.join(d, 'p*.diff'))):
        r = subprocess.run(['git', '-C', '/repo', 'apply', patch], capture_output=True, text=True)
        key = os.path.basename(patch)
        if r.returncode != 0:
            out[key] = {'applies': False, 'error': r.stderr.strip()[:200]}
            print(n, key, 'does not apply', flush=True)
            continue
        res = {'applies': True, 'checks': {}}
        try:
            for pid in [n[:3]] + [a for a in also if a != n[:3]]:
                t0 = time.time()
                env = dict(os.environ, VERIF_EVIDENCE_DIR=os.path.join(ROOT, 'build', 'ev_seed'))
                c = subprocess.run([os.path.join(ROOT, 'check'), pid], capture_output=True, text=True, env=env, timeout=3000)
                lines = [l[:300] for l in c.stdout.splitlines() if l.startswith(('VIOLATION', 'OK '))]
                res['checks'][pid] = {'rc': c.returncode, 'lines': lines, 'wall_s': round(time.time() - t0, 1)}
                print(n, key, pid, 'rc=%d' % c.returncode, lines[-1][:160] if lines else '', flush=True)
        finally:
            subprocess.run(['git', '-C', '/repo', 'checkout', '--', '.'])
        out[key] = res
    json.dump(out, open(os.path.join(d, 'result.json'), 'w'), indent=1)
