#!/usr/bin/env python3
"""Regenerates the `checks`, `engines.serves_properties` and `not_applicable` parts of MANIFEST.json from lib/registry.py + lib/levels.py."""
import json, os, sys
ROOT = os.path.join(os.path.dirname(os.path.abspath(__file__)), '..')
sys.path.insert(0, os.path.join(ROOT, 'lib'))
from registry import PROPS
from levels import LEVELS, NOT_APPLICABLE
m = json.load(open(os.path.join(ROOT, 'MANIFEST.json')))
checks = []
for pid in sorted(PROPS):
    L = LEVELS[pid]
    checks.append({
        'property_id': pid,
        'quick_cmd': './check %s --tier quick' % pid,
        'thorough_cmd': './check %s --tier thorough' % pid,
        'evidence_file': '/verif/evidence/%s.json' % pid,
        'replay_cmd_template': './check %s --replay {path}' % pid,
        'engine': 'lean-model',
        'level_claimed': {'category': 'proof', 'text': L['text'], 'design_ref': L.get('design_ref', 'DESIGN.md section 4, ' + pid)},
        'level_note': L['note'],
        'technique': L.get('technique', 'Lean 4 theorem about an executable model + differential correspondence check of model vs implementation'),
    })
m['checks'] = checks
for e in m['engines']:
    e['serves_properties'] = sorted(PROPS)
all_ids = [json.loads(l)['id'] for l in open(os.path.join(ROOT, 'properties.jsonl'))]
m['not_applicable'] = [{'property_id': i, 'reason': NOT_APPLICABLE.get(i, 'check not built yet in this revision (work in progress; see DESIGN.md section 7)')} for i in all_ids if i not in PROPS]
json.dump(m, open(os.path.join(ROOT, 'MANIFEST.json'), 'w'), indent=1)
print('checks:', len(checks), 'not_applicable:', len(m['not_applicable']))
