#!/usr/bin/env python3
"""Translator 2 (C03): inventory of the explicit panic sites in the non-test code of the files C03 is anchored in.

    panic_sites.py --list            print the inventory (one site per line)
    panic_sites.py --write-ledger    (development) write /verif/c03_ledger.json from the current tree
    panic_sites.py --check           compare the current tree with the ledger; exit 1 and list the sites that are
                                     not in the ledger (= obligations nobody has looked at)

A site is keyed by (file, enclosing fn, normalised source line, occurrence number of that line inside the fn), so moving
code around or editing other lines does not change keys; in the normalised line every plain identifier (local, parameter,
constant: not a method / macro / path segment / field) is replaced by `_`, so renaming does not change keys either.
Classes in the ledger:
    P:<theorem>  inside a function whose checked Lean model is proved panic-free (Props.C03_*): the theorem speaks about
                 the sites of the ledger, so a site that is not in the ledger is an open proof obligation (exit 1)
    S            not modelled: reached (or not) only by the worker search of the c03 area. No theorem speaks about these,
                 so a new one breaks nothing that was shown; it is reported (`new_unmodelled`) and the check widens the search
A site that vanished is reported as information only (fewer panic sites cannot break the property).
"""
import json, os, re, sys

REPO = os.environ.get('ADLT_REPO', '/repo')
ROOT = os.path.dirname(os.path.dirname(os.path.abspath(__file__)))
LEDGER = os.path.join(ROOT, 'c03_ledger.json')
FILES = [
    'src/dlt/mod.rs', 'src/dlt/control_msgs.rs', 'src/utils/dltmessageiterator.rs', 'src/lifecycle/mod.rs', 'src/utils/mod.rs',
    'src/utils/eac_stats.rs', 'src/filter/filter_impl.rs', 'src/plugins/file_transfer.rs', 'src/plugins/anonymize.rs',
    'src/plugins/non_verbose.rs', 'src/plugins/someip.rs', 'src/plugins/can.rs', 'src/utils/asc2dltmsgiterator.rs',
    'src/utils/logcat2dltmsgiterator.rs', 'src/utils/genlog2dltmsgiterator.rs',
]
SITE = re.compile(
    r'\.unwrap\(\)|\.expect\(|\bpanic!\s*\(|\bunreachable!\s*\(|\bunimplemented!\s*\(|\btodo!\s*\(|\bassert(_eq|_ne)?!\s*\(|'
    r'[A-Za-z0-9_\)\]]\[[^\[\]]*\]')       # index / range expression
FN = re.compile(r'\bfn\s+([A-Za-z0-9_]+)')
IMPL = re.compile(r'^\s*impl\b[^{]*?\bfor\s+([A-Za-z0-9_]+)|^\s*impl(?:<[^>]*>)?\s+([A-Za-z0-9_]+)')


def strip(line):
    # drop line comments and string literals (roughly), keep code
    line = re.sub(r'"(\\.|[^"\\])*"', '""', line)
    line = re.sub(r"//.*", '', line)
    return line


KEYWORDS = set('as break const continue crate else enum extern false fn for if impl in let loop match mod move mut pub ref return self Self static struct super trait true type unsafe use where while async await dyn'.split())
IDENT = re.compile(r'(?<![A-Za-z0-9_])([A-Za-z_][A-Za-z0-9_]*)(?!\s*(\(|!|::)|[A-Za-z0-9_])')


def alpha(code):
    """plain identifiers -> `_` (not keywords, not preceded by `.`, not followed by `(`, `!` or `::`)"""
    def rep(m):
        w = m.group(1)
        if w in KEYWORDS or w[0].isdigit():
            return w
        b = code[:m.start()]
        if b.endswith('.') and not b.endswith('..'):
            return w        # a field
        if m.start() >= 2 and code[m.start() - 2:m.start()] == '::':
            return w        # last segment of a path: a type / associated item
        return '_'
    return IDENT.sub(rep, code)


def inventory():
    sites = []
    for f in FILES:
        p = os.path.join(REPO, f)
        try:
            src = open(p, encoding='utf-8', errors='replace').read()
        except OSError:
            continue
        src = src.replace('\r\n', '\n')
        m = re.search(r'#\[cfg\(test\)\]\s*(pub\s+)?mod\s+\w+\s*\{', src)
        if m:
            src = src[:m.start()]
        fn = '-'
        impl = ''
        seen = {}
        in_block_comment = False
        for line in src.split('\n'):
            if in_block_comment:
                if '*/' in line:
                    in_block_comment = False
                    line = line.split('*/', 1)[1]
                else:
                    continue
            if '/*' in line and '*/' not in line:
                in_block_comment = True
                line = line.split('/*', 1)[0]
            code = strip(line)
            m = IMPL.match(code)
            if m:
                impl = m.group(1) or m.group(2) or ''
            m = FN.search(code)
            if m:
                fn = (impl + '::' if impl and code.startswith((' ', '\t')) else '') + m.group(1)
            if code.lstrip().startswith('#['):
                continue
            hits = [h.group(0) for h in SITE.finditer(code)]
            # not an index: attribute-like / type / macro brackets
            hits = [h for h in hits if not re.match(r'.\[\s*\]$', h) and not re.match(r'.\[[^\]]*;[^\]]*\]$', h)]
            if not hits:
                continue
            norm = alpha(re.sub(r'\s+', ' ', code.strip()))
            k = (f, fn, norm)
            seen[k] = seen.get(k, 0) + 1
            sites.append({'file': f, 'fn': fn, 'line': norm, 'occ': seen[k], 'what': sorted(set(re.sub(r'[A-Za-z0-9_\)\]]\[.*', 'index', h).strip('.( ') for h in hits))})
    return sites


def key(s):
    return '%s | %s | %s | #%d' % (s['file'], s['fn'], s['line'], s['occ'])


def classify(s):
    if s['file'] == 'src/dlt/control_msgs.rs':
        return 'P:Props.C03_ctrl_parsers_never_panic'
    if s['file'] == 'src/dlt/mod.rs' and s['fn'] == 'DltMessageArgIterator::next':
        return 'P:Props.C03_arg_iteration_never_panics'
    return 'S'


def main():
    inv = inventory()
    if '--list' in sys.argv:
        for s in inv:
            print(key(s), classify(s), ','.join(s['what']))
        print(len(inv), 'sites', file=sys.stderr)
        return 0
    if '--write-ledger' in sys.argv:
        led = {key(s): classify(s) for s in inv}
        json.dump({'_comment': 'C03 panic-site ledger: every explicit panic site of the anchored files at the time of writing, with its class (see tools/panic_sites.py)',
                   'sites': led}, open(LEDGER, 'w'), indent=0, sort_keys=True)
        print('ledger written:', len(led), 'sites')
        return 0
    led = json.load(open(LEDGER))['sites']
    cur = {key(s): s for s in inv}
    new_all = [k for k in cur if k not in led]
    new = [k for k in new_all if classify(cur[k]) != 'S']          # inside a function with a proved model
    new_s = [k for k in new_all if classify(cur[k]) == 'S']
    gone = [k for k in led if k not in cur]
    by_class = {}
    for k in cur:
        c = led.get(k, 'NEW').split(':')[0]
        by_class[c] = by_class.get(c, 0) + 1
    print(json.dumps({'sites': len(cur), 'by_class': by_class, 'new': new[:40], 'n_new': len(new), 'new_unmodelled': new_s[:40], 'n_new_unmodelled': len(new_s), 'n_vanished': len(gone), 'vanished': gone[:10]}))
    return 1 if new else 0


if __name__ == '__main__':
    sys.exit(main())
