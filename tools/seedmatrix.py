#!/usr/bin/env python3
"""Development aid: applies each seeded change to /repo, runs the check of its property (quick tier, evidence to a scratch dir),
reverts, and records the outcome in seeded/<name>/detect.json.   usage: tools/seedmatrix.py [name ...]"""
import json, os, subprocess, sys, time
ROOT = os.path.dirname(os.path.dirname(os.path.abspath(__file__)))
names = sys.argv[1:] or sorted(os.listdir(os.path.join(ROOT, 'seeded')))
if subprocess.run(['git', '-C', '/repo', 'diff', '--quiet']).returncode != 0:
    sys.exit('/repo has uncommitted changes')
for n in names:
    d = os.path.join(ROOT, 'seeded', n)
    patch = os.path.join(d, 'patch.diff')
    if not os.path.exists(patch):
        continue
    pid = n[:3]
    r = subprocess.run(['git', '-C', '/repo', 'apply', patch], capture_output=True, text=True)
    if r.returncode != 0:
        res = {'check': pid, 'applies': False, 'error': r.stderr.strip()[:300]}
    else:
        t0 = time.time()
        env = dict(os.environ, VERIF_EVIDENCE_DIR=os.path.join(ROOT, 'build', 'ev_seed'))
        try:
            c = subprocess.run([os.path.join(ROOT, 'check'), pid], capture_output=True, text=True, env=env, timeout=3000)
            lines = [l for l in c.stdout.splitlines() if l.startswith(('VIOLATION', 'KNOWN-FINDING', 'OK '))]
            builds = not any('harness-build' in l for l in lines)   # a seed that no longer compiles is not a seed
            res = {'check': pid, 'applies': True, 'compiles': builds, 'rc': c.returncode, 'caught': builds and c.returncode == 1 and any(l.startswith('VIOLATION') for l in lines),
                   'lines': [l[:300] for l in lines], 'wall_s': round(time.time() - t0, 1), 'repo_head': subprocess.run(['git', '-C', '/repo', 'rev-parse', '--short', 'HEAD'], capture_output=True, text=True).stdout.strip()}
        finally:
            subprocess.run(['git', '-C', '/repo', 'checkout', '--', '.'])
    json.dump(res, open(os.path.join(d, 'detect.json'), 'w'), indent=1)
    print(n, json.dumps({k: res[k] for k in res if k in ('applies', 'compiles', 'rc', 'caught', 'error', 'wall_s')}), flush=True)
