#!/bin/sh
# Build everything once, offline, from files on disk: Lean models/theorems/driver and the Rust harness.
set -e
cd "$(dirname "$0")"
export CARGO_NET_OFFLINE=true
python3 tools/gen_consts.py
(cd lean && lake build)
mkdir -p build
cp /repo/Cargo.lock harness/Cargo.lock
(cd harness && CARGO_TARGET_DIR=../build/harness RUSTFLAGS="--cfg adlt_verif" cargo build --offline)
echo setup done
