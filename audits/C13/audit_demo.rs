//! audit C13: bounded channels / slow consumers / consumer disappears
//!
//! Finding 1: parse_lifecycles_buffered_from_stream swallows the "receiver has gone" error of the
//! outflow whenever the send happens in one of the inner `while` loops (the `break` there leaves only the
//! inner loop). The stage notices a vanished consumer only on the direct path (no buffered lifecycle).
//! With a stream that always has a lifecycle under observation (e.g. an ECU that restarts every 30s)
//! the direct path is never taken: the stage never terminates on its own but keeps consuming (and buffering)
//! the whole input, the producer is never told.
use adlt::{
    dlt::{DltChar4, DltMessage, DltStandardHeader},
    lifecycle::{parse_lifecycles_buffered_from_stream, LifecycleId, LifecycleItem},
    utils::sync_sender_send_delay_if_full,
};
use std::sync::{
    atomic::{AtomicBool, AtomicUsize, Ordering},
    mpsc::sync_channel,
    Arc,
};
use std::time::{Duration, Instant};

const DLT_STD_HDR_HAS_TIMESTAMP: u8 = 1 << 4;
const T0_US: u64 = 1_640_995_200_000_000; // 1.1.22

fn msg(index: u32, ecu: &[u8; 4], reception_time_us: u64, timestamp_dms: u32) -> DltMessage {
    DltMessage {
        index,
        reception_time_us,
        ecu: DltChar4::from_buf(ecu),
        timestamp_dms,
        standard_header: DltStandardHeader {
            htyp: DLT_STD_HDR_HAS_TIMESTAMP,
            len: 0,
            mcnt: (index & 0xff) as u8,
        },
        extended_header: None,
        payload: vec![],
        payload_text: None,
        lifecycle: 0,
    }
}

/// endless stream generator. `restart_every_30s`: the ecu restarts every 30s (25s uptime, 5s off)
/// otherwise it is one endless lifecycle. One msg every 100ms.
fn nth_msg(i: u32, restart_every_30s: bool) -> DltMessage {
    if restart_every_30s {
        let lc = (i / 250) as u64;
        let j = (i % 250) as u64 + 1; // 1..=250
        msg(
            i,
            b"E001",
            T0_US + lc * 30_000_000 + j * 100_000,
            (j * 1_000) as u32, // 0.1s*j in dms
        )
    } else {
        let j = i as u64 + 1;
        msg(i, b"E001", T0_US + j * 100_000, (j * 1_000) as u32)
    }
}

struct Outcome {
    produced: usize,
    producer_saw_error: bool,
    lc_stage_done_before_producer_gave_up: bool,
}

/// producer -(cap)-> lifecycle stage -(cap)-> consumer. The consumer takes `consume` msgs and disappears.
/// The producer is "endless": it ends only once its send fails (i.e. the stage in front of it has terminated)
/// or, as a safety net for this test, after `max_msgs`.
fn run(cap: usize, consume: usize, max_msgs: usize, restart_every_30s: bool) -> Outcome {
    let (tx_in, rx_in) = sync_channel::<DltMessage>(cap);
    let (tx_out, rx_out) = sync_channel::<DltMessage>(cap);
    let (_lcs_r, lcs_w) = evmap::Options::default()
        .with_hasher(nohash_hasher::BuildNoHashHasher::<LifecycleId>::default())
        .construct::<LifecycleId, LifecycleItem>();

    let lc_done = Arc::new(AtomicBool::new(false));
    let lc_done2 = lc_done.clone();
    let lc_thread = std::thread::spawn(move || {
        let w = parse_lifecycles_buffered_from_stream(lcs_w, rx_in, &|m| {
            sync_sender_send_delay_if_full(m, &tx_out)
        });
        lc_done2.store(true, Ordering::SeqCst);
        w
    });

    let produced = Arc::new(AtomicUsize::new(0));
    let produced2 = produced.clone();
    let producer = std::thread::spawn(move || {
        let mut saw_error = false;
        for i in 0..max_msgs {
            if sync_sender_send_delay_if_full(nth_msg(i as u32, restart_every_30s), &tx_in).is_err()
            {
                saw_error = true;
                break;
            }
            produced2.fetch_add(1, Ordering::SeqCst);
        }
        saw_error
    });

    // consumer: take some msgs, then disappear
    let mut got = 0usize;
    let mut last_index = None;
    while got < consume {
        match rx_out.recv_timeout(Duration::from_secs(20)) {
            Ok(m) => {
                if let Some(li) = last_index {
                    assert!(m.index > li, "reordered");
                }
                last_index = Some(m.index);
                got += 1;
            }
            Err(_) => break,
        }
    }
    drop(rx_out);

    let producer_saw_error = producer.join().unwrap();
    let lc_stage_done_before_producer_gave_up = lc_done.load(Ordering::SeqCst);
    let start = Instant::now();
    let _w = lc_thread.join().unwrap();
    println!(
        "cap={} restart={} consumed={} produced={} producer_saw_error={} lc_done_before={} (join took {:?})",
        cap,
        restart_every_30s,
        got,
        produced.load(Ordering::SeqCst),
        producer_saw_error,
        lc_stage_done_before_producer_gave_up,
        start.elapsed()
    );
    Outcome {
        produced: produced.load(Ordering::SeqCst),
        producer_saw_error,
        lc_stage_done_before_producer_gave_up,
    }
}

#[test]
fn c13_lc_stage_does_not_terminate_when_consumer_disappears() {
    // safety net only. (4k msgs = 8min of trace, the consumer disappears within the first 2 minutes)
    // for the rendezvous channel less as sync_sender_send_delay_if_full sleeps 10ms for nearly every msg there
    const MAX_MSGS: usize = 4_000;
    const MAX_MSGS_CAP0: usize = 2_000;
    let mut failures = vec![];

    for cap in [0usize, 1, 2, 16, 256] {
        // control: one long lifecycle. The lifecycle is confirmed after 60s (600 msgs), the consumer takes 10 msgs and goes away.
        // The stage terminates at once and the producer is told:
        let o = run(cap, 10, MAX_MSGS, false);
        assert!(
            o.producer_saw_error && o.produced < 1_000 + 3 * cap,
            "control failed: cap={} produced={}",
            cap,
            o.produced
        );

        // ecu restarts every 30s: there is always a lifecycle not yet confirmed
        let o = run(
            cap,
            10,
            if cap == 0 { MAX_MSGS_CAP0 } else { MAX_MSGS },
            true,
        );
        // expected: the stage ends with the next send (at the latest 30s = 250 msgs later), the producer gets a send error
        let _ = o.lc_stage_done_before_producer_gave_up;
        if !o.producer_saw_error {
            failures.push(format!(
                "cap={}: consumer disappeared after 10 msgs but the lifecycle stage kept running: it consumed all {} msgs of the (endless) producer, producer_saw_error={}",
                cap, o.produced, o.producer_saw_error
            ));
        }
    }
    assert!(failures.is_empty(), "{:#?}", failures);
}

// ---------------------------------------------------------------------------------------------
// Finding 2: the plugin stage is not schedule independent: the ExportPlugin decides once, on the first
// msg of a lifecycle, whether the lifecycle is one of `lifecyclesToKeep` by looking at the shared lifecycle
// table (evmap) which the lifecycle stage keeps changing. What the plugin sees there depends on how far the
// lifecycle stage is ahead, i.e. on channel capacities and on the pacing of the threads.
// Here: a lifecycle that is first published as "resume" lifecycle and later turns into a regular one.

fn export_stream() -> Vec<DltMessage> {
    let s = 1_000_000u64;
    let mut v = vec![];
    // lifecycle A: 8s
    for j in 1..=8u64 {
        v.push((T0_US + j * s, j * s));
    }
    // lifecycle B: starts at T0+40s. first msg looks like a resume of A (gap, timestamp >= max timestamp of A)
    for j in 0..=70u64 {
        v.push((T0_US + (49 + j) * s, (9 + j) * s));
    }
    // a late msg of B with a timestamp smaller than 7/8 of the last timestamp of A: B is no resume of A but a new lifecycle
    v.push((T0_US + 120 * s, 5 * s));
    for j in 72..=80u64 {
        v.push((T0_US + (49 + j) * s, (9 + j) * s));
    }
    v.into_iter()
        .enumerate()
        .map(|(i, (r, t))| msg(i as u32, b"E001", r, (t / 100) as u32))
        .collect()
}

type LcTable = Vec<(u64, u64, u32, bool)>; // start, end, nr_msgs, is_resume

/// producer -> lifecycle stage -> plugin stage (ExportPlugin) -> consumer
/// cap: None = unbounded channels (std::sync::mpsc::channel)
/// plugin_stage_late: the plugin stage thread gets scheduled only after the lifecycle stage has finished
/// (a schedule that unbounded channels / channels with a large capacity allow)
/// returns: (nr msgs exported by the plugin, delivered msg sequence, final lifecycle table)
fn run_export(
    stream: &[DltMessage],
    cap: Option<usize>,
    plugin_stage_late: bool,
    lifecycles_to_keep: serde_json::Value,
) -> (u64, Vec<u32>, LcTable) {
    use adlt::plugins::{export::ExportPlugin, plugin::Plugin, plugins_process_msgs};
    use std::sync::mpsc::channel;

    let export_file = tempfile::NamedTempFile::new().unwrap();
    let export_path = export_file.path().to_string_lossy().to_string();
    drop(export_file);
    let cfg = serde_json::json!({"name":"Export","exportFileName":export_path,"filters":[],"lifecyclesToKeep":lifecycles_to_keep});
    let mut plugin = ExportPlugin::from_json(cfg.as_object().unwrap()).unwrap();
    let plugin_state = plugin.state();

    let (lcs_r, lcs_w) = evmap::Options::default()
        .with_hasher(nohash_hasher::BuildNoHashHasher::<LifecycleId>::default())
        .construct::<LifecycleId, LifecycleItem>();
    plugin.set_lifecycle_read_handle(&lcs_r);
    let plugins: Vec<Box<dyn Plugin + Send>> = vec![Box::new(plugin)];
    let stream = stream.to_vec();

    macro_rules! pipeline {
        ($mk:expr, $send:expr) => {{
            let (tx0, rx0) = $mk;
            let (tx1, rx1) = $mk;
            let (tx2, rx2) = $mk;
            let t_prod = std::thread::spawn(move || {
                for m in stream {
                    $send(m, &tx0).unwrap();
                }
            });
            let t_lc = std::thread::spawn(move || {
                parse_lifecycles_buffered_from_stream(lcs_w, rx0, &|m| $send(m, &tx1))
            });
            let mut t_lc = Some(t_lc);
            let lcs_w = if plugin_stage_late {
                Some(t_lc.take().unwrap().join().unwrap())
            } else {
                None
            };
            let t_pl = std::thread::spawn(move || {
                let mut plugins = plugins_process_msgs(rx1, &|m| $send(m, &tx2), plugins).unwrap();
                plugins.iter_mut().for_each(|p| p.sync_all());
            });
            let out: Vec<u32> = rx2.iter().map(|m| m.index).collect();
            t_prod.join().unwrap();
            let lcs_w = match lcs_w {
                Some(w) => w,
                None => t_lc.take().unwrap().join().unwrap(),
            };
            t_pl.join().unwrap();
            (out, lcs_w)
        }};
    }
    let (out, _lcs_w) = if let Some(cap) = cap {
        pipeline!(sync_channel::<DltMessage>(cap), |m, tx: &std::sync::mpsc::SyncSender<
            DltMessage,
        >| sync_sender_send_delay_if_full(
            m, tx
        ))
    } else {
        pipeline!(
            channel::<DltMessage>(),
            |m, tx: &std::sync::mpsc::Sender<DltMessage>| tx.send(m)
        )
    };
    let mut table: LcTable = vec![];
    if let Some(r) = lcs_r.read() {
        for (_id, b) in &r {
            let lc = b.get_one().unwrap();
            table.push((lc.start_time, lc.end_time(), lc.nr_msgs, lc.is_resume()));
        }
    }
    table.sort();
    let nr_exported = plugin_state.read().unwrap().value["infos"]["nrExportedMsgs"]
        .as_u64()
        .unwrap();
    let _ = std::fs::remove_file(&export_path);
    (nr_exported, out, table)
}

#[test]
fn c13_export_plugin_result_depends_on_schedule() {
    let stream = export_stream();

    // 1st pass (as the two pass export does it): determine the lifecycles (nothing kept)
    let (n, ref_out, ref_table) = run_export(
        &stream,
        None,
        true,
        serde_json::json!([{"ecu":"NONE","startTime":0,"endTime":0}]),
    );
    assert_eq!(n, 0);
    println!("final lifecycle table: {:?}", ref_table);
    assert_eq!(ref_table.len(), 2);
    let lc_b = ref_table[1];
    assert_eq!(lc_b, (T0_US + 40_000_000, T0_US + 129_000_000, 81, false));
    assert_eq!(ref_out.len(), stream.len());

    // 2nd pass: export lifecycle B, described by its final ("matured") values:
    let keep = serde_json::json!([{"ecu":"E001","startTime":lc_b.0,"endTime":lc_b.1}]);

    // reference: unbounded channels, the plugin stage gets its cpu late:
    let (ref_exported, out, table) = run_export(&stream, None, true, keep.clone());
    println!("unbounded, plugin stage late: exported {} msgs", ref_exported);
    assert_eq!(out, ref_out);
    assert_eq!(table, ref_table);
    assert_eq!(ref_exported, 81, "all msgs of lifecycle B are exported");

    let mut failures = vec![];
    for (cap, late) in [
        (Some(4096), true), // bounded but large, same schedule as the reference
        (None, false),      // unbounded, all stages running concurrently
        (Some(4096), false),
        (Some(16), false),
        (Some(2), false),
        (Some(1), false),
        (Some(0), false),
    ] {
        let (exported, out, table) = run_export(&stream, cap, late, keep.clone());
        println!(
            "cap={:?} plugin stage late={}: exported {} msgs",
            cap, late, exported
        );
        // msg sequence and final lifecycle table are the same:
        assert_eq!(out, ref_out);
        assert_eq!(table, ref_table);
        // but the outcome of the plugin stage is not:
        if exported != ref_exported {
            failures.push(format!(
                "cap={:?} plugin_stage_late={}: ExportPlugin exported {} msgs, with unbounded channels {} msgs",
                cap, late, exported, ref_exported
            ));
        }
    }
    assert!(failures.is_empty(), "{:#?}", failures);
}
