// differential probe: bounded pipeline with pacing vs unbounded reference
use adlt::{
    dlt::{DltChar4, DltMessage, DltStandardHeader},
    filter::Filter,
    lifecycle::{parse_lifecycles_buffered_from_stream, LifecycleId, LifecycleItem},
    plugins::plugin::{Plugin, PluginState},
    utils::sync_sender_send_delay_if_full,
};
use std::collections::HashMap;
use std::sync::{
    mpsc::{channel, sync_channel},
    Arc, RwLock,
};
use std::time::Duration;

const DLT_STD_HDR_HAS_TIMESTAMP: u8 = 1 << 4;
const T0_US: u64 = 1_640_995_200_000_000;

struct Rng(u64);
impl Rng {
    fn next(&mut self) -> u64 {
        self.0 = self
            .0
            .wrapping_mul(6364136223846793005)
            .wrapping_add(1442695040888963407);
        self.0 >> 33
    }
    fn range(&mut self, lo: u64, hi: u64) -> u64 {
        lo + self.next() % (hi - lo + 1)
    }
}

fn msg(ecu: &[u8; 4], reception_time_us: u64, timestamp_dms: u32) -> DltMessage {
    DltMessage {
        index: 0,
        reception_time_us,
        ecu: DltChar4::from_buf(ecu),
        timestamp_dms,
        standard_header: DltStandardHeader {
            htyp: DLT_STD_HDR_HAS_TIMESTAMP,
            len: 0,
            mcnt: 0,
        },
        extended_header: None,
        payload: vec![],
        payload_text: None,
        lifecycle: 0,
    }
}

fn gen_stream(seed: u64, n: usize) -> Vec<DltMessage> {
    let mut r = Rng(seed);
    let ecus: [&[u8; 4]; 3] = [b"ECU1", b"ECU2", b"ECU3"];
    let mut all = vec![];
    for ecu in ecus {
        let mut t = T0_US + r.range(0, 20_000_000); // abs time of lc start
        let mut cnt = 0;
        while cnt < n / 3 {
            // one lifecycle
            let dur = r.range(2_000_000, 150_000_000);
            let mut ts = r.range(0, 3_000_000);
            let max_delay = r.range(0, 5_000_000);
            while ts < dur && cnt < n / 3 {
                let delay = if r.range(0, 9) == 0 {
                    r.range(0, max_delay)
                } else {
                    r.range(0, max_delay / 10 + 1)
                };
                all.push(msg(ecu, t + ts + delay, (ts / 100) as u32));
                cnt += 1;
                ts += r.range(1_000, 3_000_000);
            }
            // gap (might be short -> merges/overlaps)
            t += ts + r.range(0, 30_000_000);
        }
    }
    all.sort_by_key(|m| m.reception_time_us);
    for (i, m) in all.iter_mut().enumerate() {
        m.index = i as u32;
    }
    all
}

struct DropPlugin {
    state: Arc<RwLock<PluginState>>,
    seen: u32,
}
impl Plugin for DropPlugin {
    fn name(&self) -> &str {
        "drop"
    }
    fn enabled(&self) -> bool {
        true
    }
    fn state(&self) -> Arc<RwLock<PluginState>> {
        self.state.clone()
    }
    fn set_lifecycle_read_handle(&mut self, _lcs_r: &adlt::lifecycle::LcsRType) {}
    fn sync_all(&mut self) {}
    fn process_msg(&mut self, msg: &mut DltMessage) -> bool {
        self.seen += 1;
        msg.payload_text = Some(format!("#{}", self.seen));
        self.seen % 7 != 3
    }
}

type Table = Vec<(u32, u64, u64, u32)>; // ecu, start, end, nr_msgs (sorted)

/// caps: None = unbounded
fn run(
    stream: &[DltMessage],
    cap: Option<usize>,
    sort: bool,
    pace_seed: u64,
    drop_after: Option<usize>,
) -> (Vec<(u32, u32, Option<String>)>, Table, bool) {
    let (lcs_r, lcs_w) = evmap::Options::default()
        .with_hasher(nohash_hasher::BuildNoHashHasher::<LifecycleId>::default())
        .construct::<LifecycleId, LifecycleItem>();
    let filters = vec![
        Filter::from_json(r#"{"type":1,"ecu":"ECU3"}"#).unwrap(), // neg filter
    ];
    let plugins: Vec<Box<dyn Plugin + Send>> = vec![Box::new(DropPlugin {
        state: Arc::new(RwLock::new(PluginState::default())),
        seen: 0,
    })];
    let stream: Vec<DltMessage> = stream.to_vec();
    let sort_lcs_r = lcs_r.clone();

    macro_rules! pipeline {
        ($mk:expr, $send:expr) => {{
            let (tx0, rx0) = $mk;
            let (tx1, rx1) = $mk;
            let (tx2, rx2) = $mk;
            let (tx3, rx3) = $mk;
            let (tx4, rx4) = $mk;
            let t_lc = std::thread::spawn(move || {
                parse_lifecycles_buffered_from_stream(lcs_w, rx0, &|m| $send(m, &tx1))
            });
            let t_pl = std::thread::spawn(move || {
                adlt::plugins::plugins_process_msgs(rx1, &|m| $send(m, &tx2), plugins).is_ok()
            });
            let t_so = std::thread::spawn(move || {
                if sort {
                    adlt::utils::buffer_sort_messages(
                        rx2,
                        &|m| $send(m, &tx3),
                        &sort_lcs_r,
                        3,
                        2_000_000,
                    )
                    .is_ok()
                } else {
                    for m in rx2 {
                        if $send(m, &tx3).is_err() {
                            return false;
                        }
                    }
                    true
                }
            });
            let t_fi = std::thread::spawn(move || {
                adlt::filter::functions::filter_as_streams(&filters, &rx3, &|m| $send(m, &tx4))
                    .is_ok()
            });
            let t_pr = std::thread::spawn(move || {
                let mut r = Rng(pace_seed);
                for m in stream {
                    if pace_seed != 0 && r.range(0, 200) == 0 {
                        std::thread::sleep(Duration::from_millis(r.range(1, 25)));
                    }
                    if $send(m, &tx0).is_err() {
                        return false;
                    }
                }
                true
            });
            // consumer
            let mut r = Rng(pace_seed ^ 0x5555);
            let mut out = vec![];
            let mut dropped = false;
            loop {
                if pace_seed != 0 && r.range(0, 150) == 0 {
                    std::thread::sleep(Duration::from_millis(r.range(1, 30)));
                }
                if let Some(d) = drop_after {
                    if out.len() >= d {
                        dropped = true;
                        break;
                    }
                }
                match rx4.recv() {
                    Ok(m) => out.push((m.index, m.lifecycle, m.payload_text.clone())),
                    Err(_) => break,
                }
            }
            drop(rx4);
            let all_ended = {
                let a = t_pr.join().unwrap();
                let lcs_w = t_lc.join().unwrap();
                let b = t_pl.join().unwrap();
                let c = t_so.join().unwrap();
                let d = t_fi.join().unwrap();
                let _ = (a, b, c, d, dropped);
                // table
                let mut table: Table = vec![];
                if let Some(r) = lcs_r.read() {
                    for (_id, b) in &r {
                        let lc = b.get_one().unwrap();
                        table.push((lc.ecu.as_u32le(), lc.start_time, lc.end_time(), lc.nr_msgs));
                    }
                }
                table.sort();
                drop(lcs_w);
                (table, true)
            };
            (out, all_ended.0, all_ended.1)
        }};
    }

    if let Some(cap) = cap {
        pipeline!(sync_channel::<DltMessage>(cap), |m, tx: &std::sync::mpsc::SyncSender<
            DltMessage,
        >| sync_sender_send_delay_if_full(
            m, tx
        ))
    } else {
        pipeline!(
            channel::<DltMessage>(),
            |m, tx: &std::sync::mpsc::Sender<DltMessage>| tx.send(m)
        )
    }
}

fn normalize(out: &[(u32, u32, Option<String>)]) -> Vec<(u32, u32, Option<String>)> {
    // rename lifecycle ids by order of first appearance sorted by msg index
    let mut v = out.to_vec();
    let mut by_idx = v.clone();
    by_idx.sort();
    let mut map = HashMap::new();
    for (_, lc, _) in &by_idx {
        let n = map.len() as u32 + 1;
        map.entry(*lc).or_insert(n);
    }
    for e in v.iter_mut() {
        e.1 = map[&e.1];
    }
    v
}

#[test]
fn probe_differential() {
    for seed in 1..=6u64 {
        let stream = gen_stream(seed * 7919, 900);
        for sort in [false, true] {
            let (ref_out, ref_table, _) = run(&stream, None, sort, 0, None);
            let ref_n = normalize(&ref_out);
            println!(
                "seed {} sort {} ref: {} msgs out, {} lcs",
                seed,
                sort,
                ref_out.len(),
                ref_table.len()
            );
            for cap in [0usize, 1, 2, 7, 100_000] {
                let pace = seed * 31 + cap as u64 + 1;
                let (out, table, _) = run(&stream, Some(cap), sort, pace, None);
                let n = normalize(&out);
                assert_eq!(table, ref_table, "table differs seed {} cap {} sort {}", seed, cap, sort);
                if sort {
                    let mut a = n.clone();
                    a.sort();
                    let mut b = ref_n.clone();
                    b.sort();
                    // payload_text numbering comes from before the sort so is part of the identity
                    assert_eq!(a, b, "not a permutation seed {} cap {}", seed, cap);
                } else {
                    assert_eq!(n, ref_n, "sequence differs seed {} cap {}", seed, cap);
                }
                // early consumer drop: all threads have to end (join inside run), prefix property
                let d = (seed as usize * 37) % (ref_out.len().max(1));
                let (out_d, _t, _) = run(&stream, Some(cap), sort, pace, Some(d));
                let nd = out_d.len();
                assert_eq!(nd, d.min(ref_out.len()));
                if !sort {
                    assert_eq!(
                        out_d.iter().map(|e| e.0).collect::<Vec<_>>(),
                        ref_out[..nd].iter().map(|e| e.0).collect::<Vec<_>>()
                    );
                }
            }
        }
    }
}
