// audit C14: convert selects exactly what its options say, and writes what it selected
use std::io::Write;
use std::process::Command;

#[derive(Clone, Debug)]
struct M {
    secs: u32,
    micros: u32,
    ecu: &'static str,
    apid: &'static str,
    ctid: &'static str,
    tmsp_dms: u32,
    mcnt: u8,
    text: String,
}

fn c4(s: &str) -> [u8; 4] {
    let mut r = [0u8; 4];
    r[..s.len().min(4)].copy_from_slice(&s.as_bytes()[..s.len().min(4)]);
    r
}

fn raw(m: &M) -> Vec<u8> {
    let mut v = Vec::new();
    v.extend_from_slice(b"DLT\x01");
    v.extend_from_slice(&m.secs.to_le_bytes());
    v.extend_from_slice(&m.micros.to_le_bytes());
    v.extend_from_slice(&c4(m.ecu));
    let mut payload = Vec::new();
    payload.extend_from_slice(&0x0000_0200u32.to_le_bytes()); // STRG ascii
    payload.extend_from_slice(&((m.text.len() + 1) as u16).to_le_bytes());
    payload.extend_from_slice(m.text.as_bytes());
    payload.push(0);
    let len = (4 + 4 + 10 + payload.len()) as u16;
    v.push(0x31); // UEH | WTMS | vers 1
    v.push(m.mcnt);
    v.extend_from_slice(&len.to_be_bytes());
    v.extend_from_slice(&m.tmsp_dms.to_be_bytes());
    v.push(0x41); // verbose, log info
    v.push(1); // noar
    v.extend_from_slice(&c4(m.apid));
    v.extend_from_slice(&c4(m.ctid));
    v.extend_from_slice(&payload);
    v
}

fn write_file(dir: &std::path::Path, name: &str, msgs: &[M]) -> String {
    let p = dir.join(name);
    let mut f = std::fs::File::create(&p).unwrap();
    for m in msgs {
        f.write_all(&raw(m)).unwrap();
    }
    f.flush().unwrap();
    p.to_string_lossy().to_string()
}

const T0: u32 = 1_640_995_200; // 1.1.2022

/// run `adlt convert -a <args>` and return the output lines (one per emitted message)
fn run_convert(args: &[&str]) -> Vec<String> {
    let out = Command::new(env!("CARGO_BIN_EXE_adlt"))
        .arg("convert")
        .args(args)
        .output()
        .unwrap();
    assert!(out.status.success(), "adlt failed: {:?}", out);
    String::from_utf8_lossy(&out.stdout)
        .lines()
        .map(|l| l.to_string())
        .collect()
}

/// the payload texts (between the last '[' .. ']') of the lines. Each test msg has a unique text.
fn texts(lines: &[String]) -> Vec<String> {
    lines
        .iter()
        .map(|l| {
            let s = l.rfind('[').unwrap();
            l[s + 1..l.len() - 1].to_string()
        })
        .collect()
}

fn mk(i: u32, ecu: &'static str, apid: &'static str, ctid: &'static str) -> M {
    M {
        secs: T0 + i,
        micros: 0,
        ecu,
        apid,
        ctid,
        tmsp_dms: 10_000 + i * 10_000,
        mcnt: i as u8,
        text: format!("m{}", i),
    }
}

/// F1: dlt-convert filter file format: "----" is the wildcard for apid/ctid
#[test]
fn f1_convert_format_wildcard() {
    let dir = tempfile::tempdir().unwrap();
    let msgs = vec![
        mk(0, "ECU1", "APP1", "CTX1"),
        mk(1, "ECU1", "APP2", "CTX1"),
        mk(2, "ECU1", "APP1", "CTX2"),
        mk(3, "ECU1", "APP2", "CTX2"),
    ];
    let f = write_file(dir.path(), "a.dlt", &msgs);
    let ff = dir.path().join("filter.txt");
    std::fs::write(&ff, b"---- CTX1 ").unwrap();
    let lines = run_convert(&["-a", "-f", ff.to_str().unwrap(), &f]);
    assert_eq!(texts(&lines), vec!["m0", "m1"], "lines={:?}", lines);
}

/// F2: -f and --eac are both selections, a msg has to satisfy both
#[test]
fn f2_filter_file_and_eac() {
    let dir = tempfile::tempdir().unwrap();
    let msgs = vec![
        mk(0, "ECU1", "APP1", "CTX1"),
        mk(1, "ECU1", "APP2", "CTX1"),
        mk(2, "ECU1", "APP1", "CTX2"),
        mk(3, "ECU1", "APP2", "CTX2"),
    ];
    let f = write_file(dir.path(), "a.dlt", &msgs);
    let ff = dir.path().join("filter.txt");
    std::fs::write(&ff, b"APP1 CTX1 ").unwrap();
    let lines = run_convert(&["-a", "-f", ff.to_str().unwrap(), "--eac=::CTX2", &f]);
    // no msg is APP1/CTX1 and CTX2
    assert_eq!(texts(&lines), Vec::<String>::new(), "lines={:?}", lines);
}

/// F3: order of the file arguments must not matter (first msgs have distinct reception times)
#[test]
fn f3_file_order_with_later_ties() {
    let dir = tempfile::tempdir().unwrap();
    // 4 files from 4 different ecus. reception times (secs) of the msgs:
    let times: [(&'static str, &[u32]); 4] = [
        ("E0", &[1, 5, 6, 7]),
        ("E1", &[2, 5, 6]),
        ("E2", &[3, 5, 7]),
        ("E3", &[4, 6]),
    ];
    let mut files = vec![];
    for (ecu, ts) in times.iter() {
        let msgs: Vec<M> = ts
            .iter()
            .enumerate()
            .map(|(k, t)| M {
                secs: T0 + t,
                micros: 0,
                ecu,
                apid: "APP1",
                ctid: "CTX1",
                tmsp_dms: t * 10_000,
                mcnt: k as u8,
                text: format!("{}k{}", ecu, k),
            })
            .collect();
        files.push(write_file(dir.path(), &format!("{}.dlt", ecu), &msgs));
    }
    let order_a = [&files[0][..], &files[1], &files[2], &files[3]];
    let order_b = [&files[1][..], &files[2], &files[0], &files[3]];

    // the msg selected by an index window
    let mut args_a = vec!["-a", "-b4", "-e4"];
    args_a.extend_from_slice(&order_a);
    let mut args_b = vec!["-a", "-b4", "-e4"];
    args_b.extend_from_slice(&order_b);
    let sel_a = texts(&run_convert(&args_a));
    let sel_b = texts(&run_convert(&args_b));
    assert_eq!(sel_a, sel_b, "index window -b4 -e4 selects different msgs");
}

/// F4: the example for the dlt-convert filter format from the README.md
#[test]
fn f4_convert_format_readme_example() {
    let dir = tempfile::tempdir().unwrap();
    let msgs = vec![
        mk(0, "ECU1", "API1", "CTI1"),
        mk(1, "ECU1", "API2", "CTI2"),
        mk(2, "ECU1", "API3", "CTI3"),
    ];
    let f = write_file(dir.path(), "a.dlt", &msgs);
    let ff = dir.path().join("filter_file");
    // README.md: echo "API1 CTI1  API2 CTI2 " > filter_file
    std::fs::write(&ff, b"API1 CTI1  API2 CTI2 \n").unwrap();
    let lines = run_convert(&["-a", "-f", ff.to_str().unwrap(), &f]);
    assert_eq!(texts(&lines), vec!["m0", "m1"], "lines={:?}", lines);
}
