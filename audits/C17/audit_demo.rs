// audit C17: embedded file transfers are reassembled bit-exactly or not at all
//
// findings (each test fails on the unchanged code):
//  - empty_file_is_reported_complete_but_cannot_be_saved
//  - empty_file_with_resized_package_is_saved_as_complete
//  - borderline_duplicate_arriving_before_its_original_makes_transfer_incomplete
// exploration (pass on the unchanged code, #[ignore]d): sweep_single, sweep_multi
use adlt::dlt::{
    DltArg, DltChar4, DltMessage, DLT_TYLE_32BIT, DLT_TYPE_INFO_RAWD, DLT_TYPE_INFO_SINT,
    DLT_TYPE_INFO_STRG, DLT_TYPE_INFO_UINT,
};
use adlt::plugins::file_transfer::FileTransferPlugin;
use adlt::plugins::plugin::Plugin;
use adlt::utils::payload_from_args;
use serde_json::json;
use std::str::FromStr;

#[derive(Clone, Debug)]
enum M {
    Flst,
    Flda(u64, Vec<u8>),
    Flfi,
}

#[derive(Clone, Debug)]
struct T {
    ecu: &'static str,
    lc: u32,
    serial: u32,
    name: String,
    data: Vec<u8>,
    bs: usize,
}

impl T {
    fn nr(&self) -> usize {
        if self.data.is_empty() {
            1
        } else {
            self.data.len().div_ceil(self.bs)
        }
    }
    fn msgs(&self) -> Vec<M> {
        let mut v = vec![M::Flst];
        if self.data.is_empty() {
            v.push(M::Flda(1, vec![]));
        } else {
            for (i, c) in self.data.chunks(self.bs).enumerate() {
                v.push(M::Flda(i as u64 + 1, c.to_vec()));
            }
        }
        v.push(M::Flfi);
        v
    }
}

fn mk(t: &T, m: &M) -> DltMessage {
    let args = |a: &[(u32, &[u8])]| {
        payload_from_args(
            &a.iter()
                .map(|a| DltArg {
                    type_info: a.0,
                    is_big_endian: false,
                    payload_raw: a.1,
                })
                .collect::<Vec<DltArg>>(),
        )
    };
    let u = DLT_TYPE_INFO_UINT | DLT_TYLE_32BIT as u32;
    let mut msg = match m {
        M::Flst => {
            let mut name = t.name.as_bytes().to_vec();
            name.push(0);
            let p = args(&[
                (DLT_TYPE_INFO_STRG, b"FLST\0"),
                (u, &t.serial.to_le_bytes()),
                (DLT_TYPE_INFO_STRG, &name),
                (u, &(t.data.len() as u32).to_le_bytes()),
                (DLT_TYPE_INFO_STRG, b"2022-06-02 21:54:00\0"),
                (u, &(t.nr() as u32).to_le_bytes()),
                (u, &(t.bs as u32).to_le_bytes()),
                (DLT_TYPE_INFO_STRG, b"FLST\0"),
            ]);
            DltMessage::get_testmsg_with_payload(false, 8, &p)
        }
        M::Flda(nr, d) => {
            let p = args(&[
                (DLT_TYPE_INFO_STRG, b"FLDA\0"),
                (u, &t.serial.to_le_bytes()),
                (
                    DLT_TYPE_INFO_SINT | DLT_TYLE_32BIT as u32,
                    &(*nr as i32).to_le_bytes(),
                ),
                (DLT_TYPE_INFO_RAWD, d),
                (DLT_TYPE_INFO_STRG, b"FLDA\0"),
            ]);
            DltMessage::get_testmsg_with_payload(false, 5, &p)
        }
        M::Flfi => {
            let p = args(&[
                (DLT_TYPE_INFO_STRG, b"FLFI\0"),
                (u, &t.serial.to_le_bytes()),
                (DLT_TYPE_INFO_STRG, b"FLFI\0"),
            ]);
            DltMessage::get_testmsg_with_payload(false, 3, &p)
        }
    };
    msg.ecu = DltChar4::from_str(t.ecu).unwrap();
    msg.lifecycle = t.lc;
    msg
}

/// (file_name in tooltip, complete?, saved bytes if savable)
fn results(p: &FileTransferPlugin) -> Vec<(String, bool, Option<Vec<u8>>, serde_json::Value)> {
    let state = p.state();
    let state = state.read().unwrap();
    let items = state.value["treeItems"].as_array().unwrap().clone();
    let mut res = vec![];
    for it in items.iter().skip(1) {
        let complete = it["iconPath"] == "file";
        let mut saved = None;
        if !it["cmdCtx"].is_null() {
            let f = tempfile::NamedTempFile::new().unwrap();
            let path = f.path().to_str().unwrap().to_owned();
            let ok = (state.apply_command.unwrap())(
                &state.internal_data,
                "save",
                Some(json!({ "saveAs": path }).as_object().unwrap()),
                Some(it["cmdCtx"].as_object().unwrap()),
            );
            if ok {
                saved = Some(std::fs::read(&path).unwrap());
            }
        }
        res.push((
            it["tooltip"].as_str().unwrap().to_owned(),
            complete,
            saved,
            it.clone(),
        ));
    }
    res
}

fn data(n: usize, seed: u8) -> Vec<u8> {
    (0..n).map(|i| (i as u8).wrapping_mul(31).wrapping_add(seed)).collect()
}

#[derive(Debug, Clone)]
enum Fault {
    None,
    Drop(usize),
    DupAfter(usize, usize), // dup msg i inserted at pos j>i
    DupBefore(usize, usize),
    Swap(usize),
    Resize(usize, isize),
}

fn apply(ms: &[M], f: &Fault) -> Vec<M> {
    let mut v = ms.to_vec();
    match f {
        Fault::None => {}
        Fault::Drop(i) => {
            v.remove(*i);
        }
        Fault::DupAfter(i, j) | Fault::DupBefore(i, j) => {
            let m = v[*i].clone();
            v.insert(*j, m);
        }
        Fault::Swap(i) => v.swap(*i, *i + 1),
        Fault::Resize(i, d) => {
            if let M::Flda(_, dd) = &mut v[*i] {
                let nl = (dd.len() as isize + d).max(0) as usize;
                dd.resize(nl, 0xee);
            }
        }
    }
    v
}

#[test]
#[ignore]
fn sweep_single() {
    let mut bad = 0;
    for size in [/* 0 see findings */ 1usize, 2, 3, 4, 5, 7, 8, 9, 16] {
        for bs in [1usize, 2, 3, 4, 8, 16, 32] {
            let t = T {
                ecu: "ECU1",
                lc: 1,
                serial: 17,
                name: "f.bin".into(),
                data: data(size, 3),
                bs,
            };
            let ms = t.msgs();
            let n = ms.len();
            let mut faults = vec![Fault::None];
            for i in 0..n {
                faults.push(Fault::Drop(i));
                if i + 1 < n {
                    faults.push(Fault::Swap(i));
                }
                if matches!(ms[i], M::Flda(..)) {
                    for j in i + 1..=n {
                        faults.push(Fault::DupAfter(i, j));
                    }
                    for j in 1..i {
                        faults.push(Fault::DupBefore(i, j));
                    }
                    for d in [-2isize, -1, 1, 2, 100] {
                        faults.push(Fault::Resize(i, d));
                    }
                }
            }
            for f in &faults {
                let seq = apply(&ms, f);
                if let Fault::Resize(i, _) = f {
                    if let (M::Flda(_, a), M::Flda(_, b)) = (&ms[*i], &seq[*i]) {
                        if a.len() == b.len() {
                            continue;
                        }
                    }
                }
                let cfg = json!({"name":"f","allowSave":true});
                let mut p = FileTransferPlugin::from_json(cfg.as_object().unwrap()).unwrap();
                for m in &seq {
                    let mut msg = mk(&t, m);
                    p.process_msg(&mut msg);
                }
                let r = results(&p);
                let completes: Vec<_> = r.iter().filter(|x| x.1).collect();
                let must_complete = matches!(f, Fault::None | Fault::DupAfter(..))
                    || matches!(f, Fault::Drop(i) if *i==n-1)
                    // swap of last flda with flfi: still all in order
                    || matches!(f, Fault::Swap(i) if *i==n-2);
                let may_complete = must_complete
                    || matches!(f, Fault::Drop(0))
                    || matches!(f, Fault::DupBefore(..));
                let mut problem = None;
                if must_complete && completes.len() != 1 {
                    problem = Some("not complete".to_string());
                }
                if !may_complete && !completes.is_empty() {
                    problem = Some("falsely complete".to_string());
                }
                for c in &completes {
                    if c.2.as_ref() != Some(&t.data) {
                        problem = Some(format!("complete but saved {:?} != orig", c.2));
                    }
                }
                if let Some(pb) = problem {
                    bad += 1;
                    println!("size={} bs={} fault={:?}: {} r={:?}", size, bs, f, pb,
                        r.iter().map(|x| (x.1, x.3["label"].clone())).collect::<Vec<_>>());
                }
            }
        }
    }
    assert_eq!(bad, 0);
}

struct Lcg(u64);
impl Lcg {
    fn next(&mut self, n: usize) -> usize {
        self.0 = self.0.wrapping_mul(6364136223846793005).wrapping_add(1442695040888963407);
        ((self.0 >> 33) as usize) % n
    }
}

fn walk(p: &std::path::Path, out: &mut Vec<std::path::PathBuf>) {
    for e in std::fs::read_dir(p).unwrap() {
        let e = e.unwrap().path();
        if e.is_dir() {
            walk(&e, out);
        } else {
            out.push(e);
        }
    }
}

#[test]
#[ignore]
fn sweep_multi() {
    let mut rng = Lcg(42);
    let mut bad = 0;
    let names = [
        "/tmp/x/a.bin",
        "../../b.bin",
        "c.bin",
        "/abs/../../d.bin",
        "sub/..",
        "e.bin/",
        "..",
        "/",
        "./f.bin",
        "dir/sub/../../../../g.bin",
        "pre.bin",
        "/other/pre.bin",
    ];
    for round in 0..3000 {
        let root = tempfile::tempdir().unwrap();
        let save = root.path().join("out").join("save");
        std::fs::create_dir_all(&save).unwrap();
        std::fs::write(save.join("pre.bin"), b"PRE").unwrap();
        std::fs::write(root.path().join("b.bin"), b"OUTSIDE").unwrap();
        let allow_save = round % 2 == 0;
        let cfg = json!({"name":"f","allowSave":allow_save, "autoSavePath": save.to_str().unwrap(), "autoSaveGlob":"*"});
        let mut p = FileTransferPlugin::from_json(cfg.as_object().unwrap()).unwrap();
        let keys = [("ECU1", 1u32, 17u32), ("ECU2", 1, 17), ("ECU1", 2, 17), ("ECU1", 1, 18)];
        let k = 1 + rng.next(4);
        let mut ts = vec![];
        let mut seqs: Vec<Vec<M>> = vec![];
        let mut faults = vec![];
        for key in keys.iter().take(k) {
            let size = 1 + rng.next(20);
            let bs = 1 + rng.next(8);
            let t = T { ecu: key.0, lc: key.1, serial: key.2, name: names[rng.next(names.len())].into(), data: data(size, rng.next(255) as u8), bs };
            let ms = t.msgs();
            let n = ms.len();
            let f = match rng.next(7) {
                0 => Fault::Drop(rng.next(n)),
                1 => { let i = 1 + rng.next(n - 2); Fault::DupAfter(i, i + 1 + rng.next(n - i)) }
                2 => Fault::Swap(rng.next(n - 1)),
                3 => { let i = 1 + rng.next(n - 2); Fault::Resize(i, [-1isize, 1, 3][rng.next(3)]) }
                _ => Fault::None,
            };
            seqs.push(apply(&ms, &f));
            faults.push((f, n));
            ts.push(t);
        }
        // random interleave
        let mut pos = vec![0usize; k];
        loop {
            let live: Vec<usize> = (0..k).filter(|i| pos[*i] < seqs[*i].len()).collect();
            if live.is_empty() { break; }
            let i = live[rng.next(live.len())];
            let mut msg = mk(&ts[i], &seqs[i][pos[i]]);
            pos[i] += 1;
            p.process_msg(&mut msg);
            // unrelated msg
            let mut um = DltMessage::get_testmsg_with_payload(false, 1, &payload_from_args(&[DltArg{type_info: DLT_TYPE_INFO_STRG, is_big_endian:false, payload_raw:b"hello\0"}]));
            p.process_msg(&mut um);
        }
        let r = results(&p);
        let mut complete_datas: Vec<Vec<u8>> = vec![];
        for (i, t) in ts.iter().enumerate() {
            let tip = format!("{}, LC id={}, serial #{},", t.ecu, t.lc, t.serial);
            let mine: Vec<_> = r.iter().filter(|x| x.0.starts_with(&tip)).collect();
            let completes: Vec<_> = mine.iter().filter(|x| x.1).collect();
            let (f, n) = &faults[i];
            let n = *n;
            let resized_same = false;
            let must = matches!(f, Fault::None | Fault::DupAfter(..)) || matches!(f, Fault::Drop(i) if *i==n-1) || matches!(f, Fault::Swap(i) if *i==n-2) || resized_same;
            let may = must || matches!(f, Fault::Drop(0));
            let mut problem = None;
            if must && completes.len() != 1 { problem = Some("not complete".to_string()); }
            if !may && !completes.is_empty() {
                // resize that did not change (size clipped)?
                problem = Some("falsely complete".to_string());
            }
            for c in &completes {
                complete_datas.push(t.data.clone());
                if allow_save && c.2.as_ref() != Some(&t.data) { problem = Some(format!("saved {:?} != orig", c.2)); }
            }
            if let Some(pb) = problem {
                bad += 1;
                println!("round {} t={:?} fault={:?}: {} {:?}", round, t, f, pb, mine.iter().map(|x| x.3["label"].clone()).collect::<Vec<_>>());
            }
        }
        // check files
        let mut files = vec![];
        walk(root.path(), &mut files);
        for f in files {
            let c = std::fs::read(&f).unwrap();
            if f == save.join("pre.bin") {
                if c != b"PRE" { bad += 1; println!("round {} pre.bin overwritten", round); }
            } else if f == root.path().join("b.bin") {
                if c != b"OUTSIDE" { bad += 1; println!("round {} outside b.bin overwritten", round); }
            } else if f.parent().unwrap() != save {
                bad += 1; println!("round {} file outside: {:?}", round, f);
            } else if !complete_datas.contains(&c) {
                bad += 1; println!("round {} file {:?} content not a complete transfer", round, f);
            }
        }
    }
    assert_eq!(bad, 0);
}

// ---------------------------------------------------------------------------------------------
// findings

fn run(cfg: serde_json::Value, t: &T, seq: &[M]) -> FileTransferPlugin {
    let mut p = FileTransferPlugin::from_json(cfg.as_object().unwrap()).unwrap();
    for m in seq {
        let mut msg = mk(t, m);
        p.process_msg(&mut msg);
    }
    p
}

/// Finding 1: an empty file (size 0, sent like dlt-daemon does: FLST with 1 package, one FLDA with
/// 0 bytes, FLFI; no fault at all) is reported complete (icon "file", contextValue "canSave", cmdCtx
/// save) but the save command fails and the auto save does not create the file.
#[test]
fn empty_file_is_reported_complete_but_cannot_be_saved() {
    let dir = tempfile::tempdir().unwrap();
    let t = T {
        ecu: "ECU1",
        lc: 1,
        serial: 17,
        name: "/var/log/empty.bin".into(),
        data: vec![],
        bs: 1024,
    };
    let seq = t.msgs();
    assert_eq!(seq.len(), 3); // FLST, FLDA(1, 0 bytes), FLFI
    let p = run(
        json!({"name":"f","allowSave":true,"autoSavePath":dir.path().to_str().unwrap(),"autoSaveGlob":"*"}),
        &t,
        &seq,
    );
    let r = results(&p);
    assert_eq!(r.len(), 1);
    assert!(r[0].1, "reported complete: {:?}", r[0].3);
    assert_eq!(r[0].3["contextValue"], "canSave");
    // the property demands: reported complete => can be saved byte for byte identical
    let auto_saved = std::fs::read(dir.path().join("empty.bin")).ok();
    assert_eq!(
        (r[0].2.as_ref(), auto_saved.as_ref()),
        (Some(&t.data), Some(&t.data)),
        "(save cmd result, auto saved file) for a transfer reported as {:?}",
        r[0].3["label"]
    );
}

/// Finding 2: empty file, single fault "resize a package": the only package arrives with 1 byte instead of 0.
/// The announced size 0 is treated as "size unknown", so the transfer is reported complete and the
/// damaged content is saved (save cmd and auto save).
#[test]
fn empty_file_with_resized_package_is_saved_as_complete() {
    let dir = tempfile::tempdir().unwrap();
    let t = T {
        ecu: "ECU1",
        lc: 1,
        serial: 17,
        name: "/var/log/empty.bin".into(),
        data: vec![],
        bs: 1024,
    };
    let seq = apply(&t.msgs(), &Fault::Resize(1, 1));
    assert!(matches!(&seq[1], M::Flda(1, d) if d.len()==1));
    let p = run(
        json!({"name":"f","allowSave":true,"autoSavePath":dir.path().to_str().unwrap(),"autoSaveGlob":"*"}),
        &t,
        &seq,
    );
    let r = results(&p);
    assert_eq!(r.len(), 1);
    let auto_saved = std::fs::read(dir.path().join("empty.bin")).ok();
    assert!(
        !r[0].1 && r[0].2.is_none() && auto_saved.is_none(),
        "package of inconsistent size: reported complete={} label={}, save cmd wrote {:?}, auto save wrote {:?}, original was {:?}",
        r[0].1,
        r[0].3["label"],
        r[0].2,
        auto_saved,
        t.data
    );
}

/// Borderline (depends on how "duplicate" is read): the duplicate of a package arrives before its original
/// (1, 3', 2, 3). All originals arrive in order, but the transfer ends as Incomplete.
/// (the repaired duplicate defect only covers copies that arrive after the original).
#[test]
fn borderline_duplicate_arriving_before_its_original_makes_transfer_incomplete() {
    let t = T {
        ecu: "ECU1",
        lc: 1,
        serial: 17,
        name: "f.bin".into(),
        data: data(12, 1),
        bs: 4,
    };
    // msgs: 0 FLST, 1..3 FLDA, 4 FLFI. copy of FLDA 3 inserted before FLDA 2
    let seq = apply(&t.msgs(), &Fault::DupBefore(3, 2));
    let nrs: Vec<u64> = seq
        .iter()
        .filter_map(|m| if let M::Flda(n, _) = m { Some(*n) } else { None })
        .collect();
    assert_eq!(nrs, [1, 3, 2, 3]);
    let p = run(json!({"name":"f","allowSave":true}), &t, &seq);
    let r = results(&p);
    assert_eq!(r.len(), 1);
    assert!(r[0].1, "not reported complete: {}", r[0].3["label"]);
    assert_eq!(r[0].2.as_ref(), Some(&t.data));
}
