// randomized search harness for the audit of the lifecycle detection (P1, P2, P3)
use adlt::dlt::{DltChar4, DltExtendedHeader, DltMessage, DltStandardHeader};
use adlt::lifecycle::{
    get_sorted_lifecycles_as_vec, parse_lifecycles_buffered_from_stream, Lifecycle, LifecycleId,
    LifecycleItem,
};
use std::cell::RefCell;
use std::collections::HashMap;

const HAS_TS: u8 = 1 << 4;
const BASE0: u64 = 1_640_995_200_000_000;
thread_local!{ static BASE_TL: std::cell::Cell<u64> = std::cell::Cell::new(BASE0); }
#[allow(non_snake_case)]
fn BASE_() -> u64 { BASE_TL.with(|b| b.get()) }

#[derive(Clone, Debug)]
pub struct M {
    pub ecu: u8,
    pub rec: u64,
    pub ts_dms: u32,
    pub kind: u8, // 0 normal, 1 no timestamp flag, 2 ctrl request
    pub index: u32,
}

fn ecu_of(e: u8) -> DltChar4 {
    DltChar4::from_buf(&[b'E', b'C', b'U', b'0' + e])
}

fn build(m: &M) -> DltMessage {
    DltMessage {
        index: m.index,
        reception_time_us: m.rec,
        ecu: ecu_of(m.ecu),
        timestamp_dms: m.ts_dms,
        standard_header: DltStandardHeader {
            htyp: if m.kind == 1 { 0 } else { HAS_TS },
            len: 0,
            mcnt: 0,
        },
        extended_header: if m.kind == 2 {
            Some(DltExtendedHeader {
                verb_mstp_mtin: 0x16,
                noar: 0,
                apid: DltChar4::from_buf(b"APID"),
                ctid: DltChar4::from_buf(b"CTID"),
            })
        } else {
            None
        },
        payload: vec![m.index as u8],
        payload_text: None,
        lifecycle: 0,
    }
}

/// runs the stream, returns a list of violations
pub fn run(stream: &[M]) -> Vec<String> {
    let viol: RefCell<Vec<String>> = RefCell::new(vec![]);
    let (tx, rx) = std::sync::mpsc::channel();
    for m in stream {
        tx.send(build(m)).unwrap();
    }
    drop(tx);
    let (lcs_r, lcs_w) = evmap::new::<LifecycleId, LifecycleItem>();
    let out: RefCell<Vec<DltMessage>> = RefCell::new(vec![]);
    let r2 = lcs_r.clone();
    let lcs_w = parse_lifecycles_buffered_from_stream(lcs_w, rx, &|m: DltMessage| {
        // P2
        match r2.get_one(&m.lifecycle) {
            Some(lc) => {
                if lc.ecu != m.ecu {
                    viol.borrow_mut().push(format!(
                        "P2: msg idx {} lc {} ecu mismatch",
                        m.index, m.lifecycle
                    ));
                }
            }
            None => viol.borrow_mut().push(format!(
                "P2: msg idx {} lc {} not in table at delivery",
                m.index, m.lifecycle
            )),
        }
        out.borrow_mut().push(m);
        Ok(())
    });
    let out = out.into_inner();
    let mut v = viol.into_inner();
    // P1
    if out.len() != stream.len() {
        v.push(format!("P1: {} in, {} out", stream.len(), out.len()));
    }
    for (i, (o, m)) in out.iter().zip(stream.iter()).enumerate() {
        let mut exp = build(m);
        exp.lifecycle = o.lifecycle;
        if *o != exp {
            v.push(format!("P1: msg at pos {} differs/ reordered", i));
        }
        if o.lifecycle == 0 {
            v.push(format!("P1: msg at pos {} has lifecycle 0", i));
        }
    }
    // P3
    let mut cnt: HashMap<u32, u32> = HashMap::new();
    for o in &out {
        *cnt.entry(o.lifecycle).or_default() += 1;
    }
    let rr = lcs_r.read().unwrap();
    let mut sum = 0u64;
    for (id, b) in rr.iter() {
        if b.len() != 1 {
            v.push(format!("P3: lc {} bag len {}", id, b.len()));
            continue;
        }
        let lc: &Lifecycle = b.get_one().unwrap();
        if lc.id() != *id {
            v.push(format!("P3: lc key {} id {}", id, lc.id()));
        }
        if lc.was_merged().is_some() {
            v.push(format!("P3: merged lc {} listed", id));
        }
        let c = cnt.get(id).copied().unwrap_or(0);
        if c == 0 {
            v.push(format!("P3: lc {} listed but not referenced", id));
        }
        if c != lc.nr_msgs {
            v.push(format!("P3: lc {} nr_msgs {} but {} delivered", id, lc.nr_msgs, c));
        }
        sum += lc.nr_msgs as u64;
    }
    if sum != out.len() as u64 {
        v.push(format!("P3: sum {} vs {} msgs", sum, out.len()));
    }
    for (id, _) in cnt.iter() {
        match rr.get_one(id) {
            None => v.push(format!("P3: delivered lc {} not in final table", id)),
            Some(lc) => {
                for o in out.iter().filter(|o| o.lifecycle == *id) {
                    if o.ecu != lc.ecu {
                        v.push(format!("P1: lc {} ecu mismatch", id));
                        break;
                    }
                }
            }
        }
    }
    // listing
    let res = std::panic::catch_unwind(std::panic::AssertUnwindSafe(|| {
        get_sorted_lifecycles_as_vec(&rr)
            .iter()
            .map(|l| (*l).clone())
            .collect::<Vec<Lifecycle>>()
    }));
    match res {
        Err(_) => v.push("P3: listing panicked".to_string()),
        Ok(list) => {
            if list.len() != rr.len() {
                v.push("P3: listing len".to_string());
            }
            let mut ids: Vec<u32> = list.iter().map(|l| l.id()).collect();
            ids.sort();
            ids.dedup();
            if ids.len() != list.len() {
                v.push("P3: listing dup".to_string());
            }
            let any_resume = list.iter().any(|l| l.is_resume());
            if !any_resume {
                for w in list.windows(2) {
                    if w[0].start_time > w[1].start_time {
                        v.push("P3: listing not by start time".to_string());
                    }
                }
            }
            #[cfg(adlt_verif)]
            {
                for (i, l) in list.iter().enumerate() {
                    if let Some(rid) = l.resume_lc_id() {
                        match list.iter().position(|x| x.id() == rid) {
                            None => v.push(format!("P3: resumed lc {} of {} not listed", rid, l.id())),
                            Some(p) => {
                                if p > i {
                                    v.push(format!("P3: resume lc {} before resumed {}", l.id(), rid));
                                }
                            }
                        }
                    }
                }
            }
        }
    }
    STATS.with(|st| {
        let mut st = st.borrow_mut();
        st[0] += 1;
        st[1] += rr.len() as u64;
        st[2] += rr.iter().filter(|(_, b)| b.get_one().unwrap().is_resume()).count() as u64;
        st[3] += (NEXT_PROBE.with(|_| 0)) as u64;
    });
    drop(rr);
    drop(lcs_w);
    v
}
thread_local! {
    pub static STATS: RefCell<[u64; 4]> = RefCell::new([0; 4]);
    pub static NEXT_PROBE: u8 = 0;
}

pub struct Rng(u64);
impl Rng {
    pub fn next(&mut self) -> u64 {
        let mut x = self.0;
        x ^= x << 13;
        x ^= x >> 7;
        x ^= x << 17;
        self.0 = x;
        x.wrapping_mul(0x2545F4914F6CDD1D)
    }
    pub fn below(&mut self, n: u64) -> u64 {
        (self.next() >> 11) % n
    }
    pub fn pick<T: Copy>(&mut self, a: &[T]) -> T {
        a[self.below(a.len() as u64) as usize]
    }
}

const S: u64 = 1_000_000;

/// "simulation" generator: ecus with lifecycles, buffering delays, suspends
fn gen_sim(rng: &mut Rng, n: usize, necus: u8, stride: u32) -> Vec<M> {
    let evrate = rng.pick(&[6u64, 10, 20, 40, 80]);
    let mut now = BASE_() + rng.below(1000) * S;
    let mut lc_base: Vec<u64> = (0..necus).map(|_| now.saturating_sub(rng.pick(&[0, S, 10 * S, 100 * S]))).collect();
    let mut v = vec![];
    for i in 0..n {
        let e = rng.below(necus as u64) as u8;
        let d = rng.pick(&[
            0, 0, 0, 1_000, 1_000, 100_000, 500_000, S, S, 2 * S, 5 * S, 9 * S, 11 * S, 20 * S, 31 * S, 45 * S, 61 * S,
            90 * S, 130 * S, 400 * S,
        ]);
        now += d;
        // events for this ecu
        let ev = rng.below(evrate);
        let ei = e as usize;
        match ev {
            0 => {
                // reboot: new lc starting at some point shortly before now
                lc_base[ei] = now.saturating_sub(rng.pick(&[0, 1_000, S, 3 * S, 10 * S, 30 * S]));
            }
            1 => {
                // suspend/resume shift: ecu clock stood still for a while
                let shift = rng.pick(&[5 * S, 11 * S, 20 * S, 35 * S, 70 * S, 200 * S]);
                lc_base[ei] = (lc_base[ei] + shift).min(now);
            }
            2 => {
                // start estimate going backwards
                lc_base[ei] = lc_base[ei].saturating_sub(rng.pick(&[S, 5 * S, 12 * S, 40 * S, 70 * S]));
            }
            _ => {}
        }
        let delay = rng.pick(&[0, 0, 0, 0, 1_000, 100_000, S, 2 * S, 5 * S, 15 * S, 29 * S, 31 * S, 59 * S, 61 * S, 100 * S]);
        let rec = if rng.below(15) == 0 { now.saturating_sub(rng.pick(&[1_000, S, 5 * S, 30 * S, 100 * S])) } else { now };
        let ts_us = (now.saturating_sub(lc_base[ei])).saturating_sub(delay);
        let mut ts_dms = (ts_us / 100) as u32;
        let g = rng.below(30);
        if g == 0 {
            ts_dms = 0;
        } else if g == 1 {
            ts_dms = rng.pick(&[1, 10, 10_000, 600_000, 700_000, 1_000_000, u32::MAX, u32::MAX / 2]);
        }
        let k = rng.below(25);
        let kind = if k == 0 { 1 } else if k == 1 { 2 } else { 0 };
        v.push(M { ecu: e, rec, ts_dms, kind, index: (i as u32) * stride });
    }
    v
}

/// pure small-domain generator
fn gen_small(rng: &mut Rng, n: usize, necus: u8, stride: u32) -> Vec<M> {
    let mut now = BASE_();
    let mut v = vec![];
    for i in 0..n {
        let e = rng.below(necus as u64) as u8;
        let d = rng.pick(&[0i64, 0, 1_000, 1_000_000, 2_000_000, 9_000_000, 11_000_000, 31_000_000, 61_000_000, 130_000_000, -1_000_000, -20_000_000]);
        now = (now as i64 + d).max(0) as u64;
        let ts_s = rng.pick(&[0u32, 0, 1, 2, 5, 9, 10, 11, 20, 30, 40, 59, 60, 61, 70, 100, 130, 200, 500]);
        let mut ts_dms = ts_s * 10_000 + rng.pick(&[0u32, 0, 1, 10]);
        if rng.below(40) == 0 {
            ts_dms = u32::MAX;
        }
        let k = rng.below(25);
        let kind = if k == 0 { 1 } else if k == 1 { 2 } else { 0 };
        v.push(M { ecu: e, rec: now, ts_dms, kind, index: (i as u32) * stride });
    }
    v
}

fn search(seed0: u64, iters: u64) {
    let mut found = 0;
    for it in 0..iters {
        let mut rng = Rng(seed0.wrapping_add(it).wrapping_mul(0x9E3779B97F4A7C15) | 1);
        let n = 2 + rng.below(std::env::var("AUDIT_MAXN").ok().and_then(|s| s.parse().ok()).unwrap_or(24)) as usize;
        BASE_TL.with(|b| b.set(rng.pick(&[BASE0, BASE0, BASE0, 0, 2_000 * S])));
        let necus = 1 + rng.below(4) as u8;
        let stride = rng.pick(&[1u32, 1, 30_000, 60_000, 100_001]);
        let stream = if rng.below(2) == 0 { gen_sim(&mut rng, n, necus, stride) } else { gen_small(&mut rng, n, necus, stride) };
        let res = std::panic::catch_unwind(|| run(&stream));
        let v = match res {
            Ok(v) => v,
            Err(_) => vec!["PANIC".to_string()],
        };
        if !v.is_empty() {
            // shrink by removing msgs
            let mut s = stream.clone();
            let key = v[0].split(':').next().unwrap().to_string();
            let mut changed = true;
            while changed {
                changed = false;
                let mut i = 0;
                while i < s.len() {
                    let mut t = s.clone();
                    t.remove(i);
                    let r = std::panic::catch_unwind(|| run(&t)).unwrap_or_else(|_| vec!["PANIC".to_string()]);
                    if r.iter().any(|x| x.starts_with(&key)) {
                        s = t;
                        changed = true;
                    } else {
                        i += 1;
                    }
                }
            }
            let r = std::panic::catch_unwind(|| run(&s)).unwrap_or_else(|_| vec!["PANIC".to_string()]);
            println!("FOUND seed {} it {}: {:?}\n shrunk ({} msgs): {:?}", seed0, it, r, s.len(), s);
            for m in &s {
                println!("   ecu {} rec {} (+{}us) ts_dms {} kind {} idx {}", m.ecu, m.rec, m.rec as i64 - BASE_() as i64, m.ts_dms, m.kind, m.index);
            }
            found += 1;
            if found >= 5 {
                break;
            }
        }
    }
    STATS.with(|st| println!("stats runs/lcs/resumes: {:?}", st.borrow()));
    assert_eq!(found, 0, "violations found");
}

#[test]
fn search_random() {
    let seed: u64 = std::env::var("AUDIT_SEED").ok().and_then(|s| s.parse().ok()).unwrap_or(1);
    let iters: u64 = std::env::var("AUDIT_ITERS").ok().and_then(|s| s.parse().ok()).unwrap_or(20_000);
    std::panic::set_hook(Box::new(|_| {}));
    search(seed, iters);
}

/// long streams with real indices (periodic refresh every 100k msgs), events rare
fn gen_long(rng: &mut Rng, n: usize, necus: u8) -> Vec<M> {
    let mut now = BASE0;
    let mut lc_base: Vec<u64> = (0..necus).map(|_| now - rng.pick(&[0, S, 10 * S])).collect();
    let evrate = rng.pick(&[2_000u64, 10_000, 40_000]);
    let mut v = Vec::with_capacity(n);
    for i in 0..n {
        let e = rng.below(necus as u64) as u8;
        let ei = e as usize;
        now += rng.pick(&[0, 0, 100, 1_000, 1_000, 5_000, 20_000]);
        match rng.below(evrate) {
            0 => {
                now += rng.pick(&[0, S, 20 * S, 70 * S]);
                lc_base[ei] = now - rng.pick(&[0, 1_000, S, 3 * S]);
            }
            1 => {
                let gap = rng.pick(&[11 * S, 20 * S, 70 * S, 200 * S]);
                now += gap;
                lc_base[ei] += gap - rng.pick(&[0, S, 5 * S]).min(gap);
            }
            2 => {
                now += rng.pick(&[11 * S, 61 * S, 130 * S]);
            }
            3 => {
                lc_base[ei] = lc_base[ei].saturating_sub(rng.pick(&[S, 5 * S, 12 * S, 70 * S]));
            }
            _ => {}
        }
        let delay = if rng.below(50) == 0 { rng.pick(&[S, 5 * S, 29 * S, 61 * S, 100 * S]) } else { rng.pick(&[0, 100, 1_000, 10_000]) };
        let ts_us = (now.saturating_sub(lc_base[ei])).saturating_sub(delay);
        let mut ts_dms = (ts_us / 100) as u32;
        if rng.below(5_000) == 0 {
            ts_dms = rng.pick(&[0, 1, u32::MAX, 700_000]);
        }
        let k = rng.below(2_000);
        let kind = if k == 0 { 1 } else if k == 1 { 2 } else { 0 };
        v.push(M { ecu: e, rec: now, ts_dms, kind, index: i as u32 });
    }
    v
}

#[test]
fn search_long() {
    let seed: u64 = std::env::var("AUDIT_SEED").ok().and_then(|s| s.parse().ok()).unwrap_or(1);
    let iters: u64 = std::env::var("AUDIT_ITERS").ok().and_then(|s| s.parse().ok()).unwrap_or(5);
    for it in 0..iters {
        let mut rng = Rng(seed.wrapping_add(it).wrapping_mul(0x9E3779B97F4A7C15) | 1);
        let n = 150_000 + rng.below(200_000) as usize;
        let necus = 1 + rng.below(3) as u8;
        let stream = gen_long(&mut rng, n, necus);
        let v = run(&stream);
        STATS.with(|st| println!("it {} n {} stats runs/lcs/resumes: {:?}", it, n, st.borrow()));
        assert!(v.is_empty(), "seed {} it {}: {:?}", seed, it, &v[..v.len().min(10)]);
    }
}

/// consumer in another thread, checks P2 at reception through its own read handle
#[test]
fn search_paced() {
    let seed: u64 = std::env::var("AUDIT_SEED").ok().and_then(|s| s.parse().ok()).unwrap_or(1);
    let iters: u64 = std::env::var("AUDIT_ITERS").ok().and_then(|s| s.parse().ok()).unwrap_or(3_000);
    for it in 0..iters {
        let mut rng = Rng(seed.wrapping_add(it).wrapping_mul(0x9E3779B97F4A7C15) | 1);
        let n = 2 + rng.below(40) as usize;
        let necus = 1 + rng.below(3) as u8;
        let stride = rng.pick(&[1u32, 30_000, 100_001]);
        let stream = if rng.below(2) == 0 { gen_sim(&mut rng, n, necus, stride) } else { gen_small(&mut rng, n, necus, stride) };
        let cap = rng.pick(&[0usize, 1, 3, 2048]);
        let slow = rng.below(2) == 0;
        let (tx, rx) = std::sync::mpsc::channel();
        for m in &stream {
            tx.send(build(m)).unwrap();
        }
        drop(tx);
        let (lcs_r, lcs_w) = evmap::new::<LifecycleId, LifecycleItem>();
        let (tx2, rx2) = std::sync::mpsc::sync_channel::<DltMessage>(cap);
        let r2 = lcs_r.clone();
        let cons = std::thread::spawn(move || {
            let mut v = vec![];
            let mut k = 0;
            for m in rx2 {
                k += 1;
                if slow && k % 3 == 0 {
                    std::thread::yield_now();
                }
                match r2.get_one(&m.lifecycle) {
                    Some(lc) if lc.ecu == m.ecu => {}
                    Some(_) => v.push(format!("P2 ecu mismatch idx {}", m.index)),
                    None => v.push(format!("P2 lc {} missing idx {}", m.lifecycle, m.index)),
                }
            }
            v
        });
        let lcs_w = parse_lifecycles_buffered_from_stream(lcs_w, rx, &|m| tx2.send(m));
        drop(tx2);
        let v = cons.join().unwrap();
        drop(lcs_w);
        assert!(v.is_empty(), "seed {} it {}: {:?} {:?}", seed, it, v, stream);
    }
}
