// exploratory differential test (audit C18b)
use adlt::dlt::*;
use adlt::utils::payload_from_args;

struct Lcg(u64);
impl Lcg {
    fn next(&mut self) -> u64 {
        self.0 = self
            .0
            .wrapping_mul(6364136223846793005)
            .wrapping_add(1442695040888963407);
        self.0 >> 16
    }
    fn below(&mut self, n: u64) -> u64 {
        self.next() % n
    }
}

#[derive(Debug, Clone, PartialEq)]
struct RArg {
    type_info: u32,
    raw: Vec<u8>,
}

fn rd_u32(b: &[u8], be: bool) -> u32 {
    let a: [u8; 4] = b.try_into().unwrap();
    if be {
        u32::from_be_bytes(a)
    } else {
        u32::from_le_bytes(a)
    }
}
fn rd_u16(b: &[u8], be: bool) -> u16 {
    let a: [u8; 2] = b.try_into().unwrap();
    if be {
        u16::from_be_bytes(a)
    } else {
        u16::from_le_bytes(a)
    }
}

fn gen_arg(r: &mut Lcg) -> RArg {
    let kind = r.below(13);
    let interesting = |r: &mut Lcg, n: usize| -> Vec<u8> {
        match r.below(5) {
            0 => vec![0u8; n],
            1 => vec![0xffu8; n],
            2 => {
                let mut v = vec![0u8; n];
                v[n - 1] = 0x80;
                v
            }
            3 => {
                let mut v = vec![0xffu8; n];
                v[0] = 0x7f;
                v
            }
            _ => (0..n).map(|_| r.below(256) as u8).collect(),
        }
    };
    match kind {
        0 => RArg {
            type_info: DLT_TYPE_INFO_BOOL | 1,
            raw: vec![r.below(3) as u8],
        },
        1..=4 => {
            let t = (kind) as u32;
            let n = [1, 2, 4, 8][(kind - 1) as usize];
            RArg {
                type_info: DLT_TYPE_INFO_SINT | t,
                raw: interesting(r, n),
            }
        }
        5..=8 => {
            let t = (kind - 4) as u32;
            let n = [1, 2, 4, 8][(kind - 5) as usize];
            RArg {
                type_info: DLT_TYPE_INFO_UINT | t,
                raw: interesting(r, n),
            }
        }
        9 => RArg {
            type_info: DLT_TYPE_INFO_FLOA | 3,
            raw: interesting(r, 4),
        },
        10 => RArg {
            type_info: DLT_TYPE_INFO_FLOA | 4,
            raw: interesting(r, 8),
        },
        11 => {
            let n = r.below(6) as usize;
            let scod = if r.below(2) == 0 {
                DLT_SCOD_UTF8
            } else {
                DLT_SCOD_ASCII
            };
            let alphabet: &[u8] = b"ab\0\r\n\t \xff\xc3\xa4\x80";
            RArg {
                type_info: DLT_TYPE_INFO_STRG | scod,
                raw: (0..n)
                    .map(|_| alphabet[r.below(alphabet.len() as u64) as usize])
                    .collect(),
            }
        }
        _ => {
            let n = r.below(5) as usize;
            RArg {
                type_info: DLT_TYPE_INFO_RAWD,
                raw: (0..n).map(|_| r.below(256) as u8).collect(),
            }
        }
    }
}

fn ref_encode(args: &[RArg], be: bool) -> Vec<u8> {
    let mut p = vec![];
    for a in args {
        p.extend_from_slice(&if be {
            a.type_info.to_be_bytes()
        } else {
            a.type_info.to_le_bytes()
        });
        if a.type_info & (DLT_TYPE_INFO_STRG | DLT_TYPE_INFO_RAWD) != 0 {
            let l = a.raw.len() as u16;
            p.extend_from_slice(&if be { l.to_be_bytes() } else { l.to_le_bytes() });
        }
        p.extend_from_slice(&a.raw);
    }
    p
}

fn decode(payload: &[u8], be: bool) -> (Vec<RArg>, String) {
    let m = DltMessage::get_testmsg_with_payload(be, 0, payload);
    let args: Vec<RArg> = m
        .into_iter()
        .map(|a| {
            // the raw slice must lie within the payload
            let p0 = m.payload.as_ptr() as usize;
            let a0 = a.payload_raw.as_ptr() as usize;
            assert!(a0 >= p0 && a0 + a.payload_raw.len() <= p0 + m.payload.len());
            assert_eq!(a.is_big_endian, be);
            RArg {
                type_info: a.type_info,
                raw: a.payload_raw.to_vec(),
            }
        })
        .collect();
    let text = m.payload_as_text().unwrap().into_owned();
    (args, text)
}

fn ref_text(args: &[RArg], be: bool) -> String {
    let mut parts = vec![];
    for a in args {
        let ti = a.type_info;
        let raw = &a.raw;
        let mut buf = [0u8; 8];
        let n = raw.len();
        let s = if ti & DLT_TYPE_INFO_BOOL != 0 {
            (if raw[0] != 0 { "true" } else { "false" }).to_string()
        } else if ti & DLT_TYPE_INFO_UINT != 0 {
            if be {
                buf[8 - n..].copy_from_slice(raw);
                u64::from_be_bytes(buf).to_string()
            } else {
                buf[..n].copy_from_slice(raw);
                u64::from_le_bytes(buf).to_string()
            }
        } else if ti & DLT_TYPE_INFO_SINT != 0 {
            let v = if be {
                buf[8 - n..].copy_from_slice(raw);
                u64::from_be_bytes(buf)
            } else {
                buf[..n].copy_from_slice(raw);
                u64::from_le_bytes(buf)
            };
            let sh = 64 - 8 * n as u32;
            (((v << sh) as i64) >> sh).to_string()
        } else if ti & DLT_TYPE_INFO_FLOA != 0 {
            if n == 4 {
                let b: [u8; 4] = raw[..].try_into().unwrap();
                (if be {
                    f32::from_be_bytes(b)
                } else {
                    f32::from_le_bytes(b)
                })
                .to_string()
            } else {
                let b: [u8; 8] = raw[..].try_into().unwrap();
                (if be {
                    f64::from_be_bytes(b)
                } else {
                    f64::from_le_bytes(b)
                })
                .to_string()
            }
        } else if ti & DLT_TYPE_INFO_RAWD != 0 {
            raw.iter()
                .map(|b| format!("{:02x}", b))
                .collect::<Vec<_>>()
                .join(" ")
        } else {
            let mut r = &raw[..];
            if let Some((&0, rest)) = r.split_last() {
                r = rest;
            }
            let s: String = if ti & DLT_SCOD_UTF8 != 0 {
                String::from_utf8_lossy(r).into_owned()
            } else {
                r.iter()
                    .map(|&b| {
                        if b < 0x80 {
                            b as char
                        } else {
                            encoding_rs::WINDOWS_1252
                                .decode_without_bom_handling(&[b])
                                .0
                                .chars()
                                .next()
                                .unwrap()
                        }
                    })
                    .collect()
            };
            s.chars()
                .map(|c| if matches!(c, '\r' | '\n' | '\t') { ' ' } else { c })
                .collect()
        };
        parts.push(s);
    }
    parts.join(" ")
}

#[test]
fn explore_roundtrip() {
    let mut r = Lcg(12345);
    for _ in 0..20000 {
        let k = r.below(5) as usize;
        let args: Vec<RArg> = (0..k).map(|_| gen_arg(&mut r)).collect();
        for be in [false, true] {
            let dargs: Vec<DltArg> = args
                .iter()
                .map(|a| DltArg {
                    type_info: a.type_info,
                    is_big_endian: be,
                    payload_raw: &a.raw,
                })
                .collect();
            let payload = payload_from_args(&dargs);
            assert_eq!(payload, ref_encode(&args, be), "{:?}", args);
            let (dec, text) = decode(&payload, be);
            assert_eq!(dec, args, "be={}", be);
            assert_eq!(text, ref_text(&args, be), "args={:?} be={}", args, be);
            // truncations
            for cut in 0..payload.len() {
                let (dec, text) = decode(&payload[..cut], be);
                assert!(dec.len() <= args.len());
                assert_eq!(&dec[..], &args[..dec.len()], "cut={} args={:?}", cut, args);
                assert_eq!(text, ref_text(&dec, be));
                // maximal prefix
                let full = ref_encode(&args[..dec.len()], be).len();
                assert!(full <= cut);
                if dec.len() < args.len() {
                    let next = ref_encode(&args[..dec.len() + 1], be).len();
                    assert!(next > cut, "cut={} args={:?} dec={:?}", cut, args, dec);
                }
            }
            // corruptions: just must not panic and stay inside
            for i in 0..payload.len() {
                for v in [0u8, 1, 0x7f, 0x80, 0xff, payload[i] ^ 1, payload[i] ^ 0x10] {
                    let mut p = payload.clone();
                    p[i] = v;
                    let _ = decode(&p, be);
                }
            }
        }
    }
}

#[test]
fn explore_serde() {
    use adlt::dlt_args;
    use adlt::serde_verb_payload::DltVerbArgTypeWrapper;
    let be = cfg!(target_endian = "big");
    let big = "x".repeat(0xfffe);
    let bigraw = vec![0xabu8; 0xffff];
    let mut bigascii = vec![b'y'; 0xffff];
    bigascii[0xfffe] = 0;
    let (noar, payload) = dlt_args!(
        true,
        i8::MIN,
        i16::MIN,
        i32::MIN,
        i64::MIN,
        u8::MAX,
        u16::MAX,
        u32::MAX,
        u64::MAX,
        f32::NAN,
        f64::NEG_INFINITY,
        "",
        big.as_str(),
        '\0',
        "a\r\n\tb\0",
        serde_bytes::Bytes::new(&bigraw),
        serde_bytes::Bytes::new(&[]),
        DltVerbArgTypeWrapper::DltScodAscii(serde_bytes::Bytes::new(&bigascii)),
        DltVerbArgTypeWrapper::DltScodAscii(serde_bytes::Bytes::new(b"")),
        DltVerbArgTypeWrapper::DltScodAscii(serde_bytes::Bytes::new(b"\x80\xff\0")),
        Some(5u8),
        String::from("ä")
    )
    .unwrap();
    assert_eq!(noar, 22);
    let (dec, text) = decode(&payload, be);
    assert_eq!(dec.len(), 22);
    assert_eq!(ref_encode(&dec, be), payload);
    assert_eq!(text, ref_text(&dec, be));
    let exp_start = "true -128 -32768 -2147483648 -9223372036854775808 255 65535 4294967295 18446744073709551615 NaN -inf  xxx";
    assert_eq!(&text[..exp_start.len()], exp_start);
    assert!(text.ends_with(" \u{20ac}\u{ff} 5 ä"), "{:?}", &text[text.len()-20..]);
    assert_eq!(dec[12].raw.len(), 0xffff);
    assert_eq!(dec[13].raw, vec![0,0]);
    assert!(dlt_args!("x".repeat(0xffff)).is_err());
    assert!(dlt_args!(serde_bytes::Bytes::new(&vec![0u8; 0x10000])).is_err());
}

#[test]
fn explore_typeinfo_exhaustive() {
    use std::collections::BTreeMap;
    // classes of type_infos accepted by the decoder although not produced by any encoder
    let mut accepted: BTreeMap<String, u32> = BTreeMap::new();
    for be in [false, true] {
        for ti in 0u32..(1 << 19) {
            let mut p = if be { ti.to_be_bytes().to_vec() } else { ti.to_le_bytes().to_vec() };
            p.extend_from_slice(&[2, 0, 2, 0, 1, 2, 3, 4, 5, 6, 7, 8, 9, 10, 11, 12, 13, 14, 15, 16]);
            let (dec, _text) = decode(&p, be);
            if !dec.is_empty() && !be {
                let a = &dec[0];
                let key = format!("bits={:#x} tyle={} len={}", a.type_info & 0x7fff0 & !0x38000, a.type_info & 0xf, a.raw.len());
                *accepted.entry(key).or_default() += 1;
            }
        }
    }
    for (k, v) in &accepted {
        println!("{} x{}", k, v);
    }
}
