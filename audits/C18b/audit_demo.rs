// audit C18b: verbose payloads, clause "a truncated or malformed argument list decodes to a
// prefix of the original arguments" for single-field corruptions of the type_info field.
// Both tests fail on the unchanged code.
use adlt::dlt::*;
use adlt::utils::payload_from_args;

fn decode(payload: &[u8], be: bool) -> (Vec<(u32, Vec<u8>)>, String) {
    let m = DltMessage::get_testmsg_with_payload(be, 0, payload);
    let args = m
        .into_iter()
        .map(|a| (a.type_info, a.payload_raw.to_vec()))
        .collect();
    let text = m.payload_as_text().unwrap().into_owned();
    (args, text)
}

fn is_prefix(dec: &[(u32, Vec<u8>)], orig: &[(u32, Vec<u8>)]) -> bool {
    dec.len() <= orig.len() && dec.iter().zip(orig).all(|(a, b)| a == b)
}

const ARAY: u32 = 0x100; // DLT_TYPE_INFO_ARAY (private in adlt::dlt)

/// Finding 1: the "array" bit of the type info is ignored as soon as a base type bit is set.
/// An array argument has a different layout (u16 nr of dimensions, u16 entries per dimension, data)
/// and is not supported, so the list has to end there (as it does for VARI and FIXP).
#[test]
fn aray_bit_is_ignored_and_arg_decoded_as_scalar() {
    for be in [false, true] {
        // (a) single-field corruption: [u8 7, u8 9] with bit 8 set in the type info of the first arg
        let orig = vec![
            (DLT_TYPE_INFO_UINT | 1, vec![7u8]),
            (DLT_TYPE_INFO_UINT | 1, vec![9u8]),
        ];
        let dargs: Vec<DltArg> = orig
            .iter()
            .map(|(t, r)| DltArg {
                type_info: *t,
                is_big_endian: be,
                payload_raw: r,
            })
            .collect();
        let mut payload = payload_from_args(&dargs);
        let idx = if be { 2 } else { 1 };
        assert_eq!(payload[idx], 0);
        payload[idx] = (ARAY >> 8) as u8;
        let (dec, text) = decode(&payload, be);
        println!("be={} corrupted: dec={:x?} text={:?}", be, dec, text);

        // (b) what that bit means: a well-formed (but unsupported) u8 array [7, 9]
        let mut arr = vec![];
        let ti = DLT_TYPE_INFO_UINT | ARAY | 1;
        let (ndim, cnt) = (1u16, 2u16);
        if be {
            arr.extend_from_slice(&ti.to_be_bytes());
            arr.extend_from_slice(&ndim.to_be_bytes());
            arr.extend_from_slice(&cnt.to_be_bytes());
        } else {
            arr.extend_from_slice(&ti.to_le_bytes());
            arr.extend_from_slice(&ndim.to_le_bytes());
            arr.extend_from_slice(&cnt.to_le_bytes());
        }
        arr.extend_from_slice(&[7, 9]);
        let (dec_arr, text_arr) = decode(&arr, be);
        println!("be={} array: dec={:x?} text={:?}", be, dec_arr, text_arr);

        assert!(
            is_prefix(&dec, &orig),
            "be={}: decoded {:x?} (text {:?}) is no prefix of the original {:x?}",
            be,
            dec,
            text,
            orig
        );
        assert!(
            dec_arr.is_empty() && text_arr.is_empty(),
            "be={}: u8 array [7,9] decoded as {:x?}, text {:?}",
            be,
            dec_arr,
            text_arr
        );
    }
}

/// Finding 2: a bool with a reserved length code (tyle 6..15) is accepted as a 1 byte bool.
/// The exception for the dlt-viewer bug (tyle 0) is applied to every tyle that is mapped to "len 0".
#[test]
fn bool_with_reserved_tyle_is_accepted() {
    for be in [false, true] {
        let orig = vec![
            (DLT_TYPE_INFO_BOOL | 1, vec![1u8]),
            (DLT_TYPE_INFO_UINT | 1, vec![9u8]),
        ];
        let dargs: Vec<DltArg> = orig
            .iter()
            .map(|(t, r)| DltArg {
                type_info: *t,
                is_big_endian: be,
                payload_raw: r,
            })
            .collect();
        let payload = payload_from_args(&dargs);
        let idx = if be { 3 } else { 0 };
        assert_eq!(payload[idx], 0x11);
        let mut failures = vec![];
        for tyle in 2u8..=15 {
            let mut p = payload.clone();
            p[idx] = 0x10 | tyle;
            let (dec, text) = decode(&p, be);
            if !is_prefix(&dec, &orig) {
                failures.push(format!("tyle={} dec={:x?} text={:?}", tyle, dec, text));
            }
        }
        assert!(
            failures.is_empty(),
            "be={}: not a prefix of {:x?}:\n{}",
            be,
            orig,
            failures.join("\n")
        );
    }
}
