// exploration harness (not a deliverable)
use adlt::dlt::*;
use adlt::utils::sorting_multi_readeriterator::{SequentialMultiIterator, SortingMultiReaderIterator};
use adlt::utils::{DltMessageIterator, LowMarkBufReader};
use std::io::Read;

struct Rng(u64);
impl Rng {
    fn next(&mut self) -> u64 {
        self.0 ^= self.0 << 13;
        self.0 ^= self.0 >> 7;
        self.0 ^= self.0 << 17;
        self.0
    }
    fn below(&mut self, n: u64) -> u64 {
        self.next() % n
    }
}

/// reader that returns 1..=k bytes per read
struct Chunked<'a> {
    data: &'a [u8],
    pos: usize,
    k: usize,
    rng: Rng,
}
impl Read for Chunked<'_> {
    fn read(&mut self, buf: &mut [u8]) -> std::io::Result<usize> {
        if buf.is_empty() {
            return Ok(0);
        }
        let want = 1 + self.rng.below(self.k as u64) as usize;
        let n = want.min(buf.len()).min(self.data.len() - self.pos);
        buf[..n].copy_from_slice(&self.data[self.pos..self.pos + n]);
        self.pos += n;
        Ok(n)
    }
}

#[derive(Debug, Clone)]
struct Gen {
    serial: bool,
    secs: u32,
    micros: u32,
    secu: [u8; 4],
    htyp: u8,
    mcnt: u8,
    ecu: [u8; 4],
    sid: u32,
    ts: u32,
    ext: [u8; 10],
    payload: Vec<u8>,
}

impl Gen {
    fn bytes(&self) -> Vec<u8> {
        let mut v = vec![];
        if self.serial {
            v.extend_from_slice(b"DLS\x01");
        } else {
            v.extend_from_slice(b"DLT\x01");
            v.extend_from_slice(&self.secs.to_le_bytes());
            v.extend_from_slice(&self.micros.to_le_bytes());
            v.extend_from_slice(&self.secu);
        }
        let mut hl = 4usize;
        if self.htyp & 4 != 0 {
            hl += 4
        }
        if self.htyp & 8 != 0 {
            hl += 4
        }
        if self.htyp & 16 != 0 {
            hl += 4
        }
        if self.htyp & 1 != 0 {
            hl += 10
        }
        let len = (hl + self.payload.len()) as u16;
        v.push(self.htyp);
        v.push(self.mcnt);
        v.extend_from_slice(&len.to_be_bytes());
        if self.htyp & 4 != 0 {
            v.extend_from_slice(&self.ecu)
        }
        if self.htyp & 8 != 0 {
            v.extend_from_slice(&self.sid.to_be_bytes())
        }
        if self.htyp & 16 != 0 {
            v.extend_from_slice(&self.ts.to_be_bytes())
        }
        if self.htyp & 1 != 0 {
            v.extend_from_slice(&self.ext)
        }
        v.extend_from_slice(&self.payload);
        v
    }
    fn hdr_len(&self) -> usize {
        let mut hl = 4usize;
        if self.htyp & 4 != 0 {
            hl += 4
        }
        if self.htyp & 8 != 0 {
            hl += 4
        }
        if self.htyp & 16 != 0 {
            hl += 4
        }
        if self.htyp & 1 != 0 {
            hl += 10
        }
        hl
    }
    fn check(&self, m: &DltMessage, idx: u32) -> Result<(), String> {
        let e = |s: &str| Err(format!("msg #{} field {} differs: {:?} vs {:?}", idx, s, m, self.htyp));
        if m.index != idx {
            return e("index");
        }
        if !self.serial {
            if m.reception_time_us != self.secs as u64 * 1_000_000 + self.micros as u64 {
                return e("rt");
            }
        }
        let exp_ecu = if self.htyp & 4 != 0 {
            self.ecu
        } else if self.serial {
            [b'D', b'L', b'S', 0]
        } else {
            self.secu
        };
        if m.ecu.as_buf() != &exp_ecu {
            return e("ecu");
        }
        if m.timestamp_dms != if self.htyp & 16 != 0 { self.ts } else { 0 } {
            return e("ts");
        }
        if m.standard_header.htyp != self.htyp || m.standard_header.mcnt != self.mcnt {
            return e("stdh");
        }
        if m.standard_header.len as usize != self.hdr_len() + self.payload.len() {
            return e("len");
        }
        match &m.extended_header {
            None => {
                if self.htyp & 1 != 0 {
                    return e("ext none");
                }
            }
            Some(x) => {
                if self.htyp & 1 == 0 {
                    return e("ext some");
                }
                if x.verb_mstp_mtin != self.ext[0]
                    || x.noar != self.ext[1]
                    || x.apid.as_buf() != &self.ext[2..6]
                    || x.ctid.as_buf() != &self.ext[6..10]
                {
                    return e("ext");
                }
            }
        }
        if m.payload != self.payload {
            return e("payload");
        }
        Ok(())
    }
}

fn gen_msg(rng: &mut Rng, serial: bool, no_d: bool, embed: bool) -> Gen {
    let htyp = (rng.below(32) as u8) | (1 << 5);
    let mut g = Gen {
        serial,
        secs: rng.next() as u32,
        micros: rng.below(1_000_000) as u32,
        secu: [b'E', b'C', b'U', b'0' + rng.below(10) as u8],
        htyp,
        mcnt: rng.next() as u8,
        ecu: [b'e', b'c', b'u', b'0' + rng.below(10) as u8],
        sid: rng.next() as u32,
        ts: rng.next() as u32,
        ext: [0; 10],
        payload: vec![],
    };
    for b in g.ext.iter_mut() {
        *b = rng.next() as u8;
        if no_d && *b == b'D' {
            *b = b'd';
        }
    }
    if no_d {
        // header fields must not contain 'D' either
        let fix = |x: u32| -> u32 {
            let mut b = x.to_le_bytes();
            for c in b.iter_mut() {
                if *c == b'D' {
                    *c = b'd'
                }
            }
            u32::from_le_bytes(b)
        };
        g.secs = fix(g.secs);
        g.micros = fix(g.micros);
        g.sid = fix(g.sid);
        g.ts = fix(g.ts);
        if g.mcnt == b'D' {
            g.mcnt = 0;
        }
    }
    let hl = g.hdr_len();
    let maxp = 65535 - hl;
    let plen = match rng.below(20) {
        0 => maxp,
        1 => maxp - rng.below(8) as usize,
        2 => rng.below(maxp as u64 + 1) as usize,
        3 => 0,
        _ => rng.below(64) as usize,
    };
    let mut p: Vec<u8> = (0..plen).map(|_| rng.next() as u8).collect();
    if no_d {
        for b in p.iter_mut() {
            if *b == b'D' {
                *b = b'd'
            }
        }
        // len bytes may be 'D' -> regenerate by tweaking payload len
        let len = (hl + p.len()) as u16;
        let lb = len.to_be_bytes();
        if lb[0] == b'D' || lb[1] == b'D' {
            if p.is_empty() {
                p.push(0)
            } else {
                p.pop();
            }
            let len = (hl + p.len()) as u16;
            let lb = len.to_be_bytes();
            if lb[0] == b'D' || lb[1] == b'D' {
                p.truncate(3);
            }
        }
    }
    if embed && p.len() >= 4 {
        let at = rng.below(p.len() as u64 - 3) as usize;
        let pat: &[u8; 4] = if serial { b"DLT\x01" } else { b"DLS\x01" };
        for b in p.iter_mut() { if *b == b'D' { *b = b'd' } }
        p[at..at + 4].copy_from_slice(pat);
    }
    g.payload = p;
    g
}

fn gen_garbage(rng: &mut Rng) -> Vec<u8> {
    let n = match rng.below(10) {
        0..=3 => 0,
        4..=6 => rng.below(8) as usize,
        7 => rng.below(40) as usize,
        8 => rng.below(5000) as usize,
        _ => rng.below(70000) as usize,
    };
    (0..n)
        .map(|_| {
            let b = rng.next() as u8;
            if b == b'D' {
                b'd'
            } else {
                b
            }
        })
        .collect()
}

fn collect<R: std::io::BufRead>(it: &mut DltMessageIterator<R>) -> Vec<DltMessage> {
    let mut v = vec![];
    for m in it {
        v.push(m);
    }
    v
}

fn run_case(seed: u64, serial: bool, embed: bool, garbage: bool) -> Result<(), String> {
    let mut rng = Rng(seed | 1);
    let n = rng.below(8) as usize;
    let mut msgs = vec![];
    let mut data = vec![];
    let mut msg_bytes = 0usize;
    if garbage {
        data.extend(gen_garbage(&mut rng));
    }
    for _ in 0..n {
        let g = gen_msg(&mut rng, serial, !embed, embed);
        let b = g.bytes();
        msg_bytes += b.len();
        data.extend(b);
        msgs.push(g);
        if garbage {
            data.extend(gen_garbage(&mut rng));
        }
    }
    let start = rng.below(1000) as u32;
    // whole slice
    let mut it = DltMessageIterator::new(start, &data[..]);
    let got = collect(&mut it);
    if got.len() != msgs.len() {
        return Err(format!("slice: got {} msgs expected {}", got.len(), msgs.len()));
    }
    for (i, (g, m)) in msgs.iter().zip(got.iter()).enumerate() {
        g.check(m, start + i as u32)?;
    }
    let left = data.len() - it.bytes_processed;
    if it.bytes_processed - it.bytes_skipped != msg_bytes {
        return Err(format!(
            "slice: accounting processed {} skipped {} msg_bytes {} total {}",
            it.bytes_processed,
            it.bytes_skipped,
            msg_bytes,
            data.len()
        ));
    }
    let lim = 20;
    if left >= lim && n > 0 {
        return Err(format!("slice: left {} bytes unaccounted", left));
    }
    // chunked
    for k in [1usize, 3, 4096, 70000] {
        if k == 1 && data.len() > 200_000 {
            continue;
        }
        for cap in [DLT_MIN_PARSE_BUFFER_SIZE + 4096, DLT_MIN_PARSE_BUFFER_SIZE + 4096 + 1 + (seed as usize % 5000), 512 * 1024] {
            let rd = Chunked {
                data: &data,
                pos: 0,
                k,
                rng: Rng(seed ^ 0xdeadbeef | 1),
            };
            let mut it2 =
                DltMessageIterator::new(start, LowMarkBufReader::new(rd, cap, DLT_MIN_PARSE_BUFFER_SIZE));
            let got2 = collect(&mut it2);
            if got2 != got {
                return Err(format!("chunked k={} cap={}: differs {} vs {}", k, cap, got2.len(), got.len()));
            }
            if it2.bytes_processed != it.bytes_processed || it2.bytes_skipped != it.bytes_skipped {
                return Err(format!("chunked k={} cap={}: accounting differs", k, cap));
            }
        }
    }
    // roundtrip
    for m in &got {
        let mut b1 = vec![];
        m.to_write(&mut b1).unwrap();
        let (c, m1) = parse_dlt_with_storage_header(m.index, &b1).map_err(|e| format!("rt parse {}", e))?;
        if c != b1.len() {
            return Err("rt consume".into());
        }
        let mut b2 = vec![];
        m1.to_write(&mut b2).unwrap();
        if b1 != b2 {
            return Err("rt bytes".into());
        }
        if m1.ecu != m.ecu
            || m1.reception_time_us != m.reception_time_us
            || m1.timestamp_dms != m.timestamp_dms
            || m1.payload != m.payload
            || m1.extended_header != m.extended_header
            || m1.standard_header.mcnt != m.standard_header.mcnt
            || m1.standard_header.is_big_endian() != m.standard_header.is_big_endian()
        {
            return Err(format!("rt msg {:?} vs {:?}", m, m1));
        }
    }
    Ok(())
}

#[test]
fn explore_clean() {
    let mut fails = 0;
    for seed in 1..400u64 {
        for serial in [false, true] {
            for garbage in [false, true] {
                if let Err(e) = run_case(seed * 7919, serial, false, garbage) {
                    println!("seed {} serial {} garbage {}: {}", seed, serial, garbage, e);
                    fails += 1;
                }
            }
        }
    }
    assert_eq!(fails, 0);
}

#[test]
fn explore_embed() {
    let mut fails = 0;
    for seed in 1..400u64 {
        for serial in [false, true] {
            for garbage in [false, true] {
                if let Err(e) = run_case(seed * 7919, serial, true, garbage) {
                    println!("seed {} serial {} garbage {}: {}", seed, serial, garbage, e);
                    fails += 1;
                }
            }
        }
    }
    assert_eq!(fails, 0);
}

// ---- lowmark reader alone
#[test]
fn explore_lowmark() {
    for seed in 1..300u64 {
        let mut rng = Rng(seed * 104729);
        let n = rng.below(300_000) as usize;
        let data: Vec<u8> = (0..n).map(|_| rng.next() as u8).collect();
        let low = 1 + rng.below(70000) as usize;
        let cap = low + 4096 + rng.below(3) as usize * rng.below(10000) as usize;
        let k = [1usize, 7, 4096, 100000][rng.below(4) as usize];
        if k == 1 && n > 100_000 {
            continue;
        }
        let rd = Chunked { data: &data, pos: 0, k, rng: Rng(seed | 1) };
        let mut r = LowMarkBufReader::new(rd, cap, low);
        let mut out = vec![];
        use std::io::BufRead;
        loop {
            let b = r.fill_buf().unwrap();
            let avail = b.len();
            let remaining_src = n - out.len();
            assert!(avail <= remaining_src);
            assert!(avail >= low.min(remaining_src), "seed {} avail {} low {} rem {}", seed, avail, low, remaining_src);
            assert_eq!(b, &data[out.len()..out.len() + avail]);
            if avail == 0 {
                break;
            }
            let c = 1 + rng.below(avail as u64) as usize;
            let c = if rng.below(3) == 0 { c.min(1 + rng.below(100) as usize) } else { c };
            out.extend_from_slice(&b[..c]);
            r.consume(c);
        }
        assert_eq!(out, data);
    }
}

// ---- merging
fn mk(rt: u64, tag: u32) -> DltMessage {
    let sh = DltStorageHeader { secs: 0, micros: 0, ecu: DltChar4::from_buf(b"ECU1") };
    let stdh = DltStandardHeader { htyp: 1 << 5, mcnt: 0, len: 8 };
    let mut m = DltMessage::from_headers(tag, sh, stdh, &[], tag.to_le_bytes().to_vec());
    m.reception_time_us = rt;
    m
}

#[test]
fn explore_merge() {
    for seed in 1..3000u64 {
        let mut rng = Rng(seed * 15485863);
        let k = rng.below(5) as usize;
        let mode = rng.below(3);
        let mut srcs: Vec<Vec<DltMessage>> = vec![];
        let mut tag = 0u32;
        for _ in 0..k {
            let n = rng.below(5) as usize;
            let mut t = rng.below(5);
            let mut v = vec![];
            for _ in 0..n {
                match mode {
                    0 => {}
                    1 => t += rng.below(3),
                    _ => t = rng.below(6),
                }
                v.push(mk(t, tag));
                tag += 1;
            }
            srcs.push(v);
        }
        let start = rng.below(100) as u32;
        for variant in 0..4 {
            let its: Vec<Box<dyn Iterator<Item = DltMessage>>> =
                srcs.iter().cloned().map(|v| Box::new(v.into_iter()) as Box<dyn Iterator<Item = DltMessage>>).collect();
            let out: Vec<DltMessage> = match variant {
                0 => SortingMultiReaderIterator::new(start, its).collect(),
                1 => SortingMultiReaderIterator::new_or_single_it(start, its).collect(),
                2 => SequentialMultiIterator::new(start, its.into_iter()).collect(),
                _ => SequentialMultiIterator::new_or_single_it(start, its.into_iter()).collect(),
            };
            if k == 1 && (variant == 1 || variant == 3) { continue; }
            assert_eq!(out.len(), tag as usize, "seed {} variant {}", seed, variant);
            for (i, m) in out.iter().enumerate() {
                assert_eq!(m.index, start + i as u32, "seed {} variant {} k {}", seed, variant, k);
            }
            // per source order
            let tags: Vec<u32> = out.iter().map(|m| u32::from_le_bytes([m.payload[0], m.payload[1], m.payload[2], m.payload[3]])).collect();
            let mut sorted = tags.clone();
            sorted.sort();
            sorted.dedup();
            assert_eq!(sorted.len(), tag as usize);
            let mut base = 0u32;
            for s in &srcs {
                let sub: Vec<u32> = tags.iter().cloned().filter(|t| *t >= base && *t < base + s.len() as u32).collect();
                let mut ss = sub.clone();
                ss.sort();
                assert_eq!(sub, ss);
                base += s.len() as u32;
            }
            if variant >= 2 {
                let mut ss = tags.clone();
                ss.sort();
                assert_eq!(tags, ss);
            } else if mode != 2 {
                for w in out.windows(2) {
                    assert!(w[0].reception_time_us <= w[1].reception_time_us);
                }
            }
        }
    }
}
