// Audit C09 (merging P1 / framing and chunking P2): demonstrations on the unchanged code.
// One #[test] per finding. Every test states what the property demands and fails on what the code does.
use adlt::dlt::*;
use adlt::utils::sorting_multi_readeriterator::{
    SequentialMultiIterator, SortingMultiReaderIterator,
};
use adlt::utils::{DltMessageIterator, LowMarkBufReader};

// ---------------------------------------------------------------- helpers

/// storage framed message: DLT\x01 secs micros ecu | htyp mcnt len [ts] | payload
fn storage_msg(mcnt: u8, ts: Option<u32>, payload: &[u8]) -> Vec<u8> {
    let mut v = b"DLT\x01".to_vec();
    v.extend_from_slice(&1_700_000_000u32.to_le_bytes());
    v.extend_from_slice(&(mcnt as u32).to_le_bytes());
    v.extend_from_slice(b"ECU1");
    v.extend(std_part(mcnt, ts, payload));
    v
}
/// serial framed message: DLS\x01 | htyp mcnt len [ts] | payload
fn serial_msg(mcnt: u8, ts: Option<u32>, payload: &[u8]) -> Vec<u8> {
    let mut v = b"DLS\x01".to_vec();
    v.extend(std_part(mcnt, ts, payload));
    v
}
fn std_part(mcnt: u8, ts: Option<u32>, payload: &[u8]) -> Vec<u8> {
    let mut v = vec![];
    let htyp: u8 = (1 << 5) | if ts.is_some() { 1 << 4 } else { 0 };
    let len = (4 + if ts.is_some() { 4 } else { 0 } + payload.len()) as u16;
    v.push(htyp);
    v.push(mcnt);
    v.extend_from_slice(&len.to_be_bytes());
    if let Some(t) = ts {
        v.extend_from_slice(&t.to_be_bytes());
    }
    v.extend_from_slice(payload);
    v
}
fn contains(hay: &[u8], needle: &[u8]) -> bool {
    hay.windows(needle.len()).any(|w| w == needle)
}
/// (mcnt, payload) of all messages the iterator yields, once over the whole slice and once over a
/// LowMarkBufReader (low mark DLT_MIN_PARSE_BUFFER_SIZE) over a one-byte-at-a-time reader
fn iterate(data: &[u8]) -> Vec<(u8, Vec<u8>)> {
    struct OneByte<'a>(&'a [u8]);
    impl std::io::Read for OneByte<'_> {
        fn read(&mut self, buf: &mut [u8]) -> std::io::Result<usize> {
            if buf.is_empty() || self.0.is_empty() {
                return Ok(0);
            }
            buf[0] = self.0[0];
            self.0 = &self.0[1..];
            Ok(1)
        }
    }
    let a: Vec<_> = DltMessageIterator::new(0, data)
        .map(|m| (m.mcnt(), m.payload))
        .collect();
    let b: Vec<_> = DltMessageIterator::new(
        0,
        LowMarkBufReader::new(
            OneByte(data),
            DLT_MIN_PARSE_BUFFER_SIZE + 4096,
            DLT_MIN_PARSE_BUFFER_SIZE,
        ),
    )
    .map(|m| (m.mcnt(), m.payload))
    .collect();
    assert_eq!(a, b, "slice and chunked reading agree (they do)");
    a
}

fn mk(rt: u64, tag: u32) -> DltMessage {
    let sh = DltStorageHeader {
        secs: 0,
        micros: 0,
        ecu: DltChar4::from_buf(b"ECU1"),
    };
    let stdh = DltStandardHeader {
        htyp: 1 << 5,
        mcnt: 0,
        len: 8,
    };
    let mut m = DltMessage::from_headers(tag, sh, stdh, &[], tag.to_le_bytes().to_vec());
    m.reception_time_us = rt;
    m
}
fn boxed<'a>(v: Vec<DltMessage>) -> Box<dyn Iterator<Item = DltMessage> + 'a> {
    Box::new(v.into_iter())
}

// ---------------------------------------------------------------- F1 (P2)

/// P2 "yields exactly those messages": a well-formed message that is followed by >= 4 bytes of
/// garbage is dropped as soon as the 4 marker bytes occur anywhere at offset 5.. of the message
/// (embedded in the payload, in a header field, or straddling the message end and the garbage).
/// Cause: the "probably corrupt msg" heuristic in parse_dlt_with_storage_header /
/// parse_dlt_with_serial_header.
#[test]
fn f1_message_followed_by_garbage_is_dropped_when_marker_bytes_occur_in_it() {
    let mut failures: Vec<String> = vec![];
    let garbage = [0u8, 0, 0, 0];

    // (a) storage framing, marker embedded in the payload of the first message
    {
        let p1 = b"abDLT\x01cd".to_vec();
        let p2 = b"second".to_vec();
        let mut data = storage_msg(1, None, &p1);
        data.extend_from_slice(&garbage);
        data.extend(storage_msg(2, None, &p2));
        let got = iterate(&data);
        let want = vec![(1u8, p1), (2u8, p2)];
        if got != want {
            failures.push(format!("(a) storage/embedded: want {:?}\n      got {:?}", want, got));
        }
    }
    // (b) storage framing, neither the payload nor the garbage contains a marker: the payload ends with
    // "DLT", the garbage starts with 0x01
    {
        let p1 = b"abcDLT".to_vec();
        let g = [1u8, 0, 0, 0];
        let p2 = b"second".to_vec();
        assert!(!contains(&p1, b"DLT\x01") && !contains(&g, b"DLT\x01"));
        let mut data = storage_msg(1, None, &p1);
        data.extend_from_slice(&g);
        data.extend(storage_msg(2, None, &p2));
        let got = iterate(&data);
        let want = vec![(1u8, p1), (2u8, p2)];
        if got != want {
            failures.push(format!("(b) storage/straddling: want {:?}\n      got {:?}", want, got));
        }
    }
    // (c) storage framing, empty payload, the timestamp header field is 0x444c5401 (31.8 h of uptime)
    {
        let p2 = b"second".to_vec();
        let mut data = storage_msg(1, Some(0x444c_5401), &[]);
        data.extend_from_slice(&garbage);
        data.extend(storage_msg(2, None, &p2));
        let got = iterate(&data);
        let want = vec![(1u8, vec![]), (2u8, p2)];
        if got != want {
            failures.push(format!("(c) storage/timestamp field: want {:?}\n      got {:?}", want, got));
        }
    }
    // (d) serial framing, marker embedded in the payload
    {
        let p1 = b"abDLS\x01cd".to_vec();
        let p2 = b"second".to_vec();
        let mut data = serial_msg(1, None, &p1);
        data.extend_from_slice(&garbage);
        data.extend(serial_msg(2, None, &p2));
        let got = iterate(&data);
        let want = vec![(1u8, p1), (2u8, p2)];
        if got != want {
            failures.push(format!("(d) serial/embedded: want {:?}\n      got {:?}", want, got));
        }
    }
    // (e) storage framing, the dropped first message latches the iterator onto the wrong framing:
    // its payload also contains the 8 bytes of a minimal serial frame; every storage message of the
    // stream is lost and a message that was never sent is reported
    {
        let mut p1 = b"DLT\x01".to_vec();
        p1.extend_from_slice(b"DLS\x01\x20\x63\x00\x04");
        let mut data = storage_msg(1, None, &p1);
        data.extend_from_slice(&garbage);
        let mut want = vec![(1u8, p1)];
        for i in 2..10u8 {
            data.extend(storage_msg(i, None, &[i; 8]));
            want.push((i, vec![i; 8]));
        }
        let got = iterate(&data);
        if got != want {
            failures.push(format!(
                "(e) storage/latched onto serial: want {} msgs, got {:?}",
                want.len(),
                got
            ));
        }
    }
    // control: without the 4 garbage bytes all of these streams are read correctly
    {
        let p1 = b"abDLT\x01cd".to_vec();
        let mut data = storage_msg(1, None, &p1);
        data.extend(storage_msg(2, None, b"second"));
        assert_eq!(iterate(&data), vec![(1u8, p1), (2u8, b"second".to_vec())]);
    }
    assert!(failures.is_empty(), "\n{}", failures.join("\n"));
}

// ---------------------------------------------------------------- F2 (P2)

/// P2 "yields exactly those messages ... truncated tails, embedded frame markers": a truncated last
/// message ends a storage framed stream (nothing more is reported) but in a serial framed stream the
/// bytes of the truncated message are searched for markers, so a payload that embeds a frame is
/// reported as a message that was never sent.
#[test]
fn f2_truncated_serial_tail_is_searched_for_messages() {
    let inner = b"DLS\x01\x20\x63\x00\x04".to_vec(); // a minimal frame, mcnt 0x63
    let mut payload = vec![0xaau8; 16];
    payload.extend_from_slice(&inner);
    payload.extend_from_slice(&[0xbb; 100]);

    // storage framing: full message, then a message cut after 60 bytes
    let mut data = storage_msg(1, None, b"first");
    let tail = storage_msg(2, None, &payload);
    data.extend_from_slice(&tail[..60]);
    assert_eq!(iterate(&data), vec![(1u8, b"first".to_vec())]);

    // serial framing: same
    let mut data = serial_msg(1, None, b"first");
    let tail = serial_msg(2, None, &payload);
    data.extend_from_slice(&tail[..60]);
    assert_eq!(
        iterate(&data),
        vec![(1u8, b"first".to_vec())],
        "only the complete message may be reported"
    );
}

// ---------------------------------------------------------------- F3 (P1)

/// P1 "numbers the result consecutively from the start index ... both iterators and their
/// new_or_single_it constructors": with exactly one source the constructors hand back the source
/// itself, the start index is ignored (documented in the doc comment, but the index a caller gets
/// depends on the number of sources).
#[test]
fn f3_new_or_single_it_ignores_start_index_for_one_source() {
    let src = || vec![mk(10, 0), mk(20, 1), mk(30, 2)];
    // two sources (second one empty): numbered from 100
    let idx: Vec<u32> =
        SortingMultiReaderIterator::new_or_single_it(100, vec![boxed(src()), boxed(vec![])])
            .map(|m| m.index)
            .collect();
    assert_eq!(idx, vec![100, 101, 102]);
    let idx: Vec<u32> = SequentialMultiIterator::new_or_single_it(
        100,
        vec![boxed(src()), boxed(vec![])].into_iter(),
    )
    .map(|m| m.index)
    .collect();
    assert_eq!(idx, vec![100, 101, 102]);

    // one source
    let idx_sort: Vec<u32> = SortingMultiReaderIterator::new_or_single_it(100, vec![boxed(src())])
        .map(|m| m.index)
        .collect();
    let idx_seq: Vec<u32> =
        SequentialMultiIterator::new_or_single_it(100, vec![boxed(src())].into_iter())
            .map(|m| m.index)
            .collect();
    assert_eq!(
        (idx_sort, idx_seq),
        (vec![100, 101, 102], vec![100, 101, 102]),
        "(sorting, sequential) indices for a single source and start index 100"
    );
}

// ---------------------------------------------------------------- F4 (P1)

/// P1 "chaining sources sequentially yields their concatenation ... including when some sources are
/// empty": SequentialMultiIterator::next calls itself once per exhausted source, a run of empty
/// sources overflows the stack (10000 empty sources on a 2 MiB thread stack in a debug build).
/// The overflow aborts the process, so the chain is run in a child process.
#[test]
fn f4_sequential_many_empty_sources() {
    let exe = std::env::current_exe().unwrap();
    let out = std::process::Command::new(exe)
        .args(["--ignored", "--exact", "f4_child", "--test-threads", "1"])
        .output()
        .unwrap();
    let stderr = String::from_utf8_lossy(&out.stderr);
    assert!(
        out.status.success(),
        "chaining 20000 empty sources and one source with one message: {:?}\n{}",
        out.status,
        stderr
            .lines()
            .filter(|l| l.contains("overflow"))
            .collect::<Vec<_>>()
            .join("\n")
    );
}
#[test]
#[ignore]
fn f4_child() {
    let n = 20_000usize;
    let its = (0..n + 1).map(move |i| {
        if i < n {
            boxed(vec![])
        } else {
            boxed(vec![mk(1, 7)])
        }
    });
    let out: Vec<DltMessage> = SequentialMultiIterator::new(5, its).collect();
    assert_eq!(out.len(), 1);
    assert_eq!(out[0].index, 5);
}

// ---------------------------------------------------------------- F5 (P1/P2)

/// P1 "any start index": the iterators compute the index of the message after the last one, with the
/// start index u32::MAX (one message, numbered u32::MAX) this panics in builds with overflow checks.
#[test]
fn f5_start_index_max() {
    let r = std::panic::catch_unwind(|| {
        SortingMultiReaderIterator::new(u32::MAX, vec![boxed(vec![mk(1, 0)]), boxed(vec![])])
            .map(|m| m.index)
            .collect::<Vec<u32>>()
    });
    assert_eq!(r.ok(), Some(vec![u32::MAX]), "sorting");
    let r = std::panic::catch_unwind(|| {
        SequentialMultiIterator::new(u32::MAX, vec![boxed(vec![mk(1, 0)])].into_iter())
            .map(|m| m.index)
            .collect::<Vec<u32>>()
    });
    assert_eq!(r.ok(), Some(vec![u32::MAX]), "sequential");
}

// ---------------------------------------------------------------- F6 (P2)

/// P2 "accounts for every byte as processed or skipped ... garbage runs of any length after
/// messages": the last up to 19 bytes (storage framing) / 7 bytes (serial framing) of trailing garbage
/// are neither processed nor skipped.
#[test]
fn f6_trailing_garbage_not_accounted() {
    let mut data = storage_msg(1, None, b"first");
    let msg_len = data.len();
    data.extend_from_slice(&[0u8; 30]);
    let mut it = DltMessageIterator::new(0, &data[..]);
    assert_eq!(it.by_ref().count(), 1);
    assert_eq!(
        (it.bytes_processed, it.bytes_skipped),
        (msg_len + 30, 30),
        "(processed, skipped) for a message followed by 30 bytes of garbage"
    );
}
