// audit C06: a message's lifecycle is published (with the message's ECU) before the message is delivered
use adlt::dlt::{DltChar4, DltExtendedHeader, DltMessage, DltStandardHeader};
use adlt::lifecycle::{parse_lifecycles_buffered_from_stream, LifecycleId, LifecycleItem};
use std::sync::mpsc::sync_channel;

const HAS_TMSP: u8 = 0x10;
const BASE_REAL_US: u64 = 1_640_995_200_000_000;

struct Rng(u64);
impl Rng {
    fn next(&mut self) -> u64 {
        // xorshift64*
        let mut x = self.0;
        x ^= x >> 12;
        x ^= x << 25;
        x ^= x >> 27;
        self.0 = x;
        x.wrapping_mul(0x2545F4914F6CDD1D)
    }
    fn below(&mut self, n: u64) -> u64 {
        self.next() % n
    }
    fn chance(&mut self, pct: u64) -> bool {
        self.below(100) < pct
    }
}

fn mk(index: u32, ecu: &[u8; 4], rcv_us: u64, tmsp_dms: u32, kind: u8) -> DltMessage {
    // kind: 0 log, 1 ctrl request, 2 without timestamp, 3 ctrl response
    DltMessage {
        index,
        reception_time_us: rcv_us,
        ecu: DltChar4::from_buf(ecu),
        timestamp_dms: tmsp_dms,
        standard_header: DltStandardHeader {
            htyp: if kind == 2 { 0 } else { HAS_TMSP },
            len: 0,
            mcnt: 0,
        },
        extended_header: match kind {
            1 => Some(DltExtendedHeader {
                verb_mstp_mtin: (0x3 << 1) | (0x01 << 4),
                noar: 0,
                apid: DltChar4::from_buf(b"APID"),
                ctid: DltChar4::from_buf(b"CTID"),
            }),
            3 => Some(DltExtendedHeader {
                verb_mstp_mtin: (0x3 << 1) | (0x02 << 4),
                noar: 0,
                apid: DltChar4::from_buf(b"APID"),
                ctid: DltChar4::from_buf(b"CTID"),
            }),
            _ => None,
        },
        payload: vec![],
        payload_text: None,
        lifecycle: 0,
    }
}

/// random stream generator: a few ecus, each with lifecycles (uptime reset), buffering delays, gaps,
/// resumes, control requests, msgs without timestamps, timestamp 0, invalid timestamps
fn gen_stream(seed: u64, n: usize) -> Vec<DltMessage> {
    let mut r = Rng(seed.wrapping_mul(0x9E3779B97F4A7C15) | 1);
    #[allow(non_snake_case)]
    let BASE_US: u64 = if r.chance(20) { 1_000_000 } else { BASE_REAL_US };
    let ecus: [&[u8; 4]; 3] = [b"ECU1", b"ECU2", b"ECU3"];
    let nr_ecus = 1 + r.below(3) as usize;
    // per ecu: uptime in us
    let mut uptime = [0u64; 3];
    for u in uptime.iter_mut() {
        *u = r.below(100_000_000);
    }
    let mut now = BASE_US + r.below(1_000_000_000);
    let mut v = Vec::with_capacity(n);
    // time step profile
    let step_max = [1_000u64, 100_000, 1_000_000, 5_000_000, 30_000_000, 100_000_000][r.below(6) as usize];
    let reboot_rate = [30u64, 100, 300, 600][r.below(4) as usize];
    let small_boot = r.chance(50);
    for i in 0..n {
        let e = r.below(nr_ecus as u64) as usize;
        let step = r.below(step_max) + 1;
        now += step;
        for u in uptime.iter_mut() {
            *u += step;
        }
        // events
        let ev = r.below(1000);
        if ev < reboot_rate {
            // reboot: uptime reset to small
            uptime[e] = if small_boot { r.below(2_000_000) } else { r.below(20_000_000) };
        } else if ev < reboot_rate + 10 {
            // long gap then reboot
            now += r.below(200_000_000);
            uptime[e] = r.below(5_000_000);
        } else if ev < reboot_rate + 20 {
            // suspend: reception time jumps, uptime continues
            now += 10_000_000 + r.below(100_000_000);
        } else if ev < reboot_rate + 25 {
            // reception time goes backwards a bit
            now -= r.below(3_000_000).min(now - BASE_US);
        }
        let buf_delay = if r.chance(10) {
            r.below(70_000_000)
        } else {
            r.below(2_000_000)
        };
        let mut ts_us = uptime[e].saturating_sub(buf_delay);
        let mut kind = 0u8;
        let k = r.below(100);
        if k < 5 {
            kind = 1;
            ts_us = r.below(1_000_000_000);
        } else if k < 8 {
            kind = 2;
            ts_us = 0;
        } else if k < 11 {
            ts_us = 0;
        } else if k < 13 {
            ts_us = (now - BASE_US) + BASE_US / 2 + r.below(1_000_000); // invalid: > reception time? (clamped below)
        } else if k < 15 {
            kind = 3;
        } else if k < 17 {
            ts_us = r.below(400_000_000_000); // arbitrary
        }
        let dms = (ts_us / 100).min(u32::MAX as u64) as u32;
        v.push(mk(i as u32 + 1, ecus[e], now, dms, kind));
    }
    v
}

fn run_check(msgs: Vec<DltMessage>, seed: u64) -> Result<usize, String> {
    let (tx, rx) = sync_channel(0);
    let n = msgs.len();
    let fed = std::sync::Arc::new(std::sync::atomic::AtomicUsize::new(0));
    let fed2 = fed.clone();
    let feeder = std::thread::spawn(move || {
        for m in msgs {
            fed2.fetch_add(1, std::sync::atomic::Ordering::SeqCst);
            tx.send(m).unwrap();
        }
        fed2.fetch_add(1, std::sync::atomic::Ordering::SeqCst);
        drop(tx);
    });
    let seen_ids = std::cell::RefCell::new(std::collections::BTreeSet::<u32>::new());
    let mid = std::cell::Cell::new(0usize);
    let delivered_ids = std::cell::RefCell::new(std::collections::BTreeSet::<u32>::new());
    let (lcs_r, lcs_w) = evmap::Options::default()
        .with_hasher(nohash_hasher::BuildNoHashHasher::<LifecycleId>::default())
        .construct::<LifecycleId, LifecycleItem>();
    let violations = std::cell::RefCell::new(Vec::<String>::new());
    let delivered = std::cell::Cell::new(0usize);
    // reader in an other thread: rendezvous channel, answers with ok/not ok
    let (otx, orx) = sync_channel::<(u32, DltChar4, u32)>(0);
    let (atx, arx) = sync_channel::<bool>(0);
    let other_r = lcs_r.clone();
    let t = std::thread::spawn(move || {
        for (lc, ecu, _idx) in orx {
            let ok = match other_r.get_one(&lc) {
                Some(l) => l.ecu == ecu && l.id() == lc,
                None => false,
            };
            atx.send(ok).unwrap();
        }
    });
    let _lcs_w = parse_lifecycles_buffered_from_stream(lcs_w, rx, &|m: DltMessage| {
        delivered.set(delivered.get() + 1);
        if fed.load(std::sync::atomic::Ordering::SeqCst) <= n {
            mid.set(mid.get() + 1);
        }
        if let Some(rd) = lcs_r.read() {
            for (id, _) in rd.iter() {
                seen_ids.borrow_mut().insert(*id);
            }
        }
        let same = match lcs_r.get_one(&m.lifecycle) {
            Some(l) => {
                if l.ecu != m.ecu {
                    Some(format!("ecu differs {:?} vs {:?}", l.ecu, m.ecu))
                } else {
                    None
                }
            }
            None => Some("not visible (same thread)".to_string()),
        };
        if let Some(s) = same {
            violations
                .borrow_mut()
                .push(format!("seed {} msg idx {} lc {}: {}", seed, m.index, m.lifecycle, s));
        }
        delivered_ids.borrow_mut().insert(m.lifecycle);
        otx.send((m.lifecycle, m.ecu, m.index)).unwrap();
        if !arx.recv().unwrap() {
            violations.borrow_mut().push(format!(
                "seed {} msg idx {} lc {}: not visible/ecu wrong (other thread)",
                seed, m.index, m.lifecycle
            ));
        }
        Ok(())
    });
    drop(otx);
    t.join().unwrap();
    feeder.join().unwrap();
    let final_ids: std::collections::BTreeSet<u32> =
        lcs_r.read().map(|rd| rd.iter().map(|(id, _)| *id).collect()).unwrap_or_default();
    let vanished = seen_ids.borrow().difference(&final_ids).count();
    let delivered_vanished = delivered_ids.borrow().difference(&final_ids).count();
    if delivered_vanished > 0 {
        return Err(format!("seed {}: {} lifecycles of delivered msgs are not in the final table", seed, delivered_vanished));
    }
    STATS.with(|s| {
        let mut s = s.borrow_mut();
        s.0 += mid.get();
        s.1 += vanished;
        s.2 += final_ids.len();
        s.3 += n;
    });
    let v = violations.into_inner();
    if delivered.get() != n {
        return Err(format!("seed {}: delivered {} of {}", seed, delivered.get(), n));
    }
    if v.is_empty() {
        Ok(n)
    } else {
        Err(v[..v.len().min(5)].join("\n"))
    }
}

thread_local! {
    static STATS: std::cell::RefCell<(usize, usize, usize, usize)> = std::cell::RefCell::new((0, 0, 0, 0));
}

#[test]
fn fuzz_published_before_delivered() {
    let seeds: u64 = std::env::var("AUDIT_SEEDS").ok().and_then(|s| s.parse().ok()).unwrap_or(300);
    let start: u64 = std::env::var("AUDIT_START").ok().and_then(|s| s.parse().ok()).unwrap_or(1);
    let mut fails = Vec::new();
    for seed in start..start + seeds {
        let n = 20 + (seed % 17) as usize * 60;
        let msgs = gen_stream(seed, n);
        let res = std::panic::catch_unwind(|| run_check(msgs, seed));
        match res {
            Ok(Ok(_)) => {}
            Ok(Err(e)) => fails.push(e),
            Err(_) => fails.push(format!("seed {} panicked", seed)),
        }
        if fails.len() > 5 {
            break;
        }
    }
    STATS.with(|s| println!("stats: (mid-stream deliveries, vanished published lcs, final lcs, msgs) = {:?}", s.borrow()));
    assert!(fails.is_empty(), "violations:\n{}", fails.join("\n"));
}

/// same check but the stream is processed by two or three subsequent calls that pass the write handle on
/// (pre-existing, already published table at the start of the later calls)
fn run_check_chained(msgs: Vec<DltMessage>, seed: u64) -> Result<usize, String> {
    let n = msgs.len();
    let (lcs_r, mut lcs_w) = evmap::Options::default()
        .with_hasher(nohash_hasher::BuildNoHashHasher::<LifecycleId>::default())
        .construct::<LifecycleId, LifecycleItem>();
    let violations = std::cell::RefCell::new(Vec::<String>::new());
    let delivered = std::cell::Cell::new(0usize);
    let parts = 2 + (seed % 2) as usize;
    let chunk = n / parts + 1;
    let mut it = msgs.into_iter();
    for _ in 0..parts {
        let (tx, rx) = std::sync::mpsc::channel();
        for m in it.by_ref().take(chunk) {
            tx.send(m).unwrap();
        }
        drop(tx);
        lcs_w = parse_lifecycles_buffered_from_stream(lcs_w, rx, &|m: DltMessage| {
            delivered.set(delivered.get() + 1);
            match lcs_r.get_one(&m.lifecycle) {
                Some(l) if l.ecu == m.ecu => {}
                Some(l) => violations.borrow_mut().push(format!(
                    "seed {} msg idx {} lc {}: ecu differs {:?} vs {:?}",
                    seed, m.index, m.lifecycle, l.ecu, m.ecu
                )),
                None => violations.borrow_mut().push(format!(
                    "seed {} msg idx {} lc {}: not visible",
                    seed, m.index, m.lifecycle
                )),
            }
            Ok(())
        });
    }
    let v = violations.into_inner();
    if delivered.get() != n {
        return Err(format!("seed {}: delivered {} of {}", seed, delivered.get(), n));
    }
    if v.is_empty() {
        Ok(n)
    } else {
        Err(v[..v.len().min(5)].join("\n"))
    }
}

#[test]
fn fuzz_chained_calls() {
    let seeds: u64 = std::env::var("AUDIT_SEEDS").ok().and_then(|s| s.parse().ok()).unwrap_or(300);
    let start: u64 = std::env::var("AUDIT_START").ok().and_then(|s| s.parse().ok()).unwrap_or(1);
    let mut fails = Vec::new();
    for seed in start..start + seeds {
        let n = 20 + (seed % 17) as usize * 60;
        let msgs = gen_stream(seed, n);
        match std::panic::catch_unwind(|| run_check_chained(msgs, seed)) {
            Ok(Ok(_)) => {}
            Ok(Err(e)) => fails.push(e),
            Err(_) => fails.push(format!("seed {} panicked", seed)),
        }
        if fails.len() > 5 {
            break;
        }
    }
    assert!(fails.is_empty(), "violations:\n{}", fails.join("\n"));
}

/// the sample traces of the repository (dlt, asc, logcat, genlog) through the same check, also as one multi-file stream
#[test]
fn sample_files_published_before_delivered() {
    use adlt::utils::{get_dlt_message_iterator, get_new_namespace, LowMarkBufReader};
    let dir = std::path::Path::new(env!("CARGO_MANIFEST_DIR")).join("tests");
    let files = [
        "lc_ex002.dlt", "lc_ex003.dlt", "lc_ex004.dlt", "lc_ex005.dlt", "lc_ex006.dlt", "ex_1970_1_1.dlt",
        "can_example1.asc", "logcat_example1.txt", "genlog_example1.log",
    ];
    let mut all: Vec<DltMessage> = vec![];
    let mut fails = vec![];
    for (i, f) in files.iter().enumerate() {
        let p = dir.join(f);
        let fi = std::fs::File::open(&p).unwrap();
        let rd = LowMarkBufReader::new(fi, 512 * 1024, adlt::dlt::DLT_MAX_STORAGE_MSG_SIZE);
        let ext = p.extension().and_then(|s| s.to_str()).unwrap_or("");
        let it = get_dlt_message_iterator(ext, 0, rd, get_new_namespace(), None, None, None);
        let msgs: Vec<DltMessage> = it.collect();
        assert!(!msgs.is_empty(), "{} empty", f);
        if ext == "dlt" {
            assert!(msgs.iter().all(|m| m.lifecycle == 0));
        }
        let copy: Vec<DltMessage> = msgs
            .iter()
            .map(|m| DltMessage {
                index: m.index,
                reception_time_us: m.reception_time_us,
                ecu: m.ecu,
                timestamp_dms: m.timestamp_dms,
                standard_header: DltStandardHeader { htyp: m.standard_header.htyp, mcnt: m.standard_header.mcnt, len: m.standard_header.len },
                extended_header: m.extended_header.as_ref().map(|e| DltExtendedHeader { verb_mstp_mtin: e.verb_mstp_mtin, noar: e.noar, apid: e.apid, ctid: e.ctid }),
                payload: m.payload.clone(),
                payload_text: None,
                lifecycle: 0,
            })
            .collect();
        all.extend(copy);
        if let Err(e) = run_check(msgs, 100_000 + i as u64) {
            fails.push(format!("{}: {}", f, e));
        }
    }
    // all files as one stream, in file order and sorted by reception time
    let mut sorted: Vec<DltMessage> = vec![];
    let mut unsorted: Vec<DltMessage> = vec![];
    for m in all {
        let c = DltMessage {
            index: m.index, reception_time_us: m.reception_time_us, ecu: m.ecu, timestamp_dms: m.timestamp_dms,
            standard_header: DltStandardHeader { htyp: m.standard_header.htyp, mcnt: m.standard_header.mcnt, len: m.standard_header.len },
            extended_header: m.extended_header.as_ref().map(|e| DltExtendedHeader { verb_mstp_mtin: e.verb_mstp_mtin, noar: e.noar, apid: e.apid, ctid: e.ctid }),
            payload: m.payload.clone(), payload_text: None, lifecycle: 0,
        };
        sorted.push(c);
        unsorted.push(m);
    }
    sorted.sort_by_key(|m| m.reception_time_us);
    if let Err(e) = run_check(unsorted, 200_000) {
        fails.push(format!("all files in order: {}", e));
    }
    if let Err(e) = run_check(sorted, 200_001) {
        fails.push(format!("all files sorted: {}", e));
    }
    assert!(fails.is_empty(), "violations:\n{}", fails.join("\n"));
}

/// pipeline as in the binary: lifecycle detection in an own thread, bounded channel with
/// sync_sender_send_delay_if_full, consumer in an other thread with its own read handle, three pacings
#[test]
fn paced_consumer_in_other_thread() {
    let seeds: u64 = std::env::var("AUDIT_SEEDS").ok().and_then(|s| s.parse().ok()).unwrap_or(60);
    let mut fails = vec![];
    for seed in 1..=seeds {
        let n = 200 + (seed % 7) as usize * 100;
        let msgs = gen_stream(seed * 7919, n);
        let (tx, rx) = sync_channel(if seed % 2 == 0 { 0 } else { 64 });
        let (lcs_r, lcs_w) = evmap::Options::default()
            .with_hasher(nohash_hasher::BuildNoHashHasher::<LifecycleId>::default())
            .construct::<LifecycleId, LifecycleItem>();
        let cap = [1usize, 16, 100_000][(seed % 3) as usize];
        let (otx, orx) = sync_channel::<DltMessage>(cap);
        let lc_thread = std::thread::spawn(move || {
            parse_lifecycles_buffered_from_stream(lcs_w, rx, &|m| {
                adlt::utils::sync_sender_send_delay_if_full(m, &otx)
            })
        });
        let feeder = std::thread::spawn(move || {
            for m in msgs {
                tx.send(m).unwrap();
            }
        });
        let mut got = 0usize;
        for m in orx {
            got += 1;
            if seed % 3 == 0 && got % 64 == 0 {
                std::thread::sleep(std::time::Duration::from_millis(1));
            }
            match lcs_r.get_one(&m.lifecycle) {
                Some(l) if l.ecu == m.ecu => {}
                _ => fails.push(format!("seed {} msg idx {} lc {} not visible/ecu wrong", seed, m.index, m.lifecycle)),
            }
        }
        feeder.join().unwrap();
        let _w = lc_thread.join().unwrap();
        if got != n {
            fails.push(format!("seed {} delivered {} of {}", seed, got, n));
        }
        if fails.len() > 5 {
            break;
        }
    }
    assert!(fails.is_empty(), "violations:\n{}", fails.join("\n"));
}
