// audit C20b: archives (volumes read as one file; extraction faithful and confined)
use adlt::utils::unzip::extract_archives;
use std::sync::{atomic::AtomicBool, Arc};

fn crc32(data: &[u8]) -> u32 {
    let mut crc = 0xffff_ffffu32;
    for b in data {
        crc ^= *b as u32;
        for _ in 0..8 {
            crc = if crc & 1 != 0 {
                (crc >> 1) ^ 0xedb8_8320
            } else {
                crc >> 1
            };
        }
    }
    !crc
}

/// a raw zip writer (method stored) that keeps the member names exactly as given
fn raw_zip(members: &[(&str, &[u8])]) -> Vec<u8> {
    let mut out: Vec<u8> = Vec::new();
    let mut cd: Vec<u8> = Vec::new();
    for (name, data) in members {
        let offset = out.len() as u32;
        let crc = crc32(data);
        out.extend_from_slice(&0x0403_4b50u32.to_le_bytes());
        out.extend_from_slice(&20u16.to_le_bytes());
        out.extend_from_slice(&0x0800u16.to_le_bytes());
        out.extend_from_slice(&0u16.to_le_bytes());
        out.extend_from_slice(&0u16.to_le_bytes());
        out.extend_from_slice(&0x21u16.to_le_bytes());
        out.extend_from_slice(&crc.to_le_bytes());
        out.extend_from_slice(&(data.len() as u32).to_le_bytes());
        out.extend_from_slice(&(data.len() as u32).to_le_bytes());
        out.extend_from_slice(&(name.len() as u16).to_le_bytes());
        out.extend_from_slice(&0u16.to_le_bytes());
        out.extend_from_slice(name.as_bytes());
        out.extend_from_slice(data);

        cd.extend_from_slice(&0x0201_4b50u32.to_le_bytes());
        cd.extend_from_slice(&((3u16 << 8) | 20).to_le_bytes());
        cd.extend_from_slice(&20u16.to_le_bytes());
        cd.extend_from_slice(&0x0800u16.to_le_bytes());
        cd.extend_from_slice(&0u16.to_le_bytes());
        cd.extend_from_slice(&0u16.to_le_bytes());
        cd.extend_from_slice(&0x21u16.to_le_bytes());
        cd.extend_from_slice(&crc.to_le_bytes());
        cd.extend_from_slice(&(data.len() as u32).to_le_bytes());
        cd.extend_from_slice(&(data.len() as u32).to_le_bytes());
        cd.extend_from_slice(&(name.len() as u16).to_le_bytes());
        cd.extend_from_slice(&0u16.to_le_bytes());
        cd.extend_from_slice(&0u16.to_le_bytes());
        cd.extend_from_slice(&0u16.to_le_bytes());
        cd.extend_from_slice(&0u16.to_le_bytes());
        cd.extend_from_slice(&((0o100644u32) << 16).to_le_bytes());
        cd.extend_from_slice(&offset.to_le_bytes());
        cd.extend_from_slice(name.as_bytes());
    }
    let cd_offset = out.len() as u32;
    out.extend_from_slice(&cd);
    out.extend_from_slice(&0x0605_4b50u32.to_le_bytes());
    out.extend_from_slice(&0u16.to_le_bytes());
    out.extend_from_slice(&0u16.to_le_bytes());
    out.extend_from_slice(&(members.len() as u16).to_le_bytes());
    out.extend_from_slice(&(members.len() as u16).to_le_bytes());
    out.extend_from_slice(&(cd.len() as u32).to_le_bytes());
    out.extend_from_slice(&cd_offset.to_le_bytes());
    out.extend_from_slice(&0u16.to_le_bytes());
    out
}

fn logger() -> slog::Logger {
    slog::Logger::root(slog::Discard, slog::o!())
}

/// finding 1: a member reported as extracted by a later request has the content of another member
/// (alias names across two requests into the archive's temporary directory)
#[test]
fn alias_across_requests_reports_foreign_content() {
    let dir = tempfile::tempdir().unwrap();
    let zip_path = dir.path().join("alias_c20b.zip");
    std::fs::write(
        &zip_path,
        raw_zip(&[("a.dlt", b"content of a.dlt"), ("./a.dlt", b"CONTENT OF ./a.dlt")]),
    )
    .unwrap();
    let mut temp_dirs = vec![];
    let cancel = Arc::new(AtomicBool::new(false));
    let first = extract_archives(
        format!("{}!/a.dlt", zip_path.display()),
        &mut temp_dirs,
        &cancel,
        &logger(),
    );
    assert_eq!(first.len(), 1, "{:?}", first);
    assert_eq!(std::fs::read(&first[0]).unwrap(), b"content of a.dlt");

    let second = extract_archives(
        format!("{}!/./a.dlt", zip_path.display()),
        &mut temp_dirs,
        &cancel,
        &logger(),
    );
    println!("second request reported {:?}", second);
    // every reported file has the content of its member (`./a.dlt`), or the member is not reported
    for f in &second {
        assert_eq!(
            String::from_utf8_lossy(&std::fs::read(f).unwrap()),
            "CONTENT OF ./a.dlt",
            "reported file {} for the member './a.dlt' has the content of another member",
            f
        );
    }
}

/// finding 2: the listing of an archive is taken from a cache keyed by the path only.
/// A different archive under the same path (within 60s, refreshed on each access)
/// gets the members of the old one: matching members are not extracted.
#[test]
fn stale_listing_for_a_new_archive_under_the_same_path() {
    let dir = tempfile::tempdir().unwrap();
    let zip_path = dir.path().join("stale_c20b.zip");
    let cancel = Arc::new(AtomicBool::new(false));

    std::fs::write(&zip_path, raw_zip(&[("old.dlt", b"old")])).unwrap();
    let mut temp_dirs = vec![];
    let first = extract_archives(
        zip_path.display().to_string(),
        &mut temp_dirs,
        &cancel,
        &logger(),
    );
    assert_eq!(first.len(), 1, "{:?}", first);
    assert!(first[0].ends_with("old.dlt"));
    drop(temp_dirs);

    // a new archive with another member
    std::fs::write(&zip_path, raw_zip(&[("new.dlt", b"new")])).unwrap();
    let mut temp_dirs = vec![];
    let second = extract_archives(
        zip_path.display().to_string(),
        &mut temp_dirs,
        &cancel,
        &logger(),
    );
    println!("second request reported {:?}", second);
    assert_eq!(second.len(), 1, "member new.dlt not extracted: {:?}", second);
    assert!(second[0].ends_with("new.dlt"));
    assert_eq!(std::fs::read(&second[0]).unwrap(), b"new");
}

