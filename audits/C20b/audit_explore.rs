// audit C20b, explorations that PASS on the unchanged code: archives (volumes read as one file; extraction faithful and confined)
use adlt::utils::seekablechain::SeekableChain;
use adlt::utils::unzip::{extract_archives, extract_to_dir};
use std::collections::HashMap;
use std::io::{Cursor, Read, Seek, SeekFrom};
use std::path::Path;
use std::sync::{atomic::AtomicBool, Arc};

fn crc32(data: &[u8]) -> u32 {
    let mut crc = 0xffff_ffffu32;
    for b in data {
        crc ^= *b as u32;
        for _ in 0..8 {
            crc = if crc & 1 != 0 {
                (crc >> 1) ^ 0xedb8_8320
            } else {
                crc >> 1
            };
        }
    }
    !crc
}

/// a raw zip writer (method stored) that keeps the member names exactly as given
fn raw_zip(members: &[(&str, &[u8])]) -> Vec<u8> {
    let mut out: Vec<u8> = Vec::new();
    let mut cd: Vec<u8> = Vec::new();
    for (name, data) in members {
        let offset = out.len() as u32;
        let crc = crc32(data);
        out.extend_from_slice(&0x0403_4b50u32.to_le_bytes());
        out.extend_from_slice(&20u16.to_le_bytes());
        out.extend_from_slice(&0x0800u16.to_le_bytes());
        out.extend_from_slice(&0u16.to_le_bytes());
        out.extend_from_slice(&0u16.to_le_bytes());
        out.extend_from_slice(&0x21u16.to_le_bytes());
        out.extend_from_slice(&crc.to_le_bytes());
        out.extend_from_slice(&(data.len() as u32).to_le_bytes());
        out.extend_from_slice(&(data.len() as u32).to_le_bytes());
        out.extend_from_slice(&(name.len() as u16).to_le_bytes());
        out.extend_from_slice(&0u16.to_le_bytes());
        out.extend_from_slice(name.as_bytes());
        out.extend_from_slice(data);

        cd.extend_from_slice(&0x0201_4b50u32.to_le_bytes());
        cd.extend_from_slice(&((3u16 << 8) | 20).to_le_bytes());
        cd.extend_from_slice(&20u16.to_le_bytes());
        cd.extend_from_slice(&0x0800u16.to_le_bytes());
        cd.extend_from_slice(&0u16.to_le_bytes());
        cd.extend_from_slice(&0u16.to_le_bytes());
        cd.extend_from_slice(&0x21u16.to_le_bytes());
        cd.extend_from_slice(&crc.to_le_bytes());
        cd.extend_from_slice(&(data.len() as u32).to_le_bytes());
        cd.extend_from_slice(&(data.len() as u32).to_le_bytes());
        cd.extend_from_slice(&(name.len() as u16).to_le_bytes());
        cd.extend_from_slice(&0u16.to_le_bytes());
        cd.extend_from_slice(&0u16.to_le_bytes());
        cd.extend_from_slice(&0u16.to_le_bytes());
        cd.extend_from_slice(&0u16.to_le_bytes());
        cd.extend_from_slice(&((0o100644u32) << 16).to_le_bytes());
        cd.extend_from_slice(&offset.to_le_bytes());
        cd.extend_from_slice(name.as_bytes());
    }
    let cd_offset = out.len() as u32;
    out.extend_from_slice(&cd);
    out.extend_from_slice(&0x0605_4b50u32.to_le_bytes());
    out.extend_from_slice(&0u16.to_le_bytes());
    out.extend_from_slice(&0u16.to_le_bytes());
    out.extend_from_slice(&(members.len() as u16).to_le_bytes());
    out.extend_from_slice(&(members.len() as u16).to_le_bytes());
    out.extend_from_slice(&(cd.len() as u32).to_le_bytes());
    out.extend_from_slice(&cd_offset.to_le_bytes());
    out.extend_from_slice(&0u16.to_le_bytes());
    out
}

fn logger() -> slog::Logger {
    slog::Logger::root(slog::Discard, slog::o!())
}

struct Lcg(u64);
impl Lcg {
    fn next(&mut self) -> u64 {
        self.0 = self
            .0
            .wrapping_mul(6364136223846793005)
            .wrapping_add(1442695040888963407);
        self.0 >> 33
    }
}

/// exploration: SeekableChain against a Cursor over the concatenation
#[test]
fn chain_fuzz() {
    let mut rng = Lcg(42);
    for round in 0..20000 {
        let k = 1 + (rng.next() % 5) as usize;
        let mut vols: Vec<Vec<u8>> = Vec::new();
        let mut concat = Vec::new();
        let mut next = 0u8;
        for _ in 0..k {
            let l = (rng.next() % 4) as usize;
            let v: Vec<u8> = (0..l)
                .map(|_| {
                    next = next.wrapping_add(1);
                    next
                })
                .collect();
            concat.extend_from_slice(&v);
            vols.push(v);
        }
        let desc = format!("round {} vols {:?}", round, vols);
        let mut chain = SeekableChain::new(vols.into_iter().map(Cursor::new).collect());
        let mut reference = Cursor::new(concat.clone());
        let mut ops = String::new();
        for _ in 0..12 {
            match rng.next() % 4 {
                0 => {
                    let n = (rng.next() % 6) as usize;
                    ops += &format!(" r:{}", n);
                    let mut buf = vec![0u8; n];
                    let got = chain.read(&mut buf).unwrap();
                    let pos = reference.position();
                    let avail = (concat.len() as u64).saturating_sub(pos) as usize;
                    assert!(got <= n);
                    if n > 0 && avail > 0 {
                        assert!(got > 0, "{} ops{}: early eof", desc, ops);
                    }
                    assert!(got <= avail, "{} ops{}", desc, ops);
                    if got == 0 {
                        continue;
                    }
                    assert_eq!(
                        &buf[..got],
                        &concat[pos as usize..pos as usize + got],
                        "{} ops{}",
                        desc,
                        ops
                    );
                    reference.set_position(pos + got as u64);
                }
                x => {
                    let d = (rng.next() % 24) as i64 - 12;
                    let sf = match x {
                        1 => SeekFrom::Start((rng.next() % 14) as u64),
                        2 => SeekFrom::Current(d),
                        _ => SeekFrom::End(d),
                    };
                    ops += &format!(" s:{:?}", sf);
                    let a = chain.seek(sf);
                    let b = reference.seek(sf);
                    match (a, b) {
                        (Ok(a), Ok(b)) => assert_eq!(a, b, "{} ops{}", desc, ops),
                        (Err(_), Err(_)) => {}
                        (a, b) => panic!("{} ops{}: {:?} vs {:?}", desc, ops, a, b),
                    }
                    assert_eq!(
                        chain.stream_position().unwrap(),
                        reference.stream_position().unwrap(),
                        "{} ops{}",
                        desc,
                        ops
                    );
                }
            }
        }
    }
}

fn list_files(dir: &Path, base: &Path, out: &mut Vec<String>) {
    for e in std::fs::read_dir(dir).unwrap().flatten() {
        let p = e.path();
        if p.is_dir() {
            list_files(&p, base, out);
        } else {
            out.push(p.strip_prefix(base).unwrap().to_string_lossy().to_string());
        }
    }
}

/// exploration: battery of hostile names in one request through extract_to_dir
#[test]
fn hostile_battery() {
    let outer = tempfile::tempdir().unwrap();
    let target = outer.path().join("t");
    std::fs::create_dir(&target).unwrap();
    let members: Vec<(&str, &[u8])> = vec![
        ("a.dlt", b"A"),
        ("dir/sub/b.dlt", b"B"),
        ("../evil.dlt", b"E"),
        ("/abs.dlt", b"E"),
        ("dir/../../evil2.dlt", b"E"),
        ("empty.dlt", b""),
        ("dir/./c.dlt", b"C"),
        ("x/../../t/back.dlt", b"E"),
        ("..", b"E"),
        (".", b"E"),
        ("", b"E"),
        ("dir/sub/../../../evil3.dlt", b"E"),
        ("....//f.dlt", b"F"),
        ("..a/g.dlt", b"G"),
    ];
    let zip = raw_zip(&members);
    let filter: Vec<String> = members.iter().map(|m| m.0.to_string()).collect();
    let zip_path = outer.path().join("t.zip");
    std::fs::write(&zip_path, zip).unwrap();
    let res = extract_to_dir(
        std::fs::File::open(&zip_path).unwrap(),
        &target,
        Some(filter),
        &HashMap::new(),
        &Arc::new(AtomicBool::new(false)),
    )
    .unwrap();
    println!("reported {:?}", res);
    let mut all = vec![];
    list_files(outer.path(), outer.path(), &mut all);
    all.sort();
    println!("on disk {:?}", all);
    for f in &all {
        assert!(f.starts_with("t/") || f == "t.zip", "file outside: {}", f);
    }
    for r in &res {
        let p = target.join(r);
        let m = members
            .iter()
            .find(|m| Path::new(m.0) == r.as_path())
            .unwrap();
        assert_eq!(std::fs::read(&p).unwrap(), m.1, "content of {:?}", r);
    }
}

/// exploration: archive stored in volumes (with empty ones), through extract_archives
#[test]
fn volumes_battery() {
    let mut rng = Lcg(7);
    let big: Vec<u8> = (0..150_000u32).map(|i| (i * 7 + i / 251) as u8).collect();
    let members: Vec<(&str, &[u8])> = vec![
        ("a.dlt", b"A-content"),
        ("dir/sub/big.dlt", &big),
        ("empty.dlt", b""),
        ("../evil.dlt", b"E"),
    ];
    let zip = raw_zip(&members);
    for round in 0..60 {
        let dir = tempfile::tempdir().unwrap();
        let k = 1 + (rng.next() % 6) as usize;
        let mut cuts: Vec<usize> = (0..k - 1)
            .map(|_| match rng.next() % 4 {
                0 => 0,
                1 => zip.len(),
                2 => zip.len() - (rng.next() % 40) as usize,
                _ => (rng.next() as usize) % (zip.len() + 1),
            })
            .collect();
        cuts.sort();
        let mut start = 0;
        let mut sizes = vec![];
        for (i, end) in cuts.iter().chain(std::iter::once(&zip.len())).enumerate() {
            std::fs::write(
                dir.path().join(format!("v.zip.{:03}", i + 1)),
                &zip[start..*end],
            )
            .unwrap();
            sizes.push(end - start);
            start = *end;
        }
        let mut temp_dirs = vec![];
        let cancel = Arc::new(AtomicBool::new(false));
        let which = 1 + (rng.next() as usize % k);
        let res = extract_archives(
            format!("{}/v.zip.{:03}", dir.path().display(), which),
            &mut temp_dirs,
            &cancel,
            &logger(),
        );
        assert_eq!(res.len(), 3, "round {} sizes {:?}: {:?}", round, sizes, res);
        for r in &res {
            let m = members.iter().find(|m| r.ends_with(m.0)).unwrap();
            assert_eq!(std::fs::read(r).unwrap(), m.1, "round {} {:?}", round, sizes);
        }
        assert!(!dir.path().join("evil.dlt").exists());
        assert!(!std::env::temp_dir().join("evil.dlt").exists());
    }
}
