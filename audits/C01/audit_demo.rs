// Audit C01 (DLT framing: complete, faithful recovery of messages between garbage)
// Each test asserts what the property demands and FAILS on the unchanged code.
// See audit/notes.md for the description of each finding.
use adlt::utils::DltMessageIterator;
use assert_cmd::Command;
use std::sync::{Arc, Mutex};

/// a minimal well-formed message with storage header: 16 + 4 + 2 bytes payload, no optional parts
fn storage_msg(i: u8) -> Vec<u8> {
    let mut v = vec![];
    v.extend_from_slice(b"DLT\x01");
    v.extend_from_slice(&(1_700_000_000u32 + i as u32).to_le_bytes());
    v.extend_from_slice(&0u32.to_le_bytes());
    v.extend_from_slice(b"ECU1");
    v.extend_from_slice(&[0x20, i, 0, 6]); // htyp (vers 1), mcnt, len=6
    v.extend_from_slice(&[0x41 + (i % 20), 0x42]); // payload
    v
}

/// Finding 1 (binary level): a garbage run of >= 512 KiB before the first message makes
/// `adlt convert` drop the whole file (0 messages) instead of the 3 messages it contains.
#[test]
fn f1_cli_drops_file_with_512k_leading_garbage() {
    let dir = tempfile::tempdir().unwrap();
    let count_msgs = |garbage: usize| -> usize {
        let path = dir.path().join(format!("g{}.dlt", garbage));
        let mut data = vec![0x55u8; garbage];
        for i in 0..3 {
            data.extend_from_slice(&storage_msg(i));
        }
        std::fs::write(&path, &data).unwrap();
        let out = Command::cargo_bin("adlt")
            .unwrap()
            .args(["convert", "-a", path.to_str().unwrap()])
            .output()
            .unwrap();
        String::from_utf8_lossy(&out.stdout)
            .lines()
            .filter(|l| l.contains(" ECU1 "))
            .count()
    };
    // control: short garbage run -> all 3 msgs
    assert_eq!(count_msgs(1000), 3);
    // the library iterator copes with the long run as well:
    {
        let mut data = vec![0x55u8; 512 * 1024];
        for i in 0..3 {
            data.extend_from_slice(&storage_msg(i));
        }
        let mut it = DltMessageIterator::new(0, &data[..]);
        assert_eq!((&mut it).count(), 3);
        assert_eq!(it.bytes_skipped, 512 * 1024);
    }
    // but the binary yields nothing (the first msg is not complete within the first 512KiB):
    assert_eq!(count_msgs(512 * 1024 - 10), 3, "first msg straddles the 512KiB pre-scan window");
    assert_eq!(count_msgs(512 * 1024), 3, "first msg starts after the 512KiB pre-scan window");
}

#[derive(Clone)]
struct CaptureDrain(Arc<Mutex<Vec<String>>>);
impl slog::Drain for CaptureDrain {
    type Ok = ();
    type Err = slog::Never;
    fn log(&self, record: &slog::Record, _values: &slog::OwnedKVList) -> Result<(), slog::Never> {
        self.0.lock().unwrap().push(format!("{}", record.msg()));
        Ok(())
    }
}

/// Finding 2: storage header framing, garbage before the first message, logger attached:
/// the skip bookkeeping `log_skipped` that the serial header branch started is never closed by the
/// storage header branch. At the end the iterator reports the whole stream (garbage and all msgs) as
/// one skipped run "skipped 69 bytes at 0x0" even though only 3 bytes were skipped.
#[test]
fn f2_log_reports_messages_as_skipped() {
    let mut data = vec![0x55u8; 3];
    for i in 0..3 {
        data.extend_from_slice(&storage_msg(i));
    }
    let captured = Arc::new(Mutex::new(vec![]));
    let logger = slog::Logger::root(slog::Fuse(CaptureDrain(captured.clone())), slog::o!());
    let mut it = DltMessageIterator::new(0, &data[..]);
    it.log = Some(&logger);
    assert_eq!((&mut it).count(), 3);
    assert_eq!(it.bytes_skipped, 3);
    assert_eq!(it.bytes_processed, data.len());
    let lines = captured.lock().unwrap().clone();
    println!("log lines: {:?}", lines);
    // every "skipped <n> bytes" report has to be about the 3 garbage bytes only
    let reported: usize = lines
        .iter()
        .filter_map(|l| {
            l.strip_prefix("skipped ")
                .and_then(|r| r.split(' ').next())
                .and_then(|n| n.parse::<usize>().ok())
        })
        .sum();
    assert_eq!(reported, it.bytes_skipped, "log lines: {:?}", lines);
}

/// Finding 3: start index u32::MAX, a single message: the message can be numbered (u32::MAX) but the
/// iterator increments its next index before returning the message: panic 'attempt to add with overflow'
/// in builds with overflow checks (dev/test profile); silently wraps to 0 in release builds.
#[test]
fn f3_start_index_max_panics() {
    let data = storage_msg(0);
    let r = std::panic::catch_unwind(|| {
        let mut it = DltMessageIterator::new(u32::MAX, &data[..]);
        it.next().map(|m| m.index)
    });
    assert_eq!(r.ok(), Some(Some(u32::MAX)));
}

/// Finding 4 (contract of the generic reader parameter): `DltMessageIterator<R: BufRead>` assumes that
/// `fill_buf` always offers a complete message (true only for `LowMarkBufReader` and slices). With the
/// standard `std::io::BufReader` (8KiB) the iteration silently ends at the first message that crosses the
/// internal buffer end.
#[test]
fn f4_std_bufreader_stops_at_buffer_end() {
    let mut data = vec![];
    for i in 0..1000u32 {
        data.extend_from_slice(&storage_msg((i % 256) as u8));
    }
    let reader = std::io::BufReader::new(std::io::Cursor::new(&data));
    let mut it = DltMessageIterator::new(0, reader);
    let n = (&mut it).count();
    assert_eq!(
        (n, it.bytes_processed, it.bytes_skipped),
        (1000, data.len(), 0)
    );
}
