// audit C09b: merging / chaining message sources
use adlt::dlt::{DltChar4, DltMessage, DltMessageIndexType, DltStandardHeader};
use adlt::utils::sorting_multi_readeriterator::{
    SequentialMultiIterator, SortingMultiReaderIterator,
};

type Src = Box<dyn Iterator<Item = DltMessage> + 'static>;

/// message of source `src` at position `pos` (encoded in the payload) with the given reception time
fn msg(src: u8, pos: u32, time: u64, index: DltMessageIndexType) -> DltMessage {
    let mut payload = vec![src];
    payload.extend_from_slice(&pos.to_le_bytes());
    DltMessage {
        index,
        reception_time_us: time,
        ecu: DltChar4::from_buf(b"TEST"),
        timestamp_dms: 0,
        standard_header: DltStandardHeader {
            htyp: 0,
            len: 0,
            mcnt: 0,
        },
        extended_header: None,
        payload,
        payload_text: None,
        lifecycle: 0,
    }
}

fn source(src: u8, times: &[u64]) -> Src {
    // like a file iterator each source numbers its own messages from 0
    let v: Vec<DltMessage> = times
        .iter()
        .enumerate()
        .map(|(pos, t)| msg(src, pos as u32, *t, pos as u32))
        .collect();
    Box::new(v.into_iter())
}

fn id(m: &DltMessage) -> (u8, u32) {
    (
        m.payload[0],
        u32::from_le_bytes([m.payload[1], m.payload[2], m.payload[3], m.payload[4]]),
    )
}

/// checks all clauses of the merge property, returns an error text on the first violated one
fn check_merge(start: DltMessageIndexType, fam: &[Vec<u64>], out: &[DltMessage]) -> Result<(), String> {
    let total: usize = fam.iter().map(|s| s.len()).sum();
    if out.len() != total {
        return Err(format!("{} msgs out, {} in", out.len(), total));
    }
    let mut next_pos = vec![0u32; fam.len()];
    for (i, m) in out.iter().enumerate() {
        let (s, p) = id(m);
        if next_pos[s as usize] != p {
            return Err(format!("source {} pos {} but expected {}", s, p, next_pos[s as usize]));
        }
        next_pos[s as usize] += 1;
        if m.reception_time_us != fam[s as usize][p as usize] {
            return Err("time changed".into());
        }
        if m.index != start.wrapping_add(i as u32) {
            return Err(format!(
                "msg #{} has index {} expected {}",
                i,
                m.index,
                start.wrapping_add(i as u32)
            ));
        }
    }
    if fam.iter().all(|s| s.windows(2).all(|w| w[0] <= w[1]))
        && !out.windows(2).all(|w| w[0].reception_time_us <= w[1].reception_time_us)
    {
        return Err("not ordered by reception time".into());
    }
    Ok(())
}

fn check_chain(start: DltMessageIndexType, fam: &[Vec<u64>], out: &[DltMessage]) -> Result<(), String> {
    let expected: Vec<(u8, u32)> = fam
        .iter()
        .enumerate()
        .flat_map(|(s, v)| (0..v.len()).map(move |p| (s as u8, p as u32)))
        .collect();
    let got: Vec<(u8, u32)> = out.iter().map(id).collect();
    if got != expected {
        return Err(format!("not the concatenation: {:?} vs {:?}", got, expected));
    }
    for (i, m) in out.iter().enumerate() {
        if m.index != start.wrapping_add(i as u32) {
            return Err(format!(
                "msg #{} has index {} expected {}",
                i,
                m.index,
                start.wrapping_add(i as u32)
            ));
        }
    }
    Ok(())
}

fn sources(fam: &[Vec<u64>]) -> Vec<Src> {
    fam.iter()
        .enumerate()
        .map(|(s, v)| source(s as u8, v))
        .collect()
}

struct Lcg(u64);
impl Lcg {
    fn next(&mut self, n: u64) -> u64 {
        self.0 = self
            .0
            .wrapping_mul(6364136223846793005)
            .wrapping_add(1442695040888963407);
        (self.0 >> 33) % n
    }
}

fn random_family(r: &mut Lcg) -> Vec<Vec<u64>> {
    let k = r.next(6) as usize;
    (0..k)
        .map(|_| {
            let n = r.next(6) as usize;
            let mode = r.next(3);
            let mut t = r.next(5);
            (0..n)
                .map(|_| {
                    match mode {
                        0 => {}
                        1 => t += r.next(3),
                        _ => t = r.next(8),
                    }
                    t
                })
                .collect()
        })
        .collect()
}

/// not a finding: the property holds for `new` (2 or more / 0 sources, no overflow)
#[test]
fn sanity_random_families_hold() {
    let mut r = Lcg(42);
    for _ in 0..20000 {
        let fam = random_family(&mut r);
        let start = r.next(1000) as u32;
        let out: Vec<_> = SortingMultiReaderIterator::new(start, sources(&fam)).collect();
        check_merge(start, &fam, &out).unwrap_or_else(|e| panic!("merge {:?} start {}: {}", fam, start, e));
        let out: Vec<_> = SequentialMultiIterator::new(start, sources(&fam).into_iter()).collect();
        check_chain(start, &fam, &out).unwrap_or_else(|e| panic!("chain {:?} start {}: {}", fam, start, e));
        if fam.len() != 1 {
            let out: Vec<_> =
                SortingMultiReaderIterator::new_or_single_it(start, sources(&fam)).collect();
            check_merge(start, &fam, &out).unwrap_or_else(|e| panic!("merge/s {:?} start {}: {}", fam, start, e));
            let out: Vec<_> =
                SequentialMultiIterator::new_or_single_it(start, sources(&fam).into_iter())
                    .collect();
            check_chain(start, &fam, &out).unwrap_or_else(|e| panic!("chain/s {:?} start {}: {}", fam, start, e));
        }
    }
}

/// finding 1a: a family of exactly one source, start index 5, merged via new_or_single_it:
/// the result is numbered 0,1,2 and not 5,6,7
#[test]
fn finding1a_merge_single_source_ignores_start_index() {
    let fam = vec![vec![10u64, 20, 30]];
    let out: Vec<_> = SortingMultiReaderIterator::new_or_single_it(5, sources(&fam)).collect();
    check_merge(5, &fam, &out).unwrap();
}

/// finding 1b: same for chaining exactly one source
#[test]
fn finding1b_chain_single_source_ignores_start_index() {
    let fam = vec![vec![10u64, 20, 30]];
    let out: Vec<_> =
        SequentialMultiIterator::new_or_single_it(5, sources(&fam).into_iter()).collect();
    check_chain(5, &fam, &out).unwrap();
}

/// finding 1c: the numbering of a chain depends on whether an empty source is part of the family:
/// [[], [10,20]] is numbered from 5 while [[10,20]] is numbered from 0 although the concatenation is the same.
#[test]
fn finding1c_chain_numbering_depends_on_empty_source() {
    let with_empty = vec![vec![], vec![10u64, 20]];
    let without = vec![vec![10u64, 20]];
    let a: Vec<u32> = SequentialMultiIterator::new_or_single_it(5, sources(&with_empty).into_iter())
        .map(|m| m.index)
        .collect();
    let b: Vec<u32> = SequentialMultiIterator::new_or_single_it(5, sources(&without).into_iter())
        .map(|m| m.index)
        .collect();
    assert_eq!(a, vec![5, 6]);
    assert_eq!(a, b);
}

/// finding 2a: start index u32::MAX, two sources with one message in total: the index u32::MAX is
/// a valid number for that single message but the code panics (debug: attempt to add with overflow)
/// before it returns the message.
#[test]
fn finding2a_merge_start_index_max_single_message() {
    let fam = vec![vec![10u64], vec![]];
    let start = DltMessageIndexType::MAX;
    let out: Vec<_> = SortingMultiReaderIterator::new(start, sources(&fam)).collect();
    check_merge(start, &fam, &out).unwrap();
}

/// finding 2b: same for chaining
#[test]
fn finding2b_chain_start_index_max_single_message() {
    let fam = vec![vec![], vec![10u64]];
    let start = DltMessageIndexType::MAX;
    let out: Vec<_> = SequentialMultiIterator::new(start, sources(&fam).into_iter()).collect();
    check_chain(start, &fam, &out).unwrap();
}
