// Audit C11 (filters): demonstrations on the unchanged code.
// Each #[test] asserts what properties P1 / P2 demand and FAILS on the current code.

use adlt::dlt::{DltChar4, DltExtendedHeader, DltMessage, DltStandardHeader};
use adlt::filter::functions::filters_from_dlf;
use adlt::filter::{Filter, FilterKind, FilterKindContainer};
use adlt::utils::remote_utils::match_filters;

fn id(s: &[u8]) -> DltChar4 {
    let mut b = [0u8; 4];
    b[..s.len()].copy_from_slice(s);
    DltChar4::from_buf(&b)
}

/// a verbose log message (level info) with extended header
fn msg(ecu: &[u8], apid: &[u8], ctid: &[u8], text: &str, lifecycle: u32) -> DltMessage {
    DltMessage {
        index: 0,
        reception_time_us: 0,
        ecu: id(ecu),
        timestamp_dms: 0,
        standard_header: DltStandardHeader {
            htyp: 1, // use ext header
            mcnt: 0,
            len: 0,
        },
        extended_header: Some(DltExtendedHeader {
            verb_mstp_mtin: (4u8 << 4) | 1, // verbose, log, info
            noar: 0,
            apid: id(apid),
            ctid: id(ctid),
        }),
        payload: vec![],
        payload_text: Some(text.to_string()),
        lifecycle,
    }
}

// ---------------------------------------------------------------------------------------------
// Finding 1 (P1, "CTID/APID/ECU ... regular expression", short ids):
// a regular expression is matched against the 4-byte buffer of the id including the NUL padding of
// a short id. So for the short id `DA1` the literal filter `DA1` matches, but the anchored regular
// expression `^DA1$` (same set of ids!) does not; and `^....$` (ids with 4 chars) matches the
// 3 char id `DA1`.
#[test]
fn f1_regex_id_sees_nul_padding_of_short_ids() {
    let m = msg(b"ECU1", b"DA1", b"DC1", "hello", 1);

    let lit = Filter::from_json(r#"{"type":0,"apid":"DA1"}"#).unwrap();
    assert!(lit.matches(&m), "literal DA1 matches apid DA1");

    // the same id set as a regular expression (via json, explicit flag):
    let re = Filter::from_json(r#"{"type":0,"apid":"^DA1$","apidIsRegex":true}"#).unwrap();
    // ... and via autodetect (that's what convert --eac=":^DA1$" and a DLF do as well)
    let re_auto = Filter::from_json(r#"{"type":0,"apid":"^DA1$"}"#).unwrap();
    let re_ecu = Filter::from_json(r#"{"type":0,"ctid":"DC1$"}"#).unwrap();
    // a regex for "exactly four characters" must not match a 3 character id:
    let re4 = Filter::from_json(r#"{"type":0,"apid":"^....$"}"#).unwrap();

    let got = (
        re.matches(&m),
        re_auto.matches(&m),
        re_ecu.matches(&m),
        re4.matches(&m),
    );
    assert_eq!(
        got,
        (true, true, true, false),
        "regex id filters vs. short id DA1/DC1: (^DA1$, ^DA1$ auto, DC1$, ^....$)"
    );
}

// ---------------------------------------------------------------------------------------------
// Finding 2 (P1, "a filter serialised to JSON (to_json) and loaded again decides identically"):
// to_json writes a literal id via Display of DltChar4, which replaces bytes < 0x20 by '-' and
// bytes > 0x7e by '?'. The id "A\u0001C" is an accepted literal id (see the crate's own unit test
// from_json: `"ecu": "A\u0001C"`). The reloaded filter is a filter for a different id.
#[test]
fn f2_to_json_rewrites_non_printable_id_bytes() {
    let f = Filter::from_json(r#"{"type":0,"ecu":"A\u0001C","ecuIsRegex":false}"#).unwrap();
    let f2 = Filter::from_json(&f.to_json()).unwrap();

    let m_orig = msg(&[0x41, 1, 0x43], b"APID", b"CTID", "x", 1); // ecu = A 0x01 C
    let m_dash = msg(b"A-C", b"APID", b"CTID", "x", 1); // ecu = A-C

    assert!(f.matches(&m_orig));
    assert!(!f.matches(&m_dash));
    assert_eq!(
        (f2.matches(&m_orig), f2.matches(&m_dash)),
        (f.matches(&m_orig), f.matches(&m_dash)),
        "reloaded filter {} decides differently",
        f.to_json()
    );
}

// same cause, ids from the dlt-convert list (any byte is taken over) e.g. 0xC4 -> '?'
#[test]
fn f2b_to_json_rewrites_high_id_bytes_from_convert_list() {
    let list: &[u8] = b"AB\xC4D CTID ";
    let fs = adlt::filter::functions::filters_from_convert_format(list).unwrap();
    assert_eq!(fs.len(), 1);
    let f = &fs[0];
    let f2 = Filter::from_json(&f.to_json()).unwrap();
    let m = msg(b"ECU1", b"AB\xC4D", b"CTID", "x", 1);
    assert!(f.matches(&m));
    assert_eq!(
        f2.matches(&m),
        f.matches(&m),
        "reloaded {} decides differently",
        f.to_json()
    );
}

// ---------------------------------------------------------------------------------------------
// Finding 3 (P1, DLF front-end): an empty element followed by insignificant white space (that is
// how dlt-viewer writes a .dlf: auto formatted, `<payloadtext></payloadtext>` + newline + indent)
// takes the white space between the elements as its text. So the same filter decides differently
// depending on the formatting of the XML file.
#[test]
fn f3_dlf_empty_element_takes_following_whitespace() {
    let compact = r#"<?xml version="1.0" encoding="UTF-8"?><dltfilter><filter><type>0</type><name>n</name><ecuid>ECU1</ecuid><applicationid></applicationid><contextid></contextid><headertext></headertext><payloadtext></payloadtext><enablefilter>1</enablefilter><enableecuid>1</enableecuid><enableapplicationid>0</enableapplicationid><enablecontextid>0</enablecontextid><enablepayloadtext>1</enablepayloadtext></filter></dltfilter>"#;
    let pretty = r#"<?xml version="1.0" encoding="UTF-8"?>
<dltfilter>
    <filter>
        <type>0</type>
        <name>n</name>
        <ecuid>ECU1</ecuid>
        <applicationid></applicationid>
        <contextid></contextid>
        <headertext></headertext>
        <payloadtext></payloadtext>
        <enablefilter>1</enablefilter>
        <enableecuid>1</enableecuid>
        <enableapplicationid>0</enableapplicationid>
        <enablecontextid>0</enablecontextid>
        <enablepayloadtext>1</enablepayloadtext>
    </filter>
</dltfilter>
"#;
    let fc = filters_from_dlf(compact.as_bytes()).unwrap();
    let fp = filters_from_dlf(pretty.as_bytes()).unwrap();
    assert_eq!((fc.len(), fp.len()), (1, 1));
    let m = msg(b"ECU1", b"APID", b"CTID", "hello world", 1);
    assert!(fc[0].matches(&m), "compact: ecu ECU1, empty payload text");
    assert_eq!(
        fp[0].matches(&m),
        fc[0].matches(&m),
        "pretty printed DLF decides differently: payload criterion = {:?}",
        fp[0].payload
    );
}

// ---------------------------------------------------------------------------------------------
// Finding 4 (P2, "disabled filters ... have no effect on selection", implementation match_filters):
// match_filters only looks at the number of positive / event filters, not at their enabled flag.
// (remote's stream/search commands and the export plugin strip disabled filters while loading,
// match_filters itself - public API - does not.)
#[test]
fn f4_match_filters_disabled_filters_have_an_effect() {
    let m = msg(b"ECU1", b"APID", b"CTID", "hello", 1);

    let mut filters: FilterKindContainer<Vec<Filter>> = Default::default();
    assert!(match_filters(&m, &filters));

    let mut pos = Filter::new(FilterKind::Positive);
    pos.enabled = false;
    filters[FilterKind::Positive].push(pos);
    let with_disabled_pos = match_filters(&m, &filters);

    let mut filters2: FilterKindContainer<Vec<Filter>> = Default::default();
    let mut ev = Filter::new(FilterKind::Event);
    ev.enabled = false;
    filters2[FilterKind::Event].push(ev);
    let with_disabled_ev = match_filters(&m, &filters2);

    // filter_as_streams keeps the message for the same filter set (see its unit test no_filters_disabled_pos)
    assert_eq!(
        (with_disabled_pos, with_disabled_ev),
        (true, true),
        "a disabled positive / event filter drops every message"
    );
}

// ---------------------------------------------------------------------------------------------
// Finding 5 (P1, lifecycle membership / type value; border of the range: values that do not fit):
// the JSON front-end truncates numbers instead of rejecting them: lifecycle 4294967297 (2^32+1)
// becomes lifecycle 1, mstp 8 becomes mstp 0 (log), verb_mstp_mtin 256+6 becomes 6 (control).
#[test]
fn f5_json_numbers_are_truncated() {
    let m = msg(b"ECU1", b"APID", b"CTID", "hello", 1); // lifecycle 1, log msg

    // no message is in lifecycle 2^32+1 (or the filter is refused):
    let lc = Filter::from_json(r#"{"type":0,"lifecycles":[4294967297]}"#);
    let lc_matches = lc.map(|f| f.matches(&m)).unwrap_or(false);
    // no message has message type 8 (3 bits):
    let mstp = Filter::from_json(r#"{"type":0,"mstp":8}"#);
    let mstp_matches = mstp.map(|f| f.matches(&m)).unwrap_or(false);
    assert_eq!(
        (lc_matches, mstp_matches),
        (false, false),
        "(lifecycles:[2^32+1] matches a lifecycle 1 msg, mstp:8 matches a log msg)"
    );
}
