// audit C12: filter sets (positive OR, negative veto, event AND), order and counts kept
//
// explore_*: differential checks against a reference predicate (expected to pass)
// finding_*: demonstrated violations (expected to fail on the unchanged code)

use adlt::dlt::{DltChar4, DltExtendedHeader, DltMessage, DltStandardHeader};
use adlt::filter::functions::filter_as_streams;
use adlt::filter::{Filter, FilterKind, FilterKindContainer};
use adlt::plugins::export::ExportPlugin;
use adlt::plugins::plugin::Plugin;
use adlt::utils::remote_utils::{match_filters, process_stream_new_msgs, StreamContext};
use std::sync::mpsc::channel;

struct Rng(u64);
impl Rng {
    fn next(&mut self) -> u64 {
        // xorshift64*
        self.0 ^= self.0 >> 12;
        self.0 ^= self.0 << 25;
        self.0 ^= self.0 >> 27;
        self.0.wrapping_mul(0x2545F4914F6CDD1D)
    }
    fn below(&mut self, n: u64) -> u64 {
        (self.next() >> 11) % n
    }
    fn chance(&mut self, num: u64, den: u64) -> bool {
        self.below(den) < num
    }
}

const ECUS: [&[u8; 4]; 2] = [b"ECU0", b"ECU1"];
const APIDS: [&[u8; 4]; 3] = [b"APA\0", b"APB\0", b"APC\0"];

fn msg(index: u32, ecu: usize, apid: Option<usize>, lifecycle: u32) -> DltMessage {
    DltMessage {
        index,
        reception_time_us: 1_000_000 + index as u64,
        ecu: DltChar4::from_buf(ECUS[ecu]),
        timestamp_dms: index,
        standard_header: DltStandardHeader {
            htyp: 1 << 4,
            len: 0,
            mcnt: (index % 256) as u8,
        },
        extended_header: apid.map(|a| DltExtendedHeader {
            verb_mstp_mtin: (4 << 4) | 1,
            noar: 0,
            apid: DltChar4::from_buf(APIDS[a]),
            ctid: DltChar4::from_buf(b"CTX\0"),
        }),
        payload: vec![],
        payload_text: None,
        lifecycle,
    }
}

#[derive(Debug, Clone)]
struct RefFilter {
    kind: u8,
    enabled: bool,
    not: bool,
    ecu: Option<usize>,
    apid: Option<usize>,
    lcs: Option<Vec<u32>>,
}

impl RefFilter {
    fn random(rng: &mut Rng) -> RefFilter {
        RefFilter {
            kind: rng.below(4) as u8,
            enabled: rng.chance(3, 4),
            not: rng.chance(1, 4),
            ecu: if rng.chance(1, 2) {
                Some(rng.below(2) as usize)
            } else {
                None
            },
            apid: if rng.chance(1, 2) {
                Some(rng.below(3) as usize)
            } else {
                None
            },
            lcs: if rng.chance(1, 5) {
                Some((0..rng.below(3)).map(|_| rng.below(3) as u32).collect())
            } else {
                None
            },
        }
    }
    fn json(&self) -> serde_json::Value {
        let mut o = serde_json::json!({"type": self.kind, "enabled": self.enabled, "not": self.not});
        if let Some(e) = self.ecu {
            o["ecu"] = serde_json::json!(std::str::from_utf8(ECUS[e]).unwrap());
        }
        if let Some(a) = self.apid {
            o["apid"] = serde_json::json!(std::str::from_utf8(&APIDS[a][0..3]).unwrap());
        }
        if let Some(l) = &self.lcs {
            o["lifecycles"] = serde_json::json!(l);
        }
        o
    }
    fn filter(&self) -> Filter {
        Filter::from_json(&self.json().to_string()).unwrap()
    }
    /// reference for a single (enabled) filter
    fn hits(&self, m: &DltMessage) -> bool {
        let mut all = true;
        if let Some(e) = self.ecu {
            all &= m.ecu == DltChar4::from_buf(ECUS[e]);
        }
        if let Some(a) = self.apid {
            all &= m.apid() == Some(&DltChar4::from_buf(APIDS[a]));
        }
        if let Some(l) = &self.lcs {
            all &= l.is_empty() || l.contains(&m.lifecycle);
        }
        all != self.not
    }
}

/// the property as stated
fn ref_keep(fs: &[RefFilter], m: &DltMessage, with_events: bool) -> bool {
    let en = |k: u8| fs.iter().filter(move |f| f.enabled && f.kind == k);
    let pos_ok = en(0).next().is_none() || en(0).any(|f| f.hits(m));
    let neg_ok = !en(1).any(|f| f.hits(m));
    let ev_ok = !with_events || en(3).next().is_none() || en(3).any(|f| f.hits(m));
    pos_ok && neg_ok && ev_ok
}

fn random_msgs(rng: &mut Rng, n: usize) -> Vec<DltMessage> {
    (0..n)
        .map(|i| {
            let apid = if rng.chance(1, 5) {
                None
            } else {
                Some(rng.below(3) as usize)
            };
            msg(i as u32, rng.below(2) as usize, apid, rng.below(3) as u32)
        })
        .collect()
}

fn logger() -> slog::Logger {
    slog::Logger::root(slog::Discard, slog::o!())
}

#[test]
fn explore_stream_filter_vs_reference() {
    let mut rng = Rng(0x1234_5678_9abc_def1);
    for round in 0..3000 {
        let nf = rng.below(6) as usize;
        let fs: Vec<RefFilter> = (0..nf).map(|_| RefFilter::random(&mut rng)).collect();
        let filters: Vec<Filter> = fs.iter().map(|f| f.filter()).collect();
        let msgs = random_msgs(&mut rng, 40);
        let (tx, rx) = channel();
        let (tx2, rx2) = channel();
        for m in &msgs {
            tx.send(m.clone()).unwrap();
        }
        drop(tx);
        let (passed, filtered) = filter_as_streams(&filters, &rx, &|m| tx2.send(m)).unwrap();
        drop(tx2);
        let got: Vec<DltMessage> = rx2.iter().collect();
        let exp: Vec<DltMessage> = msgs
            .iter()
            .filter(|m| ref_keep(&fs, m, false))
            .cloned()
            .collect();
        assert_eq!(got, exp, "round {} filters {:?}", round, fs);
        assert_eq!(passed, exp.len());
        assert_eq!(passed + filtered, msgs.len());
    }
}

#[test]
fn explore_remote_stream_vs_reference() {
    let log = logger();
    let mut rng = Rng(0xfeed_beef_0bad_cafe);
    for round in 0..3000 {
        let nf = rng.below(6) as usize;
        let fs: Vec<RefFilter> = (0..nf).map(|_| RefFilter::random(&mut rng)).collect();
        let n = 1 + rng.below(300) as usize;
        let msgs = random_msgs(&mut rng, n);
        let exp: Vec<usize> = (0..n).filter(|i| ref_keep(&fs, &msgs[*i], true)).collect();
        let is_stream = rng.chance(1, 2);
        let w_end = rng.below(n as u64 + 5) as usize;
        let json = serde_json::json!({
            "window":[0, w_end],
            "filters": fs.iter().map(|f| f.json()).collect::<Vec<_>>()
        })
        .to_string();
        let mut sc =
            StreamContext::from(&log, if is_stream { "stream" } else { "query" }, &json).unwrap();
        let any_active = fs.iter().any(|f| f.enabled && f.kind != 2);
        assert_eq!(sc.filters_active, any_active, "round {} {:?}", round, fs);

        // feed as remote.rs does: msgs arrive in portions, processing continues from all_msgs_last_processed_len
        let mut avail = 0usize;
        let mut rounds = 0;
        loop {
            if avail < n {
                avail = std::cmp::min(n, avail + rng.below(120) as usize);
            }
            let last = std::cmp::min(sc.all_msgs_last_processed_len, avail);
            let chunk = 1 + rng.below(200) as usize;
            process_stream_new_msgs(&mut sc, last, &msgs[last..avail], chunk);
            rounds += 1;
            if avail >= n
                && (sc.all_msgs_last_processed_len >= n
                    || (!is_stream && sc.filters_active && sc.filtered_msgs.len() >= w_end))
            {
                break;
            }
            assert!(rounds < 10_000, "no progress round {} {:?}", round, fs);
        }
        if sc.filters_active {
            if is_stream {
                assert_eq!(sc.filtered_msgs, exp, "round {} stream {:?}", round, fs);
                assert_eq!(sc.all_msgs_last_processed_len, n);
            } else {
                let want = std::cmp::min(w_end, exp.len());
                assert_eq!(
                    sc.filtered_msgs,
                    exp[0..want],
                    "round {} query w_end {} {:?}",
                    round,
                    w_end,
                    fs
                );
                // now widen the window and go on:
                sc.msgs_to_send.end = n + 10;
                let mut rounds = 0;
                while sc.all_msgs_last_processed_len < n {
                    let last = sc.all_msgs_last_processed_len;
                    let chunk = 1 + rng.below(200) as usize;
                    process_stream_new_msgs(&mut sc, last, &msgs[last..], chunk);
                    rounds += 1;
                    assert!(rounds < 10_000);
                }
                assert_eq!(sc.filtered_msgs, exp, "round {} query widened {:?}", round, fs);
            }
        } else {
            assert_eq!(exp.len(), n);
            assert!(sc.filtered_msgs.is_empty());
            assert_eq!(sc.all_msgs_last_processed_len, n);
        }
    }
}

#[test]
fn explore_export_vs_reference() {
    let mut rng = Rng(0x0dd_ba11_5eed_1234);
    let dir = tempfile::tempdir().unwrap();
    for round in 0..300 {
        let nf = rng.below(6) as usize;
        let fs: Vec<RefFilter> = (0..nf).map(|_| RefFilter::random(&mut rng)).collect();
        let n = 1 + rng.below(60) as usize;
        let mut msgs = random_msgs(&mut rng, n);
        let exp: Vec<usize> = (0..n).filter(|i| ref_keep(&fs, &msgs[*i], true)).collect();
        let file = dir.path().join(format!("exp_{}.dlt", round));
        let cfg = serde_json::json!({"name":"Export","exportFileName": file.to_str().unwrap(),
            "filters": fs.iter().map(|f| f.json()).collect::<Vec<_>>()});
        let mut p = ExportPlugin::from_json(cfg.as_object().unwrap()).unwrap();
        for m in msgs.iter_mut() {
            assert!(p.process_msg(m));
        }
        p.sync_all();
        let st = p.state();
        let st = st.read().unwrap();
        assert_eq!(
            st.value["infos"]["nrExportedMsgs"].as_u64().unwrap() as usize,
            exp.len(),
            "round {} {:?}",
            round,
            fs
        );
        assert_eq!(
            st.value["infos"]["nrProcessedMsgs"].as_u64().unwrap() as usize,
            n
        );
        drop(st);
        drop(p);
        if !exp.is_empty() {
            // read back: first msg is the info msg, then the kept ones in order
            let data = std::fs::read(&file).unwrap();
            let it = adlt::utils::DltMessageIterator::new(0, std::io::Cursor::new(data));
            let got: Vec<DltMessage> = it.collect();
            assert_eq!(got.len(), exp.len() + 1, "round {}", round);
            for (g, e) in got[1..].iter().zip(exp.iter()) {
                let e = &msgs[*e];
                assert_eq!(g.timestamp_dms, e.timestamp_dms);
                assert_eq!(g.ecu, e.ecu);
                assert_eq!(g.apid(), e.apid());
                assert_eq!(g.standard_header.mcnt, e.standard_header.mcnt);
            }
        } else {
            assert!(!file.exists());
        }
    }
}

/// the set matcher (used by remote/export) with the full set
#[test]
fn finding_1_match_filters_disabled_positive_filter_drops_all() {
    let m = msg(0, 0, Some(0), 1);
    let mut filters: FilterKindContainer<Vec<Filter>> = Default::default();
    let mut f = Filter::new(FilterKind::Positive);
    f.enabled = false;
    filters[FilterKind::Positive].push(f.clone());
    // the stream filter with the same set keeps the msg:
    let (tx, rx) = channel();
    let (tx2, _rx2) = channel();
    tx.send(m.clone()).unwrap();
    drop(tx);
    assert_eq!(
        filter_as_streams(&[f], &rx, &|m| tx2.send(m)).unwrap(),
        (1, 0)
    );
    // no enabled positive filter exists, no negative, no event: kept
    assert!(
        match_filters(&m, &filters),
        "a disabled positive filter must have no effect on the selection"
    );
}

#[test]
fn finding_2_match_filters_disabled_event_filter_drops_all() {
    let m = msg(0, 0, Some(0), 1);
    let mut filters: FilterKindContainer<Vec<Filter>> = Default::default();
    let mut f = Filter::new(FilterKind::Event);
    f.enabled = false;
    filters[FilterKind::Event].push(f);
    assert!(
        match_filters(&m, &filters),
        "a disabled event filter must have no effect on the selection"
    );
}

/// bookkeeping of the number of processed msgs: the branch without active filters ignores the position of the new msgs.
/// remote.rs (collect mode one_pass_streams) calls it that way for a stream that was created after msgs had been drained:
/// new_msgs_offset = nr of drained msgs, all_msgs_last_processed_len = 0.
#[test]
fn finding_3_no_filter_stream_processed_count_ignores_offset() {
    let log = logger();
    let mut rng = Rng(42);
    let msgs = random_msgs(&mut rng, 50);
    // twin with one positive filter that matches every msg: kept = received, processed = 100 + 50
    let mut sc_f = StreamContext::from(&log, "stream", r#"{"filters":[{"type":0}]}"#).unwrap();
    process_stream_new_msgs(&mut sc_f, 100, &msgs, 1000);
    assert_eq!(sc_f.filtered_msgs.len(), 50);
    assert_eq!(sc_f.all_msgs_last_processed_len, 150);
    // empty filter set (or only disabled / marker filters): keeps every msg as well
    let mut sc = StreamContext::from(
        &log,
        "stream",
        r#"{"filters":[{"type":0,"enabled":false},{"type":2}]}"#,
    )
    .unwrap();
    assert!(!sc.filters_active);
    process_stream_new_msgs(&mut sc, 100, &msgs, 1000);
    // remote.rs reports nr_stream_msgs = 150 (all msgs) and nr_file_msgs_processed = all_msgs_last_processed_len
    assert_eq!(
        sc.all_msgs_last_processed_len, 150,
        "msgs 100..150 have been processed (and kept), reported as processed: {}",
        sc.all_msgs_last_processed_len
    );
}
