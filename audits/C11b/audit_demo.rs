// Audit C11b: demonstrations on the unchanged code. Each test FAILS while the finding is present.
use adlt::dlt::{DltChar4, DltExtendedHeader, DltMessage};
use adlt::filter::{Filter, FilterKind};

fn msg(ecu: &[u8; 4], text: &str) -> DltMessage {
    let mut m = DltMessage::get_testmsg_with_payload(false, 0, &[]);
    m.ecu = DltChar4::from_buf(ecu);
    m.extended_header = Some(DltExtendedHeader {
        apid: DltChar4::from_buf(b"APID"),
        noar: 0,
        ctid: DltChar4::from_buf(b"CTID"),
        verb_mstp_mtin: 0x41,
    });
    m.payload_text = Some(text.to_string());
    m
}

/// Finding 1 (JSON round trip clause): to_json writes a literal id through Display, which
/// replaces bytes < 0x20 by '-', bytes > 0x7e by '?' and stops at the first NUL. from_json accepts
/// such ids (see the unit test `from_json`, "ecu with lower ascii range"), so the reloaded filter
/// is a different filter.
#[test]
fn f1_json_roundtrip_literal_id_with_control_char() {
    let f = Filter::from_json(r#"{"type":0,"ecu":"A\u0001C"}"#).unwrap();
    let g = Filter::from_json(&f.to_json()).unwrap();
    let m1 = msg(&[0x41, 1, 0x43, 0], "x"); // the id the filter was written for
    let m2 = msg(b"A-C\0", "x"); // a different id
    assert!(f.matches(&m1) && !f.matches(&m2), "original filter as expected");
    assert_eq!(
        (f.matches(&m1), f.matches(&m2)),
        (g.matches(&m1), g.matches(&m2)),
        "reloaded filter decides differently; json was {}",
        f.to_json()
    );
}

/// Finding 2 (payload clause + JSON round trip clause): the public fields `payload` and
/// `ignore_case_payload` do not decide the case handling; the private cache `payload_as_regex`
/// does, and only from_json / the dlf loader fill it. A filter built through the public API with
/// ignore_case_payload = true matches case-sensitively, and changes its decision when it is
/// serialised and loaded again.
#[test]
fn f2_public_fields_ignore_case_payload_not_honoured() {
    let mut f = Filter::new(FilterKind::Positive);
    f.payload = Some("Hello".to_string());
    f.ignore_case_payload = true;
    let m = msg(b"ECU1", "say hello");
    let g = Filter::from_json(&f.to_json()).unwrap();
    assert!(g.matches(&m), "reloaded filter ignores the case");
    assert_eq!(f.matches(&m), g.matches(&m), "json was {}", f.to_json());
}

/// Finding 3 (payload regular expression with case-insensitivity): with ignoreCasePayload the
/// regex is compiled as "(?i)" + regex by fancy_regex 0.14, whose back references compare the
/// captured text byte by byte. `(a)\1` with ignore case matches "aa" and "AA" but not "aA"
/// (ECMAScript / PCRE / Python: /(a)\1/i matches "aA").
#[test]
fn f3_ignore_case_regex_with_backreference() {
    let f =
        Filter::from_json(r#"{"type":0,"payloadRegex":"(a)\\1","ignoreCasePayload":true}"#).unwrap();
    assert!(f.matches(&msg(b"ECU1", "aa")));
    assert!(f.matches(&msg(b"ECU1", "AA")));
    assert!(f.matches(&msg(b"ECU1", "aA")), "(a)\\1 ignoring case must match 'aA'");
}
