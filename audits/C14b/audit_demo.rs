//! audit C14b: demonstrations for the property
//! "convert selects exactly what its options say, and writes what it selected"
//!
//! Every test FAILS on the unchanged code. All of them are boundary cases (see audit/notes.md).
use std::io::Write;
use std::process::Command;

/// one DLT message with storage header, ext header and a single verbose utf8 string argument
fn msg(secs: u32, micros: u32, ecu: &[u8], apid: &[u8], ctid: &[u8], ts: u32, text: &str) -> Vec<u8> {
    fn c4(s: &[u8]) -> [u8; 4] {
        let mut r = [0u8; 4];
        r[..s.len()].copy_from_slice(s);
        r
    }
    let mut payload = Vec::new();
    payload.extend_from_slice(&(0x0000_0200u32 | 0x0000_8000).to_le_bytes()); // STRG | UTF8
    payload.extend_from_slice(&((text.len() + 1) as u16).to_le_bytes());
    payload.extend_from_slice(text.as_bytes());
    payload.push(0);

    let mut m = Vec::new();
    m.extend_from_slice(b"DLT\x01");
    m.extend_from_slice(&secs.to_le_bytes());
    m.extend_from_slice(&micros.to_le_bytes());
    m.extend_from_slice(&c4(ecu));
    let len = (4 + 4 + 10 + payload.len()) as u16;
    m.extend_from_slice(&[0x20 | 0x10 | 0x01, 0]); // vers 1, WTMS, UEH; mcnt 0
    m.extend_from_slice(&len.to_be_bytes());
    m.extend_from_slice(&ts.to_be_bytes());
    m.extend_from_slice(&[0x41, 1]); // verbose, log info, noar 1
    m.extend_from_slice(&c4(apid));
    m.extend_from_slice(&c4(ctid));
    m.extend_from_slice(&payload);
    m
}

fn write_file(dir: &std::path::Path, name: &str, data: &[u8]) -> String {
    let p = dir.join(name);
    let mut f = std::fs::File::create(&p).unwrap();
    f.write_all(data).unwrap();
    f.flush().unwrap();
    p.to_string_lossy().to_string()
}

/// run `adlt convert <args>` (TZ=UTC), return (success, stdout lines)
fn convert(args: &[&str]) -> (bool, Vec<String>) {
    let out = Command::new(env!("CARGO_BIN_EXE_adlt"))
        .env("TZ", "UTC")
        .arg("convert")
        .args(args)
        .output()
        .unwrap();
    (
        out.status.success(),
        String::from_utf8_lossy(&out.stdout)
            .lines()
            .map(|l| l.to_string())
            .collect(),
    )
}

/// a line of the -a output without the leading index
fn wo_index(l: &str) -> String {
    l.split_once(' ').unwrap().1.to_string()
}

/// clause: "the DLT file it writes re-reads to exactly those messages"
///
/// storage header with secs=0xffff_ffff and micros=1_000_000 (micros are not normalised in DLT files):
/// reception_time_us = 2^32 s. DltStorageHeader::from_msg truncates secs with `as u32` -> written as 0.
#[test]
fn c14b_output_file_wraps_reception_time() {
    let dir = tempfile::tempdir().unwrap();
    let mut data = msg(1_640_995_200, 0, b"ECU1", b"APP1", b"CTX1", 1000, "first");
    data.extend(msg(0xffff_ffff, 1_000_000, b"ECU1", b"APP1", b"CTX1", 2000, "late"));
    let input = write_file(dir.path(), "in.dlt", &data);
    let output = dir.path().join("out.dlt").to_string_lossy().to_string();

    let (ok, selected) = convert(&["-a", "-o", &output, &input]);
    assert!(ok);
    assert_eq!(selected.len(), 2);
    let (ok, reread) = convert(&["-a", &output]);
    assert!(ok);
    assert_eq!(
        selected.iter().map(|l| wo_index(l)).collect::<Vec<_>>(),
        reread.iter().map(|l| wo_index(l)).collect::<Vec<_>>(),
        "the written file does not re-read to the selected messages"
    );
}

/// clause: "emits exactly the input messages that satisfy all the given selections"
///
/// `--eac=ECU12` names an ECU that no message has (the only ECU is ECU1). DltChar4::from_str cuts the
/// id silently to 4 chars so all ECU1 messages are selected.
#[test]
fn c14b_eac_plain_id_longer_than_4_chars_selects_prefix_ecu() {
    let dir = tempfile::tempdir().unwrap();
    let mut data = Vec::new();
    for i in 0..3u32 {
        data.extend(msg(1_640_995_200 + i, 0, b"ECU1", b"APP1", b"CTX1", 1000 + i * 10_000, "x"));
    }
    let input = write_file(dir.path(), "in.dlt", &data);
    let (ok, lines) = convert(&["-a", "--eac=ECU12", &input]);
    // either the option is rejected or nothing is selected:
    assert!(
        !ok || lines.is_empty(),
        "--eac=ECU12 selected {} msgs of ECU1",
        lines.len()
    );
}

/// clause: "emits exactly the input messages that satisfy all the given selections"
///
/// ECU id `E3` (shorter than 4 chars, shown as `E3` in the lifecycle list). The expression `^E3$`
/// (or `ECU1|E3$`) is matched against the raw 4 bytes `E3\0\0` so the end anchor never matches.
#[test]
fn c14b_eac_anchored_regex_never_matches_short_id() {
    let dir = tempfile::tempdir().unwrap();
    let mut data = Vec::new();
    data.extend(msg(1_640_995_200, 0, b"ECU1", b"APP1", b"CTX1", 1000, "a"));
    data.extend(msg(1_640_995_201, 0, b"E3", b"APP1", b"CTX1", 1000, "b"));
    data.extend(msg(1_640_995_202, 0, b"XE3", b"APP1", b"CTX1", 1000, "c"));
    let input = write_file(dir.path(), "in.dlt", &data);

    // the unanchored expression selects E3 and XE3 (documented "contains" behaviour):
    let (ok, lines) = convert(&["-a", "--eac=E3|QQQQ", &input]);
    assert!(ok);
    assert_eq!(lines.len(), 2);

    // the anchored one is the only way to say "exactly E3" with a regex. It selects nothing:
    let (ok, lines) = convert(&["-a", "--eac=^E3$", &input]);
    assert!(ok);
    assert_eq!(lines.len(), 1, "--eac=^E3$ selected {:?}", lines);
    assert!(lines[0].starts_with("1 "));
}
