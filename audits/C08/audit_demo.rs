// Audit C08: "Cleanly separated power cycles are detected exactly"
//
// Model used (from the statement): a boot of an ECU has a boot time B (real time of timestamp 0),
// a transport delay d that all messages of that boot experience and messages with timestamps t
// (0.1ms resolution). A message is received at B + d + t.
// Two consecutive boots are "cleanly separated" if all messages of the first precede all messages
// of the second one in the stream and in reception time. Boot k+1 starts at
// B' = B + duration + off-time with off-time >= 1ms.
//
// Expected: one lifecycle per boot with start = B + d and end = start + max(t).

use adlt::dlt::{DltChar4, DltMessage, DltStandardHeader};
use adlt::lifecycle::{parse_lifecycles_buffered_from_stream, Lifecycle, LifecycleId, LifecycleItem};
use std::collections::HashMap;

const MS: u64 = 1_000;
const S: u64 = 1_000_000;

fn msg(ecu: &[u8; 4], index: u32, reception_time_us: u64, timestamp_us: u64) -> DltMessage {
    assert_eq!(timestamp_us % 100, 0);
    DltMessage {
        index,
        reception_time_us,
        ecu: DltChar4::from_buf(ecu),
        timestamp_dms: (timestamp_us / 100) as u32,
        standard_header: DltStandardHeader {
            htyp: (1 << 4) | (1 << 5), // has timestamp, version 1
            len: 0,
            mcnt: 0,
        },
        extended_header: None,
        payload: vec![],
        payload_text: None,
        lifecycle: 0,
    }
}

/// a boot: (boot_time_us, delay_us, timestamps in stream order)
struct Boot {
    boot_time: u64,
    delay: u64,
    timestamps: Vec<u64>,
}

impl Boot {
    fn start(&self) -> u64 {
        self.boot_time + self.delay
    }
    fn max_t(&self) -> u64 {
        *self.timestamps.iter().max().unwrap()
    }
    fn end(&self) -> u64 {
        self.start() + self.max_t()
    }
    fn min_rx(&self) -> u64 {
        self.start() + *self.timestamps.iter().min().unwrap()
    }
    fn max_rx(&self) -> u64 {
        self.end()
    }
}

fn run(msgs: Vec<DltMessage>) -> (Vec<DltMessage>, HashMap<LifecycleId, Lifecycle>) {
    let (tx, rx) = std::sync::mpsc::channel();
    let (tx2, rx2) = std::sync::mpsc::channel();
    for m in msgs {
        tx.send(m).unwrap();
    }
    drop(tx);
    let (lcs_r, lcs_w) = evmap::new::<LifecycleId, LifecycleItem>();
    let _lcs_w = parse_lifecycles_buffered_from_stream(lcs_w, rx, &|m| tx2.send(m));
    drop(tx2);
    let out: Vec<DltMessage> = rx2.iter().collect();
    let mut lcs = HashMap::new();
    if let Some(r) = lcs_r.read() {
        for (id, b) in &r {
            let lc = b.get_one().unwrap();
            if lc.nr_msgs > 0 {
                lcs.insert(*id, lc.clone());
            }
        }
    }
    (out, lcs)
}

/// checks the property for a single ecu trace consisting of the boots
fn check_single_ecu(boots: &[Boot]) -> Result<(), String> {
    // premise: cleanly separated
    for w in boots.windows(2) {
        assert!(
            w[0].max_rx() < w[1].min_rx(),
            "premise: reception times of consecutive boots are separated"
        );
        assert!(
            w[1].boot_time >= w[0].boot_time + w[0].max_t() + MS,
            "premise: off-time >= 1ms"
        );
    }
    let mut msgs = vec![];
    let mut boot_of_msg = vec![];
    for (bi, b) in boots.iter().enumerate() {
        for t in &b.timestamps {
            let idx = msgs.len() as u32;
            msgs.push(msg(b"ECU1", idx, b.start() + t, *t));
            boot_of_msg.push(bi);
        }
    }
    let (out, lcs) = run(msgs);
    if lcs.len() != boots.len() {
        let mut v: Vec<_> = lcs
            .values()
            .map(|l| (l.start_time, l.end_time(), l.nr_msgs, l.is_resume()))
            .collect();
        v.sort();
        return Err(format!(
            "expected {} lifecycles, got {}: (start,end,nr_msgs,is_resume)={:?}",
            boots.len(),
            lcs.len(),
            v
        ));
    }
    for m in &out {
        let b = &boots[boot_of_msg[m.index as usize]];
        let lc = lcs
            .get(&m.lifecycle)
            .ok_or_else(|| format!("msg #{} has unknown lifecycle", m.index))?;
        if lc.start_time != b.start() || lc.end_time() != b.end() {
            return Err(format!(
                "msg #{} in lc start={} end={} expected start={} end={}",
                m.index,
                lc.start_time,
                lc.end_time(),
                b.start(),
                b.end()
            ));
        }
    }
    Ok(())
}

/// Finding 1: a boot that experiences a smaller transport delay than the previous boot
/// (by more than the off-time) is merged into the previous lifecycle.
///
/// boot 1: boots at 1000s, delay 5s, msgs with timestamps 0..=10s (received 1005s..=1015s)
/// boot 2: boots at 1011s (1s off-time), delay 1s, msgs with timestamps 3.5s..=13.5s
///         (received 1015.5s..=1025.5s, so strictly after all msgs from boot 1)
#[test]
fn c08_later_boot_with_smaller_delay_is_merged() {
    let boots = [
        Boot {
            boot_time: 1000 * S,
            delay: 5 * S,
            timestamps: (0..=10).map(|i| i * S).collect(),
        },
        Boot {
            boot_time: 1011 * S,
            delay: S,
            timestamps: (0..=10).map(|i| 3500 * MS + i * S).collect(),
        },
    ];
    let r = check_single_ecu(&boots);
    assert!(r.is_ok(), "{}", r.unwrap_err());
}

/// Finding 1, variant: the delay of the 2nd boot is that much smaller that the calculated start
/// is before the start of the first boot: the reported start of the (single) lifecycle is neither
/// the one from boot 1 nor are two lifecycles reported.
///
/// boot 1: boots at 1000s, delay 20s, msgs with timestamps 0..=10s (received 1020s..=1030s)
/// boot 2: boots at 1010.001s (1ms off-time), delay 0, msgs with timestamps 20s..=30s
///         (received 1030.001s..=1040.001s)
#[test]
fn c08_later_boot_with_smaller_delay_moves_start_of_prev() {
    let boots = [
        Boot {
            boot_time: 1000 * S,
            delay: 20 * S,
            timestamps: (0..=10).map(|i| i * S).collect(),
        },
        Boot {
            boot_time: 1010 * S + MS,
            delay: 0,
            timestamps: (0..=10).map(|i| 20 * S + i * S).collect(),
        },
    ];
    let r = check_single_ecu(&boots);
    assert!(r.is_ok(), "{}", r.unwrap_err());
}

// ---------------------------------------------------------------------------------------------
// exploration under the strict reading (calculated start of the next boot is after the calculated
// end of the previous boot): random traces, n ecus interleaved, arbitrary order within a boot
// ---------------------------------------------------------------------------------------------

struct Rng(u64);
impl Rng {
    fn next(&mut self) -> u64 {
        // xorshift64*
        self.0 ^= self.0 >> 12;
        self.0 ^= self.0 << 25;
        self.0 ^= self.0 >> 27;
        self.0.wrapping_mul(0x2545F4914F6CDD1D)
    }
    fn below(&mut self, n: u64) -> u64 {
        self.next() % n
    }
}

#[test]
fn c08_explore_strict_random() {
    let mut rng = Rng(0x1234_5678_9abc_def1);
    let ecus: [&[u8; 4]; 4] = [b"ECU1", b"ECU2", b"ECU3", b"ECU4"];
    for round in 0..3000 {
        let n_ecus = 1 + rng.below(4) as usize;
        // per ecu: list of (calc start, timestamps in stream order)
        let mut per_ecu: Vec<Vec<(u64, Vec<u64>)>> = vec![];
        for _ in 0..n_ecus {
            let n_boots = 1 + rng.below(5);
            let mut start = match rng.below(3) {
                0 => 0,
                1 => rng.below(100 * S),
                _ => 1_600_000_000 * S + rng.below(1000 * S),
            };
            let mut boots = vec![];
            for _ in 0..n_boots {
                let n_msgs = match rng.below(4) {
                    0 => 1 + rng.below(2),
                    1 => 1 + rng.below(10),
                    _ => 1 + rng.below(60),
                };
                let dur_dms = match rng.below(5) {
                    0 => 1 + rng.below(20),                // up to 2ms
                    1 => 1 + rng.below(10_000),            // up to 1s
                    2 => 1 + rng.below(150_000),           // up to 15s
                    3 => 1 + rng.below(2_000_000),         // up to 200s
                    _ => 1 + rng.below(40_000_000),        // up to 4000s
                };
                let mut ts: Vec<u64> = (0..n_msgs).map(|_| rng.below(dur_dms + 1) * 100).collect();
                if rng.below(2) == 0 {
                    ts[0] = 0;
                }
                // arbitrary order: shuffle
                for i in (1..ts.len()).rev() {
                    let j = rng.below(i as u64 + 1) as usize;
                    ts.swap(i, j);
                }
                if rng.below(3) == 0 {
                    ts.sort();
                }
                let max_t = *ts.iter().max().unwrap();
                boots.push((start, ts));
                let off = match rng.below(5) {
                    0 => MS,
                    1 => MS + rng.below(2 * S),
                    2 => MS + rng.below(9 * S),
                    3 => 10 * S + rng.below(50 * S),
                    _ => 60 * S + rng.below(5000 * S),
                };
                start = start + max_t + off;
            }
            per_ecu.push(boots);
        }
        // interleave
        let mut cursors: Vec<(usize, usize)> = vec![(0, 0); n_ecus];
        let mut msgs = vec![];
        let mut expect: Vec<(usize, usize)> = vec![];
        loop {
            let avail: Vec<usize> = (0..n_ecus)
                .filter(|e| cursors[*e].0 < per_ecu[*e].len())
                .collect();
            if avail.is_empty() {
                break;
            }
            let e = avail[rng.below(avail.len() as u64) as usize];
            // burst
            let burst = 1 + rng.below(8);
            for _ in 0..burst {
                let (bi, mi) = cursors[e];
                if bi >= per_ecu[e].len() {
                    break;
                }
                let (start, ts) = &per_ecu[e][bi];
                let t = ts[mi];
                let idx = msgs.len() as u32;
                msgs.push(msg(ecus[e], idx, start + t, t));
                expect.push((e, bi));
                cursors[e] = if mi + 1 < ts.len() { (bi, mi + 1) } else { (bi + 1, 0) };
            }
        }
        let n_in = msgs.len();
        let (out, lcs) = run(msgs);
        assert_eq!(out.len(), n_in, "round {round}: all msgs forwarded");
        let total_boots: usize = per_ecu.iter().map(|b| b.len()).sum();
        assert_eq!(lcs.len(), total_boots, "round {round}: nr of lifecycles {:?}", lcs);
        for (i, m) in out.iter().enumerate() {
            assert_eq!(m.index as usize, i, "round {round}: order kept");
            let (e, bi) = expect[i];
            let (start, ts) = &per_ecu[e][bi];
            let lc = lcs.get(&m.lifecycle).expect("lc known");
            assert_eq!(lc.ecu, DltChar4::from_buf(ecus[e]), "round {round}");
            assert_eq!(lc.start_time, *start, "round {round} msg {i}");
            assert_eq!(lc.end_time(), start + ts.iter().max().unwrap(), "round {round} msg {i}");
            assert_eq!(lc.nr_msgs as usize, ts.len(), "round {round} msg {i}");
        }
    }
}
