// C18 audit: demonstrations on the unchanged code. Both tests FAIL on the current code.
// Both are boundary findings at the edge of the stated range; the core property
// (roundtrip, canonical text, truncation -> prefix, no out-of-bounds) held for everything
// examined (see audit/explore_passing.rs, which passes).
use adlt::dlt::{parse_dlt_with_storage_header, DltArg, DltMessage, DLT_TYPE_INFO_RAWD};
use adlt::dlt_args;
use adlt::utils::payload_from_args;

/// F1: dlt_args! counts the arguments in a u8 without a check: with 256 arguments it
/// panics ("attempt to add with overflow") in debug builds and returns noar=0 together with
/// a 256-argument payload in release builds, instead of returning an Err.
#[test]
fn f1_dlt_args_256_arguments_overflow_noar() {
    let r = std::panic::catch_unwind(|| dlt_args!(1u8, 1u8, 1u8, 1u8, 1u8, 1u8, 1u8, 1u8, 1u8, 1u8, 1u8, 1u8, 1u8, 1u8, 1u8, 1u8, 1u8, 1u8, 1u8, 1u8, 1u8, 1u8, 1u8, 1u8, 1u8, 1u8, 1u8, 1u8, 1u8, 1u8, 1u8, 1u8, 1u8, 1u8, 1u8, 1u8, 1u8, 1u8, 1u8, 1u8, 1u8, 1u8, 1u8, 1u8, 1u8, 1u8, 1u8, 1u8, 1u8, 1u8, 1u8, 1u8, 1u8, 1u8, 1u8, 1u8, 1u8, 1u8, 1u8, 1u8, 1u8, 1u8, 1u8, 1u8, 1u8, 1u8, 1u8, 1u8, 1u8, 1u8, 1u8, 1u8, 1u8, 1u8, 1u8, 1u8, 1u8, 1u8, 1u8, 1u8, 1u8, 1u8, 1u8, 1u8, 1u8, 1u8, 1u8, 1u8, 1u8, 1u8, 1u8, 1u8, 1u8, 1u8, 1u8, 1u8, 1u8, 1u8, 1u8, 1u8, 1u8, 1u8, 1u8, 1u8, 1u8, 1u8, 1u8, 1u8, 1u8, 1u8, 1u8, 1u8, 1u8, 1u8, 1u8, 1u8, 1u8, 1u8, 1u8, 1u8, 1u8, 1u8, 1u8, 1u8, 1u8, 1u8, 1u8, 1u8, 1u8, 1u8, 1u8, 1u8, 1u8, 1u8, 1u8, 1u8, 1u8, 1u8, 1u8, 1u8, 1u8, 1u8, 1u8, 1u8, 1u8, 1u8, 1u8, 1u8, 1u8, 1u8, 1u8, 1u8, 1u8, 1u8, 1u8, 1u8, 1u8, 1u8, 1u8, 1u8, 1u8, 1u8, 1u8, 1u8, 1u8, 1u8, 1u8, 1u8, 1u8, 1u8, 1u8, 1u8, 1u8, 1u8, 1u8, 1u8, 1u8, 1u8, 1u8, 1u8, 1u8, 1u8, 1u8, 1u8, 1u8, 1u8, 1u8, 1u8, 1u8, 1u8, 1u8, 1u8, 1u8, 1u8, 1u8, 1u8, 1u8, 1u8, 1u8, 1u8, 1u8, 1u8, 1u8, 1u8, 1u8, 1u8, 1u8, 1u8, 1u8, 1u8, 1u8, 1u8, 1u8, 1u8, 1u8, 1u8, 1u8, 1u8, 1u8, 1u8, 1u8, 1u8, 1u8, 1u8, 1u8, 1u8, 1u8, 1u8, 1u8, 1u8, 1u8, 1u8, 1u8, 1u8, 1u8, 1u8, 1u8, 1u8, 1u8, 1u8, 1u8, 1u8, 1u8, 1u8, 1u8, 1u8, 1u8, 1u8, 1u8, 1u8, 1u8, 1u8, 1u8, 1u8, 1u8, 1u8));
    match r {
        Err(_) => panic!("dlt_args! with 256 args panicked instead of returning Err"),
        Ok(Err(_)) => (), // what the property/encoder contract demands
        Ok(Ok((noar, payload))) => {
            let m = DltMessage::get_testmsg_with_payload(cfg!(target_endian = "big"), noar, &payload);
            let n = m.into_iter().count();
            panic!("dlt_args! returned noar={} for a payload that decodes to {} args", noar, n);
        }
    }
}

/// F2: a message with one maximal RAWD argument (65535 bytes, the largest value of the 16 bit
/// argument length) is accepted by DltMessage::to_write (returns Ok) but the standard header
/// length is computed with `payload.len() as u16` (wraps), so the written message does not
/// decode to the same argument list (0 args instead of 1).
#[test]
fn f2_to_write_maximal_rawd_argument_wraps_len() {
    for be in [false, true] {
        let raw = vec![0xabu8; 0xffff];
        let args = [DltArg { type_info: DLT_TYPE_INFO_RAWD, is_big_endian: be, payload_raw: &raw }];
        let payload = payload_from_args(&args);
        let m = DltMessage::get_testmsg_with_payload(be, 1, &payload);
        // in memory the roundtrip is fine:
        let a: Vec<DltArg> = m.into_iter().collect();
        assert_eq!(a.len(), 1);
        assert_eq!(a[0].payload_raw, &raw[..]);

        let mut file = Vec::new();
        let res = m.to_write(&mut file);
        if res.is_err() {
            continue; // rejecting the oversized message would be fine
        }
        let (_consumed, m2) = parse_dlt_with_storage_header(0, &file).unwrap();
        let a2: Vec<DltArg> = m2.into_iter().collect();
        assert_eq!(
            a2.len(),
            1,
            "be={}: to_write returned Ok but the written msg (std hdr len={}, file len={}) decodes to {} args, text={:?}",
            be,
            m2.standard_header.len,
            file.len(),
            a2.len(),
            m2.payload_as_text()
        );
        assert_eq!(a2[0].payload_raw, &raw[..]);
    }
}
