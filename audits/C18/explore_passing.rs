// exploratory audit test for C18 (verbose payload encode/decode/text)
use adlt::dlt::{
    DltArg, DltMessage, DLT_SCOD_ASCII, DLT_SCOD_UTF8, DLT_TYLE_16BIT, DLT_TYLE_32BIT,
    DLT_TYLE_64BIT, DLT_TYLE_8BIT, DLT_TYPE_INFO_BOOL, DLT_TYPE_INFO_FLOA, DLT_TYPE_INFO_RAWD,
    DLT_TYPE_INFO_SINT, DLT_TYPE_INFO_STRG, DLT_TYPE_INFO_UINT,
};
use adlt::utils::payload_from_args;

#[derive(Clone, Debug)]
enum V {
    Bool(bool),
    I8(i8),
    I16(i16),
    I32(i32),
    I64(i64),
    U8(u8),
    U16(u16),
    U32(u32),
    U64(u64),
    F32(f32),
    F64(f64),
    Utf8(Vec<u8>),
    Ascii(Vec<u8>),
    Raw(Vec<u8>),
}

fn ti(v: &V) -> u32 {
    match v {
        V::Bool(_) => DLT_TYPE_INFO_BOOL | DLT_TYLE_8BIT as u32,
        V::I8(_) => DLT_TYPE_INFO_SINT | DLT_TYLE_8BIT as u32,
        V::I16(_) => DLT_TYPE_INFO_SINT | DLT_TYLE_16BIT as u32,
        V::I32(_) => DLT_TYPE_INFO_SINT | DLT_TYLE_32BIT as u32,
        V::I64(_) => DLT_TYPE_INFO_SINT | DLT_TYLE_64BIT as u32,
        V::U8(_) => DLT_TYPE_INFO_UINT | DLT_TYLE_8BIT as u32,
        V::U16(_) => DLT_TYPE_INFO_UINT | DLT_TYLE_16BIT as u32,
        V::U32(_) => DLT_TYPE_INFO_UINT | DLT_TYLE_32BIT as u32,
        V::U64(_) => DLT_TYPE_INFO_UINT | DLT_TYLE_64BIT as u32,
        V::F32(_) => DLT_TYPE_INFO_FLOA | DLT_TYLE_32BIT as u32,
        V::F64(_) => DLT_TYPE_INFO_FLOA | DLT_TYLE_64BIT as u32,
        V::Utf8(_) => DLT_TYPE_INFO_STRG | DLT_SCOD_UTF8,
        V::Ascii(_) => DLT_TYPE_INFO_STRG | DLT_SCOD_ASCII,
        V::Raw(_) => DLT_TYPE_INFO_RAWD,
    }
}

fn raw(v: &V, be: bool) -> Vec<u8> {
    macro_rules! b {
        ($x:expr) => {
            if be {
                $x.to_be_bytes().to_vec()
            } else {
                $x.to_le_bytes().to_vec()
            }
        };
    }
    match v {
        V::Bool(x) => vec![*x as u8],
        V::I8(x) => b!(x),
        V::I16(x) => b!(x),
        V::I32(x) => b!(x),
        V::I64(x) => b!(x),
        V::U8(x) => b!(x),
        V::U16(x) => b!(x),
        V::U32(x) => b!(x),
        V::U64(x) => b!(x),
        V::F32(x) => b!(x),
        V::F64(x) => b!(x),
        V::Utf8(x) | V::Ascii(x) | V::Raw(x) => x.clone(),
    }
}

fn strip_and_ws(s: &str) -> String {
    s.chars()
        .map(|c| if c == '\r' || c == '\n' || c == '\t' { ' ' } else { c })
        .collect()
}

fn canon(v: &V) -> String {
    match v {
        V::Bool(x) => format!("{}", x),
        V::I8(x) => format!("{}", x),
        V::I16(x) => format!("{}", x),
        V::I32(x) => format!("{}", x),
        V::I64(x) => format!("{}", x),
        V::U8(x) => format!("{}", x),
        V::U16(x) => format!("{}", x),
        V::U32(x) => format!("{}", x),
        V::U64(x) => format!("{}", x),
        V::F32(x) => format!("{}", x),
        V::F64(x) => format!("{}", x),
        V::Utf8(x) => {
            let b = if x.last() == Some(&0) { &x[..x.len() - 1] } else { &x[..] };
            strip_and_ws(&String::from_utf8_lossy(b))
        }
        V::Ascii(x) => {
            let b = if x.last() == Some(&0) { &x[..x.len() - 1] } else { &x[..] };
            // ascii range only checked exactly; others windows-1252
            let (s, _) = encoding_rs::WINDOWS_1252.decode_without_bom_handling(b);
            strip_and_ws(&s)
        }
        V::Raw(x) => x.iter().map(|b| format!("{:02x}", b)).collect::<Vec<_>>().join(" "),
    }
}

fn encode(vals: &[V], be: bool) -> (Vec<u8>, Vec<usize>) {
    let raws: Vec<Vec<u8>> = vals.iter().map(|v| raw(v, be)).collect();
    let args: Vec<DltArg> = vals
        .iter()
        .zip(raws.iter())
        .map(|(v, r)| DltArg { type_info: ti(v), is_big_endian: be, payload_raw: r })
        .collect();
    let p = payload_from_args(&args);
    // arg end offsets
    let mut ends = vec![];
    let mut o = 0;
    for (v, r) in vals.iter().zip(raws.iter()) {
        o += 4 + r.len()
            + match v {
                V::Utf8(_) | V::Ascii(_) | V::Raw(_) => 2,
                _ => 0,
            };
        ends.push(o);
    }
    assert_eq!(o, p.len(), "payload len vals={:?}", vals);
    (p, ends)
}

fn check_decode(vals: &[V], be: bool, payload: &[u8], n_expected: usize, ctx: &str) {
    let m = DltMessage::get_testmsg_with_payload(be, vals.len() as u8, payload);
    let got: Vec<DltArg> = m.into_iter().collect();
    assert_eq!(got.len(), n_expected, "{} nr args vals={:?} be={}", ctx, vals, be);
    for (i, a) in got.iter().enumerate() {
        assert_eq!(a.type_info, ti(&vals[i]), "{} type_info #{}", ctx, i);
        assert_eq!(a.is_big_endian, be);
        assert_eq!(a.payload_raw, &raw(&vals[i], be)[..], "{} raw #{}", ctx, i);
    }
    let exp_text = vals[..n_expected].iter().map(canon).collect::<Vec<_>>().join(" ");
    let text = m.payload_as_text().unwrap();
    assert_eq!(text, exp_text, "{} text vals={:?} be={}", ctx, vals, be);
}

fn pool() -> Vec<V> {
    let mut p = vec![
        V::Bool(true),
        V::Bool(false),
        V::Raw(vec![]),
        V::Raw(vec![0]),
        V::Raw(vec![0xff, 0x0a, 0xAB]),
        V::Utf8(vec![]),
        V::Utf8(vec![0]),
        V::Utf8(vec![0, 0]),
        V::Utf8(b"a\r\n\tb\0".to_vec()),
        V::Utf8(b"\r\n".to_vec()),
        V::Utf8(b"x\0y".to_vec()),
        V::Utf8(vec![0xff, 0xfe, b'a', 0xc3]),
        V::Utf8("h\u{e4}\u{2028}\u{85}llo\0".as_bytes().to_vec()),
        V::Utf8(vec![b'a', 0x0b, 0x0c, 0x1b, 0x7f, 0]),
        V::Ascii(vec![]),
        V::Ascii(vec![0]),
        V::Ascii(b"abc\0".to_vec()),
        V::Ascii(b"a\tb\rc\nd".to_vec()),
        V::Ascii((0u8..=255).collect()),
        V::Ascii((1u8..=255).chain(std::iter::once(0)).collect()),
    ];
    for x in [i8::MIN, -1, 0, 1, i8::MAX] {
        p.push(V::I8(x));
    }
    for x in [i16::MIN, -1, 0, 1, i16::MAX, 0x0100] {
        p.push(V::I16(x));
    }
    for x in [i32::MIN, -1, 0, 1, i32::MAX, 0x01000000] {
        p.push(V::I32(x));
    }
    for x in [i64::MIN, -1, 0, 1, i64::MAX, 0x0100000000000000] {
        p.push(V::I64(x));
    }
    for x in [0, 1, 0x7f, 0x80, u8::MAX] {
        p.push(V::U8(x));
    }
    for x in [0, 1, 0x7fff, 0x8000, u16::MAX, 0x0100] {
        p.push(V::U16(x));
    }
    for x in [0, 1, 0x7fffffff, 0x80000000, u32::MAX, 0x0200] {
        p.push(V::U32(x));
    }
    for x in [0, 1, i64::MAX as u64, 1u64 << 63, u64::MAX, 0x0400] {
        p.push(V::U64(x));
    }
    for x in [
        0.0f32,
        -0.0,
        1.5,
        f32::MIN,
        f32::MAX,
        f32::MIN_POSITIVE,
        f32::EPSILON,
        f32::NAN,
        -f32::NAN,
        f32::INFINITY,
        f32::NEG_INFINITY,
        f32::from_bits(1),
        f32::from_bits(0x7fa00001),
    ] {
        p.push(V::F32(x));
    }
    for x in [
        0.0f64,
        -0.0,
        1.5,
        f64::MIN,
        f64::MAX,
        f64::MIN_POSITIVE,
        f64::EPSILON,
        f64::NAN,
        -f64::NAN,
        f64::INFINITY,
        f64::NEG_INFINITY,
        f64::from_bits(1),
        f64::from_bits(0x7ff4000000000001),
    ] {
        p.push(V::F64(x));
    }
    p
}

#[test]
fn explore_roundtrip_and_truncation() {
    let pool = pool();
    // singles, pairs and some triples
    let mut seqs: Vec<Vec<V>> = vec![vec![]];
    for a in &pool {
        seqs.push(vec![a.clone()]);
    }
    for a in &pool {
        for b in &pool {
            seqs.push(vec![a.clone(), b.clone()]);
        }
    }
    for (i, a) in pool.iter().enumerate() {
        let b = &pool[(i * 7 + 3) % pool.len()];
        let c = &pool[(i * 13 + 5) % pool.len()];
        seqs.push(vec![a.clone(), b.clone(), c.clone()]);
        seqs.push(vec![c.clone(), a.clone(), b.clone(), a.clone()]);
    }
    for be in [false, true] {
        for vals in &seqs {
            let (p, ends) = encode(vals, be);
            check_decode(vals, be, &p, vals.len(), "full");
            if p.len() < 700 {
                for t in 0..p.len() {
                    let n = ends.iter().filter(|&&e| e <= t).count();
                    check_decode(vals, be, &p[..t], n, &format!("trunc@{}", t));
                }
            }
        }
    }
}

#[test]
fn explore_max_sizes() {
    for be in [false, true] {
        let big: Vec<u8> = (0..0xffffu32).map(|i| (i % 251) as u8).collect();
        let mut s: Vec<u8> = (0..0xffffu32).map(|i| b'a' + (i % 26) as u8).collect();
        s[0xfffe] = 0;
        let vals = vec![V::Raw(big.clone()), V::Utf8(s.clone()), V::Ascii(s.clone()), V::U8(7)];
        let (p, ends) = encode(&vals, be);
        check_decode(&vals, be, &p, 4, "max");
        for t in [p.len() - 1, ends[2], ends[2] - 1, ends[1] + 5, ends[0] + 6, ends[0] - 1, 6, 5] {
            let n = ends.iter().filter(|&&e| e <= t).count();
            check_decode(&vals, be, &p[..t], n, &format!("maxtrunc@{}", t));
        }
    }
}

#[test]
fn explore_corruption() {
    // single byte corruptions: no panic; args before the corrupted arg stay intact
    let pool = pool();
    let mut seqs: Vec<Vec<V>> = vec![];
    for (i, a) in pool.iter().enumerate() {
        let b = &pool[(i * 7 + 3) % pool.len()];
        let c = &pool[(i * 13 + 5) % pool.len()];
        seqs.push(vec![a.clone(), b.clone(), c.clone()]);
    }
    for be in [false, true] {
        for vals in &seqs {
            let (p, ends) = encode(vals, be);
            if p.len() > 200 {
                continue;
            }
            for pos in 0..p.len() {
                let arg_idx = ends.iter().filter(|&&e| e <= pos).count();
                for x in [0x01u8, 0x02, 0x04, 0x08, 0x10, 0x20, 0x40, 0x80, 0xff] {
                    let mut q = p.clone();
                    q[pos] ^= x;
                    let m = DltMessage::get_testmsg_with_payload(be, vals.len() as u8, &q);
                    let got: Vec<DltArg> = m.into_iter().collect();
                    let _ = m.payload_as_text().unwrap();
                    let keep = arg_idx.min(got.len());
                    assert!(got.len() >= arg_idx.min(vals.len()) || true);
                    for i in 0..keep {
                        assert_eq!(got[i].payload_raw, &raw(&vals[i], be)[..]);
                        assert_eq!(got[i].type_info, ti(&vals[i]));
                    }
                    assert!(
                        got.len() >= arg_idx,
                        "args before corrupted one lost: vals={:?} pos={} x={}",
                        vals,
                        pos,
                        x
                    );
                }
            }
        }
    }
}

#[test]
fn explore_serializer() {
    use adlt::dlt_args;
    use adlt::serde_verb_payload::DltVerbArgTypeWrapper;
    let be = cfg!(target_endian = "big");
    let s = "a\r\n\tb";
    let ascii = b"f\xfco\0";
    let (noar, p) = dlt_args!(
        true,
        false,
        i8::MIN,
        i16::MIN,
        i32::MIN,
        i64::MIN,
        u8::MAX,
        u16::MAX,
        u32::MAX,
        u64::MAX,
        f32::NAN,
        f64::NEG_INFINITY,
        s,
        "",
        'x',
        '\0',
        serde_bytes::Bytes::new(&[0xde, 0xad]),
        serde_bytes::Bytes::new(&[]),
        DltVerbArgTypeWrapper::DltScodAscii(serde_bytes::Bytes::new(ascii)),
        DltVerbArgTypeWrapper::DltScodAscii(serde_bytes::Bytes::new(b""))
    )
    .unwrap();
    let vals = vec![
        V::Bool(true),
        V::Bool(false),
        V::I8(i8::MIN),
        V::I16(i16::MIN),
        V::I32(i32::MIN),
        V::I64(i64::MIN),
        V::U8(u8::MAX),
        V::U16(u16::MAX),
        V::U32(u32::MAX),
        V::U64(u64::MAX),
        V::F32(f32::NAN),
        V::F64(f64::NEG_INFINITY),
        V::Utf8(b"a\r\n\tb\0".to_vec()),
        V::Utf8(b"\0".to_vec()),
        V::Utf8(b"x\0".to_vec()),
        V::Utf8(b"\0\0".to_vec()),
        V::Raw(vec![0xde, 0xad]),
        V::Raw(vec![]),
        V::Ascii(ascii.to_vec()),
        V::Ascii(vec![]),
    ];
    assert_eq!(noar as usize, vals.len());
    let (p2, _) = encode(&vals, be);
    assert_eq!(p, p2);
    check_decode(&vals, be, &p, vals.len(), "ser");

    // max str
    let big = "a".repeat(0xfffe);
    let (_, p) = dlt_args!(big.as_str(), 1u8).unwrap();
    let mut b = big.clone().into_bytes();
    b.push(0);
    check_decode(&[V::Utf8(b), V::U8(1)], be, &p, 2, "bigstr");
    assert!(dlt_args!("a".repeat(0xffff)).is_err());
    let bigr = vec![1u8; 0xffff];
    let (_, p) = dlt_args!(serde_bytes::Bytes::new(&bigr), 1u8).unwrap();
    check_decode(&[V::Raw(bigr.clone()), V::U8(1)], be, &p, 2, "bigraw");
    let bigr = vec![1u8; 0x10000];
    assert!(dlt_args!(serde_bytes::Bytes::new(&bigr)).is_err());
}
