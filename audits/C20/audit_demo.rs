// audit C20: archives: volumes read as one file; extraction is faithful and confined
//
// every #[test] fails on the unchanged code. run with:
// CARGO_TARGET_DIR=/tmp/wt_audit_C20/target cargo test --offline --test audit_demo
use adlt::utils::{
    cloneable_seekable_reader::HasLength,
    seekablechain::SeekableChain,
    unzip::{extract_archives, extract_to_dir},
};
use slog::{o, Logger};
use std::{
    collections::HashMap,
    io::{Cursor, Read, Seek, SeekFrom, Write},
    path::Path,
    sync::{
        atomic::{AtomicBool, Ordering},
        Arc,
    },
};
use tempfile::TempDir;
use zip::write::SimpleFileOptions;

fn logger() -> Logger {
    Logger::root(slog::Discard, o!())
}

fn stored() -> SimpleFileOptions {
    SimpleFileOptions::default().compression_method(zip::CompressionMethod::Stored)
}

fn make_zip(members: &[(&str, &[u8])]) -> Vec<u8> {
    let mut zw = zip::ZipWriter::new(Cursor::new(Vec::new()));
    for (name, data) in members {
        zw.start_file(*name, stored()).unwrap();
        zw.write_all(data).unwrap();
    }
    zw.finish().unwrap().into_inner()
}

fn no_cancel() -> Arc<AtomicBool> {
    Arc::new(AtomicBool::new(false))
}

/// relative names of the reported files (relative to the one temp dir)
fn rel_names(files: &[String], temp_dirs: &[(String, TempDir)]) -> Vec<String> {
    let mut v: Vec<String> = files
        .iter()
        .map(|f| {
            let p = Path::new(f);
            for (_, d) in temp_dirs {
                if let Ok(r) = p.strip_prefix(d.path()) {
                    return r.to_string_lossy().to_string();
                }
            }
            format!("<not in a temp dir>{}", f)
        })
        .collect();
    v.sort();
    v
}

/// F1: a multi volume archive given by a plain relative name (no directory part, e.g. `adlt convert v.zip.001`
/// in the cwd) is not read as the concatenation of its volumes: no volume at all is found.
#[test]
fn f1_multi_volume_relative_name_without_dir() {
    let content = b"DLT-ish payload of the only member".repeat(10);
    let zip = make_zip(&[("a.dlt", &content)]);
    let dir = TempDir::new().unwrap();
    let (v1, v2) = zip.split_at(zip.len() / 2);
    std::fs::write(dir.path().join("vol.zip.001"), v1).unwrap();
    std::fs::write(dir.path().join("vol.zip.002"), v2).unwrap();
    // (the only test in this binary that relies on the cwd; all other tests use abs. paths)
    std::env::set_current_dir(dir.path()).unwrap();

    // reference: same archive, same cwd, name with a directory part
    let mut temp_dirs = vec![];
    let files = extract_archives(
        "./vol.zip.001".to_string(),
        &mut temp_dirs,
        &no_cancel(),
        &logger(),
    );
    assert_eq!(rel_names(&files, &temp_dirs), vec!["a.dlt"], "reference");
    assert_eq!(std::fs::read(&files[0]).unwrap(), content);

    let mut temp_dirs = vec![];
    let files = extract_archives(
        "vol.zip.001".to_string(),
        &mut temp_dirs,
        &no_cancel(),
        &logger(),
    );
    assert_eq!(
        rel_names(&files, &temp_dirs),
        vec!["a.dlt"],
        "vol.zip.001 (relative, without dir) must behave like ./vol.zip.001"
    );
}

/// F2: a zip with a single member named `data`: the member is not matched against the requested
/// pattern but the archive's file stem is.
#[test]
fn f2_single_member_named_data() {
    let content = b"content of data".to_vec();
    let zip = make_zip(&[("data", &content)]);
    let dir = TempDir::new().unwrap();
    let zip_path = dir.path().join("logs.zip");
    std::fs::write(&zip_path, &zip).unwrap();

    // pattern that matches the member: has to be extracted
    let mut temp_dirs = vec![];
    let files = extract_archives(
        format!("{}!/d*", zip_path.display()),
        &mut temp_dirs,
        &no_cancel(),
        &logger(),
    );
    assert_eq!(
        files.len(),
        1,
        "member 'data' matches the pattern 'd*' but got {:?}",
        files
    );
    assert_eq!(std::fs::read(&files[0]).unwrap(), content);
}

/// F2b: same special case, other direction: a member that does not match the pattern is extracted
#[test]
fn f2b_single_member_named_data_extracted_for_non_matching_pattern() {
    let content = b"content of data".to_vec();
    let zip = make_zip(&[("data", &content)]);
    let dir = TempDir::new().unwrap();
    let zip_path = dir.path().join("trace.dlt.zip");
    std::fs::write(&zip_path, &zip).unwrap();

    let mut temp_dirs = vec![];
    let files = extract_archives(
        format!("{}!/*.dlt", zip_path.display()),
        &mut temp_dirs,
        &no_cancel(),
        &logger(),
    );
    assert!(
        files.is_empty(),
        "no member of the archive matches '*.dlt' (only member is 'data') but got {:?}",
        rel_names(&files, &temp_dirs)
    );
}

/// F3: the file name check accepts upper case extensions (X.ZIP.001) as archive but the multi volume
/// detection does not -> only the first volume is read
#[test]
fn f3_multi_volume_upper_case_ext() {
    let content = b"DLT-ish payload of the only member".repeat(10);
    let zip = make_zip(&[("a.dlt", &content)]);
    let dir = TempDir::new().unwrap();
    let (v1, v2) = zip.split_at(zip.len() / 2);

    // reference lower case:
    std::fs::write(dir.path().join("vol.zip.001"), v1).unwrap();
    std::fs::write(dir.path().join("vol.zip.002"), v2).unwrap();
    let mut temp_dirs = vec![];
    let files = extract_archives(
        dir.path().join("vol.zip.001").display().to_string(),
        &mut temp_dirs,
        &no_cancel(),
        &logger(),
    );
    assert_eq!(rel_names(&files, &temp_dirs), vec!["a.dlt"], "reference");

    std::fs::write(dir.path().join("VOL.ZIP.001"), v1).unwrap();
    std::fs::write(dir.path().join("VOL.ZIP.002"), v2).unwrap();
    assert!(adlt::utils::unzip::archive_is_supported_filename(
        &dir.path().join("VOL.ZIP.001")
    ));
    let mut temp_dirs = vec![];
    let files = extract_archives(
        dir.path().join("VOL.ZIP.001").display().to_string(),
        &mut temp_dirs,
        &no_cancel(),
        &logger(),
    );
    assert_eq!(
        rel_names(&files, &temp_dirs),
        vec!["a.dlt"],
        "VOL.ZIP.001 is accepted as archive, so its volumes have to be read as one file"
    );
}

/// F4: one member with a name that stays inside the temp dir but cannot be created as a file (`sub/..`)
/// makes the whole request fail: the other matching members are not reported and the archive itself is
/// returned as if it were a plain (DLT) file.
#[test]
fn f4_unextractable_member_name_aborts_all() {
    let zip = make_zip(&[
        ("good1.dlt", b"good one"),
        ("sub/..", b"hostile"),
        ("good2.dlt", b"good two"),
    ]);
    let dir = TempDir::new().unwrap();
    let zip_path = dir.path().join("hostile.zip");
    std::fs::write(&zip_path, &zip).unwrap();

    let mut temp_dirs = vec![];
    let files = extract_archives(
        zip_path.display().to_string(),
        &mut temp_dirs,
        &no_cancel(),
        &logger(),
    );
    let names = rel_names(&files, &temp_dirs);
    assert!(
        names.contains(&"good1.dlt".to_string()) && names.contains(&"good2.dlt".to_string()),
        "good1.dlt and good2.dlt match **/* and do not lead outside, but got {:?}",
        files
    );
}

/// F5: a regular file member whose name ends with a backslash is created as a directory and not reported
#[test]
fn f5_member_name_with_trailing_backslash() {
    let zip = make_zip(&[("odd\\", b"i am a regular file")]);
    let tmp = TempDir::new().unwrap();
    let extracted = extract_to_dir(
        SeekableChain::new(vec![Cursor::new(zip)]),
        tmp.path(),
        None,
        &HashMap::new(),
        &no_cancel(),
    )
    .unwrap();
    assert_eq!(
        extracted,
        vec![std::path::PathBuf::from("odd\\")],
        "is_dir={}",
        tmp.path().join("odd\\").is_dir()
    );
    assert_eq!(
        std::fs::read(tmp.path().join("odd\\")).unwrap(),
        b"i am a regular file"
    );
}

/// reader that raises the cancel flag once a read within [trip_at, trip_at+100k) happened
/// (i.e. in the data of big.dlt, not in the central directory at the end)
struct Trip {
    inner: Cursor<Vec<u8>>,
    trip_at: u64,
    flag: Option<Arc<AtomicBool>>,
}
impl Read for Trip {
    fn read(&mut self, buf: &mut [u8]) -> std::io::Result<usize> {
        if let Some(flag) = &self.flag {
            if self.inner.position() >= self.trip_at && self.inner.position() < self.trip_at + 100_000 {
                flag.store(true, Ordering::Relaxed);
            }
        }
        self.inner.read(buf)
    }
}
impl Seek for Trip {
    fn seek(&mut self, pos: SeekFrom) -> std::io::Result<u64> {
        self.inner.seek(pos)
    }
}
impl HasLength for Trip {
    fn len(&self) -> u64 {
        self.inner.get_ref().len() as u64
    }
}

/// F6: a request cancelled in the middle of a member leaves the partly written file in the (reused)
/// temp dir. The next request for the same member reports this file as extracted.
#[test]
fn f6_cancelled_extraction_leaves_partial_file_that_is_reported_later() {
    let big: Vec<u8> = (0..400_000u32).map(|i| (i % 251) as u8).collect();
    let zip = make_zip(&[("small.dlt", b"small"), ("big.dlt", &big)]);
    let tmp = TempDir::new().unwrap(); // the one temp dir of this archive

    // request 1: cancelled while big.dlt is copied
    let cancel = no_cancel();
    let r = extract_to_dir(
        Trip {
            inner: Cursor::new(zip.clone()),
            trip_at: 150_000,
            flag: Some(cancel.clone()),
        },
        tmp.path(),
        Some(vec!["big.dlt".to_string()]),
        &HashMap::new(),
        &cancel,
    );
    assert!(r.is_err(), "request 1 should have been cancelled");

    // request 2: same member, same temp dir, not cancelled
    let extracted = extract_to_dir(
        SeekableChain::new(vec![Cursor::new(zip)]),
        tmp.path(),
        Some(vec!["big.dlt".to_string()]),
        &HashMap::new(),
        &no_cancel(),
    )
    .unwrap();
    assert_eq!(extracted, vec![std::path::PathBuf::from("big.dlt")]);
    let on_disk = std::fs::read(tmp.path().join("big.dlt")).unwrap();
    assert_eq!(
        on_disk.len(),
        big.len(),
        "reported as extracted but the file has only {} of {} bytes",
        on_disk.len(),
        big.len()
    );
    assert_eq!(on_disk, big);
}

/// F7: two different member names that denote the same path below the temp dir (`a.dlt` and `./a.dlt`):
/// both are reported as extracted but the first one's content is overwritten by the second one's.
/// With a reused temp dir the 2nd one is not even extracted but reported with the content of the 1st.
#[test]
fn f7_aliasing_member_names() {
    let members: [(&str, &[u8]); 2] = [("a.dlt", b"first"), ("./a.dlt", b"second!")];
    let zip = make_zip(&members);
    let tmp = TempDir::new().unwrap();
    let extracted = extract_to_dir(
        SeekableChain::new(vec![Cursor::new(zip.clone())]),
        tmp.path(),
        None,
        &HashMap::new(),
        &no_cancel(),
    )
    .unwrap();
    for (name, data) in &members {
        if extracted.iter().any(|p| p.to_string_lossy() == *name) {
            assert_eq!(
                std::fs::read(tmp.path().join(name)).unwrap(),
                *data,
                "member {:?} is reported as extracted (all: {:?}) but the file has different content",
                name,
                extracted
            );
        }
    }
}
