// audit C15: remote server survives any command sequence and always answers
//
// Each test starts the built binary `adlt remote -p <port>`, connects a websocket client
// and sends text commands. Every command has to be answered by exactly one reply
// (text frame starting with `ok:`, `err:` or the unknown-command notice) and the
// connection and the server process have to stay alive.

use portpicker::pick_unused_port;
use std::{
    io::{BufRead, BufReader},
    net::TcpStream,
    process::{Child, Command, Stdio},
    time::{Duration, Instant},
};
use tungstenite::{stream::MaybeTlsStream, Message, WebSocket};

type Ws = WebSocket<MaybeTlsStream<TcpStream>>;

struct Server {
    child: Child,
    port: u16,
    stderr: std::sync::Arc<std::sync::Mutex<Vec<String>>>,
}

impl Server {
    fn start() -> Server {
        let port = pick_unused_port().expect("no free port");
        let mut child = Command::new(env!("CARGO_BIN_EXE_adlt"))
            .args(["remote", "-p", &format!("{}", port)])
            .stdin(Stdio::piped()) // never written to, stays open as long as the child lives
            .stdout(Stdio::piped())
            .stderr(Stdio::piped())
            .spawn()
            .expect("failed to start adlt remote");
        // wait for the 'listening' line:
        let stdout = child.stdout.take().unwrap();
        let mut reader = BufReader::new(stdout);
        let mut line = String::new();
        loop {
            line.clear();
            let n = reader.read_line(&mut line).expect("read stdout");
            assert!(n > 0, "server ended before listening");
            if line.contains("remote server listening") {
                break;
            }
        }
        // keep draining stdout so that the server never blocks on it:
        std::thread::spawn(move || {
            let mut sink = String::new();
            while let Ok(n) = reader.read_line(&mut sink) {
                if n == 0 {
                    break;
                }
                sink.clear();
            }
        });
        // collect stderr (panic messages of the server):
        let stderr = std::sync::Arc::new(std::sync::Mutex::new(Vec::new()));
        let stderr_c = stderr.clone();
        let mut err_reader = BufReader::new(child.stderr.take().unwrap());
        std::thread::spawn(move || {
            let mut l = String::new();
            while let Ok(n) = err_reader.read_line(&mut l) {
                if n == 0 {
                    break;
                }
                stderr_c.lock().unwrap().push(l.trim_end().to_owned());
                l.clear();
            }
        });
        Server {
            child,
            port,
            stderr,
        }
    }

    /// what the server wrote to stderr (e.g. panic messages)
    fn stderr(&self) -> String {
        std::thread::sleep(Duration::from_millis(200));
        let l = self.stderr.lock().unwrap();
        l.iter()
            .filter(|l| !l.trim_start().starts_with("at ") && !l.contains("rust_begin_unwind"))
            .take(6)
            .cloned()
            .collect::<Vec<_>>()
            .join(" | ")
    }

    fn connect(&self) -> Ws {
        let start = Instant::now();
        loop {
            match tungstenite::client::connect(format!("ws://127.0.0.1:{}", self.port)) {
                Ok((ws, _)) => {
                    if let MaybeTlsStream::Plain(s) = ws.get_ref() {
                        s.set_read_timeout(Some(Duration::from_millis(200))).unwrap();
                    }
                    return ws;
                }
                Err(e) => {
                    assert!(
                        start.elapsed() < Duration::from_secs(10),
                        "connect failed: {:?}",
                        e
                    );
                    std::thread::sleep(Duration::from_millis(20));
                }
            }
        }
    }

    fn is_alive(&mut self) -> bool {
        matches!(self.child.try_wait(), Ok(None))
    }
}

impl Drop for Server {
    fn drop(&mut self) {
        let _ = self.child.kill(); // only our own child
        let _ = self.child.wait();
    }
}

fn is_reply(t: &str) -> bool {
    t.starts_with("ok:") || t.starts_with("err:") || t.starts_with("unknown command")
}

/// wait for the next reply frame. Async frames (binary, `stream:` text) are skipped.
fn next_reply(ws: &mut Ws, timeout: Duration) -> Result<String, String> {
    let deadline = Instant::now() + timeout;
    loop {
        if Instant::now() > deadline {
            return Err("no reply within timeout".to_string());
        }
        match ws.read_message() {
            Ok(Message::Text(t)) => {
                if is_reply(&t) {
                    return Ok(t);
                }
            }
            Ok(Message::Close(cf)) => return Err(format!("connection closed by server: {:?}", cf)),
            Ok(_) => {}
            Err(tungstenite::Error::Io(ref e))
                if e.kind() == std::io::ErrorKind::WouldBlock
                    || e.kind() == std::io::ErrorKind::TimedOut => {}
            Err(e) => return Err(format!("connection broken: {:?}", e)),
        }
    }
}

/// send a command and wait for its reply
fn cmd(ws: &mut Ws, c: &str, timeout: Duration) -> Result<String, String> {
    ws.write_message(Message::Text(c.to_string()))
        .map_err(|e| format!("write failed: {:?}", e))?;
    next_reply(ws, timeout)
}

fn test_file(name: &str) -> String {
    let mut p = std::path::PathBuf::from(env!("CARGO_MANIFEST_DIR"));
    p.push("tests");
    p.push(name);
    p.to_str().unwrap().to_owned()
}

const T: Duration = Duration::from_secs(15);

/// after the history under test: the connection still answers and a regular open/close works
fn assert_still_serving(srv: &mut Server, ws: &mut Ws, what: &str) {
    assert!(srv.is_alive(), "{}: server process died", what);
    let r = cmd(ws, "nonsense", T);
    assert!(
        matches!(&r, Ok(t) if t.starts_with("unknown command")),
        "{}: connection does not answer any more: {:?}",
        what,
        r
    );
}


/// Finding 1: open with an Export plugin configuration whose recordedTimeFromMs is huge.
/// The number is multiplied by 1000 unchecked (src/plugins/export.rs), the connection thread
/// panics (overflow checks are on in the dev profile) and the open is never answered.
#[test]
fn open_export_plugin_huge_recorded_time() {
    let mut srv = Server::start();
    let mut ws = srv.connect();
    let dir = tempfile::tempdir().unwrap();
    let export_file = dir.path().join("export.dlt");
    let c = format!(
        r#"open {{"files":[{}],"plugins":[{{"name":"Export","exportFileName":{},"filters":[],"recordedTimeFromMs":18446744073709551615}}]}}"#,
        serde_json::json!(test_file("lc_ex002.dlt")),
        serde_json::json!(export_file.to_str().unwrap()),
    );
    let r = cmd(&mut ws, &c, T);
    assert!(
        matches!(&r, Ok(t) if t.starts_with("ok:") || t.starts_with("err:")),
        "open with Export plugin and huge recordedTimeFromMs got no reply: {:?}; server alive: {}, server stderr: {}",
        r,
        srv.is_alive(),
        srv.stderr()
    );
    assert_still_serving(&mut srv, &mut ws, "export plugin");
}

/// Finding 2: open with a Muniic plugin configuration whose jsonDir contains a .json file
/// that is not valid UTF-8. `read_to_string(file).unwrap()` (src/plugins/muniic.rs) panics
/// in the connection thread, the open is never answered, the connection is gone.
#[test]
fn open_muniic_plugin_non_utf8_json() {
    let mut srv = Server::start();
    let mut ws = srv.connect();
    let dir = tempfile::tempdir().unwrap();
    std::fs::write(dir.path().join("model.json"), [0xffu8, 0xfe, 0x00, 0x7b]).unwrap();
    let c = format!(
        r#"open {{"files":[{}],"plugins":[{{"name":"Muniic","jsonDir":{}}}]}}"#,
        serde_json::json!(test_file("lc_ex002.dlt")),
        serde_json::json!(dir.path().to_str().unwrap()),
    );
    let r = cmd(&mut ws, &c, T);
    assert!(
        matches!(&r, Ok(t) if t.starts_with("ok:") || t.starts_with("err:")),
        "open with Muniic plugin and a non UTF-8 json file got no reply: {:?}; server alive: {}, server stderr: {}",
        r,
        srv.is_alive(),
        srv.stderr()
    );
    assert_still_serving(&mut srv, &mut ws, "muniic plugin");
}

fn tmpfs_dir() -> Option<tempfile::TempDir> {
    // a directory on a tmpfs (there lseek(SEEK_END) on a directory fails with EINVAL)
    let base = std::path::Path::new("/dev/shm");
    if base.is_dir() {
        tempfile::tempdir_in(base).ok()
    } else {
        None
    }
}

/// Finding 3a: fs on a path whose "archive" part is a directory with an archive file name.
/// `SeekableChain::new` unwraps the seek to the end, which fails for directories of some
/// file systems (tmpfs): the connection thread panics, no reply.
#[test]
fn fs_directory_named_like_archive() {
    let mut srv = Server::start();
    let mut ws = srv.connect();
    for dir in [tempfile::tempdir().ok(), tmpfs_dir()].into_iter().flatten() {
        let arch_dir = dir.path().join("logs.zip");
        std::fs::create_dir(&arch_dir).unwrap();
        for sub in ["readDirectory", "stat"] {
            let c = format!(
                r#"fs {{"cmd":"{}","path":{}}}"#,
                sub,
                serde_json::json!(format!("{}!/", arch_dir.to_str().unwrap())),
            );
            let r = cmd(&mut ws, &c, T);
            assert!(
                matches!(&r, Ok(t) if t.starts_with("ok:") || t.starts_with("err:")),
                "'{}' got no reply: {:?}; server alive: {}, server stderr: {}",
                c,
                r,
                srv.is_alive(),
                srv.stderr()
            );
        }
    }
    assert_still_serving(&mut srv, &mut ws, "fs dir.zip");
}

/// Finding 3b: open of a directory with an archive file name: the open is answered with ok,
/// then the extract thread panics (same unwrap) and the server drops the connection.
#[test]
fn open_directory_named_like_archive() {
    let mut srv = Server::start();
    let mut ws = srv.connect();
    for dir in [tempfile::tempdir().ok(), tmpfs_dir()].into_iter().flatten() {
        let arch_dir = dir.path().join("logs.zip");
        std::fs::create_dir(&arch_dir).unwrap();
        let c = format!(
            r#"open {{"files":[{}]}}"#,
            serde_json::json!(arch_dir.to_str().unwrap())
        );
        let r = cmd(&mut ws, &c, T);
        assert!(r.is_ok(), "'{}' got no reply: {:?}", c, r);
        if r.unwrap().starts_with("ok:") {
            std::thread::sleep(Duration::from_millis(500)); // let the extraction end
            let r = cmd(&mut ws, "close", T);
            assert!(
                matches!(&r, Ok(t) if t.starts_with("ok:")),
                "close after the successful '{}' failed: {:?}; server alive: {}, server stderr: {}",
                c,
                r,
                srv.is_alive(),
                srv.stderr()
            );
        }
    }
    assert_still_serving(&mut srv, &mut ws, "open dir.zip");
}

/// Finding 4: open of a named pipe: the connection thread blocks in File::open/read for ever.
#[test]
fn open_named_pipe() {
    let mut srv = Server::start();
    let mut ws = srv.connect();
    let dir = tempfile::tempdir().unwrap();
    let fifo = dir.path().join("trace.dlt");
    let st = Command::new("mkfifo").arg(&fifo).status().expect("mkfifo");
    assert!(st.success());
    let c = format!(
        r#"open {{"files":[{}]}}"#,
        serde_json::json!(fifo.to_str().unwrap())
    );
    let r = cmd(&mut ws, &c, Duration::from_secs(5));
    assert!(
        matches!(&r, Ok(t) if t.starts_with("ok:") || t.starts_with("err:")),
        "open of a named pipe got no reply: {:?}; server alive: {}, server stderr: {}",
        r,
        srv.is_alive(),
        srv.stderr()
    );
    assert_still_serving(&mut srv, &mut ws, "named pipe");
}

/// Finding 5: open with the same (valid) file listed many times. The sizes are summed up and
/// `Vec::with_capacity(sum/128)` (capped only at u32::MAX msgs) is allocated up front:
/// the allocation fails and the whole server process aborts (all connections are lost).
#[test]
fn open_same_file_many_times() {
    let mut srv = Server::start();
    let mut ws = srv.connect();
    let mut ws2 = srv.connect(); // a 2nd, innocent connection
    let dir = tempfile::tempdir().unwrap();
    let big = dir.path().join("big.dlt");
    {
        let part = std::fs::read(test_file("lc_ex004.dlt")).unwrap();
        let mut f = std::fs::File::create(&big).unwrap();
        use std::io::Write;
        for _ in 0..60 {
            f.write_all(&part).unwrap();
        }
    }
    let file_len = std::fs::metadata(&big).unwrap().len();
    let mem_total_kb: u64 = std::fs::read_to_string("/proc/meminfo")
        .ok()
        .and_then(|s| {
            s.lines()
                .find(|l| l.starts_with("MemTotal:"))
                .and_then(|l| l.split_whitespace().nth(1).and_then(|v| v.parse().ok()))
        })
        .unwrap_or(64 * 1024 * 1024);
    let msg_size = std::mem::size_of::<adlt::dlt::DltMessage>() as u64;
    // nr of repetitions so that the capacity estimate needs 1.5x the RAM of this machine:
    let wanted_msgs = (mem_total_kb * 1024 * 3 / 2) / msg_size;
    let n = (wanted_msgs * 128).div_ceil(file_len);
    println!(
        "file_len={} msg_size={} mem_total_kb={} -> {} repetitions",
        file_len, msg_size, mem_total_kb, n
    );
    let one = serde_json::json!(big.to_str().unwrap()).to_string();
    let files = vec![one; n as usize].join(",");
    let c = format!(r#"open {{"files":[{}],"collect":true}}"#, files);
    let r = cmd(&mut ws, &c, Duration::from_secs(120));
    let replied = matches!(&r, Ok(t) if t.starts_with("ok:") || t.starts_with("err:"));
    if replied {
        let _ = cmd(&mut ws, "close", Duration::from_secs(120));
    }
    assert!(
        replied,
        "open with {} times the same file got no reply: {:?}; server alive: {}, server stderr: {}",
        n,
        r.map(|s| s[..s.len().min(100)].to_owned()),
        srv.is_alive(),
        srv.stderr()
    );
    assert_still_serving(&mut srv, &mut ws2, "2nd connection");
}

/// Finding 6: open with a SomeIp/NonVerbose/CAN plugin configuration whose fibexDir contains a
/// truncated fibex file (`<fx:FIBEX>` and then the end of the file). The fibex parser (afibex
/// 0.11.1, `parse_fibex`) ignores `Event::Eof` and loops for ever: the connection thread
/// never answers the open (and burns one cpu).
#[test]
fn open_plugin_truncated_fibex() {
    let mut srv = Server::start();
    let mut ws = srv.connect();
    let dir = tempfile::tempdir().unwrap();
    std::fs::write(dir.path().join("truncated.xml"), "<fx:FIBEX>").unwrap();
    let c = format!(
        r#"open {{"files":[{}],"plugins":[{{"name":"SomeIp","fibexDir":{}}}]}}"#,
        serde_json::json!(test_file("lc_ex002.dlt")),
        serde_json::json!(dir.path().to_str().unwrap()),
    );
    let r = cmd(&mut ws, &c, Duration::from_secs(10));
    assert!(
        matches!(&r, Ok(t) if t.starts_with("ok:") || t.starts_with("err:")),
        "open with SomeIp plugin and a truncated fibex file got no reply: {:?}; server alive: {}, server stderr: {}",
        r,
        srv.is_alive(),
        srv.stderr()
    );
    assert_still_serving(&mut srv, &mut ws, "truncated fibex");
}
