// audit C10b: "Time sorting is a permutation, and ordered under bounded delay"
// (adlt::utils::buffer_sort_messages)
use adlt::dlt::{
    DltChar4, DltExtendedHeader, DltMessage, DltStandardHeader,
};
use adlt::lifecycle::{Lifecycle, LifecycleId, LifecycleItem};
use adlt::utils::buffer_sort_messages;
use std::sync::mpsc::channel;

const DLT_STD_HDR_HAS_TIMESTAMP: u8 = 1 << 4;
const BASE: u64 = 1_640_995_200_000_000; // 1.1.22

fn msg(
    index: u32,
    ecu: &[u8; 4],
    recv: u64,
    timestamp_dms: u32,
    lifecycle: LifecycleId,
    ctrl_request: bool,
    tag: u32,
) -> DltMessage {
    DltMessage {
        index,
        reception_time_us: recv,
        ecu: DltChar4::from_buf(ecu),
        timestamp_dms,
        standard_header: DltStandardHeader {
            htyp: DLT_STD_HDR_HAS_TIMESTAMP,
            len: 0,
            mcnt: 0,
        },
        extended_header: if ctrl_request {
            Some(DltExtendedHeader {
                verb_mstp_mtin: (3u8 << 1) | (1u8 << 4),
                noar: 0,
                apid: DltChar4::from_buf(b"APID"),
                ctid: DltChar4::from_buf(b"CTID"),
            })
        } else {
            None
        },
        payload: tag.to_le_bytes().to_vec(),
        payload_text: None,
        lifecycle,
    }
}

fn tag(m: &DltMessage) -> u32 {
    u32::from_le_bytes([m.payload[0], m.payload[1], m.payload[2], m.payload[3]])
}

fn run_sort(
    msgs: Vec<DltMessage>,
    lcs: &[Lifecycle],
    window: u8,
    min_delay: u64,
) -> Vec<DltMessage> {
    let (lcs_r, mut lcs_w) = evmap::new::<LifecycleId, LifecycleItem>();
    for lc in lcs {
        lcs_w.insert(lc.id(), lc.clone());
    }
    lcs_w.refresh();
    let (tx, sort_in) = channel();
    for m in msgs {
        tx.send(m).unwrap();
    }
    drop(tx);
    let (sort_out, rx) = channel();
    let res = buffer_sort_messages(sort_in, &|m| sort_out.send(m), &lcs_r, window, min_delay);
    assert!(res.is_ok());
    drop(sort_out);
    let out: Vec<DltMessage> = rx.iter().collect();
    drop(lcs_w);
    out
}

/// FINDING 1: ties are not output in original (= arrival) order. The tie-break uses the
/// `index` field of the messages, not the position in the stream. For streams where the
/// index is not strictly increasing in arrival order (all test messages of the crate itself use index 0,
/// streams merged by a library user from two parsers, a wrapped u32 index after 2^32 msgs)
/// the output order of messages with equal calculated time differs from the input order.
#[test]
fn ties_are_not_kept_in_original_order() {
    let recv = BASE + 10_000_000;
    // we use control requests: calculated time = reception time, delay 0 <= min delay
    // (a) decreasing index (e.g. u32 index wrapped around: u32::MAX then 0)
    let input = vec![
        msg(u32::MAX, b"ECU1", recv, 0, 0, true, 100),
        msg(0, b"ECU1", recv, 0, 0, true, 101),
    ];
    let out_a: Vec<u32> = run_sort(input, &[], 3, 2_000_000)
        .iter()
        .map(tag)
        .collect();

    // (b) same index for all (like all DltMessage::for_test... messages): order is whatever the binary heap does
    let input = vec![
        msg(0, b"ECU1", recv, 0, 0, true, 200),
        msg(0, b"ECU1", recv, 0, 0, true, 201),
        msg(0, b"ECU1", recv, 0, 0, true, 202),
        msg(0, b"ECU1", recv, 0, 0, true, 203),
        msg(0, b"ECU1", recv, 0, 0, true, 204),
        msg(0, b"ECU1", recv, 0, 0, true, 205),
    ];
    let out_b: Vec<u32> = run_sort(input, &[], 3, 2_000_000)
        .iter()
        .map(tag)
        .collect();

    // (c) log messages (not control requests) from a lifecycle of the table, same calculated time
    let mut m0 = msg(7, b"ECU1", recv, 10_000, 0, false, 300);
    let mut lc = Lifecycle::new(&mut m0);
    lc.start_time = recv - 1_000_000; // calc = recv - 1s + 1s = recv
    let lcid = lc.id();
    let input = vec![
        msg(7, b"ECU1", recv, 10_000, lcid, false, 300),
        msg(5, b"ECU1", recv, 10_000, lcid, false, 301),
        msg(3, b"ECU1", recv, 10_000, lcid, false, 302),
    ];
    let out_c: Vec<u32> = run_sort(input, &[lc], 3, 2_000_000)
        .iter()
        .map(tag)
        .collect();

    println!("out_a={:?} out_b={:?} out_c={:?}", out_a, out_b, out_c);
    assert_eq!(
        (out_a, out_b, out_c),
        (vec![100, 101], vec![200, 201, 202, 203, 204, 205], vec![300, 301, 302]),
        "messages with the same calculated time have to stay in original order"
    );
}

/// FINDING 2 (borderline, may be seen as covered by the "u64 overflow" exclusion, but it is the
/// *delay parameter*, not a time, that is large): `min_buffer_delay_us = u64::MAX` is the natural
/// value for "buffer everything / sort completely". Every stream with non decreasing reception
/// times is within the premise then, so the output has to be completely ordered.
/// debug build: `min_buffer_delay_us + 1000s` panics (attempt to add with overflow) on the first
/// message -> nothing is output at all (permutation clause).
/// release build: the sums wrap (`min_buffer_delay_us + 1000s` -> 999_999_999us while the window is not
/// full, later `calculated_time_us + max_buffer_time_us` -> calculated_time_us - 1), so messages are
/// released at once and a later message with an earlier calculated time is output behind them
/// (ordering clause): got [0, 1, 2] instead of [2, 0, 1].
#[test]
fn min_delay_u64_max_overflows() {
    let t = BASE + 2_000_000_000;
    let input = vec![
        msg(0, b"ECU1", t, 0, 0, true, 0), // ctrl request: calc = t
        msg(1, b"ECU1", t + 1_001_000_000, 0, 0, true, 1), // calc = t+1001s
        msg(2, b"ECU1", t + 1_001_000_000, 10, 0, false, 2), // no lifecycle: calc = 1ms (delay is huge but <= u64::MAX)
    ];
    let res = std::panic::catch_unwind(|| run_sort(input, &[], 3, u64::MAX));
    match res {
        Err(_) => panic!("buffer_sort_messages panicked, all 3 messages are lost"),
        Ok(out) => {
            let out: Vec<u32> = out.iter().map(tag).collect();
            assert_eq!(out, vec![2, 0, 1], "not ordered by calculated time");
        }
    }
}

// ---------------------------------------------------------------------------------------------
// sanity fuzz (examined, turned out fine): random streams within the premise, index = position

struct Rng(u64);
impl Rng {
    fn next(&mut self) -> u64 {
        self.0 ^= self.0 << 13;
        self.0 ^= self.0 >> 7;
        self.0 ^= self.0 << 17;
        self.0
    }
    fn below(&mut self, n: u64) -> u64 {
        self.next() % n
    }
}

#[test]
#[ignore]
fn fuzz_sanity_within_premise() {
    let mut rng = Rng(0x1234_5678_9abc_def1);
    let ecus: [&[u8; 4]; 3] = [b"ECU1", b"ECU2", b"ECU3"];
    let mut nr_checked_msgs = 0usize;
    for iter in 0..3000 {
        let window = match rng.below(8) {
            0 => 1u8,
            1 => 2,
            2 => 3,
            3 => 255,
            _ => 1 + rng.below(6) as u8,
        };
        let min_delay = match rng.below(7) {
            0 => 0u64,
            1 => 1,
            2 => 100,
            3 => 1_000_000,
            4 => 2_000_000,
            5 => 20_000_000,
            _ => rng.below(5_000_000),
        };
        let nr_ecus = 1 + rng.below(3) as usize;
        // lifecycles
        let mut lcs: Vec<Lifecycle> = vec![];
        let mut lc_of_ecu: Vec<Vec<usize>> = vec![vec![]; nr_ecus];
        for (e, lc_of) in lc_of_ecu.iter_mut().enumerate() {
            for _ in 0..1 + rng.below(3) {
                let mut m0 = msg(0, ecus[e], BASE, 0, 0, false, 0);
                let mut lc = Lifecycle::new(&mut m0);
                lc.start_time = BASE - 5_000_000 + rng.below(40_000_000);
                lc_of.push(lcs.len());
                lcs.push(lc);
            }
        }
        let in_table = |id: LifecycleId, lcs: &Vec<Lifecycle>| -> u64 {
            lcs.iter()
                .find(|l| l.id() == id)
                .map(|l| l.start_time)
                .unwrap_or(0)
        };
        let nr_msgs = 1 + rng.below(400) as usize;
        let mut recv = BASE + rng.below(3_000_000);
        let mut input = vec![];
        let mut calcs = vec![];
        for _ in 0..nr_msgs {
            recv += match rng.below(10) {
                0..=2 => 0,
                3..=5 => rng.below(1000),
                6..=7 => rng.below(300_000),
                8 => 900_000 + rng.below(200_000),
                _ => rng.below(8_000_000),
            };
            let e = rng.below(nr_ecus as u64) as usize;
            let lc_idx = lc_of_ecu[e][rng.below(lc_of_ecu[e].len() as u64) as usize];
            let (lcid, start) = match rng.below(12) {
                0 => (0, 0u64),
                1 => (4_000_000_000, 0u64), // unknown to the table
                _ => (lcs[lc_idx].id(), lcs[lc_idx].start_time),
            };
            let ctrl = rng.below(10) == 0;
            // wanted delay
            let d = match rng.below(6) {
                0 => 0,
                1 => min_delay,
                2 => min_delay.saturating_sub(rng.below(100)),
                _ => rng.below(min_delay + 1),
            };
            let target = recv - d;
            let ts_dms: u64 = if rng.below(15) == 0 {
                // timestamp in the future -> capped
                (recv.saturating_sub(start) / 100) + rng.below(100_000)
            } else if target > start {
                (target - start + 99) / 100
            } else {
                0
            };
            if ts_dms > u32::MAX as u64 {
                continue;
            }
            let calc = if ctrl {
                recv
            } else {
                std::cmp::min(recv, in_table(lcid, &lcs) + ts_dms * 100)
            };
            if recv - calc > min_delay {
                continue; // outside premise
            }
            let idx = input.len() as u32;
            input.push(msg(idx, ecus[e], recv, ts_dms as u32, lcid, ctrl, idx));
            calcs.push(calc);
        }
        let n = input.len();
        let out = run_sort(input, &lcs, window, min_delay);
        assert_eq!(out.len(), n, "iter {} lost/dup msgs", iter);
        let mut expected: Vec<usize> = (0..n).collect();
        expected.sort_by_key(|&i| calcs[i]); // stable
        let got: Vec<usize> = out.iter().map(|m| tag(m) as usize).collect();
        assert_eq!(
            got, expected,
            "iter {} window {} min_delay {} wrong order",
            iter, window, min_delay
        );
        for (m, &i) in out.iter().zip(expected.iter()) {
            assert_eq!(m.index as usize, i);
        }
        nr_checked_msgs += n;
    }
    println!("checked {} msgs", nr_checked_msgs);
    assert!(nr_checked_msgs > 100_000);
}
