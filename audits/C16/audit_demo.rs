// audit C16: remote streams / search / lookups
use adlt::utils::remote_types::{self, BinType};
use std::io::{BufRead, BufReader};
use std::time::{Duration, Instant};
use tungstenite::Message;

const BINCODE_CONFIG: bincode::config::Configuration<
    bincode::config::LittleEndian,
    bincode::config::Fixint,
    bincode::config::NoLimit,
> = bincode::config::legacy();

#[derive(Debug, Clone)]
#[allow(dead_code)]
struct OMsg {
    index: u32,
    reception_time: u64,
    timestamp_dms: u32,
    ecu: u32,
    apid: u32,
    ctid: u32,
    lifecycle_id: u32,
    mcnt: u8,
    text: String,
}

#[derive(Debug, Clone)]
#[allow(dead_code)]
enum Ev {
    Text(String),
    Msgs(u32, Vec<OMsg>),
    StreamInfo(u32, u32, u32, u32),
    FileInfo(u32),
    Lcs(Vec<(u32, u64)>),
    Other,
}

struct Client {
    ws: tungstenite::WebSocket<tungstenite::stream::MaybeTlsStream<std::net::TcpStream>>,
    child: std::process::Child,
    evs: Vec<Ev>,
}

impl Drop for Client {
    fn drop(&mut self) {
        let _ = self.child.kill();
        let _ = self.child.wait();
    }
}

impl Client {
    fn start() -> Client {
        let port = portpicker::pick_unused_port().expect("no port");
        let mut child = std::process::Command::new(env!("CARGO_BIN_EXE_adlt"))
            .args(["remote", "-p", &format!("{}", port)])
            .stdout(std::process::Stdio::piped())
            .stderr(std::process::Stdio::null())
            .spawn()
            .unwrap();
        let stdout = child.stdout.take().unwrap();
        let mut rd = BufReader::new(stdout);
        let mut line = String::new();
        rd.read_line(&mut line).unwrap();
        assert!(line.contains("listening"), "line={}", line);
        let start = Instant::now();
        let ws = loop {
            match tungstenite::client::connect(format!("ws://127.0.0.1:{}", port)) {
                Ok(p) => break p.0,
                Err(e) => {
                    if start.elapsed() > Duration::from_secs(5) {
                        panic!("cannot connect {:?}", e);
                    }
                    std::thread::sleep(Duration::from_millis(20));
                }
            }
        };
        let mut c = Client {
            ws,
            child,
            evs: vec![],
        };
        if let tungstenite::stream::MaybeTlsStream::Plain(s) = c.ws.get_mut() {
            s.set_read_timeout(Some(Duration::from_millis(300))).unwrap();
        }
        c
    }

    /// read one ws message (or timeout -> None)
    fn pump(&mut self) -> Option<Ev> {
        match self.ws.read_message() {
            Ok(Message::Text(t)) => {
                let e = Ev::Text(t);
                self.evs.push(e.clone());
                Some(e)
            }
            Ok(Message::Binary(d)) => {
                let e = match bincode::decode_from_slice::<remote_types::BinType, _>(
                    &d,
                    BINCODE_CONFIG,
                ) {
                    Ok((BinType::DltMsgs((id, msgs)), _)) => Ev::Msgs(
                        id,
                        msgs.iter()
                            .map(|m| OMsg {
                                index: m.index,
                                reception_time: m.reception_time,
                                timestamp_dms: m.timestamp_dms,
                                ecu: m.ecu,
                                apid: m.apid,
                                ctid: m.ctid,
                                lifecycle_id: m.lifecycle_id,
                                mcnt: m.mcnt,
                                text: m.payload_as_text.to_string(),
                            })
                            .collect(),
                    ),
                    Ok((BinType::StreamInfo(si), _)) => Ev::StreamInfo(
                        si.stream_id,
                        si.nr_stream_msgs,
                        si.nr_file_msgs_processed,
                        si.nr_file_msgs_total,
                    ),
                    Ok((BinType::FileInfo(fi), _)) => Ev::FileInfo(fi.nr_msgs),
                    Ok((BinType::Lifecycles(l), _)) => {
                        Ev::Lcs(l.iter().map(|l| (l.id, l.start_time)).collect())
                    }
                    _ => Ev::Other,
                };
                self.evs.push(e.clone());
                Some(e)
            }
            Ok(_) => Some(Ev::Other),
            Err(tungstenite::Error::Io(ref e))
                if e.kind() == std::io::ErrorKind::WouldBlock
                    || e.kind() == std::io::ErrorKind::TimedOut =>
            {
                None
            }
            Err(e) => {
                // connection lost (e.g. the connection thread or the whole server died)
                let exit = self.child.try_wait().ok().flatten();
                let e = Ev::Text(format!(
                    "<connection lost: {:?}, server exit status: {:?}>",
                    e, exit
                ));
                self.evs.push(e.clone());
                std::thread::sleep(Duration::from_millis(200));
                Some(e)
            }
        }
    }

    /// send a command and return the first text reply
    fn cmd(&mut self, t: &str) -> String {
        self.ws.write_message(Message::Text(t.to_string())).unwrap();
        let start = Instant::now();
        loop {
            if let Some(Ev::Text(t)) = self.pump() {
                if !t.starts_with("stream:") {
                    return t;
                }
            }
            assert!(start.elapsed() < Duration::from_secs(20), "no reply");
        }
    }

    /// pump until nothing arrives for a while
    fn settle(&mut self) {
        let mut idle = 0;
        while idle < 3 {
            if self.pump().is_some() {
                idle = 0;
            } else {
                idle += 1;
            }
        }
    }

    fn open(&mut self, file: &str, extra: &str) {
        let mut p = std::path::PathBuf::from(env!("CARGO_MANIFEST_DIR"));
        p.push("tests");
        p.push(file);
        let r = self.cmd(&format!(
            r#"open {{"files":[{}]{}}}"#,
            serde_json::json!(p.to_str().unwrap()),
            extra
        ));
        assert!(r.starts_with("ok: open"), "{}", r);
    }

    /// wait until the file is fully parsed (FileInfo stable and nr_msgs reached)
    fn wait_parsed(&mut self, nr: u32) {
        let start = Instant::now();
        loop {
            self.pump();
            if self
                .evs
                .iter()
                .any(|e| matches!(e, Ev::FileInfo(n) if *n == nr))
            {
                break;
            }
            assert!(start.elapsed() < Duration::from_secs(30), "not parsed");
        }
        self.settle();
    }

    fn stream_msgs(&self, id: u32) -> Vec<OMsg> {
        let mut v = vec![];
        for e in &self.evs {
            if let Ev::Msgs(i, m) = e {
                if *i == id {
                    v.extend(m.iter().cloned());
                }
            }
        }
        v
    }
}

fn id_from_reply(r: &str) -> u32 {
    // ok: stream {"id":3, ...}   or ok: stream_change_window 3={"id":4,...}
    let p = r.find("\"id\":").expect(r) + 5;
    r[p..]
        .chars()
        .take_while(|c| c.is_ascii_digit())
        .collect::<String>()
        .parse()
        .unwrap()
}

fn filtered_idx_from_reply(r: &str) -> Result<usize, String> {
    if !r.starts_with("ok:") {
        return Err(r.to_string());
    }
    let p = r.find("\"filtered_msg_index\":").expect(r) + 21;
    Ok(r[p..]
        .chars()
        .take_while(|c| c.is_ascii_digit())
        .collect::<String>()
        .parse()
        .unwrap())
}


fn positions(all: &[OMsg]) -> std::collections::HashMap<u32, usize> {
    all.iter().enumerate().map(|(p, m)| (m.index, p)).collect()
}

/// sort=true, stream with filters: stream_binary_search index=<k> has to return the position of the
/// first stream msg that is not before msg k
#[test]
fn sorted_filtered_index_lookup() {
    let mut c = Client::start();
    c.open("lc_ex002.dlt", r#","sort":true"#);
    c.wait_parsed(11696);
    let r = c.cmd(r#"stream {"window":[0,100000],"binary":true}"#);
    let s0 = id_from_reply(&r);
    let r = c.cmd(
        r#"stream {"window":[0,100000],"binary":true,"filters":[{"type":0,"apid":"A004"},{"type":0,"apid":"A007"}]}"#,
    );
    let s1 = id_from_reply(&r);
    c.settle();
    let all = c.stream_msgs(s0);
    assert_eq!(all.len(), 11696);
    let flt = c.stream_msgs(s1);
    assert_eq!(flt.len(), 3104 + 2995);
    let pos = positions(&all);
    // positions (within all) of the stream msgs, ascending:
    let flt_pos: Vec<usize> = flt.iter().map(|m| pos[&m.index]).collect();
    assert!(flt_pos.windows(2).all(|w| w[0] < w[1]));
    let mut wrong = vec![];
    for k in (0..11696u32).step_by(7) {
        let expected = flt_pos.partition_point(|p| *p < pos[&k]);
        let r = c.cmd(&format!("stream_binary_search {} index={}", s1, k));
        let got = filtered_idx_from_reply(&r);
        if got != Ok(expected) {
            wrong.push((k, expected, got));
        }
    }
    assert!(
        wrong.is_empty(),
        "{} wrong lookups (index, expected, got), first: {:?}",
        wrong.len(),
        &wrong[..std::cmp::min(5, wrong.len())]
    );
}


/// F2: stream_search with a large page size (max_results) has to return the (two) matching positions
#[test]
fn search_large_page_size() {
    let mut c = Client::start();
    c.open("lc_ex002.dlt", "");
    c.wait_parsed(11696);
    let s0 = id_from_reply(&c.cmd(r#"stream {"window":[0,10],"binary":true}"#));
    c.settle();
    // sanity: works with a small page size
    let r = c.cmd(&format!(
        r#"stream_search {} {{"max_results":10,"filters":[{{"type":0,"apid":"A010"}}]}}"#,
        s0
    ));
    assert_eq!(
        r,
        format!(
            r#"ok: stream_search {}={{"next_search_idx":null,"search_idxs":[1560,1568]}}"#,
            s0
        )
    );
    // "give me all in one page": 2^40
    let r = c.cmd(&format!(
        r#"stream_search {} {{"max_results":1099511627776,"filters":[{{"type":0,"apid":"A010"}}]}}"#,
        s0
    ));
    assert_eq!(
        r,
        format!(
            r#"ok: stream_search {}={{"next_search_idx":null,"search_idxs":[1560,1568]}}"#,
            s0
        )
    );
}

/// F3: sort=false, stream without filters: stream_binary_search time_ms=<t> has to return the position
/// of the first stream msg with a time (lifecycle start + timestamp) not before t
#[test]
fn unsorted_time_lookup() {
    let nr = 40285;
    let mut c = Client::start();
    c.open("lc_ex005.dlt", "");
    c.wait_parsed(nr);
    let s0 = id_from_reply(&c.cmd(r#"stream {"window":[0,100000],"binary":true}"#));
    c.settle();
    let all = c.stream_msgs(s0);
    assert_eq!(all.len(), nr as usize);
    // lifecycle start times as announced (latest update wins)
    let mut lcs = std::collections::HashMap::new();
    for e in &c.evs {
        if let Ev::Lcs(l) = e {
            for (id, start) in l {
                lcs.insert(*id, *start);
            }
        }
    }
    let time_of = |m: &OMsg| -> u64 { lcs[&m.lifecycle_id] + 100 * m.timestamp_dms as u64 };
    let mut wrong = vec![];
    let mut asked = 0;
    for k in (0..all.len()).step_by(97) {
        let t_ms = time_of(&all[k]) / 1000 + 1;
        let expected = all
            .iter()
            .position(|m| time_of(m) >= t_ms * 1000)
            .unwrap_or(all.len());
        let got = filtered_idx_from_reply(&c.cmd(&format!(
            "stream_binary_search {} time_ms={}",
            s0, t_ms
        )));
        asked += 1;
        if got != Ok(expected) {
            wrong.push((t_ms, expected, got));
        }
    }
    assert!(
        wrong.is_empty(),
        "{} of {} time lookups wrong (time_ms, expected, got), first: {:?}",
        wrong.len(),
        asked,
        &wrong[..std::cmp::min(5, wrong.len())]
    );
}

/// F4: a time lookup with a time after all msgs has to return the stream length
#[test]
fn time_lookup_large_time() {
    let mut c = Client::start();
    c.open("lc_ex002.dlt", "");
    c.wait_parsed(11696);
    let s0 = id_from_reply(&c.cmd(r#"stream {"window":[0,10],"binary":true}"#));
    c.settle();
    // sanity: year 2286 is after all msgs
    let r = c.cmd(&format!("stream_binary_search {} time_ms=9999999999999", s0));
    assert_eq!(filtered_idx_from_reply(&r), Ok(11696));
    // u64::MAX / 1000 + 1
    let r = c.cmd(&format!(
        "stream_binary_search {} time_ms=18446744073709552",
        s0
    ));
    assert_eq!(filtered_idx_from_reply(&r), Ok(11696));
}
