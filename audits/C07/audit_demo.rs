//! audit C07: "Final lifecycle table is consistent with the delivered messages"
//!
//! Both tests drive the unchanged `adlt remote` binary via its websocket interface with a
//! generated DLT file and rebuild the lifecycle table the way a client has to (the server only
//! sends the lifecycles that changed, keyed by id, each batch sorted by `start_time`).
use adlt::dlt::*;
use adlt::utils::remote_types::{self, BinLifecycle, BinType};
use assert_cmd::Command;
use bincode::config;
use portpicker::pick_unused_port;
use std::collections::BTreeMap;
use std::io::Write;
use std::time::{Duration, Instant};
use tungstenite::Message;

const BINCODE_CONFIG: config::Configuration<config::LittleEndian, config::Fixint, config::NoLimit> =
    config::legacy();

const S: u64 = 1_000_000; // us per sec
const BASE_S: u64 = 1_700_000_000; // reception time base (secs since 1970)

/// a plain verbose log msg of `ecu` received at BASE_S + r (secs) with timestamp t (secs)
fn msg(ecu: &[u8; 4], index: u32, r: f64, t: f64) -> DltMessage {
    DltMessage {
        index,
        reception_time_us: BASE_S * S + (r * S as f64).round() as u64,
        ecu: DltChar4::from_buf(ecu),
        timestamp_dms: (t * 10_000.0).round() as u32,
        standard_header: DltStandardHeader {
            htyp: 0x31, // vers 1, with timestamp, with ext header
            mcnt: (index & 0xff) as u8,
            len: (DLT_MIN_STD_HEADER_SIZE + 4 + DLT_EXT_HEADER_SIZE) as u16,
        },
        extended_header: Some(DltExtendedHeader {
            verb_mstp_mtin: 0x41, // verbose, log, info
            noar: 0,
            apid: DltChar4::from_buf(b"APID"),
            ctid: DltChar4::from_buf(b"CTID"),
        }),
        payload: vec![],
        payload_text: None,
        lifecycle: 0,
    }
}

fn write_dlt_file(msgs: &[DltMessage]) -> tempfile::NamedTempFile {
    let mut file = tempfile::Builder::new()
        .prefix("audit_c07_")
        .suffix(".dlt")
        .tempfile()
        .unwrap();
    {
        let mut w = std::io::BufWriter::new(file.as_file_mut());
        for m in msgs {
            m.to_write(&mut w).unwrap();
        }
        w.flush().unwrap();
    }
    file
}

/// the lifecycle table a client of `adlt remote` ends up with
struct ClientView {
    /// id -> last lifecycle info received for that id
    lcs: BTreeMap<u32, BinLifecycle>,
    nr_msgs_file: u32,
}

/// start `adlt remote`, open the file, collect the lifecycle updates until `done` says so (or a timeout)
fn remote_open_and_collect(
    file_path: String,
    done: impl Fn(&ClientView) -> bool + Send + 'static,
) -> ClientView {
    let port: u16 = pick_unused_port().expect("no ports free");
    let mut server = std::process::Command::new(assert_cmd::cargo::cargo_bin(env!("CARGO_PKG_NAME")))
        .args(["remote", "-p", &format!("{}", port)])
        .stdout(std::process::Stdio::null())
        .stderr(std::process::Stdio::null())
        .spawn()
        .unwrap();
    let t = std::thread::spawn(move || {
        let mut ws;
        let start_time = Instant::now();
        loop {
            match tungstenite::client::connect(format!("wss://127.0.0.1:{}", port)) {
                Ok(p) => {
                    ws = p.0;
                    break;
                }
                Err(_e) => {
                    if start_time.elapsed() > Duration::from_secs(5) {
                        panic!("couldnt connect");
                    } else {
                        std::thread::sleep(Duration::from_millis(20));
                    }
                }
            }
        }
        if let tungstenite::stream::MaybeTlsStream::Plain(s) = ws.get_mut() {
            s.set_read_timeout(Some(Duration::from_secs(20))).unwrap();
        }
        ws.write_message(Message::Text(format!(
            r#"open {{"sort":false,"files":[{}]}}"#,
            serde_json::json!(file_path),
        )))
        .unwrap();
        let answer = ws.read_message().unwrap();
        assert!(answer.is_text());
        assert_eq!(
            answer.into_text().unwrap(),
            "ok: open {\"plugins_active\":[]}"
        );
        let mut view = ClientView {
            lcs: BTreeMap::new(),
            nr_msgs_file: 0,
        };
        let start_time = Instant::now();
        // a read error is the read timeout: the server has nothing more to say
        while let Ok(m) = ws.read_message() {
            if let Message::Binary(d) = m {
                if let Ok((btype, _)) =
                    bincode::decode_from_slice::<remote_types::BinType, _>(&d, BINCODE_CONFIG)
                {
                    match btype {
                        BinType::FileInfo(s) => {
                            view.nr_msgs_file = s.nr_msgs;
                        }
                        BinType::Lifecycles(lcs) => {
                            println!(
                                "got Lifecycles update (id, nr_msgs, start_time): {:?}",
                                lcs.iter()
                                    .map(|l| (l.id, l.nr_msgs, l.start_time))
                                    .collect::<Vec<_>>()
                            );
                            for lc in lcs {
                                view.lcs.insert(lc.id, lc);
                            }
                        }
                        _ => {}
                    }
                }
            }
            if done(&view) || start_time.elapsed() > Duration::from_secs(120) {
                break;
            }
        }
        let _ = ws.write_message(Message::Text("close".to_string()));
        view
    });
    let view = t.join();
    let _ = server.kill();
    let _ = server.wait();
    view.unwrap()
}

/// FINDING 1 (clause: "never places a resumed lifecycle before the one it resumes")
///
/// One ECU, 10 msgs, three lifecycles N <- O <- X (O resumes N, X resumes O) whose start estimates
/// cross (each later msg moves the start estimate of its lifecycle by 50-55s (< max buffering delay of 60s)
/// to earlier): final start estimates N=990s, O=975s, X=930s.
/// `adlt convert` lists N, O, X (get_sorted_lifecycles_as_vec follows the whole resume chain) but
/// `adlt remote` sends `Lifecycle::resume_start_time()` as sort key which only looks one level up:
/// O -> N.start+1us = 990.000001, X -> O.start+1us = 975.000001. So X is sent (the batch is sorted by
/// that key by the server, and a client sorting by start_time gets the same) BEFORE N and O.
#[test]
fn remote_listing_places_resumed_lifecycle_before_the_one_it_resumes() {
    let msgs = vec![
        // N:
        msg(b"ECU1", 0, 1000.0, 10.0), // start 990
        msg(b"ECU1", 1, 1001.0, 11.0),
        // O (resume of N: reception gap 99s, timestamp continues, start estimate 1080):
        msg(b"ECU1", 2, 1100.0, 20.0),
        msg(b"ECU1", 3, 1101.0, 76.0),  // start estimate -> 1025
        msg(b"ECU1", 4, 1102.0, 127.0), // start estimate -> 975 (earlier than N's 990)
        // X (resume of O: reception gap 198s, timestamp continues, start estimate 1150):
        msg(b"ECU1", 5, 1300.0, 150.0),
        msg(b"ECU1", 6, 1301.0, 206.0), // -> 1095
        msg(b"ECU1", 7, 1302.0, 262.0), // -> 1040
        msg(b"ECU1", 8, 1303.0, 318.0), // -> 985
        msg(b"ECU1", 9, 1304.0, 374.0), // -> 930 (earlier than O's 975)
    ];
    let file = write_dlt_file(&msgs);
    let file_path = file.path().to_str().unwrap().to_owned();

    // the other listing (adlt convert) is fine: LC ids ascending = N, O, X
    let out = Command::cargo_bin(env!("CARGO_PKG_NAME"))
        .unwrap()
        .args(["convert", &file_path])
        .output()
        .unwrap();
    let stdout = String::from_utf8_lossy(&out.stdout).to_string();
    println!("adlt convert:\n{}", stdout);
    assert!(stdout.contains("have 3 lifecycles"), "{}", stdout);

    let view = remote_open_and_collect(file_path, |v| {
        v.nr_msgs_file == 10 && v.lcs.values().map(|l| l.nr_msgs).sum::<u32>() == 10
    });
    assert_eq!(view.lcs.len(), 3, "expected the 3 lifecycles N, O, X");
    let ids: Vec<u32> = view.lcs.keys().copied().collect(); // ascending = creation order
    let (n, o, x) = (ids[0], ids[1], ids[2]);
    assert_eq!(view.lcs[&n].nr_msgs, 2);
    assert_eq!(view.lcs[&o].nr_msgs, 3);
    assert_eq!(view.lcs[&x].nr_msgs, 5);
    assert!(view.lcs[&n].resume_time.is_none());
    assert!(view.lcs[&o].resume_time.is_some(), "O is a resume lc");
    assert!(view.lcs[&x].resume_time.is_some(), "X is a resume lc");

    // the listing: sorted by the start_time that was sent (that's how the server sorts each batch as well)
    let mut listing: Vec<&BinLifecycle> = view.lcs.values().collect();
    listing.sort_by_key(|l| l.start_time);
    let pos = |id: u32| listing.iter().position(|l| l.id == id).unwrap();
    println!(
        "remote listing: {:?}",
        listing
            .iter()
            .map(|l| (l.id, l.start_time))
            .collect::<Vec<_>>()
    );
    assert!(
        pos(n) < pos(o),
        "O (resume of N) is listed before N: {:?}",
        listing.iter().map(|l| l.id).collect::<Vec<_>>()
    );
    assert!(
        pos(o) < pos(x),
        "X (id {}, sent start_time {}) resumes O (id {}, sent start_time {}) but is listed before it. listing={:?}",
        x,
        view.lcs[&x].start_time,
        o,
        view.lcs[&o].start_time,
        listing.iter().map(|l| l.id).collect::<Vec<_>>()
    );
}

/// FINDING 2 (clauses: "every listed lifecycle is referenced by at least one delivered message",
/// "the counts add up to the number of messages", "no invalidated (merged) lifecycle is listed")
///
/// A lifecycle that was confirmed (and published) and gets merged afterwards is removed from the
/// published table (evmap `empty`). `adlt remote` only sends the lifecycles with a newer refresh idx.
/// A removal is never sent. If the connection thread polled the table between the confirmation
/// and the merge (here ~1.5 mio msgs of another ECU are in between) the client keeps the
/// merged lifecycle forever.
///
/// ECUA: A1 (1 msg), lc2 (1 msg, start estimate 8s after the end of A1), later a msg that moves the start
/// estimate of lc2 into A1 -> lc2 is merged into A1.
/// ECUB: B1 stays unconfirmed (buffered) the whole time so that all msgs behind its first msg stay buffered
/// (this keeps the merge of the already confirmed lc2 possible).
/// ECUC: first msg is received > 60s after the end of lc2 -> lc2 gets confirmed and published.
#[test]
fn remote_listing_keeps_merged_lifecycle() {
    const K: u32 = 1_500_000;
    let mut msgs = vec![
        msg(b"ECUA", 0, 1000.0, 5.0),  // A1: start 995, end 1000 (<10s so never "slightly overlapping")
        msg(b"ECUB", 1, 1009.0, 1.0),  // B1: start 1008
        msg(b"ECUA", 2, 1010.0, 2.0),  // lc2: start 1008 > end of A1, end 1010
        msg(b"ECUB", 3, 1050.0, 42.0), // B1: end 1050 -> stays buffered until a msg with reception time > 1110
        msg(b"ECUC", 4, 1071.0, 1.0), // C1, 1071-60 > 1010: lc2 (and A1) confirmed and published. lc2 msg stays buffered behind B1
    ];
    for i in 0..K {
        // C1 msgs. Same start estimate. Reception times 1071..1072
        let d = (i + 1) as f64 / (K + 1) as f64;
        msgs.push(msg(b"ECUC", 5 + i, 1071.0 + d, 1.0 + d));
    }
    // moves start estimate of lc2 to 995 (by 13s). 995 <= end of A1 -> merge of the confirmed lc2 into A1
    msgs.push(msg(b"ECUA", 5 + K, 1072.0, 77.0));
    let total = msgs.len() as u32;
    let file = write_dlt_file(&msgs);
    drop(msgs);
    let file_path = file.path().to_str().unwrap().to_owned();

    let ecu_a = DltChar4::from_buf(b"ECUA").as_u32le();
    let view = remote_open_and_collect(file_path, move |v| {
        // fully processed: all msgs there and the final lifecycle A1 with its 3 msgs has been sent
        v.nr_msgs_file == total
            && v.lcs
                .values()
                .any(|l| l.ecu == ecu_a && l.nr_msgs == 3)
            && v.lcs.values().any(|l| l.nr_msgs == K + 1)
    });
    println!(
        "client table: {:?}",
        view.lcs
            .values()
            .map(|l| (l.id, l.ecu, l.nr_msgs))
            .collect::<Vec<_>>()
    );
    assert_eq!(view.nr_msgs_file, total);
    let sum: u32 = view.lcs.values().map(|l| l.nr_msgs).sum();
    // the stream has exactly 3 lifecycles at the end: A1 (3 msgs), B1 (2 msgs), C1 (K+1 msgs)
    assert_eq!(
        view.lcs.values().filter(|l| l.ecu == ecu_a).count(),
        1,
        "client lists a second lifecycle for ECUA: the merged one that no delivered msg refers to"
    );
    assert_eq!(sum, total, "the counts dont add up to the number of msgs");
}
