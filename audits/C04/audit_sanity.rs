// Audit C04: sanity/differential checks that turned out FINE on the unchanged code (they pass).

use adlt::dlt::{DLT_MAX_STORAGE_MSG_SIZE, DLT_MIN_PARSE_BUFFER_SIZE};
use adlt::utils::{DltMessageIterator, LowMarkBufReader};
use std::io::{BufRead, Cursor, Read, Seek, SeekFrom};

struct Rng(u64);
impl Rng {
    fn next(&mut self) -> u64 {
        let mut x = self.0;
        x ^= x << 13;
        x ^= x >> 7;
        x ^= x << 17;
        self.0 = x;
        x
    }
    fn below(&mut self, n: usize) -> usize {
        (self.next() % n as u64) as usize
    }
}

/// reader that returns data according to a schedule of read sizes (cyclic), min 1 byte
struct Sched {
    data: Vec<u8>,
    pos: usize,
    sizes: Vec<usize>,
    i: usize,
}
impl Read for Sched {
    fn read(&mut self, buf: &mut [u8]) -> std::io::Result<usize> {
        if buf.is_empty() {
            return Ok(0);
        }
        let want = self.sizes[self.i % self.sizes.len()].max(1);
        self.i += 1;
        let n = want.min(buf.len()).min(self.data.len() - self.pos);
        buf[..n].copy_from_slice(&self.data[self.pos..self.pos + n]);
        self.pos += n;
        Ok(n)
    }
}

fn storage_msg(rng: &mut Rng, payload_len: usize, storage: bool) -> Vec<u8> {
    let mut v = if storage {
        let mut v = vec![b'D', b'L', b'T', 1];
        v.extend_from_slice(&(rng.next() as u32).to_le_bytes());
        v.extend_from_slice(&((rng.next() % 1_000_000) as u32).to_le_bytes());
        v.extend_from_slice(b"ECU1");
        v
    } else {
        vec![b'D', b'L', b'S', 1]
    };
    v.extend_from_slice(&[0x20, rng.next() as u8]);
    v.extend_from_slice(&((4 + payload_len) as u16).to_be_bytes());
    let start = v.len();
    for _ in 0..payload_len {
        v.push(rng.next() as u8);
    }
    // embed frame markers now and then
    if payload_len >= 8 && rng.below(3) == 0 {
        let at = start + rng.below(payload_len - 4);
        let pat: &[u8; 4] = if rng.below(4) != 0 && storage {
            b"DLT\x01"
        } else {
            b"DLS\x01"
        };
        v[at..at + 4].copy_from_slice(pat);
    }
    v
}

fn gen_stream(rng: &mut Rng, storage: bool) -> Vec<u8> {
    let mut s = vec![];
    let n = 1 + rng.below(12);
    for _ in 0..n {
        let len = match rng.below(8) {
            0 => 65535 - 4,           // max size
            1 => 65535 - 4 - rng.below(8),
            2 => 0,
            3 => 30000 + rng.below(30000),
            _ => rng.below(300),
        };
        s.extend_from_slice(&storage_msg(rng, len, storage));
        if rng.below(4) == 0 {
            // garbage
            for _ in 0..rng.below(9) {
                s.push(rng.next() as u8);
            }
        }
    }
    if rng.below(3) == 0 {
        let cut = rng.below(s.len().min(70000));
        s.truncate(s.len() - cut);
    }
    s
}

type Summary = (Vec<(u32, u64, u8, u16, Vec<u8>)>, usize, usize);
fn parse<R: Read>(r: R, cap: usize, low: usize) -> Summary {
    let mut it = DltMessageIterator::new(0, LowMarkBufReader::new(r, cap, low));
    let mut v = vec![];
    for m in &mut it {
        v.push((
            m.index,
            m.reception_time_us,
            m.standard_header.mcnt,
            m.standard_header.len,
            m.payload.clone(),
        ));
    }
    (v, it.bytes_processed, it.bytes_skipped)
}

#[test]
fn chunking_and_capacity_independent() {
    let mut rng = Rng(0x1234_5678_9abc_def1);
    for round in 0..60 {
        let storage = round % 3 != 0;
        let s = gen_stream(&mut rng, storage);
        let reference = parse(Cursor::new(s.clone()), 4 * 1024 * 1024, DLT_MIN_PARSE_BUFFER_SIZE);
        let caps = [
            DLT_MIN_PARSE_BUFFER_SIZE + 4096,
            DLT_MIN_PARSE_BUFFER_SIZE + 4097,
            DLT_MIN_PARSE_BUFFER_SIZE + 8191,
            2 * 65536 + 4096,
            512 * 1024,
        ];
        for (ci, cap) in caps.iter().enumerate() {
            let scheds: Vec<Vec<usize>> = vec![
                vec![usize::MAX],
                vec![4095, 4097, 1, 65536],
                vec![1 + rng.below(5000), 1 + rng.below(70000), 1 + rng.below(3)],
                vec![65555],
                vec![65558, 1],
            ];
            for sizes in scheds {
                let got = parse(
                    Sched {
                        data: s.clone(),
                        pos: 0,
                        sizes: sizes.clone(),
                        i: 0,
                    },
                    *cap,
                    DLT_MIN_PARSE_BUFFER_SIZE,
                );
                assert!(got == reference, "round {} cap {} sizes {:?}", round, cap, sizes);
            }
            // one byte at a time only for a few (slow)
            if ci == 0 && round % 6 == 0 {
                let got = parse(
                    Sched {
                        data: s.clone(),
                        pos: 0,
                        sizes: vec![1],
                        i: 0,
                    },
                    *cap,
                    DLT_MIN_PARSE_BUFFER_SIZE,
                );
                assert!(got == reference, "round {} cap {} 1-byte", round, cap);
            }
        }
        // larger low marks give the same result
        let got = parse(Cursor::new(s.clone()), 512 * 1024, 3 * DLT_MAX_STORAGE_MSG_SIZE);
        assert!(got == reference);
    }
}

/// position independence for well formed streams (no truncation, no garbage): every suffix at a message boundary
#[test]
fn suffix_of_wellformed_stream() {
    let mut rng = Rng(0xfeed_beef_1234_0001);
    for round in 0..40 {
        let storage = round % 2 == 0;
        let n = 2 + rng.below(8);
        let mut msgs = vec![];
        for _ in 0..n {
            // no embedded patterns here: payload of zeros..
            let len = if rng.below(5) == 0 { 65531 } else { rng.below(200) };
            let mut m = storage_msg(&mut Rng(1), 0, storage);
            let l = m.len();
            m[l - 2..].copy_from_slice(&((4 + len) as u16).to_be_bytes());
            m.extend(std::iter::repeat(rng.next() as u8 & 0x7f | 0x80).take(len));
            msgs.push(m);
        }
        let whole: Vec<u8> = msgs.concat();
        let all = parse(Cursor::new(whole.clone()), 512 * 1024, DLT_MIN_PARSE_BUFFER_SIZE);
        assert_eq!(all.0.len(), n);
        let mut off = 0;
        for k in 0..n {
            let suf = parse(
                Cursor::new(whole[off..].to_vec()),
                512 * 1024,
                DLT_MIN_PARSE_BUFFER_SIZE,
            );
            assert_eq!(suf.0.len(), n - k);
            for (a, b) in suf.0.iter().zip(all.0[k..].iter()) {
                assert_eq!((a.1, a.2, a.3, &a.4), (b.1, b.2, b.3, &b.4));
            }
            off += msgs[k].len();
        }
    }
}

/// the reader alone against a trivial model
#[test]
fn reader_model() {
    let mut rng = Rng(0x0bad_cafe_dead_beef);
    for round in 0..300 {
        let low = 1 + rng.below(3 * 4096);
        let cap = low + 4096 + [0, 1, 4095, 4096, 10000][rng.below(5)];
        let len = rng.below(6 * cap);
        let data: Vec<u8> = (0..len).map(|_| rng.next() as u8).collect();
        let sizes = match rng.below(4) {
            0 => vec![1],
            1 => vec![usize::MAX],
            2 => vec![1 + rng.below(4096), 1 + rng.below(20000)],
            _ => vec![4096, 1, 4095, 8192],
        };
        let mut r = LowMarkBufReader::new(
            Sched {
                data: data.clone(),
                pos: 0,
                sizes,
                i: 0,
            },
            cap,
            low,
        );
        let mut pos = 0usize; // model position
        let mut steps = 0;
        loop {
            steps += 1;
            if steps > 20000 {
                break;
            }
            match rng.below(10) {
                0..=3 => {
                    let b = r.fill_buf().unwrap().to_vec();
                    assert_eq!(&b[..], &data[pos..pos + b.len()], "round {}", round);
                    // low mark look-ahead unless the source is exhausted (then everything is there)
                    assert!(
                        b.len() >= low || pos + b.len() == data.len(),
                        "round {} low {} cap {} got {} at {} of {}",
                        round,
                        low,
                        cap,
                        b.len(),
                        pos,
                        data.len()
                    );
                    if b.is_empty() {
                        assert_eq!(pos, data.len());
                        break;
                    }
                    let c = match rng.below(4) {
                        0 => b.len(),
                        1 => rng.below(b.len() + 1),
                        2 => 1,
                        _ => rng.below(b.len().min(5000) + 1),
                    };
                    r.consume(c);
                    pos += c;
                }
                4..=5 => {
                    let mut b = vec![0u8; rng.below(3 * cap / 2)];
                    let n = r.read(&mut b).unwrap();
                    assert_eq!(&b[..n], &data[pos..pos + n]);
                    if !b.is_empty() && n == 0 {
                        assert_eq!(pos, data.len());
                        break;
                    }
                    pos += n;
                }
                6 => {
                    assert_eq!(r.stream_position().unwrap() as usize, pos);
                }
                7..=8 => {
                    // seek within what fill_buf currently offers (forward) ..
                    let avail = r.buffer().len();
                    let d = rng.below(avail + 1);
                    assert_eq!(r.seek(SeekFrom::Current(d as i64)).unwrap() as usize, pos + d);
                    pos += d;
                }
                _ => {
                    // .. or backward: may fail (outside of buffer), if it succeeds data must be right
                    let d = rng.below(5000).min(pos);
                    if let Ok(p) = r.seek(SeekFrom::Start((pos - d) as u64)) {
                        assert_eq!(p as usize, pos - d);
                        pos -= d;
                    } else {
                        assert_eq!(r.stream_position().unwrap() as usize, pos);
                    }
                }
            }
        }
    }
}
