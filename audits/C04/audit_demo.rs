// Audit C04: "Parsing depends only on the bytes, not on read chunking or position"
//
// Each #[test] demonstrates one violation on the unchanged code (it FAILS as long as the defect is there).

use adlt::dlt::{DltMessage, DLT_MIN_PARSE_BUFFER_SIZE};
use adlt::utils::{DltMessageIterator, LowMarkBufReader};
use std::io::Cursor;

const CAPACITY: usize = 512 * 1024;

/// a message with storage header, standard header without any optional field, payload given.
fn storage_msg(ecu: &[u8; 4], mcnt: u8, payload: &[u8]) -> Vec<u8> {
    let mut v = vec![b'D', b'L', b'T', 1];
    v.extend_from_slice(&1u32.to_le_bytes()); // secs
    v.extend_from_slice(&0u32.to_le_bytes()); // micros
    v.extend_from_slice(ecu);
    v.extend_from_slice(&[0x20, mcnt]); // htyp vers 1, mcnt
    v.extend_from_slice(&((4 + payload.len()) as u16).to_be_bytes());
    v.extend_from_slice(payload);
    v
}

/// a message with serial header, standard header without any optional field, payload given.
fn serial_msg(mcnt: u8, payload: &[u8]) -> Vec<u8> {
    let mut v = vec![b'D', b'L', b'S', 1];
    v.extend_from_slice(&[0x20, mcnt]); // htyp vers 1, mcnt
    v.extend_from_slice(&((4 + payload.len()) as u16).to_be_bytes());
    v.extend_from_slice(payload);
    v
}

/// the messages recognised in a stream, reduced to what identifies them (index is position dependent by definition)
fn recognised(stream: &[u8]) -> Vec<(String, u8, Vec<u8>)> {
    let it = DltMessageIterator::new(
        0,
        LowMarkBufReader::new(Cursor::new(stream.to_vec()), CAPACITY, DLT_MIN_PARSE_BUFFER_SIZE),
    );
    it.map(|m: DltMessage| {
        (
            format!("{}", m.ecu),
            m.standard_header.mcnt,
            m.payload.clone(),
        )
    })
    .collect()
}

/// Finding 1: a suffix of the stream that starts with a truncated message (its length field announces more
/// bytes than the stream has) that embeds a complete message.
/// With no message before it the embedded message is recognised (the iterator, not having detected the
/// storage header format yet, falls through to the serial header parser, which skips byte by byte),
/// with one or more complete messages before it the iterator stops at the truncated message.
#[test]
fn finding1_truncated_message_position_dependent() {
    let embedded = storage_msg(b"EMBD", 7, &[1, 2, 3, 4]);
    // a truncated message: header announces 4+200 bytes, only the embedded message follows
    let mut suffix = storage_msg(b"TRUN", 1, &[0u8; 200]);
    suffix.truncate(20);
    suffix.extend_from_slice(&embedded);

    let prefix = storage_msg(b"PRE1", 0, &[9, 9]);

    // sanity: prefix alone is one complete message
    assert_eq!(recognised(&prefix).len(), 1);

    let alone = recognised(&suffix);
    let mut whole = prefix.clone();
    whole.extend_from_slice(&suffix);
    let with_prefix = recognised(&whole);

    println!("alone={:?}", alone);
    println!("with_prefix={:?}", with_prefix);
    // the property: messages(prefix ++ suffix) == messages(prefix) ++ messages(suffix)
    assert_eq!(
        &with_prefix[1..],
        &alone[..],
        "messages recognised in the suffix depend on whether a complete message precedes it"
    );
}

/// Finding 2: a pure serial header stream. The suffix starts with a serial message that the corrupt message
/// heuristic rejects (it embeds a serial header pattern and is not followed by one). The rejected bytes also
/// contain a complete storage header message.
/// With no message before it, the iterator (format undetected) tries the storage header parser on every
/// skipped byte, recognises the embedded storage message and from then on never tries the serial header again:
/// all following serial messages are lost. With one complete serial message before the suffix the serial
/// format is latched and the serial messages of the suffix are recognised.
#[test]
fn finding2_format_latch_position_dependent() {
    let embedded_storage = storage_msg(b"STOR", 5, &[0xaa, 0xbb]);
    let inner_serial = serial_msg(11, &[1]);
    // payload of the rejected message: storage message, then a complete serial message
    let mut payload = vec![];
    payload.extend_from_slice(&embedded_storage);
    payload.extend_from_slice(&inner_serial);
    let mut suffix = serial_msg(10, &payload);
    suffix.extend_from_slice(&[0, 0, 0, 0]); // 4 bytes that are no serial header -> heuristic rejects msg 10
    suffix.extend_from_slice(&serial_msg(12, &[2, 2]));
    suffix.extend_from_slice(&serial_msg(13, &[3, 3, 3]));

    let prefix = serial_msg(1, &[9]);
    assert_eq!(recognised(&prefix).len(), 1);

    let alone = recognised(&suffix);
    let mut whole = prefix.clone();
    whole.extend_from_slice(&suffix);
    let with_prefix = recognised(&whole);

    println!("alone={:?}", alone);
    println!("with_prefix={:?}", with_prefix);
    assert_eq!(
        &with_prefix[1..],
        &alone[..],
        "messages recognised in the suffix depend on whether a complete message precedes it"
    );
}
