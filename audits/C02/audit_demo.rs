// audit C02: export fidelity (write/parse round trip and normal form)
use adlt::dlt::{
    parse_dlt_with_storage_header, DltMessage, DLT_MIN_PARSE_BUFFER_SIZE,
};
use adlt::utils::{DltMessageIterator, LowMarkBufReader};
use assert_cmd::Command;

struct Rng(u64);
impl Rng {
    fn next(&mut self) -> u64 {
        let mut x = self.0;
        x ^= x << 13;
        x ^= x >> 7;
        x ^= x << 17;
        self.0 = x;
        x
    }
    fn below(&mut self, n: u64) -> u64 {
        self.next() % n
    }
}

#[derive(Clone, Debug)]
struct Gen {
    htyp: u8,
    mcnt: u8,
    secs: u32,
    micros: u32,
    sh_ecu: [u8; 4],
    ecu: [u8; 4],
    session: u32,
    tmsp: u32,
    ext: [u8; 10],
    payload: Vec<u8>,
}

impl Gen {
    fn hdr_len(&self) -> usize {
        let mut l = 4;
        if self.htyp & 4 != 0 {
            l += 4
        }
        if self.htyp & 8 != 0 {
            l += 4
        }
        if self.htyp & 16 != 0 {
            l += 4
        }
        if self.htyp & 1 != 0 {
            l += 10
        }
        l
    }
    fn write(&self, out: &mut Vec<u8>) {
        out.extend_from_slice(b"DLT\x01");
        out.extend_from_slice(&self.secs.to_le_bytes());
        out.extend_from_slice(&self.micros.to_le_bytes());
        out.extend_from_slice(&self.sh_ecu);
        let len = (self.hdr_len() + self.payload.len()) as u16;
        out.push(self.htyp);
        out.push(self.mcnt);
        out.extend_from_slice(&len.to_be_bytes());
        if self.htyp & 4 != 0 {
            out.extend_from_slice(&self.ecu);
        }
        if self.htyp & 8 != 0 {
            out.extend_from_slice(&self.session.to_be_bytes());
        }
        if self.htyp & 16 != 0 {
            out.extend_from_slice(&self.tmsp.to_be_bytes());
        }
        if self.htyp & 1 != 0 {
            out.extend_from_slice(&self.ext);
        }
        out.extend_from_slice(&self.payload);
    }
    fn exp_ecu(&self) -> [u8; 4] {
        if self.htyp & 4 != 0 {
            self.ecu
        } else {
            self.sh_ecu
        }
    }
}

fn rnd_id(r: &mut Rng) -> [u8; 4] {
    match r.below(6) {
        0 => *b"ECU1",
        1 => *b"ECU2",
        2 => [0, 0, 0, 0],
        3 => *b"DLT\x01",
        4 => *b"E\0\0\0",
        _ => {
            let v = r.next() as u32;
            v.to_le_bytes()
        }
    }
}

fn rnd_u32(r: &mut Rng) -> u32 {
    match r.below(8) {
        0 => 0,
        1 => u32::MAX,
        2 => 0x01544c44,
        3 => 0x444c5401,
        4 => r.below(100_000) as u32,
        _ => r.next() as u32,
    }
}

fn gen_msg(r: &mut Rng, flags: u8, big_payloads: bool, wild_times: bool) -> Gen {
    let vers: u8 = 1 << 5;
    let htyp = vers | (flags & 0x1f);
    let mut g = Gen {
        htyp,
        mcnt: r.next() as u8,
        secs: if wild_times {
            rnd_u32(r)
        } else {
            1_600_000_000 + r.below(1000) as u32
        },
        micros: r.below(1_000_000) as u32,
        sh_ecu: rnd_id(r),
        ecu: rnd_id(r),
        session: rnd_u32(r),
        tmsp: if wild_times {
            rnd_u32(r)
        } else {
            r.below(10_000_000) as u32
        },
        ext: [0; 10],
        payload: vec![],
    };
    for b in g.ext.iter_mut() {
        *b = r.next() as u8;
    }
    if r.below(3) == 0 {
        g.ext[2..6].copy_from_slice(b"DLT\x01");
    }
    if r.below(4) == 0 {
        // control response / request
        g.ext[0] = if r.below(2) == 0 { 0x26 } else { 0x16 } | (r.below(2) as u8);
    }
    let max_payload = 65535 - g.hdr_len();
    let plen = match r.below(if big_payloads { 6 } else { 12 }) {
        0 => 0,
        1 => max_payload,
        2 => max_payload - r.below(20) as usize,
        3 => r.below(max_payload as u64 + 1) as usize,
        4 => r.below(8) as usize,
        _ => r.below(300) as usize,
    };
    let mut p = vec![0u8; plen];
    match r.below(4) {
        0 => {
            for b in p.iter_mut() {
                *b = r.next() as u8;
            }
        }
        1 => {
            // lots of storage header patterns
            for (i, b) in p.iter_mut().enumerate() {
                *b = b"DLT\x01"[i % 4];
            }
        }
        2 => {
            for (i, b) in p.iter_mut().enumerate() {
                *b = b"DLS\x01"[i % 4];
            }
        }
        _ => {
            // a nested complete looking message
            let inner = b"DLT\x01\0\0\0\0\0\0\0\0ECU1\x20\x00\x00\x04";
            for (i, b) in p.iter_mut().enumerate() {
                *b = inner[i % inner.len()];
            }
            // sw version alike prefix
            if plen >= 4 {
                p[0..4].copy_from_slice(&19u32.to_le_bytes());
            }
        }
    }
    g.payload = p;
    g
}

fn parse_all(data: &[u8]) -> (Vec<DltMessage>, usize, usize) {
    let mut it = DltMessageIterator::new(
        0,
        LowMarkBufReader::new(
            std::io::Cursor::new(data.to_vec()),
            512 * 1024,
            DLT_MIN_PARSE_BUFFER_SIZE,
        ),
    );
    let mut v = vec![];
    for m in &mut it {
        v.push(m);
    }
    (v, it.bytes_processed, it.bytes_skipped)
}

fn same_msg(a: &DltMessage, b: &DltMessage) -> bool {
    a.ecu.as_buf() == b.ecu.as_buf()
        && a.reception_time_us == b.reception_time_us
        && a.timestamp_dms == b.timestamp_dms
        && a.standard_header.has_timestamp() == b.standard_header.has_timestamp()
        && a.mcnt() == b.mcnt()
        && a.is_big_endian() == b.is_big_endian()
        && match (&a.extended_header, &b.extended_header) {
            (None, None) => true,
            (Some(x), Some(y)) => {
                x.verb_mstp_mtin == y.verb_mstp_mtin
                    && x.noar == y.noar
                    && x.apid.as_buf() == y.apid.as_buf()
                    && x.ctid.as_buf() == y.ctid.as_buf()
            }
            _ => false,
        }
        && a.payload == b.payload
}

fn check_stream(gens: &[Gen], tag: &str) -> Vec<u8> {
    let mut data = vec![];
    for g in gens {
        g.write(&mut data);
    }
    let (msgs, processed, skipped) = parse_all(&data);
    assert_eq!(skipped, 0, "{tag}: skipped bytes on a well formed stream");
    assert_eq!(processed, data.len(), "{tag}: processed");
    assert_eq!(msgs.len(), gens.len(), "{tag}: nr msgs");
    let mut exp1 = vec![];
    for (i, (m, g)) in msgs.iter().zip(gens.iter()).enumerate() {
        assert_eq!(m.ecu.as_buf(), &g.exp_ecu(), "{tag}: #{i} ecu");
        assert_eq!(
            m.reception_time_us,
            g.secs as u64 * 1_000_000 + g.micros as u64,
            "{tag}: #{i} reception time"
        );
        assert_eq!(
            m.timestamp_dms,
            if g.htyp & 16 != 0 { g.tmsp } else { 0 },
            "{tag}: #{i} tmsp"
        );
        assert_eq!(m.payload, g.payload, "{tag}: #{i} payload");
        assert_eq!(m.mcnt(), g.mcnt);
        assert_eq!(m.is_big_endian(), g.htyp & 2 != 0);
        assert_eq!(m.extended_header.is_some(), g.htyp & 1 != 0);
        if let Some(e) = &m.extended_header {
            assert_eq!(e.verb_mstp_mtin, g.ext[0]);
            assert_eq!(e.noar, g.ext[1]);
            assert_eq!(e.apid.as_buf(), &g.ext[2..6]);
            assert_eq!(e.ctid.as_buf(), &g.ext[6..10]);
        }
        // single msg round trip
        let mut w = vec![];
        m.to_write(&mut w).unwrap();
        let (consumed, m2) = parse_dlt_with_storage_header(m.index, &w)
            .unwrap_or_else(|e| panic!("{tag}: #{i} re-parse failed {e}"));
        assert_eq!(consumed, w.len(), "{tag}: #{i} consumed");
        assert!(same_msg(m, &m2), "{tag}: #{i} single round trip differs");
        let mut w2 = vec![];
        m2.to_write(&mut w2).unwrap();
        assert_eq!(w, w2, "{tag}: #{i} normal form");
        exp1.extend_from_slice(&w);
    }
    // stream round trip
    let (msgs2, processed2, skipped2) = parse_all(&exp1);
    assert_eq!(skipped2, 0, "{tag}: export skipped");
    assert_eq!(processed2, exp1.len());
    assert_eq!(msgs2.len(), msgs.len(), "{tag}: export nr msgs");
    let mut exp2 = vec![];
    for (i, (a, b)) in msgs.iter().zip(msgs2.iter()).enumerate() {
        assert!(same_msg(a, b), "{tag}: #{i} stream round trip differs");
        b.to_write(&mut exp2).unwrap();
    }
    assert!(exp1 == exp2, "{tag}: export of export differs");
    exp1
}

#[test]
fn lib_round_trip_random() {
    let mut r = Rng(0x1234_5678_9abc_def1);
    for round in 0..60 {
        let n = 1 + r.below(if round % 3 == 0 { 60 } else { 600 }) as usize;
        let big = round % 3 == 0;
        let gens: Vec<Gen> = (0..n)
            .map(|_| {
                let f = r.next() as u8;
                gen_msg(&mut r, f, big, true)
            })
            .collect();
        check_stream(&gens, &format!("round {round}"));
    }
}

fn run_convert(input: &std::path::Path, output: &std::path::Path, extra: &[&str]) {
    let mut cmd = Command::cargo_bin(env!("CARGO_PKG_NAME")).unwrap();
    let mut args: Vec<String> = vec!["convert".into()];
    for e in extra {
        args.push(e.to_string());
    }
    args.push(input.to_string_lossy().to_string());
    args.push("-o".into());
    args.push(output.to_string_lossy().to_string());
    let out = cmd.args(&args).output().unwrap();
    assert!(
        out.status.success(),
        "convert failed: {:?}\nstdout={}\nstderr={}",
        out.status,
        String::from_utf8_lossy(&out.stdout),
        String::from_utf8_lossy(&out.stderr)
    );
}

fn bin_check(gens: &[Gen], tag: &str) {
    let exp1 = check_stream(gens, tag);
    let dir = tempfile::tempdir().unwrap();
    let f_in = dir.path().join("in.dlt");
    let f_o1 = dir.path().join("o1.dlt");
    let f_o2 = dir.path().join("o2.dlt");
    let mut data = vec![];
    for g in gens {
        g.write(&mut data);
    }
    std::fs::write(&f_in, &data).unwrap();
    run_convert(&f_in, &f_o1, &[]);
    let o1 = std::fs::read(&f_o1).unwrap();
    if o1 != exp1 {
        let (m1, _, _) = parse_all(&o1);
        let (me, _, _) = parse_all(&exp1);
        let first_diff = m1
            .iter()
            .zip(me.iter())
            .position(|(a, b)| !same_msg(a, b));
        panic!(
            "{tag}: export by the binary differs from the expected export: len {} vs {}, msgs {} vs {}, first differing msg {:?}",
            o1.len(),
            exp1.len(),
            m1.len(),
            me.len(),
            first_diff
        );
    }
    run_convert(&f_o1, &f_o2, &[]);
    let o2 = std::fs::read(&f_o2).unwrap();
    assert!(o1 == o2, "{tag}: export of export by binary differs");
}

#[test]
fn bin_round_trip_random() {
    let mut r = Rng(0xfeed_beef_1234_0001);
    for round in 0..24 {
        let n = 1 + r.below(if round % 4 == 0 { 40 } else { 3000 }) as usize;
        let big = round % 4 == 0;
        let wild = round % 2 == 0;
        let gens: Vec<Gen> = (0..n)
            .map(|_| {
                let f = r.next() as u8;
                gen_msg(&mut r, f, big, wild)
            })
            .collect();
        bin_check(&gens, &format!("bin round {round}"));
    }
}

fn lib_export_file(path: &std::path::Path) -> (Vec<u8>, usize) {
    let data = std::fs::read(path).unwrap();
    let (msgs, _, _) = parse_all(&data);
    let mut out = vec![];
    for m in &msgs {
        m.to_write(&mut out).unwrap();
    }
    (out, msgs.len())
}

#[test]
fn bin_example_files() {
    for name in ["lc_ex002.dlt", "lc_ex003.dlt", "lc_ex004.dlt", "lc_ex005.dlt", "lc_ex006.dlt", "ex_1970_1_1.dlt"] {
        let mut p = std::path::PathBuf::from(env!("CARGO_MANIFEST_DIR"));
        p.push("tests");
        p.push(name);
        let (exp, n) = lib_export_file(&p);
        let dir = tempfile::tempdir().unwrap();
        let o1 = dir.path().join("o1.dlt");
        let o2 = dir.path().join("o2.dlt");
        run_convert(&p, &o1, &[]);
        let d1 = std::fs::read(&o1).unwrap();
        assert!(d1 == exp, "{name}: export differs ({} msgs) len {} vs {}", n, d1.len(), exp.len());
        run_convert(&o1, &o2, &[]);
        assert!(d1 == std::fs::read(&o2).unwrap(), "{name}: export of export differs");
    }
}

/// realistic multi ecu scenario with restarts so that lifecycles get buffered/merged
#[test]
fn bin_multi_ecu_lifecycles() {
    let mut r = Rng(0x77aa_1234_5678_0001);
    for round in 0..12 {
        let mut gens = vec![];
        let mut rec_us: u64 = 1_600_000_000_000_000;
        let ecus: [[u8; 4]; 3] = [*b"ECU1", *b"ECU2", *b"ECU3"];
        let mut boot_us = [rec_us - 5_000_000, rec_us - 100_000_000, rec_us - 1_000_000];
        let n = 2000 + r.below(8000) as usize;
        for _ in 0..n {
            let gap = if r.below(50) == 0 { 30_000_000 } else { 40_000 };
            rec_us += r.below(gap);
            let e = r.below(3) as usize;
            if r.below(700) == 0 {
                // restart of that ecu
                boot_us[e] = rec_us - r.below(3_000_000);
            }
            let f = r.next() as u8;
            let mut g = gen_msg(&mut r, f, false, false);
            g.secs = (rec_us / 1_000_000) as u32;
            g.micros = (rec_us % 1_000_000) as u32;
            g.sh_ecu = ecus[e];
            g.ecu = ecus[e];
            let dmax = if r.below(20) == 0 { 20_000_000 } else { 200_000 };
            let delay = r.below(dmax);
            let t = (rec_us - boot_us[e]).saturating_sub(delay);
            g.tmsp = (t / 100) as u32;
            if g.payload.len() > 2000 { g.payload.truncate(100); }
            gens.push(g);
        }
        bin_check(&gens, &format!("multi ecu round {round}"));
    }
}

/// serial header (DLS) streams
#[test]
fn bin_dls_round_trip() {
    let mut r = Rng(0x5151_aaaa_0000_0077);
    for round in 0..10 {
        let n = 1 + r.below(if round % 2 == 0 { 30 } else { 2000 }) as usize;
        let gens: Vec<Gen> = (0..n)
            .map(|_| {
                let f = r.next() as u8;
                gen_msg(&mut r, f, round % 2 == 0, true)
            })
            .collect();
        let mut data = vec![];
        for g in &gens {
            let mut one = vec![];
            g.write(&mut one);
            data.extend_from_slice(b"DLS\x01");
            data.extend_from_slice(&one[16..]);
        }
        let (msgs, processed, skipped) = parse_all(&data);
        assert_eq!(skipped, 0, "dls {round}: skipped");
        assert_eq!(processed, data.len());
        assert_eq!(msgs.len(), gens.len(), "dls {round}: nr msgs");
        let mut exp = vec![];
        for (i, (m, g)) in msgs.iter().zip(gens.iter()).enumerate() {
            assert_eq!(m.payload, g.payload, "dls {round} #{i}");
            assert_eq!(m.timestamp_dms, if g.htyp & 16 != 0 { g.tmsp } else { 0 });
            if g.htyp & 4 != 0 {
                assert_eq!(m.ecu.as_buf(), &g.ecu);
            }
            let mut w = vec![];
            m.to_write(&mut w).unwrap();
            let (c, m2) = parse_dlt_with_storage_header(0, &w).unwrap();
            assert_eq!(c, w.len());
            assert!(same_msg(m, &m2), "dls {round} #{i} round trip");
            exp.extend_from_slice(&w);
        }
        let dir = tempfile::tempdir().unwrap();
        let f_in = dir.path().join("in.dlt");
        let o1 = dir.path().join("o1.dlt");
        let o2 = dir.path().join("o2.dlt");
        std::fs::write(&f_in, &data).unwrap();
        run_convert(&f_in, &o1, &[]);
        let d1 = std::fs::read(&o1).unwrap();
        assert!(d1 == exp, "dls {round}: export differs len {} vs {}", d1.len(), exp.len());
        run_convert(&o1, &o2, &[]);
        assert!(d1 == std::fs::read(&o2).unwrap(), "dls {round}: export of export differs");
    }
}

/// export while printing (-a / -x / -s) and with random version bits
#[test]
fn bin_export_while_printing() {
    let mut r = Rng(0x0bad_cafe_4242_0001);
    for (round, style) in ["-a", "-x", "-s", "-a"].iter().enumerate() {
        let n = 500 + r.below(1500) as usize;
        let gens: Vec<Gen> = (0..n)
            .map(|_| {
                let f = r.next() as u8;
                let mut g = gen_msg(&mut r, f, false, true);
                g.htyp = (g.htyp & 0x1f) | ((r.below(8) as u8) << 5);
                if g.payload.len() > 3000 { g.payload.truncate(r.below(64) as usize); }
                // verbose msgs with random type infos
                if g.payload.len() >= 4 && r.below(2) == 0 {
                    let ti: u32 = (1 << (4 + r.below(11))) | (r.below(6) as u32) | ((r.below(4) as u32) << 15);
                    g.payload[0..4].copy_from_slice(&if g.htyp & 2 != 0 { ti.to_be_bytes() } else { ti.to_le_bytes() });
                    g.ext[0] |= 1;
                }
                g
            })
            .collect();
        let mut data = vec![];
        for g in &gens { g.write(&mut data); }
        let (msgs, _, skipped) = parse_all(&data);
        assert_eq!(skipped, 0);
        assert_eq!(msgs.len(), gens.len());
        let mut exp = vec![];
        for m in &msgs { m.to_write(&mut exp).unwrap(); }
        let dir = tempfile::tempdir().unwrap();
        let f_in = dir.path().join("in.dlt");
        let o1 = dir.path().join("o1.dlt");
        std::fs::write(&f_in, &data).unwrap();
        run_convert(&f_in, &o1, &[style]);
        let d1 = std::fs::read(&o1).unwrap();
        assert!(d1 == exp, "printing round {round} {style}: export differs len {} vs {}", d1.len(), exp.len());
    }
}
