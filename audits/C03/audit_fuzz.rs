// temporary fuzz harness for audit C12 (not a deliverable)
use adlt::dlt::DltMessage;
use adlt::plugins::plugin::Plugin;
use adlt::utils::eac_stats::EacStats;
use adlt::utils::{get_dlt_message_iterator, get_new_namespace};
use std::collections::BTreeMap;
use std::io::{BufReader, Cursor};
use std::panic::{catch_unwind, AssertUnwindSafe};
use std::sync::Mutex;

static PANICS: Mutex<BTreeMap<String, (usize, String)>> = Mutex::new(BTreeMap::new());
static CUR_INPUT: Mutex<Vec<u8>> = Mutex::new(Vec::new());
static COVER: Mutex<BTreeMap<String, usize>> = Mutex::new(BTreeMap::new());
static CUR_EXT: Mutex<String> = Mutex::new(String::new());

fn install_hook() {
    std::panic::set_hook(Box::new(|info| {
        let loc = info
            .location()
            .map(|l| format!("{}:{}:{}", l.file(), l.line(), l.column()))
            .unwrap_or_default();
        let msg = if let Some(s) = info.payload().downcast_ref::<&str>() {
            s.to_string()
        } else if let Some(s) = info.payload().downcast_ref::<String>() {
            s.clone()
        } else {
            "?".to_string()
        };
        let mut msg: String = msg.chars().take(160).collect();
        if msg.contains("PoisonError") {
            return;
        }
        if loc.contains("audit_fuzz") {
            eprintln!("HARNESS PANIC at {}: {}", loc, msg);
        }
        let mut p = PANICS.lock().unwrap_or_else(|e| e.into_inner());
        let e = p.entry(loc.clone()).or_insert((0, String::new()));
        e.0 += 1;
        if e.0 == 1 {
            msg.push_str(" | input: ");
            let inp = CUR_INPUT.lock().unwrap_or_else(|e| e.into_inner());
            let ext = CUR_EXT.lock().unwrap_or_else(|e| e.into_inner());
            let fname = format!(
                "/tmp/wt_audit_C12/audit/crash_{}.{}",
                loc.replace(['/', ':', '.'], "_"),
                ext
            );
            let _ = std::fs::write(&fname, &*inp);
            msg.push_str(&fname);
            e.1 = msg;
        }
    }));
}

struct Rng(u64);
impl Rng {
    fn next(&mut self) -> u64 {
        let mut x = self.0;
        x ^= x << 13;
        x ^= x >> 7;
        x ^= x << 17;
        self.0 = x;
        x
    }
    fn below(&mut self, n: usize) -> usize {
        if n == 0 {
            0
        } else {
            (self.next() % n as u64) as usize
        }
    }
    fn chance(&mut self, one_in: usize) -> bool {
        self.below(one_in) == 0
    }
    fn pick<'a, T>(&mut self, v: &'a [T]) -> &'a T {
        &v[self.below(v.len())]
    }
    fn rb(&mut self, max: usize) -> Vec<u8> {
        let n = self.below(max);
        self.bytes(n)
    }
    fn bytes(&mut self, n: usize) -> Vec<u8> {
        (0..n).map(|_| self.next() as u8).collect()
    }
    fn interesting_u32(&mut self) -> u32 {
        match self.below(8) {
            0 => 0,
            1 => 1,
            2 => u32::MAX,
            3 => 0x7fff_ffff,
            4 => 0x8000_0000,
            5 => 0xffff,
            6 => self.below(300) as u32,
            _ => self.next() as u32,
        }
    }
    fn interesting_u16(&mut self) -> u16 {
        match self.below(6) {
            0 => 0,
            1 => 1,
            2 => u16::MAX,
            3 => 0x7fff,
            4 => self.below(64) as u16,
            _ => self.next() as u16,
        }
    }
}

fn test_dir() -> String {
    format!("{}/tests", env!("CARGO_MANIFEST_DIR"))
}

fn plugins() -> Vec<Box<dyn Plugin + Send>> {
    let mut eac = EacStats::new();
    let td = test_dir();
    let mut v: Vec<Box<dyn Plugin + Send>> = vec![];
    let cfgs = vec![
        serde_json::json!({"name":"NonVerbose","fibexDir":td}),
        serde_json::json!({"name":"SomeIp","fibexDir":td}),
        serde_json::json!({"name":"CAN","fibexDir":td}),
        serde_json::json!({"name":"Muniic","jsonDir":format!("{}/muniic", td)}),
        serde_json::from_str(&std::fs::read_to_string(format!("{}/rewrite.cfg", td)).unwrap())
            .unwrap(),
        serde_json::json!({"name":"FileTransfer", "allowSave":true, "keepFLDA":true}),
    ];
    for c in cfgs {
        let p = adlt::plugins::factory::get_plugin(c.as_object().unwrap(), &mut eac);
        assert!(p.is_some(), "plugin {:?}", c);
        v.push(p.unwrap());
    }
    v.push(Box::new(adlt::plugins::anonymize::AnonymizePlugin::new(
        "anon",
    )));
    v
}

fn process(ext: &str, data: &[u8], with_plugins: bool) -> usize {
    {
        *CUR_INPUT.lock().unwrap_or_else(|e| e.into_inner()) = data.to_vec();
        *CUR_EXT.lock().unwrap_or_else(|e| e.into_inner()) = ext.to_string();
    }
    let ns = get_new_namespace();
    let msgs: Vec<DltMessage> = catch_unwind(AssertUnwindSafe(|| {
        let it = get_dlt_message_iterator(
            ext,
            0,
            BufReader::with_capacity(256 * 1024, Cursor::new(data.to_vec())),
            ns,
            None,
            Some(1_700_000_000_000_000),
            None,
        );
        let mut v = vec![];
        for m in it {
            v.push(m);
            if v.len() > 50_000 {
                break;
            }
        }
        v
    }))
    .unwrap_or_default();

    let filters = [
        adlt::filter::Filter::from_json(r#"{"type":0,"payloadRegex":"^a.*(b|c)+\\d$"}"#).unwrap(),
        adlt::filter::Filter::from_json(r#"{"type":0,"payload":"foo","ignoreCasePayload":true}"#)
            .unwrap(),
        adlt::filter::Filter::from_json(r#"{"type":0,"ecu":"E.*","ecuIsRegex":true, "apid":"A","ctid":"C", "logLevelMin":2}"#)
            .unwrap(),
    ];

    // per msg rendering:
    let mut eac = EacStats::new();
    for m in &msgs {
        let _ = catch_unwind(AssertUnwindSafe(|| {
            let mut out = Vec::with_capacity(1024);
            let _ = m.header_as_text_to_write(&mut out);
        }));
        let _ = catch_unwind(AssertUnwindSafe(|| {
            let _ = m.payload_as_text();
        }));
        let _ = catch_unwind(AssertUnwindSafe(|| {
            let mut n = 0;
            for a in m.into_iter() {
                n += a.payload_raw.len();
            }
            n
        }));
        let _ = catch_unwind(AssertUnwindSafe(|| {
            let mut out = Vec::with_capacity(1024);
            let _ = m.to_write(&mut out);
        }));
        let _ = catch_unwind(AssertUnwindSafe(|| {
            eac.add_msg(m);
        }));
        let _ = catch_unwind(AssertUnwindSafe(|| {
            for f in &filters {
                let _ = f.matches(m);
            }
        }));
    }

    // lifecycles:
    let n = msgs.len();
    let (lcs_r, lcs_w) = evmap::Options::default()
        .with_hasher(nohash_hasher::BuildNoHashHasher::<adlt::lifecycle::LifecycleId>::default())
        .construct::<adlt::lifecycle::LifecycleId, adlt::lifecycle::LifecycleItem>();
    let (tx, rx) = std::sync::mpsc::channel();
    let (tx2, rx2) = std::sync::mpsc::channel();
    for m in msgs {
        tx.send(m).unwrap();
    }
    drop(tx);
    let lcs_w = catch_unwind(AssertUnwindSafe(|| {
        adlt::lifecycle::parse_lifecycles_buffered_from_stream(lcs_w, rx, &|m| tx2.send(m))
    }));
    drop(tx2);
    let mut msgs: Vec<DltMessage> = rx2.iter().collect();
    let _ = catch_unwind(AssertUnwindSafe(|| {
        if let Some(r) = lcs_r.read() {
            let v = adlt::lifecycle::get_sorted_lifecycles_as_vec(&r);
            for lc in v {
                let _ = (
                    lc.end_time(),
                    lc.resume_time(),
                    lc.resume_start_time(),
                    lc.suspend_duration(),
                );
            }
        }
    }));

    if with_plugins {
        thread_local! {
            static PLUGINS: std::cell::RefCell<Vec<Box<dyn Plugin + Send>>> = std::cell::RefCell::new(plugins());
        }
        PLUGINS.with(|p| {
            let mut p = p.borrow_mut();
            for m in msgs.iter_mut() {
                for pl in p.iter_mut() {
                    let r = catch_unwind(AssertUnwindSafe(|| pl.process_msg(m)));
                    if let Ok(false) = r {
                        break;
                    }
                }
                if let Some(t) = &m.payload_text {
                    let k: String = t.chars().filter(|c| !c.is_ascii_digit()).take(14).collect();
                    *COVER.lock().unwrap().entry(k).or_insert(0) += 1;
                }
                let _ = catch_unwind(AssertUnwindSafe(|| {
                    let _ = m.payload_as_text();
                    let mut out = Vec::with_capacity(1024);
                    let _ = m.to_write(&mut out);
                }));
            }
        });
    }

    // sort
    let (tx, rx) = std::sync::mpsc::channel();
    let (tx2, rx2) = std::sync::mpsc::channel();
    for m in msgs {
        tx.send(m).unwrap();
    }
    drop(tx);
    let _ = catch_unwind(AssertUnwindSafe(|| {
        let _ = adlt::utils::buffer_sort_messages(rx, &|m| tx2.send(m), &lcs_r, 3, 2_000_000);
    }));
    drop(tx2);
    let _ = rx2.iter().count();
    drop(lcs_w);
    n
}

fn mutate(rng: &mut Rng, data: &mut Vec<u8>) {
    let n = 1 + rng.below(4);
    for _ in 0..n {
        if data.is_empty() {
            return;
        }
        match rng.below(8) {
            0 => {
                let i = rng.below(data.len());
                data[i] = rng.next() as u8;
            }
            1 => {
                let i = rng.below(data.len());
                data[i] ^= 1 << rng.below(8);
            }
            2 => {
                let i = rng.below(data.len());
                data.truncate(i);
            }
            3 => {
                // splice
                let i = rng.below(data.len());
                let j = rng.below(data.len());
                let l = rng.below(64);
                let chunk: Vec<u8> = data[j..(j + l).min(data.len())].to_vec();
                let tail = data.split_off(i);
                data.extend(chunk);
                data.extend(tail);
            }
            4 => {
                let i = rng.below(data.len());
                let l = rng.below(16).min(data.len() - i);
                data.drain(i..i + l);
            }
            5 => {
                let i = rng.below(data.len());
                let v = *rng.pick(&[0u8, 0xff, 0x7f, 0x80, 1]);
                let l = rng.below(8).min(data.len() - i);
                for b in &mut data[i..i + l] {
                    *b = v;
                }
            }
            6 => {
                let i = rng.below(data.len());
                let b = rng.rb(8);
                let tail = data.split_off(i);
                data.extend(b);
                data.extend(tail);
            }
            _ => {
                let i = rng.below(data.len());
                data[i] = *rng.pick(&[0u8, 0xff, 0x7f, 0x80, 1, b'0', b'9', b' ', b'-', b'.']);
            }
        }
    }
}

// ---- dlt message builder ----
#[allow(clippy::too_many_arguments)]
fn dlt_msg(
    rng: &mut Rng,
    secs: u32,
    micros: u32,
    ecu: &[u8; 4],
    big_endian: bool,
    ts: Option<u32>,
    ext: Option<(u8, u8, &[u8; 4], &[u8; 4])>,
    payload: &[u8],
) -> Vec<u8> {
    let mut v = vec![];
    v.extend(b"DLT\x01");
    v.extend(secs.to_le_bytes());
    v.extend(micros.to_le_bytes());
    v.extend(ecu);
    let mut htyp = 0x20u8;
    if ext.is_some() {
        htyp |= 1;
    }
    if big_endian {
        htyp |= 2;
    }
    let with_ecu = rng.chance(2);
    let with_sess = rng.chance(4);
    if with_ecu {
        htyp |= 4;
    }
    if with_sess {
        htyp |= 8;
    }
    if ts.is_some() {
        htyp |= 16;
    }
    let mut len = 4 + payload.len();
    if with_ecu {
        len += 4;
    }
    if with_sess {
        len += 4;
    }
    if ts.is_some() {
        len += 4;
    }
    if ext.is_some() {
        len += 10;
    }
    v.push(htyp);
    v.push(rng.next() as u8);
    v.extend((len as u16).to_be_bytes());
    if with_ecu {
        v.extend(ecu);
    }
    if with_sess {
        v.extend(rng.interesting_u32().to_be_bytes());
    }
    if let Some(ts) = ts {
        v.extend(ts.to_be_bytes());
    }
    if let Some((vmm, noar, apid, ctid)) = ext {
        v.push(vmm);
        v.push(noar);
        v.extend(apid);
        v.extend(ctid);
    }
    v.extend(payload);
    v
}

fn u32e(v: u32, be: bool) -> [u8; 4] {
    if be {
        v.to_be_bytes()
    } else {
        v.to_le_bytes()
    }
}
fn u16e(v: u16, be: bool) -> [u8; 2] {
    if be {
        v.to_be_bytes()
    } else {
        v.to_le_bytes()
    }
}

fn arg_str(p: &mut Vec<u8>, be: bool, s: &[u8], utf8: bool, lie: Option<u16>) {
    p.extend(u32e(0x200 | if utf8 { 0x8000 } else { 0 }, be));
    p.extend(u16e(lie.unwrap_or(s.len() as u16 + 1), be));
    p.extend(s);
    p.push(0);
}
fn arg_raw(p: &mut Vec<u8>, be: bool, s: &[u8], lie: Option<u16>) {
    p.extend(u32e(0x400, be));
    p.extend(u16e(lie.unwrap_or(s.len() as u16), be));
    p.extend(s);
}
fn arg_uint(p: &mut Vec<u8>, be: bool, v: u64, tyle: u8, sint: bool) {
    p.extend(u32e(if sint { 0x20 } else { 0x40 } | tyle as u32, be));
    match tyle {
        1 => p.push(v as u8),
        2 => p.extend(u16e(v as u16, be)),
        3 => p.extend(u32e(v as u32, be)),
        4 => p.extend(if be { v.to_be_bytes() } else { v.to_le_bytes() }),
        _ => p.extend(if be { (v as u128).to_be_bytes() } else { (v as u128).to_le_bytes() }),
    }
}

fn interesting_u64(rng: &mut Rng) -> u64 {
    match rng.below(9) {
        0 => 0,
        1 => 1,
        2 => u64::MAX,
        3 => i64::MAX as u64,
        4 => u32::MAX as u64,
        5 => 2,
        6 => rng.below(20) as u64,
        7 => 1 << (rng.below(64)),
        _ => rng.next(),
    }
}

fn gen_dlt_msg(rng: &mut Rng, time: &mut (u32, u32)) -> Vec<u8> {
    let be = rng.chance(3);
    // time progression incl. jumps
    match rng.below(30) {
        0 => time.0 = rng.interesting_u32(),
        1 => time.0 = time.0.wrapping_add(rng.below(100000) as u32),
        2 => time.0 = time.0.wrapping_sub(rng.below(100) as u32),
        _ => {
            time.1 += rng.below(200000) as u32;
            if time.1 >= 1_000_000 && !rng.chance(20) {
                time.1 -= 1_000_000;
                time.0 = time.0.wrapping_add(1);
            }
        }
    }
    let ecus: [&[u8; 4]; 4] = [b"Ecu1", b"ECU2", b"E\0\0\0", b"\xff\xfe\x00\x01"];
    let ecu = *rng.pick(&ecus);
    let ts = if rng.chance(8) {
        None
    } else {
        Some(match rng.below(6) {
            0 => rng.interesting_u32(),
            _ => (time.1 / 100).wrapping_add((time.0 % 1000) * 10000),
        })
    };
    let kind = rng.below(12);
    let mut p = vec![];
    match kind {
        0 => {
            // random verbose args
            let noar = rng.below(6) as u8;
            for _ in 0..noar {
                match rng.below(8) {
                    0 => {
                        let s = rng.rb(20);
                        let lie = if rng.chance(3) { Some(rng.interesting_u16()) } else { None };
                        arg_str(&mut p, be, &s, rng.chance(2), lie)
                    }
                    1 => {
                        let s = rng.rb(20);
                        let lie = if rng.chance(3) { Some(rng.interesting_u16()) } else { None };
                        arg_raw(&mut p, be, &s, lie)
                    }
                    2 => {
                        let v = interesting_u64(rng);
                        arg_uint(&mut p, be, v, 1 + rng.below(5) as u8, rng.chance(2))
                    }
                    3 => {
                        // bool / float with any tyle
                        let ti = *rng.pick(&[0x10u32, 0x80]) | rng.below(8) as u32;
                        p.extend(u32e(ti, be));
                        p.extend(rng.rb(17));
                    }
                    4 => {
                        // random type info
                        p.extend(u32e(rng.next() as u32 & 0x3ffff, be));
                        p.extend(rng.rb(12));
                    }
                    5 => {
                        // scod variants
                        let ti = 0x200u32 | ((rng.below(8) as u32) << 15);
                        p.extend(u32e(ti, be));
                        let s = rng.rb(10);
                        p.extend(u16e(s.len() as u16, be));
                        p.extend(s);
                    }
                    _ => p.extend(rng.rb(9)),
                }
            }
            let vmm = 1 | ((rng.below(8) as u8) << 1) | ((rng.below(16) as u8) << 4);
            let noar = if rng.chance(4) { rng.next() as u8 } else { noar };
            let apids: [&[u8; 4]; 3] = [b"SYS\0", b"APP1", b"\0\0\0\0"];
            let ctids: [&[u8; 4]; 4] = [b"JOUR", b"TC\0\0", b"MMSG", b"MDLT"];
            let (a, c) = (*rng.pick(&apids), *rng.pick(&ctids));
            dlt_msg(rng, time.0, time.1, ecu, be, ts, Some((vmm, noar, a, c)), &p)
        }
        1 | 2 => {
            // control msgs
            let sids = [1u32, 2, 3, 3, 3, 4, 5, 6, 7, 8, 9, 10, 11, 12, 13, 14, 15, 16, 17, 18, 19, 19, 19, 20, 0xf01, 0xf02, 0xf03, 0xf04, 0xf05, 0xf06, 0xf07, 0xf08, 0xf09, 0xf0a, 0xf0b, 0xffff_ffff, 0];
            let sid = *rng.pick(&sids);
            p.extend(u32e(sid, be));
            let well_formed = rng.chance(2);
            if well_formed && sid == 3 {
                let status = 3 + rng.below(6) as u8;
                p.push(status);
                let napp = rng.below(3) as u16;
                p.extend(u16e(if rng.chance(4) { rng.interesting_u16() } else { napp }, be));
                for _ in 0..napp {
                    p.extend(b"APID");
                    let nctx = rng.below(3) as u16;
                    p.extend(u16e(if rng.chance(4) { rng.interesting_u16() } else { nctx }, be));
                    for _ in 0..nctx {
                        p.extend(b"CTID");
                        if status == 4 || status >= 6 {
                            p.push(rng.next() as u8);
                        }
                        if status >= 5 {
                            p.push(rng.next() as u8);
                        }
                        if status == 7 {
                            let d = rng.rb(6);
                            p.extend(u16e(if rng.chance(4) { rng.interesting_u16() } else { d.len() as u16 }, be));
                            p.extend(d);
                        }
                    }
                    if status == 7 {
                        let d = rng.rb(6);
                        p.extend(u16e(if rng.chance(4) { rng.interesting_u16() } else { d.len() as u16 }, be));
                        p.extend(d);
                    }
                }
                if rng.chance(3) {
                    let l = rng.below(p.len());
                    p.truncate(l.max(4));
                }
            } else if well_formed && sid == 19 {
                p.push(rng.below(3) as u8);
                let d = rng.rb(20);
                p.extend(u32e(if rng.chance(3) { rng.interesting_u32() } else { d.len() as u32 }, be));
                p.extend(d);
            } else {
                if rng.chance(8) {
                    p.truncate(rng.below(5));
                }
                p.extend(rng.rb(16));
            }
            let mtin = *rng.pick(&[1u8, 2, 2, 2, 3, 0, 7]);
            let verbose = rng.chance(10) as u8;
            let vmm = verbose | (3 << 1) | (mtin << 4);
            let apids: [&[u8; 4]; 3] = [b"CAN\0", b"DA1\0", b"\0\0\0\0"];
            let ctids: [&[u8; 4]; 3] = [b"TC\0\0", b"DC1\0", b"\0\0\0\0"];
            let (n, a, c) = (rng.below(3) as u8, *rng.pick(&apids), *rng.pick(&ctids));
            dlt_msg(rng, time.0, time.1, ecu, be, ts, Some((vmm, n, a, c)), &p)
        }
        3 | 4 => {
            // file transfer
            let serial = *rng.pick(&[1u64, 2, 3, u64::MAX, 0]);
            let which = rng.below(3);
            let t = *rng.pick(&[3u8, 3, 3, 4, 2, 1]);
            let mut noar;
            match which {
                0 => {
                    arg_str(&mut p, be, b"FLST", false, None);
                    arg_uint(&mut p, be, serial, t, rng.chance(8));
                    arg_str(&mut p, be, b"/tmp/foo.bin", rng.chance(2), None);
                    let v = interesting_u64(rng);
                    arg_uint(&mut p, be, v, t, rng.chance(8));
                    arg_str(&mut p, be, b"date", false, None);
                    let v = interesting_u64(rng);
                    arg_uint(&mut p, be, v, t, rng.chance(8));
                    let v = interesting_u64(rng);
                    arg_uint(&mut p, be, v, *rng.pick(&[2u8, 3, 4]), rng.chance(8));
                    arg_str(&mut p, be, b"FLST", false, None);
                    noar = 8;
                }
                1 => {
                    arg_str(&mut p, be, b"FLDA", false, None);
                    arg_uint(&mut p, be, serial, t, rng.chance(8));
                    let v = interesting_u64(rng);
                    arg_uint(&mut p, be, v, t, rng.chance(2));
                    let d = rng.rb(20);
                    arg_raw(&mut p, be, &d, None);
                    arg_str(&mut p, be, b"FLDA", false, None);
                    noar = 5;
                }
                _ => {
                    arg_str(&mut p, be, b"FLFI", false, None);
                    arg_uint(&mut p, be, serial, t, rng.chance(8));
                    arg_str(&mut p, be, b"FLFI", false, None);
                    noar = 3;
                }
            }
            if rng.chance(10) {
                noar = *rng.pick(&[3u8, 5, 8]);
            }
            let vmm = 1 | (4 << 4);
            dlt_msg(rng, time.0, time.1, ecu, be, ts, Some((vmm, noar, b"SYS\0", b"FILE")), &p)
        }
        5 | 6 => {
            // some/ip
            let mut noar = 2;
            match rng.below(6) {
                0 => {
                    arg_str(&mut p, be, b"NWST", false, None);
                    arg_raw(&mut p, be, &u32e(rng.below(4) as u32, false), None);
                    let l = *rng.pick(&[9usize, 10, 12, 3]);
                    let d = rng.bytes(l);
                    arg_raw(&mut p, be, &d, None);
                    arg_uint(&mut p, be, 0, 3, false);
                    arg_raw(&mut p, be, &u16e(rng.interesting_u16(), false), None);
                    arg_raw(&mut p, be, &u16e(rng.interesting_u16(), false), None);
                    arg_str(&mut p, be, b"NWST", false, None);
                    noar = 7;
                }
                1 => {
                    arg_str(&mut p, be, b"NWCH", false, None);
                    arg_raw(&mut p, be, &u32e(rng.below(4) as u32, false), None);
                    arg_raw(&mut p, be, &u16e(rng.interesting_u16(), false), None);
                    let d = rng.rb(70);
                    arg_raw(&mut p, be, &d, None);
                    arg_str(&mut p, be, b"NWCH", false, None);
                    noar = 5;
                }
                2 => {
                    arg_str(&mut p, be, b"NWEN", false, None);
                    arg_raw(&mut p, be, &u32e(rng.below(4) as u32, false), None);
                    arg_str(&mut p, be, b"NWEN", false, None);
                    noar = 3;
                }
                _ => {
                    let l = *rng.pick(&[9usize, 10, 12, 12, 12, 3]);
                    let d = rng.bytes(l);
                    arg_raw(&mut p, be, &d, None);
                    let mut h = vec![];
                    h.extend(if rng.chance(4) { rng.interesting_u16() } else { 64098u16 }.to_be_bytes());
                    h.extend(if rng.chance(4) { rng.interesting_u16() } else { 1000u16 }.to_be_bytes());
                    let pl = rng.rb(6);
                    h.extend(if rng.chance(3) { rng.interesting_u32() } else { 8 + pl.len() as u32 }.to_be_bytes());
                    h.extend(rng.interesting_u16().to_be_bytes());
                    h.extend(rng.interesting_u16().to_be_bytes());
                    h.push(1);
                    h.push(if rng.chance(6) { rng.next() as u8 } else { 1 });
                    h.push(*rng.pick(&[0u8, 1, 2, 0x80, 0x81, 0x20, 0xff]));
                    h.push(*rng.pick(&[0u8, 1, 0x0a, 0xff]));
                    h.extend(pl);
                    if rng.chance(6) {
                        let l = rng.below(h.len());
                        h.truncate(l);
                    }
                    arg_raw(&mut p, be, &h, None);
                }
            }
            let vmm = 1 | (2 << 1) | (1 << 4);
            dlt_msg(rng, time.0, time.1, ecu, be, ts, Some((vmm, noar, b"SOME", b"TC\0\0")), &p)
        }
        7 => {
            // muniic
            for i in 0..13 {
                match i {
                    7 => arg_uint(&mut p, be, if rng.chance(4) { rng.next() } else { 1228779599 }, 3, false),
                    8 => arg_uint(&mut p, be, if rng.chance(4) { rng.next() } else { 3478824001 }, 3, false),
                    12 => {
                        let d = rng.rb(5);
                        arg_raw(&mut p, be, &d, None)
                    }
                    _ => arg_uint(&mut p, be, rng.next(), 1 + rng.below(4) as u8, false),
                }
            }
            let vmm = 1 | (4 << 4);
            dlt_msg(rng, time.0, time.1, ecu, be, ts, Some((vmm, 13, b"MUNI", b"MMSG")), &p)
        }
        8 => {
            let s = format!("Version: {}.{}, git: {}, model hash: {}", rng.below(10), rng.below(10), "abc", *rng.pick(&[2944352002u64, 1, u64::MAX]));
            arg_str(&mut p, be, s.as_bytes(), true, None);
            let vmm = 1 | (4 << 4);
            dlt_msg(rng, time.0, time.1, ecu, be, ts, Some((vmm, 1, b"MUNI", b"MDLT")), &p)
        }
        9 | 10 => {
            // non verbose
            let id = *rng.pick(&[805834673u32, 805312382, 805834673, 1, 0]);
            p.extend(u32e(id, be));
            p.extend(rng.rb(14));
            if rng.chance(2) {
                dlt_msg(rng, time.0, time.1, b"Ecu1", be, ts, None, &p)
            } else {
                let vmm = ((rng.below(8) as u8) << 1) | ((rng.below(16) as u8) << 4);
                let n = rng.below(3) as u8;
                dlt_msg(rng, time.0, time.1, b"Ecu1", be, ts, Some((vmm, n, b"HLD\0", b"ERR\0")), &p)
            }
        }
        _ => {
            // rewrite SYS JOUR
            let s = format!("2024 foo {}.{} text", rng.interesting_u32(), rng.interesting_u32());
            arg_str(&mut p, be, s.as_bytes(), true, None);
            let vmm = 1 | (4 << 4);
            dlt_msg(rng, time.0, time.1, ecu, be, ts, Some((vmm, 1, b"SYS\0", b"JOUR")), &p)
        }
    }
}

fn report() {
    let p = PANICS.lock().unwrap_or_else(|e| e.into_inner());
    if std::env::var("FUZZ_COVER").is_ok() {
        for (k, n) in COVER.lock().unwrap().iter() {
            println!("cover {:?} x{}", k, n);
        }
    }
    println!("=== {} distinct panic locations", p.len());
    for (loc, (n, msg)) in p.iter() {
        println!("{} x{}: {}", loc, n, msg);
    }
}

fn iterations() -> usize {
    std::env::var("FUZZ_ITER").ok().and_then(|s| s.parse().ok()).unwrap_or(300)
}

#[test]
fn fuzz_dlt_synthetic() {
    install_hook();
    let seed: u64 = std::env::var("FUZZ_SEED").ok().and_then(|s| s.parse().ok()).unwrap_or(0x1234_5678_9abc_def1);
    let mut rng = Rng(seed);
    for _it in 0..iterations() {
        let mut time = (1_700_000_000u32, 0u32);
        if rng.chance(5) {
            time.0 = rng.interesting_u32();
        }
        let mut data = vec![];
        let n = 1 + rng.below(200);
        for _ in 0..n {
            let mut m = gen_dlt_msg(&mut rng, &mut time);
            if rng.chance(15) {
                mutate(&mut rng, &mut m);
            }
            if rng.chance(30) {
                // serial header instead
                if m.len() >= 16 {
                    m.splice(0..16, *b"DLS\x01");
                }
            }
            data.extend(m);
        }
        if rng.chance(4) {
            mutate(&mut rng, &mut data);
        }
        process("dlt", &data, true);
    }
    report();
}

#[test]
fn fuzz_dlt_examples() {
    install_hook();
    let mut rng = Rng(0xdead_beef_1234_5678);
    let td = test_dir();
    let seeds: Vec<Vec<u8>> = ["lc_ex002.dlt", "lc_ex003.dlt", "lc_ex004.dlt", "lc_ex005.dlt", "lc_ex006.dlt", "ex_1970_1_1.dlt"]
        .iter()
        .map(|f| std::fs::read(format!("{}/{}", td, f)).unwrap())
        .collect();
    for _it in 0..iterations() {
        let s = rng.pick(&seeds);
        let start = rng.below(s.len());
        let l = rng.below(40_000);
        let mut data = s[start..(start + l).min(s.len())].to_vec();
        for _ in 0..rng.below(6) {
            mutate(&mut rng, &mut data);
        }
        process("dlt", &data, true);
    }
    report();
}

fn gen_num(rng: &mut Rng) -> String {
    match rng.below(10) {
        0 => "".to_string(),
        1 => "0".to_string(),
        2 => "99999999999999999999999999".to_string(),
        3 => "18446744073709551615".to_string(),
        4 => "4294967295".to_string(),
        5 => "-1".to_string(),
        6 => "\u{663}".to_string(),
        7 => format!("{}", rng.next()),
        8 => format!("{:x}", rng.next() as u32),
        _ => format!("{}", rng.below(70000)),
    }
}

fn gen_ws(rng: &mut Rng) -> &'static str {
    *rng.pick(&[" ", " ", " ", " ", "  ", "\t", "\u{a0}", "\u{2003}", ""])
}

fn gen_text(rng: &mut Rng) -> String {
    let n = rng.below(12);
    let mut s = String::new();
    for _ in 0..n {
        s.push(*rng.pick(&['a', 'Z', '_', ' ', ':', '0', 'é', '€', '\u{1F600}', ']', '[', '=', '.', '-', 'x']));
    }
    s
}

#[test]
fn fuzz_asc() {
    install_hook();
    let mut rng = Rng(0x1111_2222_3333_4444);
    let td = test_dir();
    let seeds: Vec<Vec<u8>> = ["can_example1.asc", "can_example1b.asc", "can_example1c.asc", "can_example2a.asc", "can_example2b.asc", "can_example3.asc"]
        .iter()
        .map(|f| std::fs::read(format!("{}/{}", td, f)).unwrap())
        .collect();
    for it in 0..iterations() {
        let mut data = vec![];
        if it % 2 == 0 {
            data = rng.pick(&seeds).clone();
            for _ in 0..1 + rng.below(6) {
                mutate(&mut rng, &mut data);
            }
        } else {
            for _ in 0..1 + rng.below(30) {
                let line = match rng.below(8) {
                    0 => format!("date {} {} {} {}:{}:{}{} {} {}", rng.pick(&["Mon", "Wed", "Tue", "Xxx", ""]), rng.pick(&["Jan", "Dec", "Feb", "Foo"]), gen_num(&mut rng), gen_num(&mut rng), gen_num(&mut rng), gen_num(&mut rng), rng.pick(&["", ".123", ".9999999999"]), rng.pick(&["AM", "PM", "am", ""]), rng.pick(&["2022", "1969", "0000", "99999", "-1", "1970", "262142", "-262143"])),
                    1 => format!("date Wed Dec 31 11:59:{:02} PM {}", rng.below(60), rng.pick(&["1969", "2022", "1900", "9999"])),
                    2 => format!("// BusMapping: CAN{}{}{}={}", gen_ws(&mut rng), gen_num(&mut rng), gen_ws(&mut rng), gen_text(&mut rng)),
                    3 => format!("//{}", gen_text(&mut rng)),
                    4 => format!("{}{}.{:06}{}CANFD{}{}{}{}{}{}{}{} {} {} {}{}{}", gen_ws(&mut rng), rng.pick(&["", "-"]), gen_num(&mut rng), rng.below(1000000), gen_ws(&mut rng), gen_num(&mut rng), gen_ws(&mut rng), rng.pick(&["Rx", "Tx"]), gen_ws(&mut rng), rng.pick(&["36f", "36fx", "ffffffffx", "x", "123456789"]), gen_ws(&mut rng), gen_num(&mut rng), gen_num(&mut rng), gen_num(&mut rng), gen_num(&mut rng), gen_ws(&mut rng), gen_text(&mut rng)),
                    5 => format!("{}{}.{:06} CANFD {} {} ErrorFrame {}", rng.pick(&["", "-"]), gen_num(&mut rng), rng.below(1000000), gen_num(&mut rng), rng.pick(&["Rx", "Tx"]), gen_text(&mut rng)),
                    _ => {
                        let n = rng.below(10);
                        let mut d = String::new();
                        for _ in 0..n {
                            d.push_str(*rng.pick(&[" 00", " ff", " a", " zz", " é1", " 1é", "  0", " 12"]));
                        }
                        format!("{}{}{}.{:06}{}{}{}{}{}{}{}d{}{}{}{}", gen_ws(&mut rng), rng.pick(&["", "-"]), gen_num(&mut rng), rng.below(1000000), gen_ws(&mut rng), gen_num(&mut rng), gen_ws(&mut rng), rng.pick(&["36f", "36fx", "ffffffffx", "x", "123456789"]), gen_ws(&mut rng), rng.pick(&["Rx", "Tx"]), gen_ws(&mut rng), gen_ws(&mut rng), if rng.chance(2) { format!("{}", n) } else { gen_num(&mut rng) }, d, gen_text(&mut rng))
                    }
                };
                data.extend(line.as_bytes());
                data.push(b'\n');
            }
        }
        process("asc", &data, true);
    }
    report();
}

#[test]
fn fuzz_logcat() {
    install_hook();
    let mut rng = Rng(0x5555_6666_7777_8888);
    let td = test_dir();
    let seeds: Vec<Vec<u8>> = ["logcat_example2.txt", "logcat_example3.txt", "logcat_example4.txt"]
        .iter()
        .map(|f| std::fs::read(format!("{}/{}", td, f)).unwrap())
        .collect();
    for it in 0..iterations() {
        let mut data = vec![];
        if it % 2 == 0 {
            data = rng.pick(&seeds).clone();
            for _ in 0..1 + rng.below(6) {
                mutate(&mut rng, &mut data);
            }
        } else {
            for _ in 0..1 + rng.below(30) {
                let line = match rng.below(3) {
                    0 => format!("{}{}.{}{}{}{}{} {} {}{}: {}", gen_ws(&mut rng), gen_num(&mut rng), gen_num(&mut rng), gen_ws(&mut rng), gen_num(&mut rng), gen_ws(&mut rng), gen_num(&mut rng), rng.pick(&["I", "W", "E", "V", "F", "S", "D", "x", "é"]), gen_text(&mut rng), gen_ws(&mut rng), gen_text(&mut rng)),
                    1 => format!("{:02}-{:02} {:02}:{:02}:{:02}.{}{}{}{}{} {} {}{}: {}", rng.below(14), rng.below(33), rng.below(26), rng.below(62), rng.below(62), rng.pick(&["000", "999", "1", "123456789", "\u{663}\u{663}\u{663}"]), gen_ws(&mut rng), gen_num(&mut rng), gen_ws(&mut rng), gen_num(&mut rng), rng.pick(&["I", "W", "E", "V", "F", "S", "D", "x"]), gen_text(&mut rng), gen_ws(&mut rng), gen_text(&mut rng)),
                    _ => gen_text(&mut rng),
                };
                data.extend(line.as_bytes());
                data.push(b'\n');
            }
        }
        process("txt", &data, true);
    }
    report();
}

#[test]
fn fuzz_genlog() {
    install_hook();
    let mut rng = Rng(0x9999_aaaa_bbbb_cccc);
    let td = test_dir();
    let seed = std::fs::read(format!("{}/genlog_example1.log", td)).unwrap();
    for it in 0..iterations() {
        let mut data = vec![];
        if it % 2 == 0 {
            data = seed.clone();
            for _ in 0..1 + rng.below(6) {
                mutate(&mut rng, &mut data);
            }
        } else {
            for _ in 0..1 + rng.below(30) {
                let line = format!(
                    "[2{:03}-{:02}-{:02} {:02}:{:02}:{:02}.{:03}] [{}] [{}] {}",
                    rng.below(1000), rng.below(100), rng.below(100), rng.below(100), rng.below(100), rng.below(100), rng.below(1000),
                    rng.pick(&["INF", "WRN", "ERR", "VER", "FAT", "SEV", "xxx", "éé", "€"]),
                    gen_text(&mut rng), gen_text(&mut rng)
                );
                data.extend(line.as_bytes());
                data.push(b'\n');
            }
        }
        process("log", &data, true);
    }
    report();
}
