#!/bin/bash
# runs each test of tests/audit_demo.rs in its own process (a panic poisons global locks)
cd /tmp/wt_audit_C12
export CARGO_TARGET_DIR=/tmp/wt_audit_C12/target RUST_BACKTRACE=0
FILTER=${1:-.}
timeout 1200 cargo test --offline --test audit_demo --no-run 2>&1 | grep -E "^error|Executable" 
for t in $(timeout 600 cargo test --offline --test audit_demo -- --list 2>/dev/null | grep ': test' | cut -d: -f1 | grep -E "$FILTER"); do
  echo "== $t"
  timeout 600 cargo test --offline --test audit_demo -- --exact $t 2>&1 | grep -E -A2 "panicked at|test result|overflowed its stack|SIG|memory allocation" | grep -v "^note\|^--\|^$" | cut -c1-300
done
