// audit C12: no input content can crash ingestion and analysis
//
// every test demonstrates a crash (panic, abort or a huge allocation) on the unchanged code.
// Run each test in an own process (a panic poisons global locks of the library and lets unrelated
// tests fail): see audit/run_each.sh
use adlt::utils::{get_dlt_message_iterator, get_new_namespace};
use std::io::{BufReader, Cursor};
use std::sync::atomic::{AtomicUsize, Ordering};

// allocator that records the largest single request and the bytes currently reserved
struct TrackingAlloc;
static MAX_SINGLE: AtomicUsize = AtomicUsize::new(0);
static LIVE: AtomicUsize = AtomicUsize::new(0);
static MAX_LIVE: AtomicUsize = AtomicUsize::new(0);
unsafe impl std::alloc::GlobalAlloc for TrackingAlloc {
    unsafe fn alloc(&self, l: std::alloc::Layout) -> *mut u8 {
        MAX_SINGLE.fetch_max(l.size(), Ordering::Relaxed);
        let live = LIVE.fetch_add(l.size(), Ordering::Relaxed) + l.size();
        MAX_LIVE.fetch_max(live, Ordering::Relaxed);
        std::alloc::System.alloc(l)
    }
    unsafe fn alloc_zeroed(&self, l: std::alloc::Layout) -> *mut u8 {
        MAX_SINGLE.fetch_max(l.size(), Ordering::Relaxed);
        let live = LIVE.fetch_add(l.size(), Ordering::Relaxed) + l.size();
        MAX_LIVE.fetch_max(live, Ordering::Relaxed);
        std::alloc::System.alloc_zeroed(l)
    }
    unsafe fn dealloc(&self, p: *mut u8, l: std::alloc::Layout) {
        LIVE.fetch_sub(l.size(), Ordering::Relaxed);
        std::alloc::System.dealloc(p, l)
    }
    unsafe fn realloc(&self, p: *mut u8, l: std::alloc::Layout, new_size: usize) -> *mut u8 {
        MAX_SINGLE.fetch_max(new_size, Ordering::Relaxed);
        if new_size >= l.size() {
            let live = LIVE.fetch_add(new_size - l.size(), Ordering::Relaxed) + new_size - l.size();
            MAX_LIVE.fetch_max(live, Ordering::Relaxed);
        } else {
            LIVE.fetch_sub(l.size() - new_size, Ordering::Relaxed);
        }
        std::alloc::System.realloc(p, l, new_size)
    }
}
#[global_allocator]
static GLOBAL: TrackingAlloc = TrackingAlloc;

fn read_all(ext: &str, data: &[u8]) -> usize {
    let ns = get_new_namespace();
    let it = get_dlt_message_iterator(
        ext,
        0,
        BufReader::new(Cursor::new(data.to_vec())),
        ns,
        None,
        None,
        None,
    );
    let mut n = 0;
    for m in it {
        let _ = m.payload_as_text();
        n += 1;
    }
    n
}

// --- asc ---------------------------------------------------------------

#[test]
fn asc_huge_seconds() {
    // 13 digit seconds: i64 seconds * 1_000_000 overflows
    read_all("asc", b"9999999999999.000000 1 36f Rx d 1 00 \n");
}

#[test]
fn asc_non_ascii_in_data() {
    read_all("asc", "0.985210 1 36f Rx d 1 a\u{e9} x\n".as_bytes());
}

#[test]
fn asc_data_len_65510() {
    let n = 65510usize;
    let mut line = format!("0.985210 1 36f Rx d {}", n);
    for _ in 0..n {
        line.push_str(" 00");
    }
    line.push_str(" \n");
    read_all("asc", line.as_bytes());
}

#[test]
fn asc_busmapping_long_name() {
    let line = format!("// BusMapping: CAN 1 = {}\n", "n".repeat(65499));
    read_all("asc", line.as_bytes());
}

// --- genlog ------------------------------------------------------------

#[test]
fn genlog_long_tag() {
    let line = format!(
        "[2024-01-01 10:00:00.000] [INF] [{}] msg\n",
        "t".repeat(65499)
    );
    read_all("log", line.as_bytes());
}

#[test]
fn genlog_non_ascii_short_tags() {
    let text = "[2024-01-01 10:00:00.000] [INF] [\u{e9}] msg\n[2024-01-01 10:00:00.001] [INF] [ab\u{e9}] msg\n";
    read_all("log", text.as_bytes());
}

// --- logcat ------------------------------------------------------------

#[test]
fn logcat_monotonic_nbsp_after_timestamp() {
    read_all("txt", "1.000\u{a0}1 2 I tag: msg\n".as_bytes());
}

#[test]
fn logcat_threadtime_nbsp_after_timestamp() {
    read_all("txt", "06-13 12:00:00.000\u{a0}1 2 I tag: msg\n".as_bytes());
}

#[test]
fn logcat_long_tag() {
    let line = format!("1.000 1 2 I {}: msg\n", "t".repeat(65499));
    read_all("txt", line.as_bytes());
}

// --- asc date before 1970 -> lifecycle detection -------------------------

fn lifecycles_of(ext: &str, data: &[u8]) -> usize {
    let ns = get_new_namespace();
    let it = get_dlt_message_iterator(
        ext,
        0,
        BufReader::new(Cursor::new(data.to_vec())),
        ns,
        None,
        None,
        None,
    );
    let (tx, rx) = std::sync::mpsc::channel();
    let (tx2, rx2) = std::sync::mpsc::channel();
    for m in it {
        tx.send(m).unwrap();
    }
    drop(tx);
    let (lcs_r, lcs_w) =
        evmap::new::<adlt::lifecycle::LifecycleId, adlt::lifecycle::LifecycleItem>();
    let _lcs_w =
        adlt::lifecycle::parse_lifecycles_buffered_from_stream(lcs_w, rx, &|m| tx2.send(m));
    drop(tx2);
    let n = rx2.iter().count();
    let _ = lcs_r;
    n
}

#[test]
fn asc_date_before_1970_lifecycle() {
    let text = "date Wed Dec 31 11:59:59 PM 1969\n0.500000 1 36f Rx d 1 00 \n0.600000 1 36f Rx d 1 00 \n";
    assert_eq!(lifecycles_of("asc", text.as_bytes()), 2);
}

// --- blf -----------------------------------------------------------------

fn blf_example() -> Vec<u8> {
    std::fs::read(concat!(env!("CARGO_MANIFEST_DIR"), "/tests/can_example1.blf")).unwrap()
}

#[test]
fn blf_measurement_start_before_1970() {
    let mut d = blf_example();
    // SYSTEMTIME at offset 40: year, month, dow, day, hour, minute, second, ms
    let st: [u16; 8] = [1969, 12, 3, 31, 23, 59, 59, 0];
    for (i, v) in st.iter().enumerate() {
        d[40 + 2 * i..42 + 2 * i].copy_from_slice(&v.to_le_bytes());
    }
    read_all("blf", &d);
}

#[test]
fn blf_unknown_compression_method() {
    let mut d = blf_example();
    d[0xa0] = 1;
    read_all("blf", &d);
}

#[test]
fn blf_corrupt_zlib_data() {
    let mut d = blf_example();
    d[0xa0] = 2;
    read_all("blf", &d);
}

#[test]
fn blf_object_size_too_small() {
    let mut d = blf_example();
    d[0x98..0x9c].copy_from_slice(&8u32.to_le_bytes());
    read_all("blf", &d);
}

#[test]
fn blf_garbage_after_header_recursion() {
    let mut d = blf_example();
    d.truncate(0x90);
    d.extend(std::iter::repeat(0x55u8).take(4 * 1024 * 1024));
    read_all("blf", &d);
}

// --- blf: adlt side of the conversion -------------------------------------

fn blf_apptext_obj(source: u32, text: &[u8]) -> Vec<u8> {
    let object_size = 16 + 16 + 16 + text.len() as u32;
    let mut o = vec![];
    o.extend(b"LOBJ");
    o.extend(32u16.to_le_bytes());
    o.extend(1u16.to_le_bytes());
    o.extend(object_size.to_le_bytes());
    o.extend(65u32.to_le_bytes());
    o.extend(2u32.to_le_bytes()); // flags
    o.extend(0u16.to_le_bytes());
    o.extend(0u16.to_le_bytes());
    o.extend(1_000_000u64.to_le_bytes()); // timestamp ns
    o.extend(source.to_le_bytes());
    o.extend(0u32.to_le_bytes());
    o.extend((text.len() as u32).to_le_bytes());
    o.extend(0u32.to_le_bytes());
    o.extend(text);
    let pad = (object_size - 16) % 4;
    o.extend(std::iter::repeat(0u8).take(pad as usize));
    o
}

/// a blf file with the header of the example file and one log container with the given content
fn blf_with(compression: u16, uncompressed_size: u32, content: &[u8]) -> Vec<u8> {
    let mut d = blf_example();
    d.truncate(0x90);
    d.extend(b"LOBJ");
    d.extend(16u16.to_le_bytes());
    d.extend(1u16.to_le_bytes());
    d.extend((32 + content.len() as u32).to_le_bytes());
    d.extend(10u32.to_le_bytes());
    d.extend(compression.to_le_bytes());
    d.extend([0u8; 6]);
    d.extend(uncompressed_size.to_le_bytes());
    d.extend(0u32.to_le_bytes());
    d.extend(content);
    d.extend(std::iter::repeat(0u8).take(content.len() % 4));
    d
}

#[test]
fn blf_apptext_70000_bytes() {
    let o = blf_apptext_obj(0, &vec![b'a'; 70000]);
    read_all("blf", &blf_with(0, o.len() as u32, &o));
}

#[test]
fn blf_apptext_65510_bytes() {
    let o = blf_apptext_obj(0, &vec![b'a'; 65510]);
    read_all("blf", &blf_with(0, o.len() as u32, &o));
}

// --- allocations unrelated to the input size -------------------------------

#[test]
fn blf_container_size_lie_allocation() {
    // the log container claims ~4 GiB of content in a 200 byte file
    let mut d = blf_example();
    d[0x98..0x9c].copy_from_slice(&0xffff_ff00u32.to_le_bytes());
    MAX_SINGLE.store(0, Ordering::Relaxed);
    read_all("blf", &d);
    let max = MAX_SINGLE.load(Ordering::Relaxed);
    assert!(max < 64 * 1024 * 1024, "single allocation of {} bytes for a {} byte file", max, d.len());
}

#[test]
fn blf_uncompressed_size_lie_allocation() {
    // zlib "stored" block with 4 bytes, announced uncompressed size 0xf0000000
    let data = [1u8, 2, 3, 4];
    let (mut a, mut b) = (1u32, 0u32);
    for x in data {
        a = (a + x as u32) % 65521;
        b = (b + a) % 65521;
    }
    let mut z = vec![0x78u8, 0x01, 0x01, 4, 0, 0xfb, 0xff];
    z.extend(data);
    z.extend(((b << 16) | a).to_be_bytes());
    let d = blf_with(2, 0xf000_0000, &z);
    MAX_SINGLE.store(0, Ordering::Relaxed);
    read_all("blf", &d);
    let max = MAX_SINGLE.load(Ordering::Relaxed);
    assert!(max < 64 * 1024 * 1024, "single allocation of {} bytes for a {} byte file", max, d.len());
}

fn dlt_verbose_msg(noar: u8, vmm: u8, apid: &[u8; 4], ctid: &[u8; 4], payload: &[u8]) -> Vec<u8> {
    let mut v = vec![];
    v.extend(b"DLT\x01");
    v.extend(1_700_000_000u32.to_le_bytes());
    v.extend(0u32.to_le_bytes());
    v.extend(b"ECU1");
    v.push(0x21); // version 1, ext header, little endian
    v.push(0);
    v.extend(((4 + 10 + payload.len()) as u16).to_be_bytes());
    v.push(vmm);
    v.push(noar);
    v.extend(apid);
    v.extend(ctid);
    v.extend(payload);
    v
}

fn arg_raw(p: &mut Vec<u8>, d: &[u8]) {
    p.extend(0x400u32.to_le_bytes());
    p.extend((d.len() as u16).to_le_bytes());
    p.extend(d);
}
fn arg_str(p: &mut Vec<u8>, d: &[u8]) {
    p.extend(0x200u32.to_le_bytes());
    p.extend((d.len() as u16 + 1).to_le_bytes());
    p.extend(d);
    p.push(0);
}

#[test]
fn someip_nwst_reservations() {
    // each (76 byte) NWST message of a segmented SOME/IP transfer that never continues keeps ~1 MB reserved
    let n: u32 = std::env::var("NWST_N").ok().and_then(|s| s.parse().ok()).unwrap_or(3000);
    let mut file = vec![];
    for id in 0..n {
        let mut p = vec![];
        arg_str(&mut p, b"NWST");
        arg_raw(&mut p, &id.to_le_bytes());
        arg_raw(&mut p, &[0u8; 12]);
        p.extend(0x43u32.to_le_bytes());
        p.extend(0u32.to_le_bytes());
        arg_raw(&mut p, &999u16.to_le_bytes()); // nr of chunks
        arg_raw(&mut p, &1000u16.to_le_bytes()); // chunk size
        arg_str(&mut p, b"NWST");
        file.extend(dlt_verbose_msg(7, 1 | (2 << 1) | (1 << 4), b"SOME", b"TC\0\0", &p));
    }
    let mut eac = adlt::utils::eac_stats::EacStats::new();
    let cfg = serde_json::json!({"name":"SomeIp","fibexDir":concat!(env!("CARGO_MANIFEST_DIR"), "/tests")});
    let mut plugin = adlt::plugins::factory::get_plugin(cfg.as_object().unwrap(), &mut eac).unwrap();
    let it = get_dlt_message_iterator("dlt", 0, BufReader::with_capacity(file.len() + 1, Cursor::new(file.clone())), 0, None, None, None);
    let live_before = LIVE.load(Ordering::Relaxed);
    let mut nr = 0;
    for mut m in it {
        plugin.process_msg(&mut m);
        assert!(m.payload_text.as_deref().unwrap_or_default().starts_with("SOME/IP segmented message NWST"), "{:?}", m.payload_text);
        nr += 1;
    }
    assert_eq!(nr, n);
    let reserved = LIVE.load(Ordering::Relaxed).saturating_sub(live_before);
    assert!(reserved < 100 * file.len(), "{} bytes reserved for a file of {} bytes", reserved, file.len());
}

#[test]
fn asc_second_date_and_large_timestamp() {
    // two recordings spliced. As the adlt binary does the reception time of the first message is passed as reference time
    let text = "date Tue Apr 12 08:55:37 AM 2022\n0.000100 1 36f Rx d 1 00 \ndate Wed Apr 13 08:55:37 AM 2022\n400000.000000 1 36f Rx d 1 00 \n";
    let first = get_dlt_message_iterator("asc", 0, BufReader::new(Cursor::new(text.as_bytes().to_vec())), 0, None, None, None)
        .next()
        .unwrap();
    let it = get_dlt_message_iterator(
        "asc",
        0,
        BufReader::new(Cursor::new(text.as_bytes().to_vec())),
        0,
        Some(first.reception_time_us),
        None,
        None,
    );
    assert_eq!(it.count(), 2);
}

#[test]
fn genlog_tags_exhausting_the_apid_abbreviations() {
    // 10000 tags that occupy "abcd", "abc1".."abc9", "ab10".."ab99", "a100".."a999", "1000".."9999"
    // and then a tag that abbreviates to "abcd"
    let mut tags: Vec<String> = vec!["abcd".to_string()];
    tags.extend((1..10).map(|i| format!("abc{}", i)));
    tags.extend((10..100).map(|i| format!("ab{}", i)));
    tags.extend((100..1000).map(|i| format!("a{}", i)));
    tags.extend((1000..10000).map(|i| format!("{}", i)));
    tags.push("abcde".to_string());
    let mut text = String::new();
    for t in &tags {
        text.push_str(&format!("[2024-01-01 10:00:00.000] [INF] [{}] msg\n", t));
    }
    assert_eq!(read_all("log", text.as_bytes()), 2 * tags.len());
}

