// Audit of property C10: "Time sorting is a permutation, and ordered under bounded delay"
// (adlt::utils::buffer_sort_messages).
//
// Every test drives the unchanged public function with an input inside the stated range, runs it
// in its own thread (so that a panic inside is observable as "messages lost") and then checks
//  (a) the output is a permutation of the input and
//  (b) the output is ordered by calculated time, ties in input order.
// All streams used here satisfy the premise of the ordering clause (reception times never decrease,
// reception time - calculated time <= min_buffer_delay_us for every message).
//
// The tests fail in debug builds (arithmetic overflow panic -> all messages lost) and in release
// builds (wrapping arithmetic -> wrong order), i.e. run both
//   cargo test --offline --test audit_demo
//   cargo test --offline --release --test audit_demo

use adlt::dlt::{DltChar4, DltExtendedHeader, DltMessage, DltStandardHeader};
use adlt::lifecycle::{Lifecycle, LifecycleId, LifecycleItem};
use adlt::utils::{buffer_sort_messages, US_PER_SEC};
use std::sync::mpsc::channel;

fn msg(
    index: u32,
    ecu: &[u8; 4],
    reception_time_us: u64,
    timestamp_dms: u32,
    lifecycle: LifecycleId,
    ctrl_request: bool,
) -> DltMessage {
    DltMessage {
        index,
        reception_time_us,
        ecu: DltChar4::from_buf(ecu),
        timestamp_dms,
        standard_header: DltStandardHeader {
            htyp: 0x10, // with timestamp
            len: 0,
            mcnt: 0,
        },
        extended_header: if ctrl_request {
            Some(DltExtendedHeader {
                verb_mstp_mtin: (0x3 << 1) | (0x1 << 4), // TYPE_CONTROL, MTIN request
                noar: 0,
                apid: DltChar4::from_buf(b"APID"),
                ctid: DltChar4::from_buf(b"CTID"),
            })
        } else {
            None
        },
        payload: vec![],
        payload_text: None,
        lifecycle,
    }
}

/// calculated time as the property defines it (in unbounded arithmetic):
/// lifecycle start plus timestamp, capped at reception time; reception time for control requests
fn spec_calc_time(m: &DltMessage, table: &[(LifecycleId, u64)]) -> u64 {
    if m.is_ctrl_request() {
        return m.reception_time_us;
    }
    let start = table
        .iter()
        .find(|(id, _)| *id == m.lifecycle)
        .map(|(_, s)| *s)
        .unwrap_or(0);
    let t = start as u128 + m.timestamp_us() as u128;
    std::cmp::min(t, m.reception_time_us as u128) as u64
}

/// run the sort and check both clauses of the property. Returns Err(description) on a violation
fn run_and_check(
    input: Vec<DltMessage>,
    lcs: Vec<Lifecycle>,
    windows_size_secs: u8,
    min_buffer_delay_us: u64,
) -> Result<(), String> {
    let table: Vec<(LifecycleId, u64)> = lcs.iter().map(|l| (l.id(), l.start_time)).collect();

    // check the premise of the ordering clause for the input (so the test cannot cheat):
    let mut last_reception = 0u64;
    for m in &input {
        assert!(m.reception_time_us >= last_reception, "premise: reception times never decrease");
        last_reception = m.reception_time_us;
        let calc = spec_calc_time(m, &table);
        assert!(
            m.reception_time_us - calc <= min_buffer_delay_us,
            "premise: calculated time not more than min delay before reception time"
        );
    }
    assert!(windows_size_secs >= 1);

    let (lcs_r, mut lcs_w) = evmap::new::<LifecycleId, LifecycleItem>();
    for lc in lcs {
        lcs_w.insert(lc.id(), lc);
    }
    lcs_w.refresh();

    let (tx, sort_in) = channel();
    for m in input.iter() {
        tx.send(m.clone()).unwrap();
    }
    drop(tx);
    let (sort_out, rx) = channel();

    let t = std::thread::spawn(move || {
        buffer_sort_messages(
            sort_in,
            &|m| sort_out.send(m),
            &lcs_r,
            windows_size_secs,
            min_buffer_delay_us,
        )
    });
    let joined = t.join();
    let output: Vec<DltMessage> = rx.try_iter().collect();
    drop(lcs_w);

    if joined.is_err() {
        return Err(format!(
            "buffer_sort_messages panicked, {} of {} messages were lost",
            input.len() - output.len(),
            input.len()
        ));
    }
    // (a) permutation (indices are unique in all inputs used here)
    if output.len() != input.len() {
        return Err(format!("not a permutation: {} in, {} out", input.len(), output.len()));
    }
    for m in &input {
        if output.iter().filter(|o| *o == m).count() != 1 {
            return Err(format!("not a permutation: msg #{} not exactly once in output", m.index));
        }
    }
    // (b) ordered by (calculated time, input position)
    let pos = |m: &DltMessage| input.iter().position(|i| i == m).unwrap();
    for w in output.windows(2) {
        let (a, b) = (&w[0], &w[1]);
        let (ka, kb) = (
            (spec_calc_time(a, &table), pos(a)),
            (spec_calc_time(b, &table), pos(b)),
        );
        if ka > kb {
            return Err(format!(
                "wrong order: msg #{} (calc time {}) is output before msg #{} (calc time {})",
                a.index, ka.0, b.index, kb.0
            ));
        }
    }
    Ok(())
}

const T0: u64 = 1_640_995_200_000_000; // 1.1.2022

/// Finding 1: a huge min_buffer_delay_us (e.g. u64::MAX = "buffer everything, sort the whole stream")
/// overflows `min_buffer_delay_us + x` / `calculated_time_us + max_buffer_time_us`.
/// debug: panic (all messages lost). release: wraps, nothing is buffered, output == input order
#[test]
fn finding1_huge_min_buffer_delay() {
    // one ECU, no lifecycle known (start 0 -> calc time = timestamp), window 1s
    // #0 received at T0 with timestamp 2s, #1 received later with timestamp 1s: #1 has to come first
    let input = vec![
        msg(0, b"ECU1", T0, 20_000, 0, false),
        msg(1, b"ECU1", T0 + 1, 10_000, 0, false),
    ];
    let r = run_and_check(input, vec![], 1, u64::MAX);
    assert!(r.is_ok(), "{}", r.unwrap_err());
}

/// Finding 1b: same defect, window 3s as used by the binary: `min_buffer_delay_us + 1000s` overflows
/// for every min_buffer_delay_us > u64::MAX - 1e9
#[test]
fn finding1b_huge_min_buffer_delay_window3() {
    let input = vec![
        msg(0, b"ECU1", T0, 20_000, 0, false),
        msg(1, b"ECU1", T0 + 1, 10_000, 0, false),
    ];
    let r = run_and_check(input, vec![], 3, u64::MAX - 999 * US_PER_SEC);
    assert!(r.is_ok(), "{}", r.unwrap_err());
}

/// Finding 2: lifecycle table with a merged lifecycle. Lifecycle::merge marks the merged one with
/// start_time = u64::MAX; `lc.start_time + m.timestamp_us()` overflows for a msg that still refers to it.
/// debug: panic (all messages lost). release: wraps to timestamp-1us, the msg is sorted before all others
/// although its calculated time (capped at the reception time) is the latest.
#[test]
fn finding2_merged_lifecycle_in_table() {
    let mut m_a = msg(0, b"ECU1", T0, 10_000, 0, false);
    let mut lc_a = Lifecycle::new(&mut m_a);
    let mut m_b = msg(1, b"ECU1", T0 + 1_000, 10_010, 0, false);
    let mut lc_b = Lifecycle::new(&mut m_b);
    lc_a.merge(&mut lc_b); // lc_b.start_time == u64::MAX now
    assert_eq!(lc_b.start_time, u64::MAX);
    // m_a: calc = T0 (delay 0). m_b still refers to lc_b: calc = min(u64::MAX + 1.001s, T0+1ms) = T0+1ms (delay 0)
    let input = vec![m_a, m_b];
    let r = run_and_check(input, vec![lc_a, lc_b], 3, 20 * US_PER_SEC);
    assert!(r.is_ok(), "{}", r.unwrap_err());
}

/// Finding 3: reception times close to u64::MAX: `calculated_time_us + max_buffer_time_us` and
/// `start_time + US_PER_SEC` overflow.
/// debug: panic. release: wraps, the first msg is output at once although an earlier one follows
#[test]
fn finding3_reception_time_close_to_max() {
    let r0 = u64::MAX - 10 * US_PER_SEC;
    let start = r0 - 5 * US_PER_SEC;
    let mut lc = Lifecycle::new(&mut msg(99, b"ECU1", start, 0, 0, false));
    lc.start_time = start;
    let id = lc.id();
    let input = vec![
        msg(0, b"ECU1", r0, 0, 0, true),               // control request: calc = r0
        msg(1, b"ECU1", r0 + 1, 40_000, id, false),    // calc = start + 4s = r0 - 1s (delay 1s + 1us)
    ];
    let r = run_and_check(input, vec![lc], 3, 2 * US_PER_SEC);
    assert!(r.is_ok(), "{}", r.unwrap_err());
}

/// Finding 4 (weaker, depends on reading "all message streams" literally): ties are resolved by the
/// `index` field of the messages, not by their position in the stream, and a BinaryHeap is not stable
/// for elements that compare equal. Four msgs with the same calculated time and the same index
/// (as e.g. created by parsers that do not number, or the crate's own DltMessage::for_test...)
/// come out as #0 #2 #1 #3.
#[test]
fn finding4_ties_with_equal_index() {
    // lifecycle started 1s before T0, all msgs have timestamp 1s and are received at T0 (delay 0)
    let lc = Lifecycle::new(&mut msg(99, b"ECU1", T0, 10_000, 0, false));
    assert_eq!(lc.start_time, T0 - US_PER_SEC);
    // distinguishable by mcnt only
    let mut input = vec![];
    for i in 0..4u8 {
        let mut m = msg(0, b"ECU1", T0, 10_000, lc.id(), false);
        m.standard_header.mcnt = i;
        input.push(m);
    }
    let r = run_and_check(input, vec![lc], 3, 20 * US_PER_SEC);
    assert!(r.is_ok(), "{}", r.unwrap_err());
}
