import struct, random
random.seed(5)
out = bytearray()
def msg(rt_us, ecu_storage, ecu_std, ts, ext, payload, session=None, mcnt=0, be=False):
    global out
    htyp = 0x20
    extra = b''
    if ecu_std is not None:
        htyp |= 0x04; extra += ecu_std
    if session is not None:
        htyp |= 0x08; extra += struct.pack('>I', session)
    if ts is not None:
        htyp |= 0x10; extra += struct.pack('>I', ts)
    if be: htyp |= 0x02
    e = b''
    if ext is not None:
        htyp |= 0x01
        vmm, noar, apid, ctid = ext
        e = bytes([vmm, noar]) + apid + ctid
    ln = 4 + len(extra) + len(e) + len(payload)
    assert ln <= 65535
    out += b'DLT\x01' + struct.pack('<II', rt_us // 1000000, rt_us % 1000000) + ecu_storage
    out += bytes([htyp, mcnt & 0xff]) + struct.pack('>H', ln) + extra + e + payload

def verb_str(s, be=False):
    f = '>' if be else '<'
    return struct.pack(f+'I', 0x8200) + struct.pack(f+'H', len(s)+1) + s + b'\0'

T0 = 1_650_000_000_000_000
events = []
# per ecu lifecycles: list of (start_rt offset s, duration s, rate)
def lifecycle(ecu_st, ecu_std, start_s, dur_s, n, ts0=0.5, jitter=0.3, apids=(b'APP1', b'APP2', b'SYS\0')):
    for i in range(n):
        t = ts0 + dur_s * i / n
        rt = T0 + int((start_s + t + random.random() * jitter) * 1e6)
        kind = random.random()
        if kind < 0.6:
            ext = (0x41, 1, random.choice(apids), random.choice((b'CTX1', b'CTX2')))
            p = verb_str(b'hello %d' % i)
        elif kind < 0.8:
            ext = None if random.random() < 0.5 else (0x40, 0, random.choice(apids), b'NV\0\0')
            p = struct.pack('<I', random.choice((805312382, 77, 0x01544c44))) + bytes(random.getrandbits(8) for _ in range(random.randint(0, 30)))
        elif kind < 0.9:
            # ctrl response sw version / log info / other
            sid = random.choice((19, 3, 0xf01, 20))
            ext = (0x26, 1, b'DA1\0', b'DC1\0')
            if sid == 19:
                p = struct.pack('<I', 19) + b'\0' + struct.pack('<I', 8) + b'SW 1.2.3'
            elif sid == 3:
                p = struct.pack('<I', 3) + b'\x07' + struct.pack('<H', 1) + b'APP1' + struct.pack('<H', 0) + struct.pack('<H', 3) + b'foo'
            else:
                p = struct.pack('<I', sid) + b'\0' + bytes(12)
        else:
            # ctrl request from logger with odd timestamp
            ext = (0x16, 1, b'LOGR', b'LOGR')
            p = struct.pack('<I', 3) + bytes(8)
            events.append((rt, ecu_st, ecu_std, random.randint(0, 10**8), ext, p, None))
            continue
        ts = int(t * 10000) if random.random() < 0.97 else None
        events.append((rt, ecu_st, ecu_std, ts, ext, p, 5 if random.random() < 0.3 else None))

# ECU A (std header ecu 'ZZA1', storage 'DLTV'), ECU B (only storage 'AAB2')
lifecycle(b'DLTV', b'ZZA1', 0, 50, 3000)
lifecycle(b'DLTV', b'ZZA1', 70, 40, 2000)
lifecycle(b'DLTV', b'ZZA1', 70+40+300, 30, 1500, ts0=45.0)  # resume like (ts continues)
lifecycle(b'DLTV', b'ZZA1', 600, 30, 1500)
lifecycle(b'AAB2', None, 10, 200, 4000, jitter=2.5)
lifecycle(b'AAB2', None, 215, 100, 2000, jitter=0.1)
lifecycle(b'AAB2', None, 316, 2, 20, jitter=0.1)
lifecycle(b'AAB2', None, 320, 100, 2000, jitter=0.1)
lifecycle(b'zz\0\0', b'\x01\x02\xff\x00', 5, 700, 500, jitter=5)
events.sort(key=lambda e: e[0])
for i, (rt, es, ed, ts, ext, p, sess) in enumerate(events):
    msg(rt, es, ed, ts, ext, p, session=sess, mcnt=i)
open('probe.dlt', 'wb').write(out)
print(len(events))
