// audit C19b: NO violation found. These are the exploration tests used during the audit; all of them PASS on the unchanged code (see audit/notes.md).
use adlt::dlt::{DltChar4, DltExtendedHeader, DltMessage, DltStandardHeader};
use adlt::plugins::{
    anonymize::AnonymizePlugin, factory::get_plugin, plugin::Plugin, plugins_process_msgs,
};
use adlt::utils::eac_stats::EacStats;
use serde_json::json;
use std::sync::mpsc::channel;

struct Rng(u64);
impl Rng {
    fn next(&mut self) -> u64 {
        let mut x = self.0;
        x ^= x << 13;
        x ^= x >> 7;
        x ^= x << 17;
        self.0 = x;
        x
    }
    fn below(&mut self, n: u64) -> u64 {
        self.next() % n
    }
    fn bytes(&mut self, n: usize) -> Vec<u8> {
        (0..n).map(|_| self.next() as u8).collect()
    }
    fn pick<'a, T>(&mut self, v: &'a [T]) -> &'a T {
        &v[self.below(v.len() as u64) as usize]
    }
}

fn tests_dir() -> String {
    let mut d = std::path::PathBuf::from(env!("CARGO_MANIFEST_DIR"));
    d.push("tests");
    d.to_str().unwrap().to_owned()
}

const STRG: u32 = 0x200;
const RAWD: u32 = 0x400;
const UINT: u32 = 0x40;
const SINT: u32 = 0x20;
const UTF8: u32 = 0x8000;

fn ti(be: bool, v: u32) -> Vec<u8> {
    if be {
        v.to_be_bytes().to_vec()
    } else {
        v.to_le_bytes().to_vec()
    }
}
fn l16(be: bool, v: u16) -> Vec<u8> {
    if be {
        v.to_be_bytes().to_vec()
    } else {
        v.to_le_bytes().to_vec()
    }
}
fn arg_str(be: bool, s: &[u8], scod: u32) -> Vec<u8> {
    let mut v = ti(be, STRG | scod);
    v.extend(l16(be, s.len() as u16 + 1));
    v.extend_from_slice(s);
    v.push(0);
    v
}
fn arg_raw(be: bool, s: &[u8]) -> Vec<u8> {
    let mut v = ti(be, RAWD);
    v.extend(l16(be, s.len() as u16));
    v.extend_from_slice(s);
    v
}
fn arg_u32(be: bool, x: u32) -> Vec<u8> {
    let mut v = ti(be, UINT | 3);
    v.extend(ti(be, x));
    v
}
fn arg_u16(be: bool, x: u16) -> Vec<u8> {
    let mut v = ti(be, UINT | 2);
    v.extend(l16(be, x));
    v
}
fn arg_i32(be: bool, x: i32) -> Vec<u8> {
    let mut v = ti(be, SINT | 3);
    v.extend(ti(be, x as u32));
    v
}

fn mk(
    index: u32,
    be: bool,
    ecu: &[u8; 4],
    ext: Option<(u8, u8, &[u8; 4], &[u8; 4])>,
    payload: Vec<u8>,
    rng: &mut Rng,
) -> DltMessage {
    let mut htyp = 0x20u8 | 0x10 | 0x04;
    if be {
        htyp |= 0x02;
    }
    if ext.is_some() {
        htyp |= 0x01;
    }
    DltMessage {
        index,
        reception_time_us: 1_600_000_000_000_000 + index as u64 * 1000,
        ecu: DltChar4::from_buf(ecu),
        timestamp_dms: 10_000 + index * 10 + rng.below(5) as u32,
        standard_header: DltStandardHeader {
            htyp,
            mcnt: index as u8,
            len: 0,
        },
        extended_header: ext.map(|(vmm, noar, a, c)| DltExtendedHeader {
            verb_mstp_mtin: vmm,
            noar,
            apid: DltChar4::from_buf(a),
            ctid: DltChar4::from_buf(c),
        }),
        payload,
        payload_text: None,
        lifecycle: 1 + (index / 1000),
    }
}

fn vmm(verbose: bool, mstp: u8, mtin: u8) -> u8 {
    (mtin << 4) | (mstp << 1) | u8::from(verbose)
}

fn mutate(rng: &mut Rng, mut p: Vec<u8>) -> Vec<u8> {
    match rng.below(6) {
        0 => {
            // truncate
            let n = rng.below(p.len() as u64 + 1) as usize;
            p.truncate(n);
        }
        1 => {
            // flip some bytes
            if !p.is_empty() {
                for _ in 0..1 + rng.below(3) {
                    let i = rng.below(p.len() as u64) as usize;
                    p[i] = rng.next() as u8;
                }
            }
        }
        2 => {
            let n = rng.below(40) as usize;
            p.extend(rng.bytes(n));
        }
        _ => {}
    }
    p
}

fn gen_msg(index: u32, rng: &mut Rng) -> DltMessage {
    let be = rng.below(4) == 0;
    let ecus: [&[u8; 4]; 3] = [b"Ecu1", b"ECU2", b"CAN1"];
    let ecu = *rng.pick(&ecus);
    let kind = rng.below(14);
    let m = match kind {
        0 => {
            // non verbose matching/not matching
            let ids = [805834673u32, 805312382, 800000000, 42, 0x03, 19];
            let id = *rng.pick(&ids);
            let mut p = ti(be, id);
            let n = rng.below(20) as usize;
            p.extend(rng.bytes(n));
            let p = mutate(rng, p);
            let ext = match rng.below(4) {
                0 => None,
                1 => Some((vmm(false, 0, 4), 0u8, b"APP1", b"CTX1")),
                2 => Some((vmm(false, 3, 2), 0u8, b"CAN\0", b"TC\0\0")),
                _ => Some((vmm(false, 3, 1 + rng.below(3) as u8), 1u8, b"DA1\0", b"DC1\0")),
            };
            mk(index, be, ecu, ext, p, rng)
        }
        1 | 2 => {
            // someip non segmented
            let il = *rng.pick(&[9usize, 10, 12, 8, 11]);
            let mut p = arg_raw(be, &rng.bytes(il));
            let mut hdr = vec![];
            let sid: u16 = if rng.below(3) > 0 { 64098 } else { rng.next() as u16 };
            let mid: u16 = if rng.below(3) > 0 { 1000 } else { rng.next() as u16 };
            hdr.extend(sid.to_be_bytes());
            hdr.extend(mid.to_be_bytes());
            let pl = rng.below(6) as usize;
            let ml: u32 = match rng.below(4) {
                0 => rng.next() as u32,
                1 => 0,
                _ => 8 + pl as u32,
            };
            hdr.extend(ml.to_be_bytes());
            hdr.extend(rng.bytes(4));
            hdr.push(1);
            hdr.push(if rng.below(2) == 0 { 1 } else { rng.next() as u8 });
            hdr.push(*rng.pick(&[0u8, 1, 2, 0x80, 0x81, 0x23, 0x20, 0xff]));
            hdr.push(rng.below(12) as u8);
            hdr.extend(rng.bytes(pl));
            p.extend(arg_raw(be, &hdr));
            let p = mutate(rng, p);
            mk(
                index,
                be,
                ecu,
                Some((vmm(true, 2, 1), 2 + rng.below(2) as u8, b"SOME", b"TC\0\0")),
                p,
                rng,
            )
        }
        3 | 4 => {
            // someip segmented
            let seg_id = rng.below(3) as u32;
            let which = rng.below(3);
            let p = match which {
                0 => {
                    let mut p = arg_str(be, b"NWST", 0);
                    p.extend(arg_u32(false, seg_id));
                    let il = *rng.pick(&[9usize, 10, 12, 7]);
                    p.extend(arg_raw(be, &rng.bytes(il)));
                    p.extend(arg_u16(be, 0));
                    p.extend(arg_u16(false, *rng.pick(&[0u16, 1, 2, 3, 0xffff, 0xfffe])));
                    p.extend(arg_u16(false, *rng.pick(&[0u16, 1, 4, 16, 0xffff])));
                    p
                }
                1 => {
                    let mut p = arg_str(be, b"NWCH", 0);
                    p.extend(arg_u32(false, seg_id));
                    p.extend(arg_u16(false, *rng.pick(&[0u16, 1, 2, 0xffff, 0xfffe])));
                    let n = *rng.pick(&[0usize, 1, 4, 16, 20, 300]);
                    let mut d = rng.bytes(n);
                    if n >= 16 && rng.below(2) == 0 {
                        d[0..2].copy_from_slice(&64098u16.to_be_bytes());
                        d[2..4].copy_from_slice(&1000u16.to_be_bytes());
                        d[4..8].copy_from_slice(&(rng.below(30) as u32).to_be_bytes());
                        d[13] = 1;
                    }
                    p.extend(arg_raw(be, &d));
                    p
                }
                _ => {
                    let mut p = arg_str(be, b"NWEN", 0);
                    p.extend(arg_u32(false, seg_id));
                    p
                }
            };
            let p = mutate(rng, p);
            mk(
                index,
                be,
                ecu,
                Some((vmm(true, 2, 1), 2 + rng.below(5) as u8, b"SOME", b"TC\0\0")),
                p,
                rng,
            )
        }
        5 => {
            // can
            let mut p = arg_u32(be, rng.below(3) as u32 * 0x123);
            let n = rng.below(70) as usize;
            p.extend(arg_raw(be, &rng.bytes(n)));
            let p = mutate(rng, p);
            mk(
                index,
                be,
                ecu,
                Some((vmm(true, 2, 2), 2, b"CAN\0", b"TC\0\0")),
                p,
                rng,
            )
        }
        6 => {
            // can log info ctrl response
            let mut p = ti(be, 3);
            p.push(*rng.pick(&[7u8, 6, 3, 8, 0]));
            p.extend(l16(be, 1));
            p.extend(b"CAN\0");
            p.extend(l16(be, rng.below(3) as u16));
            let n = rng.below(30) as usize;
            p.extend(rng.bytes(n));
            let p = mutate(rng, p);
            mk(
                index,
                be,
                ecu,
                Some((vmm(false, 3, 2), 0, b"CAN\0", b"TC\0\0")),
                p,
                rng,
            )
        }
        7 | 8 => {
            // muniic
            let mut p = vec![];
            for i in 0..13 {
                if i == 7 {
                    p.extend(arg_u32(be, if rng.below(4) > 0 { 1228779599 } else { rng.next() as u32 }));
                } else if i == 8 {
                    p.extend(arg_u32(be, if rng.below(4) > 0 { 3478824001 } else { rng.next() as u32 }));
                } else if i == 12 {
                    let n = rng.below(5) as usize;
                    p.extend(arg_raw(be, &rng.bytes(n)));
                } else {
                    p.extend(arg_u16(be, rng.next() as u16));
                }
            }
            let p = mutate(rng, p);
            let ctid: &[u8; 4] = if rng.below(5) == 0 { b"MDLT" } else { b"MMSG" };
            let p = if ctid == b"MDLT" {
                arg_str(
                    be,
                    *rng.pick(&[
                        &b"Version: 20.48, git: abc, model hash: 2944352002"[..],
                        &b"Version: 1.2, git: f, model hash: 1"[..],
                        &b"garbage"[..],
                    ]),
                    UTF8,
                )
            } else {
                p
            };
            mk(
                index,
                be,
                ecu,
                Some((vmm(true, 0, 4), 13, b"MUNI", ctid)),
                p,
                rng,
            )
        }
        9 => {
            // rewrite
            let texts: [&[u8]; 4] = [
                b"a b 12.345 the text",
                b"2021/01/01 12:00:00 99999999999999.5 x",
                b"no match",
                b"a b 1.5 ",
            ];
            let t: &[u8] = *rng.pick(&texts[..]);
            let p = arg_str(be, t, UTF8);
            let p = mutate(rng, p);
            mk(
                index,
                be,
                ecu,
                Some((vmm(rng.below(5) > 0, 0, 4), 1, b"SYS\0", b"JOUR")),
                p,
                rng,
            )
        }
        10 | 11 => {
            // file transfer
            let serial = rng.below(3) as u32;
            let p = match rng.below(3) {
                0 => {
                    let mut p = arg_str(be, b"FLST", 0);
                    p.extend(arg_u32(be, serial));
                    p.extend(arg_str(be, b"/tmp/audit_c19b_nonexistent/foo.bin", 0));
                    p.extend(arg_u32(be, rng.below(40) as u32));
                    p.extend(arg_str(be, b"date", 0));
                    p.extend(arg_u32(be, rng.below(4) as u32));
                    p.extend(arg_u32(be, *rng.pick(&[0u32, 10, 16])));
                    p.extend(arg_str(be, b"FLST", 0));
                    (8u8, p)
                }
                1 => {
                    let mut p = arg_str(be, b"FLDA", 0);
                    p.extend(arg_u32(be, serial));
                    p.extend(arg_i32(be, rng.below(5) as i32 - 1));
                    let n = *rng.pick(&[0usize, 5, 10, 16]);
                    p.extend(arg_raw(be, &rng.bytes(n)));
                    p.extend(arg_str(be, b"FLDA", 0));
                    (5u8, p)
                }
                _ => {
                    let mut p = arg_str(be, b"FLFI", 0);
                    p.extend(arg_u32(be, serial));
                    p.extend(arg_str(be, b"FLFI", 0));
                    (3u8, p)
                }
            };
            let (noar, p) = p;
            let p = mutate(rng, p);
            mk(
                index,
                be,
                ecu,
                Some((vmm(true, 0, 4), noar, b"SYS\0", b"FILE")),
                p,
                rng,
            )
        }
        _ => {
            // random
            let n = rng.below(64) as usize;
            let p = rng.bytes(n);
            let ext = if rng.below(3) == 0 {
                None
            } else {
                let a: [&[u8; 4]; 4] = [b"SYS\0", b"CAN\0", b"APP1", b"SOME"];
                let c: [&[u8; 4]; 6] = [b"JOUR", b"TC\0\0", b"MMSG", b"MDLT", b"FILE", b"CTX1"];
                Some((rng.next() as u8, rng.below(16) as u8, *rng.pick(&a), *rng.pick(&c)))
            };
            mk(index, be, ecu, ext, p, rng)
        }
    };
    m
}

fn plugin_cfgs() -> Vec<serde_json::Value> {
    let d = tests_dir();
    let rewrite: serde_json::Value =
        serde_json::from_str(&std::fs::read_to_string(format!("{}/rewrite.cfg", d)).unwrap())
            .unwrap();
    vec![
        json!({"name":"NonVerbose","fibexDir":d}),
        json!({"name":"SomeIp","fibexDir":d}),
        json!({"name":"CAN","fibexDir":d}),
        json!({"name":"Muniic","jsonDir":format!("{}/muniic", d)}),
        rewrite,
        json!({"name":"FileTransfer","allowSave":false,"keepFLDA":true}),
    ]
}

fn is_flda(m: &DltMessage) -> bool {
    adlt::plugins::file_transfer::FileTransferPlugin::is_type(m, "FLDA")
}

#[test]
fn fuzz_plugin_chain_keeps_stream_intact() {
    let cfgs = plugin_cfgs();
    let mut failures = vec![];
    for seed in 1..=60u64 {
        let mut rng = Rng(seed.wrapping_mul(0x9E3779B97F4A7C15) | 1);
        // subset and order
        let mut order: Vec<usize> = (0..cfgs.len()).collect();
        for i in (1..order.len()).rev() {
            let j = rng.below(i as u64 + 1) as usize;
            order.swap(i, j);
        }
        let keep = 1 + rng.below(order.len() as u64) as usize;
        order.truncate(keep);
        let keep_flda = rng.below(2) == 0;
        let mut eac = EacStats::new();
        let mut plugins: Vec<Box<dyn Plugin + Send>> = vec![];
        let mut names = vec![];
        let mut has_rewrite = false;
        let mut has_ft_drop = false;
        for &i in &order {
            let mut cfg = cfgs[i].clone();
            if cfg["name"] == "FileTransfer" {
                cfg["keepFLDA"] = json!(keep_flda);
                has_ft_drop = !keep_flda;
            }
            if cfg["name"] == "Rewrite" {
                has_rewrite = true;
            }
            names.push(cfg["name"].as_str().unwrap().to_owned());
            plugins.push(get_plugin(cfg.as_object().unwrap(), &mut eac).expect("plugin"));
        }
        let n = 3000u32;
        let msgs: Vec<DltMessage> = (0..n).map(|i| gen_msg(i, &mut rng)).collect();
        let input = msgs.clone();
        let res = std::panic::catch_unwind(std::panic::AssertUnwindSafe(move || {
            let (tx, rx) = channel();
            let (otx, orx) = channel();
            for m in input {
                tx.send(m).unwrap();
            }
            drop(tx);
            plugins_process_msgs(rx, &|m| otx.send(m), plugins).unwrap();
            drop(otx);
            orx.into_iter().collect::<Vec<DltMessage>>()
        }));
        let out = match res {
            Ok(o) => o,
            Err(_) => {
                failures.push(format!("seed {} plugins {:?}: PANIC", seed, names));
                continue;
            }
        };
        let mut oi = 0;
        for m in &msgs {
            if oi < out.len() && out[oi].index == m.index {
                let o = &out[oi];
                oi += 1;
                let mut bad = vec![];
                if o.reception_time_us != m.reception_time_us {
                    bad.push("reception_time");
                }
                if o.ecu != m.ecu {
                    bad.push("ecu");
                }
                if o.payload != m.payload {
                    bad.push("payload");
                }
                if o.lifecycle != m.lifecycle {
                    bad.push("lifecycle");
                }
                if o.standard_header != m.standard_header {
                    bad.push("std hdr");
                }
                if m.extended_header.is_some() && o.extended_header != m.extended_header {
                    bad.push("ext hdr");
                }
                if !has_rewrite && o.timestamp_dms != m.timestamp_dms {
                    bad.push("timestamp");
                }
                if !bad.is_empty() {
                    failures.push(format!(
                        "seed {} plugins {:?}: msg {} changed {:?}",
                        seed, names, m.index, bad
                    ));
                }
            } else {
                // dropped
                if !(has_ft_drop && is_flda(m)) {
                    failures.push(format!(
                        "seed {} plugins {:?}: msg {} dropped: {:?}",
                        seed, names, m.index, m
                    ));
                }
            }
        }
        if oi != out.len() {
            failures.push(format!(
                "seed {} plugins {:?}: out has {} extra/reordered msgs",
                seed,
                names,
                out.len() - oi
            ));
        }
    }
    failures.truncate(20);
    assert!(failures.is_empty(), "{:#?}", failures);
}

#[test]
fn fuzz_anonymize() {
    let mut rng = Rng(4711);
    let mut p = AnonymizePlugin::new("anon");
    let mut fwd = std::collections::HashMap::new();
    let mut bwd = std::collections::HashMap::new();
    for i in 0..200_000u32 {
        let mut m = gen_msg(i, &mut rng);
        // id populations
        let e = format!("e{:03}", rng.below(999));
        m.ecu = DltChar4::from_buf(e.as_bytes());
        if let Some(eh) = m.extended_header.as_mut() {
            let a = format!("a{:03}", rng.below(30));
            let c = format!("c{:03}", rng.below(30));
            eh.apid = DltChar4::from_buf(a.as_bytes());
            eh.ctid = DltChar4::from_buf(c.as_bytes());
        }
        let o = m.clone();
        assert!(p.process_msg(&mut m));
        assert_eq!(m.timestamp_dms, o.timestamp_dms);
        assert_eq!(m.reception_time_us, o.reception_time_us);
        assert_eq!(m.index, o.index);
        assert_eq!(m.standard_header, o.standard_header);
        assert_eq!(m.is_ctrl_request(), o.is_ctrl_request());
        assert!(m.payload.len() < 1000);
        let k = (o.ecu, None, None);
        let v = (m.ecu, None, None);
        assert_eq!(*fwd.entry(k).or_insert(v), v);
        assert_eq!(*bwd.entry(v).or_insert(k), k);
        if let Some(eh) = &o.extended_header {
            let neh = m.extended_header.as_ref().unwrap();
            let k = (o.ecu, Some(eh.apid), None);
            let v = (m.ecu, Some(neh.apid), None);
            assert_eq!(*fwd.entry(k).or_insert(v), v);
            assert_eq!(*bwd.entry(v).or_insert(k), k);
            let k = (o.ecu, Some(eh.apid), Some(eh.ctid));
            let v = (m.ecu, Some(neh.apid), Some(neh.ctid));
            assert_eq!(*fwd.entry(k).or_insert(v), v);
            assert_eq!(*bwd.entry(v).or_insert(k), k);
        }
    }
}

#[test]
fn coverage_probe() {
    let cfgs = plugin_cfgs();
    let mut eac = EacStats::new();
    let mut plugins: Vec<Box<dyn Plugin + Send>> = cfgs
        .iter()
        .map(|c| get_plugin(c.as_object().unwrap(), &mut eac).unwrap())
        .collect();
    let mut rng = Rng(99);
    let mut hist = std::collections::BTreeMap::<String, (u32, String)>::new();
    for i in 0..30000 {
        let mut m = gen_msg(i, &mut rng);
        for p in plugins.iter_mut() {
            p.process_msg(&mut m);
        }
        if let Some(t) = &m.payload_text {
            let key: String = t.chars().filter(|c| !c.is_ascii_hexdigit()).take(40).collect();
            let e = hist.entry(key).or_insert((0, t.clone()));
            e.0 += 1;
        }
    }
    for (k, v) in hist.iter().filter(|(_, v)| v.0 > 3) {
        eprintln!("{:5} {} || {}", v.0, k, v.1.chars().take(150).collect::<String>());
    }
}

#[test]
fn anonymize_capacity_boundary() {
    let mut rng = Rng(7);
    let mut p = AnonymizePlugin::new("anon");
    let mut ecus = std::collections::HashSet::new();
    let mut apids = std::collections::HashSet::new();
    let mut ctids = std::collections::HashSet::new();
    // 999 ecus (reverse order of names), on the first one 999 apids, on the first apid 999 ctids
    for i in (0..999u32).rev() {
        let e = format!("{:04}", i);
        let mut m = mk(i, false, b"xxxx", Some((0x41, 0, b"APP0", b"CTX0")), vec![], &mut rng);
        m.ecu = DltChar4::from_buf(e.as_bytes());
        p.process_msg(&mut m);
        assert!(ecus.insert(m.ecu), "ecu pseudonym {} reused", m.ecu);
    }
    for i in 0..998u32 {
        let a = format!("{:04}", i);
        let mut m = mk(i, false, b"0998", Some((0x41, 0, b"APP0", b"CTX0")), vec![], &mut rng);
        m.extended_header.as_mut().unwrap().apid = DltChar4::from_buf(a.as_bytes());
        p.process_msg(&mut m);
        // APP0 was seen already (A001), so 999 apids in total
        assert!(apids.insert(*m.apid().unwrap()), "apid pseudonym reused");
    }
    for i in 0..998u32 {
        let a = format!("{:04}", i);
        let mut m = mk(i, false, b"0998", Some((0x41, 0, b"APP0", b"CTX0")), vec![], &mut rng);
        m.extended_header.as_mut().unwrap().ctid = DltChar4::from_buf(a.as_bytes());
        p.process_msg(&mut m);
        assert!(ctids.insert(*m.ctid().unwrap()), "ctid pseudonym reused");
    }
    eprintln!("{} {} {}", ecus.len(), apids.len(), ctids.len());
}
