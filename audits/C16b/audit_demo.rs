/// audit C16b: demonstration of a violation of
/// "index/time lookups return the position of the first stream message not before the requested one"
/// on a file opened with sort:true that contains a control request message.
///
/// uses the built binary (adlt remote) and a websocket client.
use adlt::utils::remote_types::{self, BinType};
use portpicker::pick_unused_port;
use std::{
    io::Write,
    time::{Duration, Instant},
};
use tungstenite::Message;

const BINCODE_CONFIG: bincode::config::Configuration<
    bincode::config::LittleEndian,
    bincode::config::Fixint,
    bincode::config::NoLimit,
> = bincode::config::legacy();

const T0_SECS: u32 = 1_640_995_200 + 100; // calculated start of the lifecycle

/// one DLT v1 message with storage header, timestamp and extended header
fn write_dlt_msg(
    f: &mut impl Write,
    recv_us: u64,
    timestamp_dms: u32,
    mcnt: u8,
    verb_mstp_mtin: u8,
    apid: &[u8; 4],
    ctid: &[u8; 4],
    payload: &[u8],
) {
    // storage header
    f.write_all(b"DLT\x01").unwrap();
    f.write_all(&((recv_us / 1_000_000) as u32).to_le_bytes())
        .unwrap();
    f.write_all(&((recv_us % 1_000_000) as u32).to_le_bytes())
        .unwrap();
    f.write_all(b"ECU1").unwrap();
    // standard header: UEH | WTMS | version 1
    let htyp: u8 = 0x01 | 0x10 | 0x20;
    let len: u16 = 4 + 4 + 10 + payload.len() as u16;
    f.write_all(&[htyp, mcnt]).unwrap();
    f.write_all(&len.to_be_bytes()).unwrap();
    f.write_all(&timestamp_dms.to_be_bytes()).unwrap();
    // extended header
    f.write_all(&[verb_mstp_mtin, 0]).unwrap();
    f.write_all(apid).unwrap();
    f.write_all(ctid).unwrap();
    f.write_all(payload).unwrap();
}

type Ws = tungstenite::WebSocket<tungstenite::stream::MaybeTlsStream<std::net::TcpStream>>;

fn connect(port: u16) -> Ws {
    let start_time = Instant::now();
    loop {
        match tungstenite::client::connect(format!("ws://127.0.0.1:{}", port)) {
            Ok(p) => {
                let mut ws = p.0;
                if let tungstenite::stream::MaybeTlsStream::Plain(s) = ws.get_mut() {
                    s.set_read_timeout(Some(Duration::from_secs(20))).unwrap();
                }
                return ws;
            }
            Err(_e) => {
                if start_time.elapsed() > Duration::from_secs(10) {
                    panic!("couldnt connect");
                } else {
                    std::thread::sleep(Duration::from_millis(50));
                }
            }
        }
    }
}

/// read until the next text message
fn next_text(ws: &mut Ws) -> String {
    loop {
        match ws.read_message().unwrap() {
            Message::Text(s) => return s,
            _ => continue,
        }
    }
}

/// (index, reception_time, timestamp_dms, verb_mstp_mtin)
type RecvMsg = (u32, u64, u32, u8);

/// send a stream cmd, returns the id and all the msgs received for that id until `nr_expected` have been received
fn stream_all(ws: &mut Ws, params: &str, nr_expected: usize) -> (u32, Vec<RecvMsg>) {
    ws.write_message(Message::Text(format!("stream {}", params)))
        .unwrap();
    let mut id: Option<u32> = None;
    let mut msgs: Vec<RecvMsg> = vec![];
    while msgs.len() < nr_expected {
        match ws.read_message().unwrap() {
            Message::Text(s) => {
                println!("got text: {}", s);
                if let Some(json) = s.strip_prefix("ok: stream ") {
                    let v: serde_json::Value = serde_json::from_str(json).unwrap();
                    id = Some(v["id"].as_u64().unwrap() as u32);
                }
            }
            Message::Binary(d) => {
                if let Ok((BinType::DltMsgs((stream_id, bmsgs)), _)) =
                    bincode::decode_from_slice::<remote_types::BinType, _>(&d, BINCODE_CONFIG)
                {
                    assert_eq!(Some(stream_id), id, "msgs before the reply with the id");
                    for m in bmsgs {
                        msgs.push((m.index, m.reception_time, m.timestamp_dms, m.verb_mstp_mtin));
                    }
                }
            }
            _ => {}
        }
    }
    (id.unwrap(), msgs)
}

fn lookup_time_ms(ws: &mut Ws, id: u32, time_ms: u64) -> usize {
    ws.write_message(Message::Text(format!(
        "stream_binary_search {} time_ms={}",
        id, time_ms
    )))
    .unwrap();
    let answer = next_text(ws);
    let prefix = format!("ok: stream_binary_search {}=", id);
    let json = answer
        .strip_prefix(&prefix)
        .unwrap_or_else(|| panic!("unexpected answer '{}'", answer));
    let v: serde_json::Value = serde_json::from_str(json).unwrap();
    v["filtered_msg_index"].as_u64().unwrap() as usize
}

/// A file opened with sort:true: 20 log msgs of one lifecycle (one per second, reception time == lifecycle
/// start + timestamp) and in the middle one control request (sent by the logger: its timestamp is from the
/// clock of the logger, here 2s).
///
/// The time lookup of a time t has to return the position of the first stream msg not before t.
/// For t = start + k seconds (k=1..10) this is the position k-1, the k.th log msg: under every reading of
/// "time of a msg" (reception time, time used for sorting, lifecycle start + timestamp) the msgs
/// at the positions < k-1 are before t and the msg at k-1 is at t.
#[test]
fn c16b_time_lookup_sorted_file_with_control_request() {
    let dir = tempfile::tempdir().unwrap();
    let file_path = dir.path().join("ctrl_req.dlt");
    {
        let mut f = std::fs::File::create(&file_path).unwrap();
        let t0_us = T0_SECS as u64 * 1_000_000;
        for i in 1..=20u32 {
            // log info verbose
            write_dlt_msg(
                &mut f,
                t0_us + i as u64 * 1_000_000,
                i * 10_000,
                i as u8,
                0x41,
                b"LOG\0",
                b"CTX\0",
                &[],
            );
            if i == 10 {
                // control request (get sw version) received 0.5s later. timestamp 2s (clock of the logger)
                write_dlt_msg(
                    &mut f,
                    t0_us + 10_500_000,
                    20_000,
                    0,
                    0x16,
                    b"APP\0",
                    b"CON\0",
                    &[0x13, 0, 0, 0],
                );
            }
        }
        f.flush().unwrap();
    }

    let port: u16 = pick_unused_port().expect("no ports free");
    let mut child = std::process::Command::new(env!("CARGO_BIN_EXE_adlt"))
        .args(["remote", "-p", &format!("{}", port)])
        .stdout(std::process::Stdio::null())
        .stderr(std::process::Stdio::null())
        .spawn()
        .unwrap();

    let res = std::panic::catch_unwind(|| {
        let mut ws = connect(port);
        ws.write_message(Message::Text(format!(
            r#"open {{"sort":true,"files":[{}]}}"#,
            serde_json::json!(file_path.to_str().unwrap()),
        )))
        .unwrap();
        assert_eq!(next_text(&mut ws), "ok: open {\"plugins_active\":[]}");

        // stream a: no filters, the whole file
        let (id_a, msgs_a) = stream_all(&mut ws, r#"{"window":[0,100],"binary":true}"#, 21);
        // stream b: only the log msgs (the control request is not part of the stream)
        let (id_b, msgs_b) = stream_all(
            &mut ws,
            r#"{"window":[0,100],"binary":true,"filters":[{"type":0,"apid":"LOG"}]}"#,
            20,
        );
        println!("msgs_a={:?}", msgs_a);
        // the window itself is delivered as expected: sorted by time, the control request at position 10
        assert_eq!(
            msgs_a.iter().map(|m| m.0).collect::<Vec<_>>(),
            (0..21u32).collect::<Vec<_>>()
        );
        assert_eq!(msgs_a[10].3, 0x16);
        assert!(msgs_a.windows(2).all(|w| w[0].1 < w[1].1)); // strictly ascending reception time
        assert_eq!(msgs_b.len(), 20);
        assert!(msgs_b.iter().all(|m| m.3 == 0x41));
        assert!(msgs_b.windows(2).all(|w| w[0].1 < w[1].1 && w[0].2 < w[1].2));

        let mut failures = vec![];
        for k in 1..=10u64 {
            let time_ms = (T0_SECS as u64 + k) * 1000;
            // first msg not before (by the reception time. See above: same for the other readings)
            let expected_a = msgs_a
                .iter()
                .position(|m| m.1 >= time_ms * 1000)
                .unwrap_or(msgs_a.len());
            let expected_b = msgs_b
                .iter()
                .position(|m| m.1 >= time_ms * 1000)
                .unwrap_or(msgs_b.len());
            assert_eq!(expected_a, (k - 1) as usize);
            assert_eq!(expected_b, (k - 1) as usize);
            let got_a = lookup_time_ms(&mut ws, id_a, time_ms);
            let got_b = lookup_time_ms(&mut ws, id_b, time_ms);
            println!(
                "k={} time_ms={} a: expected {} got {}, b: expected {} got {}",
                k, time_ms, expected_a, got_a, expected_b, got_b
            );
            if got_a != expected_a {
                failures.push(format!(
                    "stream without filters: time_ms={} expected pos {} got {}",
                    time_ms, expected_a, got_a
                ));
            }
            if got_b != expected_b {
                failures.push(format!(
                    "stream apid=LOG: time_ms={} expected pos {} got {}",
                    time_ms, expected_b, got_b
                ));
            }
        }
        let _ = ws.write_message(Message::Text("close".to_string()));
        let _ = ws.close(None);
        assert!(failures.is_empty(), "wrong time lookups: {:#?}", failures);
    });
    let _ = child.kill();
    let _ = child.wait();
    if let Err(e) = res {
        std::panic::resume_unwind(e);
    }
}
