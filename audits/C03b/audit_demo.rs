// C03 audit (second pass): demonstration tests. Each test fails on the unchanged code.
use adlt::{
    dlt::DLT_MIN_PARSE_BUFFER_SIZE,
    plugins::{factory::get_plugin, plugin::Plugin},
    utils::{eac_stats::EacStats, get_dlt_message_iterator, get_new_namespace, LowMarkBufReader},
};
use std::alloc::{GlobalAlloc, Layout, System};
use std::sync::atomic::{AtomicUsize, Ordering};

/// allocator that counts the bytes that are currently reserved (and the peak)
struct CountingAlloc;
static LIVE: AtomicUsize = AtomicUsize::new(0);
static PEAK: AtomicUsize = AtomicUsize::new(0);

unsafe impl GlobalAlloc for CountingAlloc {
    unsafe fn alloc(&self, layout: Layout) -> *mut u8 {
        let p = System.alloc(layout);
        if !p.is_null() {
            let live = LIVE.fetch_add(layout.size(), Ordering::Relaxed) + layout.size();
            PEAK.fetch_max(live, Ordering::Relaxed);
        }
        p
    }
    unsafe fn dealloc(&self, ptr: *mut u8, layout: Layout) {
        LIVE.fetch_sub(layout.size(), Ordering::Relaxed);
        System.dealloc(ptr, layout)
    }
    unsafe fn alloc_zeroed(&self, layout: Layout) -> *mut u8 {
        let p = System.alloc_zeroed(layout);
        if !p.is_null() {
            let live = LIVE.fetch_add(layout.size(), Ordering::Relaxed) + layout.size();
            PEAK.fetch_max(live, Ordering::Relaxed);
        }
        p
    }
    unsafe fn realloc(&self, ptr: *mut u8, layout: Layout, new_size: usize) -> *mut u8 {
        let p = System.realloc(ptr, layout, new_size);
        if !p.is_null() {
            if new_size >= layout.size() {
                let d = new_size - layout.size();
                let live = LIVE.fetch_add(d, Ordering::Relaxed) + d;
                PEAK.fetch_max(live, Ordering::Relaxed);
            } else {
                LIVE.fetch_sub(layout.size() - new_size, Ordering::Relaxed);
            }
        }
        p
    }
}

#[global_allocator]
static GLOBAL: CountingAlloc = CountingAlloc;

/// the counters are global: the tests must not run in parallel
static SERIALIZE_TESTS: std::sync::Mutex<()> = std::sync::Mutex::new(());

fn strg(out: &mut Vec<u8>, s: &[u8]) {
    out.extend_from_slice(&0x0000_0200u32.to_le_bytes()); // STRG, ascii
    out.extend_from_slice(&((s.len() + 1) as u16).to_le_bytes());
    out.extend_from_slice(s);
    out.push(0);
}
fn uint32(out: &mut Vec<u8>, v: u32) {
    out.extend_from_slice(&0x0000_0043u32.to_le_bytes()); // UINT, 32 bit
    out.extend_from_slice(&v.to_le_bytes());
}

/// a verbose log info DLT msg with storage header, timestamp and extended header
fn verbose_msg(idx: u32, noar: u8, payload: &[u8]) -> Vec<u8> {
    let mut m = Vec::with_capacity(34 + payload.len());
    m.extend_from_slice(b"DLT\x01");
    m.extend_from_slice(&(1_700_000_000u32 + idx / 1000).to_le_bytes());
    m.extend_from_slice(&((idx % 1000) * 1000).to_le_bytes());
    m.extend_from_slice(b"ECU1");
    m.push(0x21 | 0x10); // vers 1, ext hdr, timestamp, little endian
    m.push((idx & 0xff) as u8);
    m.extend_from_slice(&((4 + 4 + 10 + payload.len()) as u16).to_be_bytes());
    m.extend_from_slice(&(10_000u32 + idx * 10).to_be_bytes());
    m.push(0x41); // verbose, log, info
    m.push(noar);
    m.extend_from_slice(b"SYS\0");
    m.extend_from_slice(b"FILE");
    m.extend_from_slice(payload);
    m
}

/// a file transfer announcement (FLST) as sent by dlt_filetransfer
fn flst(idx: u32, serial: u32, name: &[u8], file_size: u32, nr_packages: u32, buffer_size: u32) -> Vec<u8> {
    let mut p = Vec::new();
    strg(&mut p, b"FLST");
    uint32(&mut p, serial);
    strg(&mut p, name);
    uint32(&mut p, file_size);
    strg(&mut p, b"d");
    uint32(&mut p, nr_packages);
    uint32(&mut p, buffer_size);
    strg(&mut p, b"FLST");
    verbose_msg(idx, 8, &p)
}

/// Clause: "... running the built-in plugins all terminate without ... an attempt to allocate memory
/// unrelated to the input size" (file-transfer announcements are named in the range).
///
/// A 100 kB file with 1000 announcements of a 1 MB file each (none of them followed by any data) makes the
/// file transfer plugin (default config as used by the remote mode: allowSave) reserve 1 GB.
#[test]
fn flst_announcements_reserve_1mb_each() {
    let _guard = SERIALIZE_TESTS.lock().unwrap_or_else(|e| e.into_inner());
    const NR: u32 = 1000;
    let mut input = Vec::new();
    for i in 0..NR {
        // 1024 packages of 1024 bytes
        input.extend(flst(i, i, b"a", 1024 * 1024, 1024, 1024));
    }
    let input_len = input.len();
    assert!(input_len < 110_000, "input_len={}", input_len);

    let mut eac = EacStats::default();
    let mut plugin: Box<dyn Plugin + Send> = get_plugin(
        serde_json::json!({"name":"FileTransfer"}).as_object().unwrap(),
        &mut eac,
    )
    .unwrap();

    let reader = LowMarkBufReader::new(
        std::io::Cursor::new(input),
        512 * 1024,
        DLT_MIN_PARSE_BUFFER_SIZE,
    );
    let it = get_dlt_message_iterator("dlt", 0, reader, get_new_namespace(), None, None, None);

    let live_before = LIVE.load(Ordering::Relaxed);
    PEAK.store(live_before, Ordering::Relaxed);
    let mut nr_msgs = 0;
    for mut msg in it {
        nr_msgs += 1;
        assert!(plugin.process_msg(&mut msg));
    }
    assert_eq!(nr_msgs, NR);
    let reserved = PEAK.load(Ordering::Relaxed).saturating_sub(live_before);
    let still_reserved = LIVE.load(Ordering::Relaxed).saturating_sub(live_before);
    println!(
        "input {} bytes, {} msgs: peak reserved {} bytes (= {} x input), still reserved after the last msg {} bytes",
        input_len,
        nr_msgs,
        reserved,
        reserved / input_len,
        still_reserved
    );
    // generous bound: 500 bytes reserved per input byte (the state json of the plugin lists every transfer)
    assert!(
        reserved <= 500 * input_len,
        "file transfer plugin reserved {} bytes for an input of {} bytes ({} x)",
        reserved,
        input_len,
        reserved / input_len
    );
}

/// Clause: "... rendering message headers and payloads as text ... collecting ECU/APID/CTID statistics ...
/// running the built-in plugins all terminate without ... an attempt to allocate memory unrelated to the
/// input size" (control-message bodies are named in the range).
///
/// A 37 byte control response get_log_info (status 7) that announces 65535 application ids (and carries none)
/// makes parse_ctrl_log_info_payload reserve 65535 entries (3.6 MB) each time the msg is rendered as text
/// (same for EacStats::add_msg and the CAN plugin).
#[test]
fn get_log_info_announcing_65535_apids() {
    let _guard = SERIALIZE_TESTS.lock().unwrap_or_else(|e| e.into_inner());
    let mut m = Vec::new();
    m.extend_from_slice(b"DLT\x01");
    m.extend_from_slice(&1_700_000_000u32.to_le_bytes());
    m.extend_from_slice(&0u32.to_le_bytes());
    m.extend_from_slice(b"ECU1");
    // service id 3 (get_log_info), status 7, nr of app ids 0xffff
    let payload = [3u8, 0, 0, 0, 7, 0xff, 0xff];
    m.push(0x21); // vers 1, ext hdr, little endian
    m.push(0);
    m.extend_from_slice(&((4 + 10 + payload.len()) as u16).to_be_bytes());
    m.push((3 << 1) | (2 << 4)); // control response, non verbose
    m.push(1);
    m.extend_from_slice(b"APP\0");
    m.extend_from_slice(b"CTX\0");
    m.extend_from_slice(&payload);
    let msg_len = m.len();
    assert_eq!(msg_len, 37);

    let reader = LowMarkBufReader::new(
        std::io::Cursor::new(m),
        512 * 1024,
        DLT_MIN_PARSE_BUFFER_SIZE,
    );
    let mut it = get_dlt_message_iterator("dlt", 0, reader, get_new_namespace(), None, None, None);
    let msg = it.next().unwrap();
    assert!(msg.is_ctrl_response());

    // rendering the payload as text:
    let live_before = LIVE.load(Ordering::Relaxed);
    PEAK.store(live_before, Ordering::Relaxed);
    let text = msg.payload_as_text().unwrap().into_owned();
    let reserved_text = PEAK.load(Ordering::Relaxed).saturating_sub(live_before);
    assert_eq!(text, "[get_log_info 07] []");

    // collecting the statistics (the maps of a new ecu/apid are created by a first msg):
    let mut eac = EacStats::new();
    eac.add_msg(&msg);
    let live_before = LIVE.load(Ordering::Relaxed);
    PEAK.store(live_before, Ordering::Relaxed);
    eac.add_msg(&msg);
    let reserved_stats = PEAK.load(Ordering::Relaxed).saturating_sub(live_before);

    println!(
        "msg of {} bytes: payload_as_text reserved {} bytes, EacStats::add_msg reserved {} bytes",
        msg_len, reserved_text, reserved_stats
    );
    // generous bound: 1000 bytes per byte of the msg
    assert!(
        reserved_text <= 1000 * msg_len && reserved_stats <= 1000 * msg_len,
        "a msg of {} bytes: payload_as_text reserved {} bytes, EacStats::add_msg reserved {} bytes",
        msg_len,
        reserved_text,
        reserved_stats
    );
}
