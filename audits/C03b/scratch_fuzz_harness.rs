// scratch harness for the C03b audit (pipeline over arbitrary input bytes)
use adlt::{
    dlt::{DltMessage, DLT_MIN_PARSE_BUFFER_SIZE},
    filter::{Filter, FilterKind},
    lifecycle::{get_sorted_lifecycles_as_vec, parse_lifecycles_buffered_from_stream},
    plugins::{
        anonymize::AnonymizePlugin, factory::get_plugin, plugin::Plugin,
    },
    utils::{
        buffer_sort_messages, eac_stats::EacStats, get_dlt_message_iterator, get_new_namespace,
        LowMarkBufReader,
    },
};
use std::sync::mpsc::channel;

fn tests_dir() -> String {
    let mut d = std::path::PathBuf::from(env!("CARGO_MANIFEST_DIR"));
    d.push("tests");
    d.to_str().unwrap().to_owned()
}

fn make_plugins() -> Vec<Box<dyn Plugin + Send>> {
    let mut eac = EacStats::default();
    let mut v: Vec<Box<dyn Plugin + Send>> = vec![];
    for cfg in [
        serde_json::json!({"name":"FileTransfer"}),
        serde_json::json!({"name":"NonVerbose","fibexDir":tests_dir()}),
        serde_json::json!({"name":"SomeIp","fibexDir":tests_dir()}),
        serde_json::json!({"name":"CAN","fibexDir":tests_dir()}),
    ] {
        if let Some(p) = get_plugin(cfg.as_object().unwrap(), &mut eac) {
            v.push(p);
        }
    }
    v
}

/// run the whole chain on the bytes. Returns the nr of msgs.
fn run_all(ext: &str, bytes: &[u8], plugins: &mut Vec<Box<dyn Plugin + Send>>, ref_time: Option<u64>) -> usize {
    let namespace = get_new_namespace();
    let reader = LowMarkBufReader::new(
        std::io::Cursor::new(bytes.to_vec()),
        512 * 1024,
        DLT_MIN_PARSE_BUFFER_SIZE,
    );
    let it = get_dlt_message_iterator(
        ext,
        0,
        reader,
        namespace,
        ref_time,
        Some(1_700_000_000_000_000),
        None,
    );
    let mut eac = EacStats::new();
    let (tx, rx) = channel();
    let mut nr = 0usize;
    let mut sink = Vec::with_capacity(64 * 1024);
    for msg in it {
        nr += 1;
        sink.clear();
        msg.header_as_text_to_write(&mut sink).unwrap();
        let _ = msg.payload_as_text();
        msg.to_write(&mut sink).unwrap();
        eac.add_msg(&msg);
        tx.send(msg).unwrap();
    }
    drop(tx);
    let (lcs_r, lcs_w) = evmap::Options::default()
        .with_hasher(nohash_hasher::BuildNoHashHasher::<adlt::lifecycle::LifecycleId>::default())
        .construct::<adlt::lifecycle::LifecycleId, adlt::lifecycle::LifecycleItem>();
    let (tx2, rx2) = channel();
    let _lcs_w = parse_lifecycles_buffered_from_stream(lcs_w, rx, &|m| tx2.send(m));
    drop(tx2);
    if let Some(a) = lcs_r.read() {
        for lc in get_sorted_lifecycles_as_vec(&a) {
            let _ = (
                lc.end_time(),
                lc.resume_time(),
                lc.resume_start_time(),
                lc.suspend_duration(),
                lc.only_control_requests(),
            );
            let _ = adlt::utils::utc_time_from_us(lc.end_time());
        }
    }
    let (tx3, rx3) = channel();
    buffer_sort_messages(rx2, &|m| tx3.send(m), &lcs_r, 3, 2_000_000).unwrap();
    drop(tx3);
    let mut filters = vec![];
    let mut f = Filter::new(FilterKind::Positive);
    f.payload = Some("a".to_owned());
    filters.push(f);
    filters.push(
        Filter::from_json(r#"{"type":0,"payloadRegex":"^.*a+b?","ignoreCasePayload":true,"ecu":"E.*","ecuIsRegex":true,"apid":"A","ctid":"C","logLevelMax":4}"#)
            .unwrap(),
    );
    filters.push(Filter::from_json(r#"{"type":1,"payloadRegex":"\\d+"}"#).unwrap());
    let mut anon = AnonymizePlugin::new("anon");
    let mut out = 0usize;
    for mut msg in rx3 {
        out += 1;
        for f in &filters {
            let _ = f.matches(&msg);
        }
        let mut fwd = true;
        for p in plugins.iter_mut() {
            if !p.process_msg(&mut msg) {
                fwd = false;
                break;
            }
        }
        if fwd {
            sink.clear();
            let _ = msg.payload_as_text();
            msg.header_as_text_to_write(&mut sink).unwrap();
            msg.to_write(&mut sink).unwrap();
            let mut m2 = msg.clone();
            anon.process_msg(&mut m2);
            let _ = m2.payload_as_text();
            m2.to_write(&mut sink).unwrap();
        }
    }
    assert_eq!(nr, out);
    nr
}

struct Rng(u64);
impl Rng {
    fn next(&mut self) -> u64 {
        self.0 ^= self.0 << 13;
        self.0 ^= self.0 >> 7;
        self.0 ^= self.0 << 17;
        self.0
    }
    fn below(&mut self, n: usize) -> usize {
        (self.next() % (n as u64)) as usize
    }
}

fn mutate(rng: &mut Rng, base: &[u8], others: &[Vec<u8>]) -> Vec<u8> {
    let mut v = base.to_vec();
    // take a window to keep it fast
    if v.len() > 20_000 {
        let start = rng.below(v.len() - 20_000);
        let start = if rng.below(2) == 0 { 0 } else { start };
        v = v[start..start + 20_000].to_vec();
    }
    let nr_mut = 1 + rng.below(8);
    for _ in 0..nr_mut {
        if v.is_empty() {
            break;
        }
        match rng.below(8) {
            0 => {
                let i = rng.below(v.len());
                v[i] ^= 1 << rng.below(8);
            }
            1 => {
                let i = rng.below(v.len());
                v.truncate(i);
            }
            2 => {
                let o = &others[rng.below(others.len())];
                if !o.is_empty() {
                    let s = rng.below(o.len());
                    let e = (s + rng.below(2000)).min(o.len());
                    let i = rng.below(v.len());
                    let tail = v.split_off(i);
                    v.extend_from_slice(&o[s..e]);
                    v.extend_from_slice(&tail);
                }
            }
            3 => {
                let i = rng.below(v.len());
                let vals = [0u8, 0xff, 0x7f, 0x80, 1, 0xfe];
                let n = 1 + rng.below(4);
                for k in 0..n {
                    if i + k < v.len() {
                        v[i + k] = vals[rng.below(vals.len())];
                    }
                }
            }
            4 => {
                let i = rng.below(v.len());
                let n = rng.below(64).min(v.len() - i);
                v.drain(i..i + n);
            }
            5 => {
                let i = rng.below(v.len());
                v[i] = rng.next() as u8;
            }
            6 => {
                // duplicate a chunk
                let i = rng.below(v.len());
                let n = rng.below(300).min(v.len() - i);
                let c = v[i..i + n].to_vec();
                let j = rng.below(v.len());
                let tail = v.split_off(j);
                v.extend_from_slice(&c);
                v.extend_from_slice(&tail);
            }
            _ => {
                // digits: replace an ascii digit by another / or by many
                let i = rng.below(v.len());
                if let Some(p) = v[i..].iter().position(|c| c.is_ascii_digit()) {
                    let p = p + i;
                    if rng.below(3) == 0 {
                        let n = rng.below(20);
                        let tail = v.split_off(p);
                        for _ in 0..n {
                            v.push(b'0' + rng.below(10) as u8);
                        }
                        v.extend_from_slice(&tail);
                    } else {
                        v[p] = b'0' + rng.below(10) as u8;
                    }
                }
            }
        }
    }
    v
}

#[test]
fn scratch_fuzz() {
    let secs: u64 = std::env::var("AUDIT_FUZZ_SECS").ok().and_then(|s| s.parse().ok()).unwrap_or(0);
    if secs == 0 {
        return;
    }
    let only: Option<String> = std::env::var("AUDIT_FUZZ_EXT").ok();
    let seed: u64 = std::env::var("AUDIT_FUZZ_SEED").ok().and_then(|s| s.parse().ok()).unwrap_or(0x1234_5678_9abc_def1);
    let mut corpora: Vec<(String, Vec<u8>)> = vec![];
    for e in std::fs::read_dir(tests_dir()).unwrap().flatten() {
        let p = e.path();
        let ext = p.extension().and_then(|s| s.to_str()).unwrap_or("").to_owned();
        if ["dlt", "asc", "txt", "log"].contains(&ext.as_str()) {
            if let Some(o) = &only {
                if o != &ext {
                    continue;
                }
            }
            corpora.push((ext, std::fs::read(&p).unwrap()));
        }
    }
    let others: Vec<Vec<u8>> = corpora.iter().map(|c| c.1.clone()).collect();
    let mut rng = Rng(seed);
    let start = std::time::Instant::now();
    let mut plugins = make_plugins();
    println!("plugins: {}", plugins.len());
    let mut iters = 0u64;
    std::panic::set_hook(Box::new(|_| {}));
    let mut found = 0;
    while start.elapsed().as_secs() < secs {
        let (ext, base) = &corpora[rng.below(corpora.len())];
        let input = mutate(&mut rng, base, &others);
        let ref_time = if rng.below(2) == 0 { None } else { Some(1_600_000_000_000_000u64) };
        let ext2 = ext.clone();
        let inp2 = input.clone();
        let mut pl = std::mem::take(&mut plugins);
        let r = std::panic::catch_unwind(std::panic::AssertUnwindSafe(|| {
            run_all(&ext2, &inp2, &mut pl, ref_time);
            pl
        }));
        match r {
            Ok(pl) => plugins = pl,
            Err(e) => {
                found += 1;
                let msg = e.downcast_ref::<String>().cloned().or_else(|| e.downcast_ref::<&str>().map(|s| s.to_string())).unwrap_or_default();
                let fname = format!("/tmp/wt_audit_C03b/target/crash_{}_{}.{}", found, iters, ext);
                std::fs::write(&fname, &input).unwrap();
                eprintln!("PANIC iter {} ext {} msg '{}' saved {}", iters, ext, msg, fname);
                plugins = make_plugins();
                if found > 5 {
                    break;
                }
            }
        }
        iters += 1;
    }
    eprintln!("fuzz done iters={} found={}", iters, found);
    assert_eq!(found, 0);
}

#[test]
fn scratch_targeted() {
    let mut plugins = make_plugins();
    let cases: Vec<(&str, Vec<u8>)> = vec![
        ("asc", b"date Fri Dec 31 11:59:59 PM +262142\n9223372036854.775807 1 36f Rx d 1 00\n0.000001 1 36f Rx d 1 00\n-9223372036854.775807 1 36f Rx d 1 00\n".to_vec()),
        ("asc", b"date Sat Dec 31 11:59:59 PM 9999\n9223372036854.775807 1 36f Rx d 1 00\n0.000001 1 36f Rx d 1 00\n-9223372036854.775807 1 36f Rx d 1 00\n1.000000 CANFD 1 Rx 12x 1 0 8 8 01 02 03 04 05 06 07 08\n1.000000 CANFD 300 Rx ErrorFrame\n".to_vec()),
        ("asc", b"// BusMapping: CAN 1 = \n// BusMapping: CAN= x\n// BusMapping: CAN\n// BusMapping: CANFD 1=\xc3\xa9\n//\n// BusMapping: CAN 255 = a=b\n-0.000001 1 0 Rx d 0\n-5.000000 1 0 Rx d 0\n-1.000000 1 0 Rx d 0\n 3.000000 1 ffffffffx Tx d 65535 00\n".to_vec()),
        ("txt", b"4294967295.999 1 2 I t: m\n0.0 1 2 I t: m\n99999999999.99999999999999999999 1 2 I t2: m\n12-31 23:59:59.999 1 2 I t3: m\n01-01 00:00:00.000 1 2 I t3: m\n02-29 12:00:00.000 1 2 I t3: m\n02-30 12:00:00.000 1 2 I t3: m\n06-15 25:61:61.1000 1 2 I t3: m\n06-15 23:59:60.999 1 2 I : m\n".to_vec()),
        ("log", b"[2999-12-31 23:59:59.999] [INF] [a] m\n[2000-01-01 00:00:00.000] [\xc3\xa9\xc3\xa9\xc3\xa9] [] m\n[2000-02-30 00:00:00.000] [ERR] [\xc3\xa9\xc3\xa9\xc3\xa9\xc3\xa9\xc3\xa9] \n[2000-01-01 24:00:60.000] [ERR] [ ] \n".to_vec()),
    ];
    for (ext, bytes) in cases {
        for r in [None, Some(0u64), Some(1_600_000_000_000_000u64), Some(u64::MAX)] {
            let n = run_all(ext, &bytes, &mut plugins, r);
            println!("{} -> {} msgs", ext, n);
        }
    }
}

fn g_strg(rng: &mut Rng, out: &mut Vec<u8>, s: &[u8], be: bool) {
    let scod = [0u32, 0x8000, 0x10000, 0x18000, 0x38000][rng.below(5)];
    let scod = if rng.below(4) == 0 { scod } else { 0 };
    let ti = 0x200u32 | scod;
    out.extend_from_slice(&if be { ti.to_be_bytes() } else { ti.to_le_bytes() });
    let l = (s.len() + 1) as u16;
    let l = if rng.below(30) == 0 { rng.next() as u16 } else { l };
    out.extend_from_slice(&if be { l.to_be_bytes() } else { l.to_le_bytes() });
    out.extend_from_slice(s);
    out.push(0);
}
fn g_raw(out: &mut Vec<u8>, s: &[u8], be: bool) {
    let ti = 0x400u32;
    out.extend_from_slice(&if be { ti.to_be_bytes() } else { ti.to_le_bytes() });
    let l = s.len() as u16;
    out.extend_from_slice(&if be { l.to_be_bytes() } else { l.to_le_bytes() });
    out.extend_from_slice(s);
}
fn g_u32(rng: &mut Rng, out: &mut Vec<u8>, v: u32, be: bool) {
    let ti = if rng.below(10) == 0 { 0x23u32 } else { 0x43u32 };
    out.extend_from_slice(&if be { ti.to_be_bytes() } else { ti.to_le_bytes() });
    out.extend_from_slice(&if be { v.to_be_bytes() } else { v.to_le_bytes() });
}
fn interesting_u32(rng: &mut Rng) -> u32 {
    match rng.below(8) {
        0 => 0,
        1 => u32::MAX,
        2 => 1,
        3 => rng.below(16) as u32,
        4 => 0x7fff_ffff,
        5 => 0x8000_0000,
        6 => rng.below(70000) as u32,
        _ => rng.next() as u32,
    }
}

fn gen_msg(rng: &mut Rng, secs: &mut u32, ts: &mut u32) -> Vec<u8> {
    let be = rng.below(4) == 0;
    let ecus: [&[u8; 4]; 4] = [b"ECU1", b"ECU2", b"E\0\0\0", b"\xff\xfe\x01\x02"];
    let necu = if rng.below(3) == 0 { 4 } else { 1 };
    let ecu = ecus[rng.below(necu)];
    // time handling
    match rng.below(20) {
        0 => *secs = interesting_u32(rng),
        1 => *secs = secs.wrapping_add(rng.below(100) as u32),
        2 => *secs = secs.wrapping_sub(rng.below(100) as u32),
        3 => *secs = 1_700_000_000 + rng.below(100000) as u32,
        _ => {}
    }
    match rng.below(12) {
        0 => *ts = interesting_u32(rng),
        1 => *ts = rng.below(100_000) as u32,
        2 => *ts = 0,
        _ => *ts = ts.wrapping_add(rng.below(20000) as u32),
    }
    let micros = if rng.below(10) == 0 { interesting_u32(rng) } else { rng.below(1_000_000) as u32 };
    let kind = rng.below(12);
    let mut p: Vec<u8> = Vec::new();
    let mut noar = 0u8;
    let mut vmm = 0x41u8;
    let mut apid: [u8; 4] = *b"SYS\0";
    let mut ctid: [u8; 4] = *b"FILE";
    let serial = rng.below(3) as u32;
    match kind {
        0 => {
            // FLST
            let name: &[u8] = [&b"a"[..], b"../x", b"", b"/tmp/", b"\xff\xfe"][rng.below(5)];
            g_strg(rng, &mut p, b"FLST", be);
            g_u32(rng, &mut p, serial, be);
            g_strg(rng, &mut p, name, be);
            let fs = if rng.below(3) == 0 { interesting_u32(rng) } else { rng.below(64) as u32 };
            g_u32(rng, &mut p, fs, be);
            g_strg(rng, &mut p, b"d", be);
            let nrp = if rng.below(6) == 0 { interesting_u32(rng) } else { rng.below(5) as u32 };
            g_u32(rng, &mut p, nrp, be);
            let bs = if rng.below(6) == 0 { interesting_u32(rng) } else { rng.below(20) as u32 };
            g_u32(rng, &mut p, bs, be);
            g_strg(rng, &mut p, b"FLST", be);
            noar = 8;
        }
        1 | 2 => {
            // FLDA
            g_strg(rng, &mut p, b"FLDA", be);
            g_u32(rng, &mut p, serial, be);
            let pn = if rng.below(6) == 0 { interesting_u32(rng) } else { rng.below(6) as u32 };
            g_u32(rng, &mut p, pn, be);
            let n = rng.below(24);
            let d: Vec<u8> = (0..n).map(|_| rng.next() as u8).collect();
            g_raw(&mut p, &d, be);
            g_strg(rng, &mut p, b"FLDA", be);
            noar = 5;
        }
        3 => {
            g_strg(rng, &mut p, b"FLFI", be);
            g_u32(rng, &mut p, serial, be);
            g_strg(rng, &mut p, b"FLFI", be);
            noar = 3;
        }
        4 | 5 => {
            // control response non verbose
            vmm = (3 << 1) | (2 << 4) | if rng.below(8) == 0 { 1 } else { 0 };
            let sid = [3u32, 19, 0xf01, 0xf02, 0xf03, 1, 0, 20, 0xffff_ffff][rng.below(9)];
            p.extend_from_slice(&if be { sid.to_be_bytes() } else { sid.to_le_bytes() });
            let n = rng.below(40);
            for i in 0..n {
                let b = if i == 0 { [0u8, 3, 4, 5, 6, 7, 8, 0xff][rng.below(8)] } else if rng.below(2) == 0 { rng.below(4) as u8 } else { rng.next() as u8 };
                p.push(b);
            }
            if rng.below(3) == 0 {
                p.truncate(rng.below(6));
            }
            noar = rng.below(3) as u8;
            apid = *b"CAN\0";
            ctid = *b"TC\0\0";
        }
        6 => {
            // control request
            vmm = (3 << 1) | (1 << 4);
            p.extend_from_slice(&interesting_u32(rng).to_le_bytes());
            noar = 1;
        }
        7 | 8 => {
            // someip nw trace
            vmm = 1 | (2 << 1) | ([1u8, 2, 3, 4, 5, 6][rng.below(6)] << 4);
            ctid = *b"TC\0\0";
            match rng.below(6) {
                0 => {
                    g_strg(rng, &mut p, b"NWST", be);
                    g_raw(&mut p, &(rng.below(3) as u32).to_le_bytes(), be);
                    let n = [9usize, 10, 12, 5][rng.below(4)];
                    g_raw(&mut p, &vec![1u8; n], be);
                    g_raw(&mut p, &[0u8; 4], be);
                    g_raw(&mut p, &(interesting_u32(rng) as u16).to_le_bytes(), be);
                    g_raw(&mut p, &(interesting_u32(rng) as u16).to_le_bytes(), be);
                    noar = 7;
                }
                1 => {
                    g_strg(rng, &mut p, b"NWCH", be);
                    g_raw(&mut p, &(rng.below(3) as u32).to_le_bytes(), be);
                    g_raw(&mut p, &(rng.below(4) as u16).to_le_bytes(), be);
                    let n = rng.below(40);
                    let d: Vec<u8> = (0..n).map(|_| rng.next() as u8).collect();
                    g_raw(&mut p, &d, be);
                    noar = 4;
                }
                2 => {
                    g_strg(rng, &mut p, b"NWEN", be);
                    g_raw(&mut p, &(rng.below(3) as u32).to_le_bytes(), be);
                    noar = 2;
                }
                _ => {
                    let n = [9usize, 10, 12, 5][rng.below(4)];
                    g_raw(&mut p, &vec![1u8; n], be);
                    let mut h = vec![];
                    h.extend_from_slice(&64098u16.to_be_bytes());
                    h.extend_from_slice(&if rng.below(4) == 0 { rng.next() as u16 } else { 1000u16 }.to_be_bytes());
                    h.extend_from_slice(&interesting_u32(rng).to_be_bytes());
                    h.extend_from_slice(&[0, 1, 0, 2, 1, 1]);
                    h.push([0u8, 1, 2, 0x80, 0x81, 0x23, 0xff][rng.below(7)]);
                    h.push(rng.below(12) as u8);
                    let n = rng.below(12);
                    for _ in 0..n {
                        h.push(rng.next() as u8);
                    }
                    if rng.below(5) == 0 {
                        h.truncate(rng.below(17));
                    }
                    g_raw(&mut p, &h, be);
                    noar = 2;
                }
            }
        }
        9 => {
            // non verbose
            vmm = [0x40u8, 0x20, 0x00][rng.below(3)];
            let id = if rng.below(2) == 0 { rng.below(1200) as u32 } else { interesting_u32(rng) };
            p.extend_from_slice(&if be { id.to_be_bytes() } else { id.to_le_bytes() });
            let n = rng.below(30);
            for _ in 0..n {
                p.push(rng.next() as u8);
            }
            if rng.below(6) == 0 {
                p.truncate(rng.below(5));
            }
            apid = *b"APID";
            ctid = *b"CTID";
        }
        _ => {
            // verbose with random args
            let n = rng.below(6);
            noar = n as u8;
            for _ in 0..n {
                let tyle = rng.below(7) as u32;
                let kind = [0x10u32, 0x20, 0x40, 0x80, 0x100, 0x200, 0x400, 0x800, 0x1000, 0x2000, 0x4000, 0x30, 0x210, 0x600][rng.below(14)];
                let ti = kind | tyle | if rng.below(6) == 0 { 0x8000 } else { 0 };
                p.extend_from_slice(&if be { ti.to_be_bytes() } else { ti.to_le_bytes() });
                if kind & 0x600 != 0 {
                    let l = if rng.below(5) == 0 { rng.next() as u16 } else { rng.below(12) as u16 };
                    p.extend_from_slice(&if be { l.to_be_bytes() } else { l.to_le_bytes() });
                }
                let n = rng.below(18);
                for _ in 0..n {
                    p.push(if rng.below(3) == 0 { 0 } else { rng.next() as u8 });
                }
            }
            apid = *b"APID";
            vmm = 1 | ((rng.below(8) as u8) << 1) | ((rng.below(16) as u8) << 4);
        }
    }
    let has_ext = rng.below(12) != 0;
    let has_ts = rng.below(6) != 0;
    let has_ecu = rng.below(4) == 0;
    let has_sid = rng.below(6) == 0;
    let mut htyp = 0x20u8;
    if has_ext {
        htyp |= 1;
    }
    if be {
        htyp |= 2;
    }
    if has_ecu {
        htyp |= 4;
    }
    if has_sid {
        htyp |= 8;
    }
    if has_ts {
        htyp |= 0x10;
    }
    let mut m = Vec::new();
    m.extend_from_slice(b"DLT\x01");
    m.extend_from_slice(&secs.to_le_bytes());
    m.extend_from_slice(&micros.to_le_bytes());
    m.extend_from_slice(ecu);
    let mut hdr_len = 4;
    let mut add = vec![];
    if has_ecu {
        add.extend_from_slice(ecu);
    }
    if has_sid {
        add.extend_from_slice(&[0, 0, 0, 1]);
    }
    if has_ts {
        add.extend_from_slice(&ts.to_be_bytes());
    }
    if has_ext {
        add.push(vmm);
        add.push(noar);
        add.extend_from_slice(&apid);
        add.extend_from_slice(&ctid);
    }
    hdr_len += add.len();
    m.push(htyp);
    m.push(rng.next() as u8);
    let len = (hdr_len + p.len()) as u16;
    let len = if rng.below(40) == 0 { interesting_u32(rng) as u16 } else { len };
    m.extend_from_slice(&len.to_be_bytes());
    m.extend_from_slice(&add);
    m.extend_from_slice(&p);
    m
}

#[test]
fn scratch_genfuzz() {
    let secs: u64 = std::env::var("AUDIT_FUZZ_SECS").ok().and_then(|s| s.parse().ok()).unwrap_or(0);
    if secs == 0 {
        return;
    }
    let seed: u64 = std::env::var("AUDIT_FUZZ_SEED").ok().and_then(|s| s.parse().ok()).unwrap_or(0x1234_5678_9abc_def1);
    let mut rng = Rng(seed);
    let start = std::time::Instant::now();
    let mut plugins = make_plugins();
    let mut iters = 0u64;
    std::panic::set_hook(Box::new(|i| {
        eprintln!("panic at {:?}", i.location());
    }));
    let mut found = 0;
    while start.elapsed().as_secs() < secs {
        let mut input = vec![];
        let n = 1 + rng.below(60);
        let mut s = 1_700_000_000u32;
        let mut t = 10_000u32;
        for _ in 0..n {
            input.extend(gen_msg(&mut rng, &mut s, &mut t));
        }
        if rng.below(4) == 0 {
            let k = 1 + rng.below(4);
            for _ in 0..k {
                let i = rng.below(input.len());
                input[i] ^= 1 << rng.below(8);
            }
        }
        let inp2 = input.clone();
        let mut pl = std::mem::take(&mut plugins);
        let r = std::panic::catch_unwind(std::panic::AssertUnwindSafe(|| {
            run_all("dlt", &inp2, &mut pl, None);
            pl
        }));
        match r {
            Ok(pl) => plugins = pl,
            Err(e) => {
                found += 1;
                let msg = e.downcast_ref::<String>().cloned().or_else(|| e.downcast_ref::<&str>().map(|s| s.to_string())).unwrap_or_default();
                let fname = format!("/tmp/wt_audit_C03b/target/gcrash_{}_{}.dlt", found, iters);
                std::fs::write(&fname, &input).unwrap();
                eprintln!("PANIC iter {} msg '{}' saved {}", iters, msg, fname);
                plugins = make_plugins();
                if found > 5 {
                    break;
                }
            }
        }
        iters += 1;
        if plugins.is_empty() || iters % 500 == 0 {
            plugins = make_plugins(); // reset state
        }
    }
    eprintln!("genfuzz done iters={} found={}", iters, found);
    assert_eq!(found, 0);
}
