// audit C15b: remote server survives any command sequence and always answers.
// Demonstrations (failing on the unchanged code) against the real binary `adlt remote`.
// F1: f1_* (three entry points of the same root cause), F2: f2_*
use std::io::{BufRead, BufReader};
use std::net::TcpStream;
use std::process::{Child, Command, Stdio};
use std::time::{Duration, Instant};
use tungstenite::{protocol::Message, WebSocket};

struct Server {
    child: Child,
    port: u16,
}
impl Drop for Server {
    fn drop(&mut self) {
        let _ = self.child.kill();
        let _ = self.child.wait();
    }
}

fn start_server() -> Server {
    for _ in 0..20 {
        let port = portpicker::pick_unused_port().expect("no port");
        let mut child = Command::new(env!("CARGO_BIN_EXE_adlt"))
            .args(["remote", "-p", &format!("{}", port)])
            .current_dir(env!("CARGO_MANIFEST_DIR"))
            .stdout(Stdio::piped())
            .stderr(Stdio::null())
            .spawn()
            .unwrap();
        let stdout = child.stdout.take().unwrap();
        let mut rd = BufReader::new(stdout);
        let mut line = String::new();
        let _ = rd.read_line(&mut line);
        if line.contains("remote server listening") {
            // keep draining stdout so that the server never blocks on it
            std::thread::spawn(move || {
                let mut l = String::new();
                while let Ok(n) = rd.read_line(&mut l) {
                    if n == 0 {
                        break;
                    }
                    l.clear();
                }
            });
            return Server { child, port };
        }
        let _ = child.kill();
        let _ = child.wait();
    }
    panic!("could not start server");
}

type Ws = WebSocket<TcpStream>;

fn connect(port: u16) -> Ws {
    let start = Instant::now();
    loop {
        if let Ok(s) = TcpStream::connect(("127.0.0.1", port)) {
            s.set_read_timeout(Some(Duration::from_millis(200))).unwrap();
            let (ws, _) =
                tungstenite::client::client(format!("ws://127.0.0.1:{}/", port), s).unwrap();
            return ws;
        }
        if start.elapsed() > Duration::from_secs(5) {
            panic!("cannot connect");
        }
        std::thread::sleep(Duration::from_millis(20));
    }
}

/// send a command and wait for the (one) reply. Err if the connection died or nothing came within the timeout
fn cmd_t(ws: &mut Ws, text: &str, timeout: Duration) -> Result<String, String> {
    ws.write_message(Message::Text(text.to_string()))
        .map_err(|e| format!("write failed: {e:?}"))?;
    let start = Instant::now();
    loop {
        match ws.read_message() {
            Ok(Message::Text(t)) => {
                if t.starts_with("ok:") || t.starts_with("err:") || t.starts_with("unknown command")
                {
                    return Ok(t);
                }
            }
            Ok(Message::Close(c)) => return Err(format!("got close {:?}", c)),
            Ok(_) => {}
            Err(tungstenite::Error::Io(ref e))
                if e.kind() == std::io::ErrorKind::WouldBlock
                    || e.kind() == std::io::ErrorKind::TimedOut => {}
            Err(e) => return Err(format!("connection died: {e:?}")),
        }
        if start.elapsed() > timeout {
            return Err("no reply within timeout".to_string());
        }
    }
}
/// drain async frames for some time
fn idle(ws: &mut Ws, d: Duration) {
    let start = Instant::now();
    while start.elapsed() < d {
        let _ = ws.read_message();
    }
}

fn expect_reply(ws: &mut Ws, text: &str, timeout: Duration) -> String {
    match cmd_t(ws, text, timeout) {
        Ok(r) => {
            assert!(
                r.starts_with("ok:") || r.starts_with("err:") || r.starts_with("unknown command"),
                "unexpected reply {r}"
            );
            r
        }
        Err(e) => panic!("no reply to '{}': {}", text, e),
    }
}

/// payloadRegex with a huge repetition count: fancy_regex panics (overflow) inside Filter::from_json
/// on the connection thread: no reply and the connection is dead.
#[test]
fn f1_stream_payload_regex_huge_repeat_count_kills_connection() {
    let srv = start_server();
    let mut ws = connect(srv.port);
    let t = Duration::from_secs(20);
    expect_reply(&mut ws, r#"open {"files":["tests/lc_ex002.dlt"]}"#, t);
    // a valid stream so that stream_search can be used as well
    let r = expect_reply(&mut ws, r#"stream {"window":[0,5]}"#, t);
    assert!(r.starts_with("ok: stream"));
    let r = expect_reply(
        &mut ws,
        r#"stream {"filters":[{"type":0,"payloadRegex":"(ab){9223372036854775808}"}]}"#,
        t,
    );
    println!("reply: {r}");
    // and the connection is still usable:
    let r = expect_reply(&mut ws, "close", t);
    assert!(r.starts_with("ok:"), "{r}");
}

/// same via the add overflow and via stream_search
#[test]
fn f1b_stream_search_payload_regex_add_overflow_kills_connection() {
    let srv = start_server();
    let mut ws = connect(srv.port);
    let t = Duration::from_secs(20);
    expect_reply(&mut ws, r#"open {"files":["tests/lc_ex002.dlt"]}"#, t);
    let r = expect_reply(&mut ws, r#"stream {"window":[0,5]}"#, t);
    let id: u32 = r
        .split("\"id\":")
        .nth(1)
        .unwrap()
        .split(',')
        .next()
        .unwrap()
        .trim()
        .parse()
        .unwrap();
    idle(&mut ws, Duration::from_millis(500));
    let r = expect_reply(
        &mut ws,
        &format!(
            r#"stream_search {} {{"filters":[{{"type":0,"payloadRegex":"(?=a)(b{{9223372036854775807}}c{{9223372036854775807}}dd)"}}]}}"#,
            id
        ),
        t,
    );
    println!("reply: {r}");
    let r = expect_reply(&mut ws, "close", t);
    assert!(r.starts_with("ok:"), "{r}");
}

/// payloadRegex with a counted repetition of a group with a look-around: accepted (ok: stream) but matching
/// a single msg loops the count literally: the connection thread is stuck in process_file_context,
/// no further command is answered (not even close) - in any build type.
#[test]
fn f2_stream_payload_regex_hard_repeat_blocks_server() {
    let srv = start_server();
    let mut ws = connect(srv.port);
    let t = Duration::from_secs(20);
    expect_reply(&mut ws, r#"open {"files":["tests/lc_ex002.dlt"]}"#, t);
    let r = expect_reply(
        &mut ws,
        r#"stream {"filters":[{"type":0,"payloadRegex":"((?=.)){4000000000}"}]}"#,
        t,
    );
    println!("reply: {r}");
    assert!(r.starts_with("ok: stream"), "{r}"); // accepted
    idle(&mut ws, Duration::from_millis(500));
    // now the server shall still answer:
    let start = Instant::now();
    let r = expect_reply(&mut ws, "pause", Duration::from_secs(60));
    println!("pause answered after {:?}: {r}", start.elapsed());
    let r = expect_reply(&mut ws, "close", Duration::from_secs(60));
    assert!(r.starts_with("ok:"), "{r}");
    // a new open succeeds:
    let r = expect_reply(&mut ws, r#"open {"files":["tests/lc_ex002.dlt"]}"#, t);
    assert!(r.starts_with("ok:"), "{r}");
}

/// same root cause through the Rewrite plugin config of open (fancy_regex::Regex::new on the connection thread)
#[test]
fn f1c_open_rewrite_payload_regex_huge_repeat_count_kills_connection() {
    let srv = start_server();
    let mut ws = connect(srv.port);
    let t = Duration::from_secs(20);
    let r = expect_reply(
        &mut ws,
        r#"open {"files":["tests/lc_ex002.dlt"],"plugins":[{"name":"Rewrite","rewrites":[{"name":"x","filter":{"type":0},"payloadRegex":"(ab){9223372036854775808}","rewrite":{}}]}]}"#,
        t,
    );
    println!("reply: {r}");
    let r = expect_reply(&mut ws, "close", t);
    println!("reply: {r}");
}
