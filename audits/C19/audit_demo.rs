// Audit harness for the property
//   "Plugins keep the stream intact; anonymisation keeps its structure"
//
// The tests in this file use only the public API of the crate and run on the unchanged sources.
//  - decoding_plugins_keep_stream_intact: randomised streams that hit every decoder (non-verbose, SOME/IP incl.
//    segmented, CAN, Muniic, rewrite, file transfer) x random subsets/orders of the plugins configured from tests/
//  - plugins_process_msgs_keeps_order: same through the channel based driver
//  - anonymise_pseudonyms_bijective: 999 adversarial ECU ids, 999 APIDs on one ECU, 999 CTIDs on one APID
//  - anonymised_trace_has_same_lifecycles: byte level trace (ECU in storage header vs. standard header) ->
//    lifecycles of the original vs. lifecycles of the written+reparsed anonymised trace
//    (these four PASS on the unchanged code: no violation of the clauses of the property was found)
//  - finding1_borderline_max_size_msg_lost_on_write_after_nonverbose_added_ext_header: FAILS on the unchanged code.
//    Borderline: the plugin result in memory is conformant, the msg is lost when it is written (DltMessage::to_write)
//  - reading_dependent_apid_pseudonyms_are_scoped_per_ecu (#[ignore]): documents a reading of the property
//  - out_of_range_1000_ecus_collide (#[ignore]): NOT within the stated range (more ids than the pseudonym capacity)
// run with: cargo test --offline --test audit_demo [-- --include-ignored]

use adlt::dlt::{
    parse_dlt_with_storage_header, DltChar4, DltExtendedHeader, DltMessage, DltStandardHeader,
};
use adlt::plugins::{
    anonymize::AnonymizePlugin, factory::get_plugin, file_transfer::FileTransferPlugin,
    plugin::Plugin, plugins_process_msgs,
};
use adlt::utils::eac_stats::EacStats;
use std::collections::{HashMap, HashSet};
use std::panic::{catch_unwind, AssertUnwindSafe};

const TI_BOOL: u32 = 0x10;
const TI_SINT: u32 = 0x20;
const TI_UINT: u32 = 0x40;
const TI_FLOA: u32 = 0x80;
const TI_STRG: u32 = 0x200;
const TI_RAWD: u32 = 0x400;
const TI_VARI: u32 = 0x800;
const TI_FIXP: u32 = 0x1000;
const SCOD_UTF8: u32 = 0x8000;

struct Rng(u64);
impl Rng {
    fn next(&mut self) -> u64 {
        let mut x = self.0;
        x ^= x << 13;
        x ^= x >> 7;
        x ^= x << 17;
        self.0 = x;
        x.wrapping_mul(0x2545_F491_4F6C_DD1D)
    }
    fn below(&mut self, n: u64) -> u64 {
        self.next() % n
    }
    fn chance(&mut self, pct: u64) -> bool {
        self.below(100) < pct
    }
    fn bytes(&mut self, n: u64) -> Vec<u8> {
        (0..n).map(|_| self.next() as u8).collect()
    }
    fn pick<T: Copy>(&mut self, s: &[T]) -> T {
        s[self.below(s.len() as u64) as usize]
    }
}

type Ext = (u8, u8, [u8; 4], [u8; 4]);
struct Spec {
    ecu: [u8; 4],
    ext: Option<Ext>,
    be: bool,
    payload: Vec<u8>,
}

fn vmm(verbose: bool, mstp: u8, mtin: u8) -> u8 {
    (verbose as u8) | ((mstp & 7) << 1) | ((mtin & 0xf) << 4)
}

fn arg(be: bool, ti: u32, data: &[u8]) -> Vec<u8> {
    let mut v = if be {
        ti.to_be_bytes().to_vec()
    } else {
        ti.to_le_bytes().to_vec()
    };
    if ti & (TI_STRG | TI_RAWD) != 0 {
        let l = data.len() as u16;
        v.extend_from_slice(&if be { l.to_be_bytes() } else { l.to_le_bytes() });
    }
    v.extend_from_slice(data);
    v
}
fn a_str(be: bool, s: &str) -> Vec<u8> {
    let mut d = s.as_bytes().to_vec();
    d.push(0);
    arg(be, TI_STRG, &d)
}
fn a_utf8(be: bool, s: &str) -> Vec<u8> {
    let mut d = s.as_bytes().to_vec();
    d.push(0);
    arg(be, TI_STRG | SCOD_UTF8, &d)
}
fn a_u32(be: bool, v: u32) -> Vec<u8> {
    arg(
        be,
        TI_UINT | 3,
        &if be { v.to_be_bytes() } else { v.to_le_bytes() },
    )
}
fn a_u16(be: bool, v: u16) -> Vec<u8> {
    arg(
        be,
        TI_UINT | 2,
        &if be { v.to_be_bytes() } else { v.to_le_bytes() },
    )
}
fn a_raw(be: bool, d: &[u8]) -> Vec<u8> {
    arg(be, TI_RAWD, d)
}

fn rand_id(r: &mut Rng) -> [u8; 4] {
    if r.chance(15) {
        let b = r.bytes(4);
        [b[0], b[1], b[2], b[3]]
    } else {
        r.pick(&[
            *b"HLD\0", *b"ERR\0", *b"MAIN", *b"SYS\0", *b"JOUR", *b"TC\0\0", *b"CAN\0", *b"MMSG",
            *b"MDLT", *b"SYST", *b"\0\0\0\0", *b"A001", *b"C001",
        ])
    }
}
fn rand_ecu(r: &mut Rng) -> [u8; 4] {
    r.pick(&[*b"Ecu1", *b"Ecu1", *b"Ecu1", *b"ECU2", *b"E001", *b"Ecu\0"])
}

fn gen_nonverbose(r: &mut Rng) -> Spec {
    let be = r.chance(30);
    let id = if r.chance(85) {
        r.pick(&[
            805834673u32,
            805834673,
            805834672,
            805312382,
            800000000,
            3,
            19,
            0x01544c44,
        ])
    } else {
        r.next() as u32
    };
    // mostly the endianess of the header, sometimes the other one
    let id_be = if r.chance(90) { be } else { !be };
    let mut p = if id_be {
        id.to_be_bytes().to_vec()
    } else {
        id.to_le_bytes().to_vec()
    };
    if r.chance(10) {
        p.truncate(r.below(4) as usize);
    } else {
        let n = r.pick(&[0u64, 1, 4, 10, 11, 12, 20]);
        p.extend(r.bytes(n));
    }
    let ext = match r.below(5) {
        0 => Some((vmm(false, 0, r.below(8) as u8), r.below(3) as u8, rand_id(r), rand_id(r))),
        1 => Some((vmm(false, 3, 2), r.below(3) as u8, rand_id(r), rand_id(r))),
        _ => None,
    };
    Spec {
        ecu: rand_ecu(r),
        ext,
        be,
        payload: p,
    }
}

fn someip_msg(r: &mut Rng) -> Vec<u8> {
    let payload = {
        let n = r.below(6);
        r.bytes(n)
    };
    let service: u16 = if r.chance(80) { 64098 } else { r.next() as u16 };
    let method: u16 = if r.chance(80) { 1000 } else { r.next() as u16 };
    let len: u32 = match r.below(6) {
        0 => r.next() as u32,
        1 => r.below(8) as u32,
        2 => 0xffff_ffff,
        _ => 8 + payload.len() as u32,
    };
    let mut v = vec![];
    v.extend_from_slice(&service.to_be_bytes());
    v.extend_from_slice(&method.to_be_bytes());
    v.extend_from_slice(&len.to_be_bytes());
    v.extend_from_slice(&(r.next() as u32).to_be_bytes());
    v.push(1);
    v.push(if r.chance(80) { 1 } else { r.next() as u8 });
    v.push(if r.chance(80) {
        r.pick(&[0u8, 1, 2, 0x80, 0x81, 0x20, 0x23])
    } else {
        r.next() as u8
    });
    v.push(r.below(0x20) as u8);
    v.extend(payload);
    if r.chance(10) {
        let n = r.below(v.len() as u64 + 1) as usize;
        v.truncate(n);
    }
    v
}

fn tc_ctid(r: &mut Rng) -> [u8; 4] {
    if r.chance(90) {
        *b"TC\0\0"
    } else {
        rand_id(r)
    }
}

fn ip_hdr(r: &mut Rng) -> Vec<u8> {
    let n = if r.chance(85) {
        r.pick(&[9u64, 10, 12])
    } else {
        r.below(16)
    };
    r.bytes(n)
}

fn gen_someip(r: &mut Rng) -> Spec {
    let be = r.chance(20);
    let mut p = vec![];
    let seg = r.below(10);
    let noar;
    match seg {
        0 | 1 => {
            // NWST
            p.extend(a_str(be, "NWST"));
            p.extend(a_u32(false, r.below(3) as u32 + 1)); // segment id is read little endian
            p.extend(a_raw(be, &ip_hdr(r)));
            p.extend(a_raw(be, &someip_msg(r)));
            let nr = r.pick(&[0u16, 1, 2, 3, 0xffff, 0xfffe]);
            let sz = r.pick(&[0u16, 1, 4, 16, 0xffff]);
            p.extend(a_u16(false, nr));
            p.extend(a_u16(false, sz));
            noar = 6;
        }
        2 | 3 | 4 => {
            p.extend(a_str(be, "NWCH"));
            p.extend(a_u32(false, r.below(3) as u32 + 1));
            if r.chance(90) {
                p.extend(a_u16(false, r.pick(&[0u16, 1, 2, 3, 0xffff])));
            } else {
                p.extend(a_u32(false, 0));
            }
            let n = r.pick(&[0u64, 1, 4, 16, 20]);
            if n == 16 && r.chance(50) {
                let mut m = someip_msg(r);
                m.resize(16, 0);
                p.extend(a_raw(be, &m));
            } else {
                p.extend(a_raw(be, &r.bytes(n)));
            }
            noar = 4;
        }
        5 => {
            p.extend(a_str(be, "NWEN"));
            p.extend(a_u32(false, r.below(3) as u32 + 1));
            noar = 2;
        }
        _ => {
            p.extend(a_raw(be, &ip_hdr(r)));
            p.extend(a_raw(be, &someip_msg(r)));
            noar = 2 + r.below(2) as u8;
            if noar > 2 {
                p.extend(a_u32(be, 7));
            }
        }
    }
    let noar = if r.chance(95) { noar } else { r.below(8) as u8 };
    Spec {
        ecu: rand_ecu(r),
        ext: Some((vmm(true, 2, r.pick(&[1u8, 1, 1, 0, 7, 6])), noar, rand_id(r), tc_ctid(r))),
        be,
        payload: p,
    }
}

fn gen_can(r: &mut Rng) -> Spec {
    let be = r.chance(20);
    let mut p = vec![];
    let fid = r.pick(&[0u32, 1, 0x123, 0x7ff, 0x1fff_ffff]);
    if r.chance(80) {
        p.extend(a_u32(be, fid));
    } else {
        p.extend(a_raw(be, &fid.to_le_bytes()[..r.below(5) as usize]));
    }
    let n = r.pick(&[0u64, 1, 8, 64]);
    p.extend(a_raw(be, &r.bytes(n)));
    Spec {
        ecu: rand_ecu(r),
        ext: Some((vmm(true, 2, 2), r.pick(&[2u8, 2, 2, 3, 1]), *b"CAN\0", tc_ctid(r))),
        be,
        payload: p,
    }
}

fn gen_can_loginfo(r: &mut Rng) -> Spec {
    let be = r.chance(20);
    let u16b = |v: u16| if be { v.to_be_bytes() } else { v.to_le_bytes() };
    let mut p = if be {
        3u32.to_be_bytes().to_vec()
    } else {
        3u32.to_le_bytes().to_vec()
    };
    p.push(r.pick(&[7u8, 7, 7, 6, 3, 4, 5, 8, 0]));
    p.extend_from_slice(&u16b(r.pick(&[1u16, 1, 1, 2, 0, 0xffff])));
    p.extend_from_slice(b"CAN\0");
    let nctx = r.pick(&[1u16, 1, 0, 2, 0xffff]);
    p.extend_from_slice(&u16b(nctx));
    for _ in 0..nctx.min(2) {
        p.extend_from_slice(b"TC\0\0");
        p.push(4);
        p.push(0);
        p.extend_from_slice(&u16b(2));
        p.extend_from_slice(b"tc");
    }
    let desc = r.pick(&["CAN1", "IuK_CAN 431", "", "x"]);
    p.extend_from_slice(&u16b(desc.len() as u16));
    p.extend_from_slice(desc.as_bytes());
    if r.chance(30) {
        let n = r.below(p.len() as u64 + 1) as usize;
        p.truncate(n);
    }
    Spec {
        ecu: rand_ecu(r),
        ext: Some((vmm(false, 3, 2), 0, *b"CAN\0", *b"TC\0\0")),
        be,
        payload: p,
    }
}

fn rand_simple_arg(r: &mut Rng, be: bool) -> Vec<u8> {
    match r.below(6) {
        0 => arg(be, TI_UINT | 1, &r.bytes(1)),
        1 => a_u16(be, r.next() as u16),
        2 => a_u32(be, r.next() as u32),
        3 => a_str(be, "abc"),
        4 => arg(be, TI_BOOL | 1, &[1]),
        _ => arg(be, TI_SINT | 4, &r.bytes(8)),
    }
}

fn gen_muniic(r: &mut Rng) -> Spec {
    let be = r.chance(20);
    let mut p = vec![];
    if r.chance(15) {
        // config msg
        let s = r.pick(&[
            "Version: 20.48, git: abcdef1, model hash: 2944352002",
            "Version: 21.10, git: 0, model hash: 2874425776",
            "Version: 1.1, git: x, model hash: 99999999999999999999999",
            "Version: , git: , model hash: ",
        ]);
        p.extend(a_utf8(be, s));
        return Spec {
            ecu: rand_ecu(r),
            ext: Some((vmm(true, 0, 4), 1, rand_id(r), *b"MDLT")),
            be,
            payload: p,
        };
    }
    for i in 0..13 {
        match i {
            7 => {
                if r.chance(85) {
                    p.extend(a_u32(be, if r.chance(85) { 1228779599 } else { r.next() as u32 }))
                } else {
                    p.extend(a_u16(be, 1))
                }
            }
            8 => {
                if r.chance(90) {
                    p.extend(a_u32(be, if r.chance(85) { 3478824001 } else { r.next() as u32 }))
                } else {
                    p.extend(a_str(be, "x"))
                }
            }
            12 => {
                let n = r.below(5);
                p.extend(a_raw(be, &r.bytes(n)))
            }
            _ => p.extend(rand_simple_arg(r, be)),
        }
    }
    Spec {
        ecu: rand_ecu(r),
        ext: Some((vmm(true, 0, 4), r.pick(&[13u8, 13, 13, 13, 12, 14]), rand_id(r), *b"MMSG")),
        be,
        payload: p,
    }
}

fn gen_rewrite(r: &mut Rng) -> Spec {
    let be = r.chance(20);
    let mut p = vec![];
    let ts = r.pick(&[
        "123.4567",
        "0.0",
        "429496.7296",
        "99999999999999999999999999.5",
        "12",
        "1.5e3",
        "-1.5",
        "1.99999",
    ]);
    let n = r.below(5);
    for i in 0..n {
        if i == 2 {
            p.extend(a_str(be, ts));
        } else if r.chance(70) {
            p.extend(a_utf8(be, r.pick(&["2024/05/05", "12:00:01.123", "some text", "", "a\nb"])));
        } else {
            p.extend(rand_simple_arg(r, be));
        }
    }
    let verbose = r.chance(85);
    Spec {
        ecu: rand_ecu(r),
        ext: Some((vmm(verbose, r.pick(&[0u8, 0, 0, 3]), 4), n as u8, *b"SYS\0", *b"JOUR")),
        be,
        payload: p,
    }
}

fn gen_ft(r: &mut Rng) -> Spec {
    let be = r.chance(20);
    let mut p = vec![];
    let serial = r.below(3) as u32 + 1;
    let noar;
    match r.below(6) {
        0 | 1 => {
            p.extend(a_str(be, "FLST"));
            p.extend(a_u32(be, serial));
            p.extend(a_str(be, r.pick(&["a.bin", "", "../../x", "core.gz"])));
            p.extend(a_u32(be, r.pick(&[0u32, 1, 8, 9, 0xffff_ffff])));
            p.extend(a_str(be, "2024"));
            p.extend(a_u32(be, r.pick(&[0u32, 1, 2, 3, 0xffff_ffff])));
            p.extend(a_u32(be, r.pick(&[0u32, 1, 4, 0xffff_ffff])));
            p.extend(a_str(be, "FLST"));
            noar = 8;
        }
        2 | 3 | 4 => {
            p.extend(a_str(be, "FLDA"));
            p.extend(a_u32(be, serial));
            if r.chance(80) {
                p.extend(a_u32(be, r.pick(&[0u32, 1, 2, 3, 4, 0xffff_ffff])));
            } else {
                p.extend(arg(be, TI_SINT | 3, &r.bytes(4)));
            }
            let n = r.pick(&[0u64, 1, 4, 5]);
            p.extend(a_raw(be, &r.bytes(n)));
            p.extend(a_str(be, if r.chance(90) { "FLDA" } else { "FLDX" }));
            noar = 5;
        }
        _ => {
            p.extend(a_str(be, "FLFI"));
            p.extend(a_u32(be, serial));
            p.extend(a_str(be, "FLFI"));
            noar = 3;
        }
    }
    Spec {
        ecu: rand_ecu(r),
        ext: Some((
            vmm(true, 0, r.pick(&[4u8, 4, 4, 4, 3])),
            if r.chance(95) { noar } else { r.below(9) as u8 },
            rand_id(r),
            rand_id(r),
        )),
        be,
        payload: p,
    }
}

fn gen_ctrl(r: &mut Rng) -> Spec {
    let be = r.chance(30);
    let id = if r.chance(80) {
        r.pick(&[3u32, 19, 0xf01, 0xf02, 0xf03, 0x11, 1, 2])
    } else {
        r.next() as u32
    };
    let verbose = r.chance(25);
    let mut p = vec![];
    if verbose {
        match r.below(4) {
            0 => p.extend(a_u32(be, id)),
            1 => p.extend(arg(be, TI_UINT | 1, &[id as u8])),
            2 => p.extend(a_raw(be, &id.to_le_bytes())),
            _ => p.extend(a_u16(be, id as u16)),
        }
        let n = r.below(12);
        p.extend(r.bytes(n));
    } else {
        p.extend_from_slice(&if be { id.to_be_bytes() } else { id.to_le_bytes() });
        p.push(r.pick(&[0u8, 1, 2, 3, 4, 5, 6, 7, 8, 9, 0xff]));
        if id == 19 && r.chance(60) {
            let s = b"SW 1.2.3";
            let l = if r.chance(80) { s.len() as u32 } else { r.next() as u32 };
            p.extend_from_slice(&if be { l.to_be_bytes() } else { l.to_le_bytes() });
            p.extend_from_slice(s);
        } else {
            let n = r.below(14);
            p.extend(r.bytes(n));
        }
        if r.chance(15) {
            let n = r.below(p.len() as u64 + 1) as usize;
            p.truncate(n);
        }
    }
    Spec {
        ecu: rand_ecu(r),
        ext: Some((vmm(verbose, 3, r.pick(&[1u8, 2, 2, 3, 0, 9])), r.below(3) as u8, rand_id(r), rand_id(r))),
        be,
        payload: p,
    }
}

fn gen_random(r: &mut Rng) -> Spec {
    let be = r.chance(50);
    let mut p = vec![];
    if r.chance(50) {
        // random (in)valid verbose args
        for _ in 0..r.below(6) {
            let ti = match r.below(12) {
                0 => TI_BOOL | r.below(3) as u32,
                1 => TI_UINT | r.below(7) as u32,
                2 => TI_SINT | r.below(7) as u32,
                3 => TI_FLOA | r.below(7) as u32,
                4 => TI_STRG | ((r.below(8) as u32) << 15),
                5 => TI_RAWD,
                6 => TI_UINT | TI_VARI | 3,
                7 => TI_UINT | TI_FIXP | 3,
                8 => TI_UINT | TI_SINT | TI_FLOA | r.below(7) as u32,
                9 => TI_STRG | TI_RAWD | TI_UINT | 5,
                _ => r.next() as u32,
            };
            p.extend_from_slice(&if be { ti.to_be_bytes() } else { ti.to_le_bytes() });
            let n = r.below(20);
            p.extend(r.bytes(n));
        }
    } else {
        let n = r.below(64);
        p = r.bytes(n);
    }
    let ext = if r.chance(80) {
        Some((r.next() as u8, r.next() as u8, rand_id(r), rand_id(r)))
    } else {
        None
    };
    Spec {
        ecu: rand_ecu(r),
        ext,
        be,
        payload: p,
    }
}

fn mk_msg(index: u32, spec: Spec, rcv_us: u64, tmsp: u32, r: &mut Rng) -> DltMessage {
    let mut htyp = 0x20u8;
    if spec.ext.is_some() {
        htyp |= 1;
    }
    if spec.be {
        htyp |= 2;
    }
    if r.chance(50) {
        htyp |= 4;
    }
    if r.chance(20) {
        htyp |= 8;
    }
    if r.chance(90) {
        htyp |= 0x10;
    }
    let standard_header = DltStandardHeader {
        htyp,
        mcnt: index as u8,
        len: 0,
    };
    let len = standard_header.std_ext_header_size() + spec.payload.len() as u16;
    DltMessage {
        index,
        reception_time_us: rcv_us,
        ecu: DltChar4::from_buf(&spec.ecu),
        timestamp_dms: tmsp,
        standard_header: DltStandardHeader { len, ..standard_header },
        extended_header: spec.ext.map(|(verb_mstp_mtin, noar, apid, ctid)| DltExtendedHeader {
            verb_mstp_mtin,
            noar,
            apid: DltChar4::from_buf(&apid),
            ctid: DltChar4::from_buf(&ctid),
        }),
        payload: spec.payload,
        payload_text: None,
        lifecycle: r.below(3) as u32,
    }
}

fn gen_stream(r: &mut Rng, n: u32) -> Vec<DltMessage> {
    let mut rcv = 1_700_000_000_000_000u64;
    let mut tmsp = 10_000u32;
    (0..n)
        .map(|i| {
            let spec = match r.below(16) {
                0..=2 => gen_nonverbose(r),
                3..=5 => gen_someip(r),
                6 => gen_can(r),
                7 => gen_can_loginfo(r),
                8 | 9 => gen_muniic(r),
                10 | 11 => gen_rewrite(r),
                12 | 13 => gen_ft(r),
                14 => gen_ctrl(r),
                _ => gen_random(r),
            };
            // cross-breeding: payloads of one kind with the ids/type of another kind
            let mut spec = spec;
            match r.below(40) {
                0..=3 => {
                    if let Some(e) = spec.ext.as_mut() {
                        e.2 = *b"SYS\0";
                        e.3 = *b"JOUR";
                    }
                }
                4 | 5 => spec.ext = Some((vmm(true, 2, 1), 2 + r.below(5) as u8, *b"XXXX", *b"TC\0\0")),
                6 | 7 => spec.ext = Some((vmm(true, 2, 2), 2, *b"CAN\0", *b"TC\0\0")),
                8 | 9 => spec.ext = Some((vmm(true, 0, 4), 13, *b"XXXX", *b"MMSG")),
                10 => spec.ext = Some((vmm(true, 0, 4), 1, *b"XXXX", *b"MDLT")),
                11 => spec.ext = Some((vmm(false, 3, 2), 0, *b"CAN\0", *b"TC\0\0")),
                12 => spec.ext = Some((vmm(true, 0, 4), r.pick(&[3u8, 5, 8]), *b"XXXX", *b"YYYY")),
                13 => spec.ext = None,
                _ => {}
            }
            rcv += r.below(50_000);
            tmsp = tmsp.wrapping_add(r.below(500) as u32);
            mk_msg(i, spec, rcv, tmsp, r)
        })
        .collect()
}

const NV: u8 = 0;
const REWRITE: u8 = 4;
const FT_KEEP: u8 = 5;
const FT_DROP: u8 = 6;

fn make_plugin(kind: u8) -> Box<dyn Plugin + Send> {
    let tests = concat!(env!("CARGO_MANIFEST_DIR"), "/tests");
    let cfg = match kind {
        0 => serde_json::json!({"name":"NonVerbose","fibexDir":tests}),
        1 => serde_json::json!({"name":"SomeIp","fibexDir":tests}),
        2 => serde_json::json!({"name":"CAN","fibexDir":tests}),
        3 => serde_json::json!({"name":"Muniic","jsonDir":format!("{}/muniic", tests)}),
        4 => serde_json::from_str(
            &std::fs::read_to_string(format!("{}/rewrite.cfg", tests)).unwrap(),
        )
        .unwrap(),
        5 => serde_json::json!({"name":"FileTransfer","allowSave":false,"keepFLDA":true}),
        _ => serde_json::json!({"name":"FileTransfer","allowSave":false,"keepFLDA":false}),
    };
    let mut eac = EacStats::new();
    get_plugin(cfg.as_object().unwrap(), &mut eac)
        .unwrap_or_else(|| panic!("plugin {} not created", kind))
}

fn choose_plugins(r: &mut Rng) -> Vec<u8> {
    let mut kinds: Vec<u8> = (0..6u8).filter(|_| r.chance(60)).collect();
    if kinds.is_empty() {
        kinds.push(r.below(6) as u8);
    }
    for k in kinds.iter_mut() {
        if *k == FT_KEEP && r.chance(50) {
            *k = FT_DROP;
        }
    }
    // shuffle
    for i in (1..kinds.len()).rev() {
        let j = r.below(i as u64 + 1) as usize;
        kinds.swap(i, j);
    }
    kinds
}

fn is_flda(m: &DltMessage) -> bool {
    m.is_verbose()
        && m.mstp() == adlt::dlt::DltMessageType::Log(adlt::dlt::DltMessageLogType::Info)
        && m.noar() == 5
        && FileTransferPlugin::is_type(m, "FLDA")
}

/// checks the clauses of the property for one msg. Returns the violated clauses
fn check_msg(kinds: &[u8], before: &DltMessage, after: &DltMessage, forwarded: bool) -> Vec<String> {
    let mut v = vec![];
    if !forwarded && !(kinds.contains(&FT_DROP) && is_flda(before)) {
        v.push("dropped".to_string());
    }
    if before.index != after.index {
        v.push("index".into());
    }
    if before.reception_time_us != after.reception_time_us {
        v.push("reception time".into());
    }
    if before.ecu != after.ecu {
        v.push("ecu".into());
    }
    if before.payload != after.payload {
        v.push("payload".into());
    }
    if before.lifecycle != after.lifecycle {
        v.push("lifecycle".into());
    }
    if before.standard_header != after.standard_header {
        v.push("standard header".into());
    }
    if before.extended_header.is_some() {
        if before.extended_header != after.extended_header {
            v.push("existing extended header".into());
        }
    } else if after.extended_header.is_some() && !kinds.contains(&NV) {
        v.push("extended header added w.o. non-verbose plugin".into());
    }
    if before.timestamp_dms != after.timestamp_dms {
        let rewrite_may = kinds.contains(&REWRITE)
            && after.apid() == Some(&DltChar4::from_buf(b"SYS\0"))
            && after.ctid() == Some(&DltChar4::from_buf(b"JOUR"));
        if !rewrite_may {
            v.push("timestamp".into());
        }
    }
    v
}

#[test]
fn decoding_plugins_keep_stream_intact() {
    let mut r = Rng(0x1234_5678_9abc_def1);
    let mut failures: Vec<String> = vec![];
    let mut nr_text_changed = [0usize; 7];
    'streams: for stream_nr in 0..3000 {
        let kinds = choose_plugins(&mut r);
        let mut plugins: Vec<_> = kinds.iter().map(|k| make_plugin(*k)).collect();
        let msgs = gen_stream(&mut r, 300);
        for m in msgs {
            let before = m.clone();
            let mut m = m;
            let mut forwarded = true;
            for (k, p) in kinds.iter().zip(plugins.iter_mut()) {
                let text_before = m.payload_text.clone();
                match catch_unwind(AssertUnwindSafe(|| p.process_msg(&mut m))) {
                    Ok(true) => {}
                    Ok(false) => {
                        forwarded = false;
                        break;
                    }
                    Err(_) => {
                        failures.push(format!(
                            "stream {} plugins {:?}: plugin {} PANICKED on {:?}",
                            stream_nr, kinds, k, before
                        ));
                        continue 'streams;
                    }
                }
                if text_before != m.payload_text {
                    nr_text_changed[*k as usize] += 1;
                }
            }
            let violated = check_msg(&kinds, &before, &m, forwarded);
            if !violated.is_empty() && failures.len() < 20 {
                failures.push(format!(
                    "stream {} plugins {:?}: {:?} changed: before={:?} after={:?}",
                    stream_nr, kinds, violated, before, m
                ));
            }
        }
    }
    println!("msgs where a plugin changed the text (by plugin kind): {:?}", nr_text_changed);
    // the harness is only meaningful if every decoder was really triggered:
    for k in 0..=4 {
        assert!(nr_text_changed[k] > 100, "plugin kind {} hardly triggered", k);
    }
    assert!(failures.is_empty(), "{} violations:\n{}", failures.len(), failures.join("\n"));
}

#[test]
fn plugins_process_msgs_keeps_order() {
    let mut r = Rng(0xfeed_beef_1234_0001);
    for stream_nr in 0..60 {
        let kinds = choose_plugins(&mut r);
        let plugins: Vec<_> = kinds.iter().map(|k| make_plugin(*k)).collect();
        let msgs = gen_stream(&mut r, 300);
        let expected: Vec<u32> = msgs
            .iter()
            .filter(|m| !(kinds.contains(&FT_DROP) && is_flda(m)))
            .map(|m| m.index)
            .collect();
        let (tx, rx) = std::sync::mpsc::channel();
        let (tx2, rx2) = std::sync::mpsc::channel();
        for m in msgs {
            tx.send(m).unwrap();
        }
        drop(tx);
        let t = std::thread::spawn(move || plugins_process_msgs(rx, &|m| tx2.send(m), plugins).map(|p| p.len()));
        let res = t.join();
        assert!(res.is_ok(), "stream {} plugins {:?}: plugin thread panicked", stream_nr, kinds);
        assert_eq!(res.unwrap().unwrap(), kinds.len());
        let got: Vec<u32> = rx2.iter().map(|m| m.index).collect();
        assert_eq!(got, expected, "stream {} plugins {:?}", stream_nr, kinds);
    }
}

// ---------------------------------------------------------------------------------------------
// anonymisation

fn adversarial_ids(prefix: u8, n: usize, r: &mut Rng) -> Vec<[u8; 4]> {
    let mut set: HashSet<[u8; 4]> = HashSet::new();
    let mut ids: Vec<[u8; 4]> = vec![];
    let mut add = |id: [u8; 4], ids: &mut Vec<[u8; 4]>| {
        if ids.len() < n && set.insert(id) {
            ids.push(id);
        }
    };
    // ids that look like the pseudonyms, in reverse order so that no id maps to itself
    for i in (1..=400).rev() {
        let s = format!("{}{:03}", prefix as char, i);
        let b = s.as_bytes();
        add([b[0], b[1], b[2], b[3]], &mut ids);
    }
    // the overflow pseudonyms and near misses
    for s in [b"E99A", b"A99A", b"C99A", b"E100", b"E000", b"e001", b"E01\0", b"E1\0\0"] {
        add(*s, &mut ids);
    }
    // ids that differ only in padding / case / non printable chars
    for c in b'A'..=b'Z' {
        for id in [
            [c, 0, 0, 0],
            [c, b' ', b' ', b' '],
            [c, 0, b' ', 0],
            [c, b' ', 0, 0],
            [c | 0x20, 0, 0, 0],
            [c, 1, 0, 0],
            [c, b'-', 0, 0],
            [c, 0xff, 0, 0],
            [c, b'?', 0, 0],
            [0, c, 0, 0],
            [c, 0, 0, c],
            [c, c, c, c],
        ] {
            add(id, &mut ids);
        }
    }
    for id in [[0u8; 4], [b' '; 4], [0xff; 4], [b'-'; 4], [0, 0, 0, 1], [1, 0, 0, 0]] {
        add(id, &mut ids);
    }
    while ids.len() < n {
        let b = r.bytes(4);
        add([b[0], b[1], b[2], b[3]], &mut ids);
    }
    ids
}

fn anon_msg(index: u32, ecu: [u8; 4], ac: Option<([u8; 4], [u8; 4])>, r: &mut Rng) -> DltMessage {
    let be = r.chance(30);
    let verbose = r.chance(50);
    let payload = if verbose {
        a_str(be, "secret")
    } else {
        let mut p = 4711u32.to_le_bytes().to_vec();
        p.extend(r.bytes(6));
        p
    };
    let spec = Spec {
        ecu,
        ext: ac.map(|(a, c)| (vmm(verbose, 0, 4), 1, a, c)),
        be,
        payload,
    };
    let rcv = 1_700_000_000_000_000 + r.below(1_000_000_000);
    let tmsp = r.next() as u32;
    mk_msg(index, spec, rcv, tmsp, r)
}

#[test]
fn anonymise_pseudonyms_bijective() {
    let mut r = Rng(0x0bad_cafe_dead_beef);
    let ecus = adversarial_ids(b'E', 999, &mut r);
    let apids = adversarial_ids(b'A', 999, &mut r);
    let ctids = adversarial_ids(b'C', 999, &mut r);
    assert_eq!((ecus.len(), apids.len(), ctids.len()), (999, 999, 999));

    // the id triples: every ecu alone + with a few apid/ctid, one ecu with 999 apids, one apid with 999 ctids
    let mut triples: Vec<([u8; 4], Option<([u8; 4], [u8; 4])>)> = vec![];
    for (i, e) in ecus.iter().enumerate() {
        triples.push((*e, None));
        triples.push((*e, Some((apids[i % 7], ctids[i % 5]))));
        triples.push((*e, Some((apids[(i + 1) % 7], ctids[i % 5]))));
    }
    for a in &apids {
        triples.push((ecus[3], Some((*a, ctids[0]))));
    }
    for c in &ctids {
        triples.push((ecus[3], Some((apids[10], *c))));
        triples.push((ecus[500], Some((apids[10], *c))));
    }
    // every triple occurs twice, 2nd time in a different order
    let mut order: Vec<usize> = (0..triples.len()).collect();
    for i in (1..order.len()).rev() {
        let j = r.below(i as u64 + 1) as usize;
        order.swap(i, j);
    }
    let all: Vec<usize> = (0..triples.len()).chain(order).collect();

    let mut plugin = AnonymizePlugin::new("anon");
    let mut ecu_map: HashMap<[u8; 4], [u8; 4]> = HashMap::new();
    let mut apid_map: HashMap<([u8; 4], [u8; 4]), ([u8; 4], [u8; 4])> = HashMap::new();
    let mut ctid_map: HashMap<([u8; 4], [u8; 4], [u8; 4]), ([u8; 4], [u8; 4], [u8; 4])> =
        HashMap::new();
    let mut errs = vec![];
    for (index, t) in all.iter().enumerate() {
        let (ecu, ac) = triples[*t];
        let before = anon_msg(index as u32, ecu, ac, &mut r);
        let mut m = before.clone();
        assert!(plugin.process_msg(&mut m), "anonymiser dropped a msg");
        assert_eq!(
            (before.index, before.reception_time_us, before.timestamp_dms, before.lifecycle),
            (m.index, m.reception_time_us, m.timestamp_dms, m.lifecycle)
        );
        assert_eq!(before.standard_header, m.standard_header);
        assert_eq!(before.extended_header.is_some(), m.extended_header.is_some());
        let pe = *m.ecu.as_buf();
        if *ecu_map.entry(ecu).or_insert(pe) != pe {
            errs.push(format!("ecu {:?} got two pseudonyms", ecu));
        }
        if let Some((a, c)) = ac {
            let pa = *m.apid().unwrap().as_buf();
            let pc = *m.ctid().unwrap().as_buf();
            assert_eq!(
                before.extended_header.as_ref().unwrap().verb_mstp_mtin,
                m.extended_header.as_ref().unwrap().verb_mstp_mtin
            );
            if *apid_map.entry((ecu, a)).or_insert((pe, pa)) != (pe, pa) {
                errs.push(format!("apid {:?}/{:?} got two pseudonyms", ecu, a));
            }
            if *ctid_map.entry((ecu, a, c)).or_insert((pe, pa, pc)) != (pe, pa, pc) {
                errs.push(format!("ctid {:?}/{:?}/{:?} got two pseudonyms", ecu, a, c));
            }
        }
    }
    // distinct ids -> distinct pseudonyms
    let pe: HashSet<_> = ecu_map.values().collect();
    let pa: HashSet<_> = apid_map.values().collect();
    let pc: HashSet<_> = ctid_map.values().collect();
    if pe.len() != ecu_map.len() {
        errs.push(format!("{} ecus -> {} pseudonyms", ecu_map.len(), pe.len()));
    }
    if pa.len() != apid_map.len() {
        errs.push(format!("{} ecu/apids -> {} pseudonyms", apid_map.len(), pa.len()));
    }
    if pc.len() != ctid_map.len() {
        errs.push(format!("{} ecu/apid/ctids -> {} pseudonyms", ctid_map.len(), pc.len()));
    }
    assert_eq!(ecu_map.len(), 999);
    assert!(errs.is_empty(), "{}", errs.join("\n"));
}

#[allow(clippy::too_many_arguments)]
fn raw_msg(
    storage_ecu: [u8; 4],
    rcv_us: u64,
    std_ecu: Option<[u8; 4]>,
    session: Option<u32>,
    tmsp: Option<u32>,
    ext: Option<Ext>,
    be: bool,
    mcnt: u8,
    payload: &[u8],
) -> Vec<u8> {
    let mut v = b"DLT\x01".to_vec();
    v.extend_from_slice(&((rcv_us / 1_000_000) as u32).to_le_bytes());
    v.extend_from_slice(&((rcv_us % 1_000_000) as u32).to_le_bytes());
    v.extend_from_slice(&storage_ecu);
    let mut htyp = 0x20u8;
    let mut len = 4usize + payload.len();
    if ext.is_some() {
        htyp |= 1;
        len += 10;
    }
    if be {
        htyp |= 2;
    }
    if std_ecu.is_some() {
        htyp |= 4;
        len += 4;
    }
    if session.is_some() {
        htyp |= 8;
        len += 4;
    }
    if tmsp.is_some() {
        htyp |= 0x10;
        len += 4;
    }
    v.push(htyp);
    v.push(mcnt);
    v.extend_from_slice(&(len as u16).to_be_bytes());
    if let Some(e) = std_ecu {
        v.extend_from_slice(&e);
    }
    if let Some(s) = session {
        v.extend_from_slice(&s.to_be_bytes());
    }
    if let Some(t) = tmsp {
        v.extend_from_slice(&t.to_be_bytes());
    }
    if let Some((vmm, noar, a, c)) = ext {
        v.push(vmm);
        v.push(noar);
        v.extend_from_slice(&a);
        v.extend_from_slice(&c);
    }
    v.extend_from_slice(payload);
    v
}

fn parse_all(data: &[u8]) -> Vec<DltMessage> {
    let mut msgs = vec![];
    let mut off = 0usize;
    while off < data.len() {
        match parse_dlt_with_storage_header(msgs.len() as u32, &data[off..]) {
            Ok((consumed, m)) => {
                off += consumed;
                msgs.push(m);
            }
            Err(e) => panic!("parse error at offset {}: {}", off, e),
        }
    }
    msgs
}

type LcInfo = ([u8; 4], u64, u64, u32);
fn detect_lcs(msgs: Vec<DltMessage>) -> (Vec<DltMessage>, Vec<LcInfo>) {
    let (tx, rx) = std::sync::mpsc::channel();
    let (tx2, rx2) = std::sync::mpsc::channel();
    for m in msgs {
        tx.send(m).unwrap();
    }
    drop(tx);
    let (lcs_r, lcs_w) =
        evmap::new::<adlt::lifecycle::LifecycleId, adlt::lifecycle::LifecycleItem>();
    let _lcs_w = adlt::lifecycle::parse_lifecycles_buffered_from_stream(lcs_w, rx, &|m| tx2.send(m));
    drop(tx2);
    let out: Vec<DltMessage> = rx2.iter().collect();
    let rh = lcs_r.read().unwrap();
    let lcs = adlt::lifecycle::get_sorted_lifecycles_as_vec(&rh)
        .iter()
        .map(|lc| (*lc.ecu.as_buf(), lc.start_time, lc.end_time(), lc.nr_msgs))
        .collect();
    (out, lcs)
}

#[test]
fn anonymised_trace_has_same_lifecycles() {
    let mut r = Rng(0x5eed_0000_1111_2222);
    // (storage header ecu, standard header ecu)
    let ecus: [([u8; 4], Option<[u8; 4]>); 5] = [
        (*b"AAAA", None),
        (*b"AAAA", Some(*b"BBBB")),
        (*b"E002", None),
        (*b"CCCC", Some(*b"E001")),
        (*b"AA\0\0", Some(*b"AA  ")),
    ];
    let mut raw: Vec<(u64, Vec<u8>)> = vec![];
    let t0 = 1_700_000_000_000_000u64;
    for (ei, (s_ecu, h_ecu)) in ecus.iter().enumerate() {
        for lc in 0..4u64 {
            let lc_start = t0 + lc * 150_000_000 + ei as u64 * 7_000_000;
            let n = 30 + r.below(30);
            for i in 0..n {
                let tmsp_us = 1_000_000 + i * 200_000 + r.below(1000) * 100;
                let rcv = lc_start + tmsp_us + r.below(50_000);
                let be = r.chance(30);
                let (ext, payload, tmsp): (Option<Ext>, Vec<u8>, Option<u32>) = match r.below(10) {
                    0 => (None, r.bytes(8), Some((tmsp_us / 100) as u32)),
                    1 => (
                        // control request: timestamp from another clock
                        Some((vmm(false, 3, 1), 0, *b"DA1\0", *b"DC1\0")),
                        vec![0x13, 0, 0, 0],
                        Some(r.next() as u32),
                    ),
                    2 => (
                        Some((vmm(false, 3, 2), 0, *b"DA1\0", *b"DC1\0")),
                        {
                            let mut p = if be {
                                19u32.to_be_bytes().to_vec()
                            } else {
                                19u32.to_le_bytes().to_vec()
                            };
                            p.push(0);
                            p.extend_from_slice(&if be { 3u32.to_be_bytes() } else { 3u32.to_le_bytes() });
                            p.extend_from_slice(b"v12");
                            p
                        },
                        Some((tmsp_us / 100) as u32),
                    ),
                    3 => (
                        // no timestamp
                        Some((vmm(true, 0, 4), 1, rand_id(&mut r), rand_id(&mut r))),
                        a_str(be, "no timestamp"),
                        None,
                    ),
                    4 => (
                        Some((vmm(false, 0, 4), 0, rand_id(&mut r), rand_id(&mut r))),
                        r.bytes(5),
                        Some((tmsp_us / 100) as u32),
                    ),
                    _ => (
                        Some((vmm(true, 0, 4), 1, rand_id(&mut r), rand_id(&mut r))),
                        a_str(be, "hello world"),
                        Some((tmsp_us / 100) as u32),
                    ),
                };
                let session = if r.chance(30) { Some(r.next() as u32) } else { None };
                raw.push((
                    rcv,
                    raw_msg(*s_ecu, rcv, *h_ecu, session, tmsp, ext, be, i as u8, &payload),
                ));
            }
        }
    }
    raw.sort_by_key(|(rcv, _)| *rcv);
    let data: Vec<u8> = raw.into_iter().flat_map(|(_, b)| b).collect();
    let orig = parse_all(&data);
    let nr_msgs = orig.len();

    // anonymise + write + parse again
    let mut plugin = AnonymizePlugin::new("anon");
    let mut anon_data: Vec<u8> = vec![];
    let mut ecu_map: HashMap<[u8; 4], [u8; 4]> = HashMap::new();
    for m in &orig {
        let mut a = m.clone();
        assert!(plugin.process_msg(&mut a));
        assert_eq!((a.reception_time_us, a.timestamp_dms), (m.reception_time_us, m.timestamp_dms));
        ecu_map.insert(*a.ecu.as_buf(), *m.ecu.as_buf());
        a.to_write(&mut anon_data).unwrap();
    }
    assert_eq!(ecu_map.len(), 5, "ecus: {:?}", ecu_map);
    let anon = parse_all(&anon_data);
    assert_eq!(anon.len(), nr_msgs);
    for (a, m) in anon.iter().zip(orig.iter()) {
        assert_eq!((a.reception_time_us, a.timestamp_dms), (m.reception_time_us, m.timestamp_dms));
        assert_eq!(a.standard_header.has_timestamp(), m.standard_header.has_timestamp());
        assert_eq!(ecu_map.get(a.ecu.as_buf()), Some(m.ecu.as_buf()));
    }

    let (orig_out, orig_lcs) = detect_lcs(orig);
    let (anon_out, anon_lcs) = detect_lcs(anon);
    assert_eq!(orig_out.len(), nr_msgs);
    assert_eq!(anon_out.len(), nr_msgs);
    println!("orig lifecycles: {:?}", orig_lcs);
    assert!(orig_lcs.len() >= 15, "expected >=15 lifecycles, got {}", orig_lcs.len());
    let mut anon_lcs_mapped: Vec<LcInfo> = anon_lcs
        .iter()
        .map(|(e, s, en, n)| (*ecu_map.get(e).unwrap(), *s, *en, *n))
        .collect();
    let mut orig_lcs = orig_lcs;
    orig_lcs.sort();
    anon_lcs_mapped.sort();
    assert_eq!(orig_lcs, anon_lcs_mapped);
    // same partition of the msgs into lifecycles
    let mut lc_map: HashMap<u32, u32> = HashMap::new();
    for (o, a) in orig_out.iter().zip(anon_out.iter()) {
        assert_eq!(o.index, a.index);
        assert_eq!(*lc_map.entry(o.lifecycle).or_insert(a.lifecycle), a.lifecycle);
    }
    let distinct: HashSet<_> = lc_map.values().collect();
    assert_eq!(distinct.len(), lc_map.len());
}

/// NOT a finding, documents a reading of the property: the APID pseudonyms are scoped per ECU (and the CTID
/// pseudonyms per ECU+APID). The qualified ids (ECU, APID, CTID) are mapped one-to-one (see
/// anonymise_pseudonyms_bijective) but the bare 4 char APID is not: the same APID gets different pseudonyms
/// on two ECUs and two different APIDs get the same pseudonym on two ECUs.
#[test]
#[ignore]
fn reading_dependent_apid_pseudonyms_are_scoped_per_ecu() {
    let mut r = Rng(7);
    let mut plugin = AnonymizePlugin::new("anon");
    let mut run = |ecu: &[u8; 4], apid: &[u8; 4]| {
        let mut m = anon_msg(0, *ecu, Some((*apid, *b"CTX\0")), &mut r);
        plugin.process_msg(&mut m);
        *m.apid().unwrap().as_buf()
    };
    let other_on_ecu1 = run(b"ECU1", b"APP\0");
    let sys_on_ecu1 = run(b"ECU1", b"SYS\0");
    let sys_on_ecu2 = run(b"ECU2", b"SYS\0");
    assert_eq!(sys_on_ecu1, sys_on_ecu2, "same APID, two pseudonyms");
    assert_ne!(other_on_ecu1, sys_on_ecu2, "two APIDs, same pseudonym");
}

/// FINDING 1 (borderline, the only test of this file that fails on the unchanged code w.o. --include-ignored):
/// the msg in memory is untouched by the non-verbose plugin but for the allowed insertion of the missing extended
/// header. But a (nearly) maximum size non-verbose msg without extended header cannot be written any more once
/// the plugin added the 10 byte extended header: DltStandardHeader::to_write computes the length in u16 without a
/// check. Debug build: overflow panic (in `adlt convert -o` the writer thread dies, all further msgs are lost).
/// Release build: the length wraps (65545 -> 9), the written msg is unreadable ("stdh.len too small"), i.e. the
/// msg is removed from the converted stream and 64k of garbage are in the file.
#[test]
fn finding1_borderline_max_size_msg_lost_on_write_after_nonverbose_added_ext_header() {
    let mut payload = 805312382u32.to_le_bytes().to_vec(); // frame with BYTE-LENGTH 0 of tests/non_verbose2*.xml
    payload.resize(65535 - 4 - 4, 0x55); // max payload for a msg with standard header + timestamp
    let raw = raw_msg(*b"Ecu1", 1_700_000_000_000_000, None, None, Some(10_000), None, false, 0, &payload);
    let mut m = parse_all(&raw).pop().unwrap();
    let before = m.clone();
    let mut out = vec![];
    m.to_write(&mut out).unwrap();
    assert_eq!(out, raw, "w.o. plugin the msg is written as it was read");

    let mut nv = make_plugin(NV);
    assert!(nv.process_msg(&mut m));
    assert!(before.extended_header.is_none() && m.extended_header.is_some());
    assert_eq!(before.payload, m.payload);
    let written = catch_unwind(AssertUnwindSafe(|| {
        let mut out = vec![];
        m.to_write(&mut out).unwrap();
        out
    }));
    let out = written.expect("to_write panicked (u16 length overflow)");
    let reparsed = parse_all(&out);
    assert_eq!(reparsed.len(), 1);
    assert_eq!(reparsed[0].payload, before.payload);
}

/// NOT within the stated range ("all id populations up to the pseudonym capacity"): the 1000th id.
/// The code intends a fallback pseudonym ("E99A") but DltChar4::from_str never fails for ascii, it truncates
/// "E1000" to "E100" which is the pseudonym of the 100th ecu.
#[test]
#[ignore]
fn out_of_range_1000_ecus_collide() {
    let mut r = Rng(42);
    let ecus = adversarial_ids(b'E', 1000, &mut r);
    let mut plugin = AnonymizePlugin::new("anon");
    let mut pseudonyms: HashMap<[u8; 4], [u8; 4]> = HashMap::new();
    for (i, e) in ecus.iter().enumerate() {
        let mut m = anon_msg(i as u32, *e, None, &mut r);
        plugin.process_msg(&mut m);
        if let Some(prev) = pseudonyms.insert(*m.ecu.as_buf(), *e) {
            panic!(
                "ecu #{} {:?} and ecu {:?} share the pseudonym {}",
                i + 1,
                e,
                prev,
                m.ecu
            );
        }
    }
}
