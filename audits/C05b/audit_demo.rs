// exploratory random harness (audit C05b)
use adlt::dlt::{DltChar4, DltExtendedHeader, DltMessage, DltStandardHeader};
use adlt::lifecycle::*;
use std::cell::RefCell;

struct Rng(u64);
impl Rng {
    fn next(&mut self) -> u64 {
        let mut x = self.0;
        x ^= x << 13;
        x ^= x >> 7;
        x ^= x << 17;
        self.0 = x;
        x
    }
    fn below(&mut self, n: u64) -> u64 {
        if n == 0 {
            0
        } else {
            self.next() % n
        }
    }
    fn chance(&mut self, pct: u64) -> bool {
        self.below(100) < pct
    }
}

fn mk(
    index: u32,
    ecu: &[u8; 4],
    recv: u64,
    ts_dms: u32,
    has_ts: bool,
    kind: u8, /*0 log, 1 ctrl req, 2 ctrl resp */
    payload: Vec<u8>,
) -> DltMessage {
    DltMessage {
        index,
        reception_time_us: recv,
        ecu: DltChar4::from_buf(ecu),
        timestamp_dms: ts_dms,
        standard_header: DltStandardHeader {
            htyp: 0x21 | if has_ts { 0x10 } else { 0 },
            len: 0,
            mcnt: 0,
        },
        extended_header: match kind {
            0 => {
                if index % 3 == 0 {
                    None
                } else {
                    Some(DltExtendedHeader {
                        verb_mstp_mtin: 0x41,
                        noar: 0,
                        apid: DltChar4::from_buf(b"APID"),
                        ctid: DltChar4::from_buf(b"CTID"),
                    })
                }
            }
            1 => Some(DltExtendedHeader {
                verb_mstp_mtin: (0x3 << 1) | (0x01 << 4),
                noar: 0,
                apid: DltChar4::from_buf(b"APID"),
                ctid: DltChar4::from_buf(b"CTID"),
            }),
            _ => Some(DltExtendedHeader {
                verb_mstp_mtin: (0x3 << 1) | (0x02 << 4),
                noar: 0,
                apid: DltChar4::from_buf(b"APID"),
                ctid: DltChar4::from_buf(b"CTID"),
            }),
        },
        payload,
        payload_text: None,
        lifecycle: 0,
    }
}

struct Ecu {
    name: [u8; 4],
    boot: u64,  // real boot time (us)
    up: u64,    // current uptime (us)
    shift: u64, // suspend shift
}

fn gen_stream(seed: u64) -> Vec<DltMessage> {
    let mut r = Rng(seed.wrapping_mul(0x9E3779B97F4A7C15) | 1);
    let n_ecus = 1 + r.below(3) as usize;
    let base: u64 = match r.below(4) {
        0 => 0,
        1 => 5_000_000,
        2 => 100_000_000,
        _ => 1_640_995_200_000_000,
    };
    let names: [[u8; 4]; 3] = [*b"ECU1", *b"ECU2", *b"E3\0\0"];
    let mut ecus: Vec<Ecu> = (0..n_ecus)
        .map(|i| Ecu {
            name: names[i],
            boot: base + r.below(20_000_000),
            up: r.below(10_000_000),
            shift: 0,
        })
        .collect();
    let n_sel = r.below(3);
    let n_msgs = 2 + r.below(match n_sel {
        0 => 8,
        1 => 40,
        _ => 300,
    });
    let step_max: u64 = match r.below(4) {
        0 => 100_000,
        1 => 2_000_000,
        2 => 15_000_000,
        _ => 70_000_000,
    };
    let delay_max: u64 = match r.below(4) {
        0 => 0,
        1 => 1_000_000,
        2 => 30_000_000,
        _ => 90_000_000,
    };
    let p_reboot = r.below(15);
    let p_suspend = r.below(10);
    let p_garbage = r.below(15);
    let p_ctrl = r.below(15);
    let p_nots = r.below(10);
    let p_backwards = r.below(10);
    let mut msgs = Vec::new();
    let mut now = base; // logger clock
    for i in 0..n_msgs {
        let e = r.below(n_ecus as u64) as usize;
        let step = r.below(step_max + 1);
        now += step;
        let ecu = &mut ecus[e];
        if r.chance(p_reboot) {
            // reboot
            ecu.boot = now + r.below(5_000_000);
            ecu.up = r.below(3_000_000);
            ecu.shift = 0;
            if ecu.boot + ecu.up > now {
                now = ecu.boot + ecu.up;
            }
        } else if r.chance(p_suspend) {
            let sus = 10_000_000 + r.below(100_000_000);
            now += sus;
            ecu.shift += sus;
        }
        // uptime from logger clock
        let real_now = now;
        let up = real_now.saturating_sub(ecu.boot + ecu.shift);
        ecu.up = up;
        let delay = r.below(delay_max + 1);
        let mut recv = real_now + if r.chance(50) { delay } else { 0 };
        if r.chance(p_backwards) {
            recv = recv.saturating_sub(r.below(120_000_000));
        }
        let mut ts_dms = (up / 100) as u32;
        let mut has_ts = true;
        let mut kind = 0u8;
        if r.chance(p_garbage) {
            ts_dms = match r.below(4) {
                0 => 0,
                1 => u32::MAX,
                2 => r.next() as u32,
                _ => ts_dms.wrapping_add(r.below(2_000_000) as u32),
            };
        }
        if r.chance(p_nots) {
            has_ts = false;
            ts_dms = 0;
        }
        let mut payload = vec![];
        if r.chance(p_ctrl) {
            kind = 1 + r.below(2) as u8;
            if kind == 1 {
                // ctrl request: time from logger clock domain
                ts_dms = r.next() as u32;
            } else {
                let l = r.below(12) as usize;
                payload = (0..l).map(|_| r.next() as u8).collect();
                if r.chance(50) {
                    payload = vec![0x13, 0, 0, 0, 0, 3, 0, 0, 0, b'a', b'b', b'c'];
                }
            }
        }
        msgs.push(mk((i as u32) * 60_001, &ecu.name, recv, ts_dms, has_ts, kind, payload));
    }
    msgs
}

fn check_stream(msgs: &[DltMessage], prepopulate_from: Option<&[DltMessage]>) -> Result<(), String> {
    let input = msgs.to_vec();
    let prep = prepopulate_from.map(|p| p.to_vec());
    let res = std::panic::catch_unwind(move || {
        let (lcs_r, mut lcs_w) = evmap::new::<LifecycleId, LifecycleItem>();
        if let Some(prep) = prep {
            let (tx, rx) = std::sync::mpsc::channel();
            for m in prep {
                tx.send(m).unwrap();
            }
            drop(tx);
            lcs_w = parse_lifecycles_buffered_from_stream(lcs_w, rx, &|_m| Ok(()));
        }
        let (tx, rx) = std::sync::mpsc::channel();
        for m in input.iter() {
            tx.send(m.clone()).unwrap();
        }
        drop(tx);
        let out: RefCell<Vec<DltMessage>> = RefCell::new(Vec::new());
        let errs: RefCell<Vec<String>> = RefCell::new(Vec::new());
        let lcs_w = parse_lifecycles_buffered_from_stream(lcs_w, rx, &|m: DltMessage| {
            // rule #1: at forward time the lifecycle is readable
            match lcs_r.get_one(&m.lifecycle) {
                Some(lc) => {
                    if lc.ecu != m.ecu {
                        errs.borrow_mut().push(format!(
                            "at forward: msg #{} ecu {:?} lc {} has ecu {:?}",
                            m.index, m.ecu, m.lifecycle, lc.ecu
                        ));
                    }
                }
                None => errs.borrow_mut().push(format!(
                    "at forward: msg #{} lc {} not in table",
                    m.index, m.lifecycle
                )),
            }
            out.borrow_mut().push(m);
            Ok(())
        });
        let out = out.into_inner();
        let mut errs = errs.into_inner();
        if out.len() != input.len() {
            errs.push(format!("forwarded {} of {} msgs", out.len(), input.len()));
        }
        for (i, (o, inp)) in out.iter().zip(input.iter()).enumerate() {
            let mut o2 = o.clone();
            o2.lifecycle = inp.lifecycle;
            if &o2 != inp {
                errs.push(format!("pos {}: got #{} expected #{}", i, o.index, inp.index));
                break;
            }
            if o.lifecycle == 0 {
                errs.push(format!("pos {}: lifecycle 0", i));
            }
            match lcs_r.get_one(&o.lifecycle) {
                Some(lc) => {
                    if lc.ecu != o.ecu {
                        errs.push(format!("final: msg #{} wrong ecu lc", o.index));
                    }
                    if lc.was_merged().is_some() {
                        errs.push(format!("final: msg #{} lc merged", o.index));
                    }
                }
                None => errs.push(format!("final: msg #{} lc {} not in table", o.index, o.lifecycle)),
            }
        }
        // nr_msgs consistency
        if let Some(rd) = lcs_r.read() {
            for (id, b) in &rd {
                let lc = b.get_one().unwrap();
                let cnt = out.iter().filter(|m| m.lifecycle == *id).count();
                if prepopulate_from_is_none(&errs) && false {
                    let _ = cnt;
                }
                let _ = lc;
            }
        }
        drop(lcs_w);
        errs
    });
    match res {
        Ok(errs) => {
            if errs.is_empty() {
                Ok(())
            } else {
                Err(errs.join("; "))
            }
        }
        Err(_) => Err("PANIC".to_string()),
    }
}

fn prepopulate_from_is_none(_e: &[String]) -> bool {
    true
}

fn gen_grid(seed: u64) -> Vec<DltMessage> {
    let mut r = Rng(seed.wrapping_mul(0x9E3779B97F4A7C15) | 1);
    let base: u64 = match r.below(3) {
        0 => 0,
        1 => 100_000_000,
        _ => 1_640_995_200_000_000,
    };
    let s = 1_000_000u64;
    let recvs = [0, 1, 2, 9, 10, 11, 12, 30, 59, 60, 61, 62, 63, 70, 71, 72, 100, 121, 122, 130, 131, 200, 400];
    let tss = [0u64, 1, 2, 5, 9, 10, 11, 30, 59, 60, 61, 62, 70, 100, 121, 130, 200];
    let n = 3 + r.below(8);
    let n_ecus = 1 + r.below(2);
    let monotonic = r.chance(70);
    let mut msgs = Vec::new();
    let mut last_recv = 0;
    for i in 0..n {
        let mut recv = base + recvs[r.below(recvs.len() as u64) as usize] * s + r.below(3) * 500_000;
        if monotonic && recv < last_recv {
            recv = last_recv + r.below(3) * s;
        }
        last_recv = recv;
        let mut ts = tss[r.below(tss.len() as u64) as usize] * s + r.below(2) * 500_000;
        if r.chance(5) {
            ts = u32::MAX as u64 * 100;
        }
        let kind = if r.chance(10) { 1 } else { 0 };
        let has_ts = !r.chance(8);
        if !has_ts {
            ts = 0;
        }
        let ecu: &[u8; 4] = if r.below(n_ecus) == 0 { b"ECU1" } else { b"ECU2" };
        msgs.push(mk((i as u32) * 60_001, ecu, recv, (ts / 100) as u32, has_ts, kind, vec![]));
    }
    msgs
}

#[test]
fn grid_streams() {
    let mut failures = 0;
    let n: u64 = std::env::var("AUDIT_N").ok().and_then(|s| s.parse().ok()).unwrap_or(20000);
    let start: u64 = std::env::var("AUDIT_START").ok().and_then(|s| s.parse().ok()).unwrap_or(1);
    for seed in start..start + n {
        let msgs = gen_grid(seed);
        let prep = if seed % 5 == 0 { Some(gen_grid(seed ^ 0xabcdef)) } else { None };
        if let Err(e) = check_stream(&msgs, prep.as_deref()) {
            failures += 1;
            if failures <= 10 {
                println!("seed {} ({} msgs, prep={}): {}", seed, msgs.len(), prep.is_some(), e);
            }
        }
    }
    assert_eq!(failures, 0);
}

#[test]
fn random_streams() {
    let mut failures = 0;
    let n: u64 = std::env::var("AUDIT_N").ok().and_then(|s| s.parse().ok()).unwrap_or(20000);
    let start: u64 = std::env::var("AUDIT_START").ok().and_then(|s| s.parse().ok()).unwrap_or(1);
    for seed in start..start + n {
        let msgs = gen_stream(seed);
        let prep = if seed % 4 == 0 { Some(gen_stream(seed ^ 0xabcdef)) } else { None };
        if let Err(e) = check_stream(&msgs, prep.as_deref()) {
            failures += 1;
            if failures <= 10 {
                println!("seed {} ({} msgs, prep={}): {}", seed, msgs.len(), prep.is_some(), e);
            }
        }
    }
    assert_eq!(failures, 0);
}

/// OUT OF RANGE observation (not a finding): msg.index close to u32::MAX overflows
/// `last_regular_refresh_index + 100_000` (debug builds panic, release builds wrap harmlessly).
#[test]
#[ignore]
fn observation_index_near_u32_max() {
    let s = 1_000_000u64;
    let msgs = vec![
        mk(0, b"ECU1", 1000 * s, 10_000, true, 0, vec![]),
        mk(1, b"ECU1", 1100 * s, 1_010_000, true, 0, vec![]),
        mk(u32::MAX - 10, b"ECU1", 1101 * s, 1_020_000, true, 0, vec![]),
        mk(u32::MAX - 9, b"ECU1", 1102 * s, 1_030_000, true, 0, vec![]),
    ];
    assert_eq!(check_stream(&msgs, None), Ok(()));
}
