// audit C17b: embedded file transfers are reassembled bit-exactly or not at all
//
// uses only the public API of the crate (FileTransferPlugin via Plugin trait, plugin state).
use adlt::{
    dlt::{
        DltArg, DltChar4, DltMessage, DLT_TYLE_32BIT, DLT_TYPE_INFO_RAWD, DLT_TYPE_INFO_SINT,
        DLT_TYPE_INFO_STRG, DLT_TYPE_INFO_UINT,
    },
    plugins::{file_transfer::FileTransferPlugin, plugin::Plugin},
    utils::payload_from_args,
};
use serde_json::json;
use std::str::FromStr;

#[derive(Clone, Debug)]
enum Ev {
    /// serial, name, file size, nr packages, buffer size
    S(u32, String, u32, u32, u32),
    /// serial, package nr, data
    D(u32, i32, Vec<u8>),
    /// serial
    F(u32),
}

fn to_msg(ev: &Ev, ecu: &str, lifecycle: u32) -> DltMessage {
    let u = DLT_TYPE_INFO_UINT | DLT_TYLE_32BIT as u32;
    let si = DLT_TYPE_INFO_SINT | DLT_TYLE_32BIT as u32;
    let mk = |args: &[(u32, &[u8])], noar: u8| {
        let payload = payload_from_args(
            &args
                .iter()
                .map(|a| DltArg {
                    type_info: a.0,
                    is_big_endian: false,
                    payload_raw: a.1,
                })
                .collect::<Vec<DltArg>>(),
        );
        let mut m = DltMessage::get_testmsg_with_payload(false, noar, &payload);
        m.ecu = DltChar4::from_str(ecu).unwrap();
        m.lifecycle = lifecycle;
        m
    };
    match ev {
        Ev::S(serial, name, size, nr, buf) => {
            let mut n = name.as_bytes().to_vec();
            n.push(0);
            mk(
                &[
                    (DLT_TYPE_INFO_STRG, b"FLST\0"),
                    (u, &serial.to_le_bytes()),
                    (DLT_TYPE_INFO_STRG, &n),
                    (u, &size.to_le_bytes()),
                    (DLT_TYPE_INFO_STRG, b"2022-06-02 21:54:00\0"),
                    (u, &nr.to_le_bytes()),
                    (u, &buf.to_le_bytes()),
                    (DLT_TYPE_INFO_STRG, b"FLST\0"),
                ],
                8,
            )
        }
        Ev::D(serial, nr, data) => mk(
            &[
                (DLT_TYPE_INFO_STRG, b"FLDA\0"),
                (u, &serial.to_le_bytes()),
                (si, &nr.to_le_bytes()),
                (DLT_TYPE_INFO_RAWD, data),
                (DLT_TYPE_INFO_STRG, b"FLDA\0"),
            ],
            5,
        ),
        Ev::F(serial) => mk(
            &[
                (DLT_TYPE_INFO_STRG, b"FLFI\0"),
                (u, &serial.to_le_bytes()),
                (DLT_TYPE_INFO_STRG, b"FLFI\0"),
            ],
            3,
        ),
    }
}

/// the events of a fault free transfer
fn transfer(serial: u32, name: &str, content: &[u8], pkg: usize) -> Vec<Ev> {
    let chunks: Vec<&[u8]> = if content.is_empty() {
        vec![&[]]
    } else {
        content.chunks(pkg).collect()
    };
    let mut v = vec![Ev::S(
        serial,
        name.to_owned(),
        content.len() as u32,
        chunks.len() as u32,
        pkg as u32,
    )];
    for (i, c) in chunks.iter().enumerate() {
        v.push(Ev::D(serial, i as i32 + 1, c.to_vec()));
    }
    v.push(Ev::F(serial));
    v
}

/// result per listed transfer: (label, complete?, saved content if the save cmd worked)
fn run(evs: &[(Ev, &str, u32)]) -> Vec<(String, bool, Option<Vec<u8>>)> {
    let cfg = json!({"name": "f", "allowSave":true, "keepFLDA":false});
    let mut p = FileTransferPlugin::from_json(cfg.as_object().unwrap()).unwrap();
    for (ev, ecu, lc) in evs {
        let mut m = to_msg(ev, ecu, *lc);
        p.process_msg(&mut m);
    }
    let state = p.state();
    let state = state.read().unwrap();
    let items = state.value["treeItems"].as_array().unwrap();
    let mut res = vec![];
    for item in items.iter().skip(1) {
        // skip the "Sorted by name"
        let label = item["label"].as_str().unwrap().to_owned();
        let complete = item["iconPath"].as_str() == Some("file");
        let saved = if let Some(ctx) = item["cmdCtx"].as_object() {
            let file = tempfile::NamedTempFile::new().unwrap();
            let path = file.path().to_str().unwrap().to_owned();
            if (state.apply_command.unwrap())(
                &state.internal_data,
                "save",
                Some(json!({ "saveAs": path }).as_object().unwrap()),
                Some(ctx),
            ) {
                Some(std::fs::read(&path).unwrap())
            } else {
                None
            }
        } else {
            None
        };
        res.push((label, complete, saved));
    }
    res
}

fn run1(evs: &[Ev]) -> Vec<(String, bool, Option<Vec<u8>>)> {
    run(&evs
        .iter()
        .map(|e| (e.clone(), "ECU1", 1u32))
        .collect::<Vec<_>>())
}

/// FINDING 1: the announcement (FLST) is dropped, all packages arrive in order, the last package is
/// shorter than the others (file size not a multiple of the package size):
/// the transfer is reported as "Incomplete file transfer. Missed package 2" and cannot be saved.
/// (with a file size that is a multiple of the package size the same fault is recovered: complete + bit exact)
#[test]
fn finding1_dropped_announcement_short_last_package() {
    // control: size multiple of package size -> recovered
    let mut evs = transfer(10, "dir/x.bin", b"abcdefgh", 4);
    evs.remove(0);
    let res = run1(&evs);
    assert_eq!(res.len(), 1);
    assert!(res[0].1, "control: {:?}", res);
    assert_eq!(res[0].2.as_deref(), Some(&b"abcdefgh"[..]));

    // D 10 1 "abcd"; D 10 2 "ef"; F 10
    let mut evs = transfer(10, "dir/x.bin", b"abcdef", 4);
    evs.remove(0);
    let res = run1(&evs);
    assert_eq!(res.len(), 1);
    assert!(
        res[0].1,
        "all packages arrived in order but the transfer is not complete: {:?}",
        res
    );
    assert_eq!(res[0].2.as_deref(), Some(&b"abcdef"[..]));
}

/// FINDING 2 (edge of the range: the duplicated message is the announcement, not a data package):
/// S, D1, S (duplicate), D2, F: all packages arrive in order, but the duplicate of the announcement
/// restarts the transfer, D2 is then "unexpected" and neither of the two listed entries ever completes.
#[test]
fn finding2_duplicated_announcement_mid_transfer() {
    let base = transfer(10, "dir/x.bin", b"abcdef", 4);
    // control: the duplicate directly after the announcement is tolerated
    let mut evs = base.clone();
    evs.insert(1, base[0].clone());
    let res = run1(&evs);
    assert_eq!(res.iter().filter(|r| r.1).count(), 1, "control: {:?}", res);

    let mut evs = base.clone();
    evs.insert(2, base[0].clone()); // S D1 S D2 F
    let res = run1(&evs);
    let complete: Vec<_> = res.iter().filter(|r| r.1).collect();
    assert_eq!(
        complete.len(),
        1,
        "all packages arrived in order (announcement duplicated) but nothing complete: {:?}",
        res
    );
    assert_eq!(complete[0].2.as_deref(), Some(&b"abcdef"[..]));
}

/// exploration of the small model: all single faults on a single transfer (passes: nothing found beyond the findings).
/// prints all disagreements with the oracle of the property
#[test]
fn explore_single_faults() {
    let mut bad = vec![];
    for size in 0usize..=7 {
        let content: Vec<u8> = (0..size).map(|i| b'a' + i as u8).collect();
        for pkg in 1usize..=4 {
            let base = transfer(10, "dir/x.bin", &content, pkg);
            let n = base.len() - 2; // nr of packages
            let mut cases: Vec<(String, Vec<Ev>, Option<bool>)> = vec![];
            cases.push(("none".into(), base.clone(), Some(true)));
            for i in 1..=n {
                let mut v = base.clone();
                v.remove(i);
                cases.push((format!("drop D{}", i), v, Some(false)));
                for pos in i..=n + 1 {
                    let mut v = base.clone();
                    v.insert(pos + 1, base[i].clone());
                    cases.push((format!("dup D{} after idx {}", i, pos), v, Some(true)));
                }
                if i < n {
                    let mut v = base.clone();
                    v.swap(i, i + 1);
                    cases.push((format!("swap D{} D{}", i, i + 1), v, Some(false)));
                }
                for delta in [-1i32, 1] {
                    let mut v = base.clone();
                    if let Ev::D(s, nr, d) = &base[i] {
                        let mut d = d.clone();
                        if delta < 0 {
                            if d.is_empty() {
                                continue;
                            }
                            d.pop();
                        } else {
                            d.push(b'!');
                        }
                        v[i] = Ev::D(*s, *nr, d);
                    }
                    cases.push((format!("resize D{} by {}", i, delta), v, Some(false)));
                }
            }
            {
                let mut v = base.clone();
                v.remove(0);
                cases.push(("drop S".into(), v, None)); // see finding 1
                let mut v = base.clone();
                v.pop();
                cases.push(("drop F".into(), v, Some(true)));
                let mut v = base.clone();
                v.push(Ev::F(10));
                cases.push(("dup F".into(), v, Some(true)));
                let mut v = base.clone();
                v.swap(n, n + 1);
                cases.push(("swap Dn F".into(), v, Some(true)));
                let mut v = base.clone();
                v.swap(0, 1);
                cases.push(("swap S D1".into(), v, None));
                for pos in 0..=n + 1 {
                    let mut v = base.clone();
                    v.insert(pos + 1, base[0].clone());
                    cases.push((format!("dup S after idx {}", pos), v, None));
                }
            }
            for (name, evs, expect) in cases {
                let res = run1(&evs);
                let completes: Vec<_> = res.iter().filter(|r| r.1).collect();
                // never: damaged content as complete
                for c in &completes {
                    if c.2.as_deref() != Some(&content[..]) {
                        bad.push(format!(
                            "size {} pkg {} {}: complete with content {:?}",
                            size, pkg, name, c.2
                        ));
                    }
                }
                if completes.len() > 1 {
                    bad.push(format!(
                        "size {} pkg {} {}: {} complete entries",
                        size,
                        pkg,
                        name,
                        completes.len()
                    ));
                }
                match expect {
                    Some(true) if completes.is_empty() => bad.push(format!(
                        "size {} pkg {} {}: not complete: {:?}",
                        size, pkg, name, res
                    )),
                    Some(false) if !completes.is_empty() => bad.push(format!(
                        "size {} pkg {} {}: complete: {:?}",
                        size, pkg, name, res
                    )),
                    None => println!(
                        "info size {} pkg {} {}: complete={} entries={}",
                        size,
                        pkg,
                        name,
                        completes.len(),
                        res.len()
                    ),
                    _ => {}
                }
            }
        }
    }
    for b in &bad {
        println!("BAD {}", b);
    }
    assert!(bad.is_empty(), "{} disagreements", bad.len());
}

struct Rng(u64);
impl Rng {
    fn next(&mut self, n: usize) -> usize {
        self.0 = self.0.wrapping_mul(6364136223846793005).wrapping_add(1442695040888963407);
        ((self.0 >> 33) as usize) % n
    }
}

/// k concurrent transfers (same serial on distinct ecus/lifecycles and distinct serials), random interleavings,
/// one single fault in one of them, with autosave into a directory (allowSave false as adlt convert does it)
#[test]
fn explore_concurrent() {
    let mut rng = Rng(42);
    let mut bad = vec![];
    for round in 0..3000 {
        let k = 1 + rng.next(3);
        let dir = tempfile::tempdir().unwrap();
        // an existing file that must not be overwritten
        std::fs::write(dir.path().join("exists.bin"), b"orig").unwrap();
        let mut streams: Vec<(Vec<Ev>, &str, u32, Vec<u8>, String, Option<bool>)> = vec![];
        let ids = [("ECU1", 1u32, 10u32), ("ECU2", 1, 10), ("ECU1", 2, 10), ("ECU1", 1, 11)];
        let faulty = rng.next(k + 1); // k = none
        for t in 0..k {
            let (ecu, lc, serial) = ids[(t + round) % 4];
            let size = rng.next(9);
            let pkg = 1 + rng.next(4);
            let content: Vec<u8> = (0..size).map(|i| b'a' + (i + t * 7) as u8).collect();
            let name = match rng.next(5) {
                0 => format!("/tmp/a{}/f{}.bin", t, t),
                1 => format!("../../f{}.bin", t),
                2 => format!("d/../../f{}.bin", t),
                3 => "sub/exists.bin".to_string(),
                _ => format!("f{}.bin", t),
            };
            let mut evs = transfer(serial, &name, &content, pkg);
            let n = evs.len() - 2;
            let mut expect = Some(true);
            if t == faulty {
                let i = 1 + rng.next(n);
                match rng.next(7) {
                    0 => {
                        evs.remove(i);
                        expect = Some(false);
                    }
                    1 => {
                        let pos = i + rng.next(n + 2 - i);
                        evs.insert(pos + 1, evs[i].clone());
                    }
                    2 if i < n => {
                        evs.swap(i, i + 1);
                        expect = Some(false);
                    }
                    3 => {
                        if let Ev::D(_, _, d) = &mut evs[i] {
                            if rng.next(2) == 0 && !d.is_empty() {
                                d.pop();
                            } else {
                                d.push(b'!');
                            }
                        }
                        expect = Some(false);
                    }
                    4 => {
                        evs.pop();
                    }
                    5 => {
                        evs.remove(0);
                        expect = None; // see finding 1
                    }
                    _ => {}
                }
            }
            streams.push((evs, ecu, lc, content, name, expect));
        }
        // random interleaving with unrelated msgs
        let mut idx = vec![0usize; k];
        let mut all: Vec<(Ev, &str, u32)> = vec![];
        loop {
            let open: Vec<usize> = (0..k).filter(|t| idx[*t] < streams[*t].0.len()).collect();
            if open.is_empty() {
                break;
            }
            let t = open[rng.next(open.len())];
            all.push((streams[t].0[idx[t]].clone(), streams[t].1, streams[t].2));
            idx[t] += 1;
            if rng.next(3) == 0 {
                // unrelated: data of an unknown serial/ecu
                all.push((Ev::D(99, 2, b"zz".to_vec()), "ECU3", 1));
                all.push((Ev::F(98), "ECU1", 1));
            }
        }
        let cfg = json!({"name": "f", "allowSave":false, "keepFLDA":true, "autoSavePath":dir.path().join("out").to_str().unwrap(), "autoSaveGlob":"*"});
        std::fs::create_dir_all(dir.path().join("out")).unwrap();
        std::fs::write(dir.path().join("out").join("exists.bin"), b"orig").unwrap();
        let mut p = FileTransferPlugin::from_json(cfg.as_object().unwrap()).unwrap();
        for (ev, ecu, lc) in &all {
            let mut m = to_msg(ev, ecu, *lc);
            p.process_msg(&mut m);
        }
        let state = p.state();
        let state = state.read().unwrap();
        let items = state.value["treeItems"].as_array().unwrap();
        // nothing outside out/
        let top: Vec<_> = std::fs::read_dir(dir.path()).unwrap().map(|e| e.unwrap().file_name()).collect();
        if top.len() != 2 {
            bad.push(format!("round {}: files outside: {:?}", round, top));
        }
        if std::fs::read(dir.path().join("out").join("exists.bin")).unwrap() != b"orig" {
            bad.push(format!("round {}: overwritten", round));
        }
        for (t, (_evs, ecu, lc, content, name, expect)) in streams.iter().enumerate() {
            let serial = ids[(t + round) % 4].2;
            let tip = format!("{}, LC id={}, serial #{}, ", ecu, lc, serial);
            let mine: Vec<_> = items.iter().skip(1).filter(|i| i["tooltip"].as_str().unwrap().starts_with(&tip)).collect();
            let complete: Vec<_> = mine.iter().filter(|i| i["iconPath"].as_str() == Some("file")).collect();
            match expect {
                Some(true) if complete.len() != 1 => bad.push(format!("round {} t {}: expected complete {:?} all={:?}", round, t, mine, all)),
                Some(false) if !complete.is_empty() => bad.push(format!("round {} t {}: expected not complete {:?} all={:?}", round, t, mine, all)),
                _ => {}
            }
            for c in complete {
                if let Some(saved) = c["meta"]["autoSavedTo"].as_str() {
                    let data = std::fs::read(saved).unwrap();
                    if &data != content {
                        bad.push(format!("round {} t {}: saved {:?} != {:?}", round, t, data, content));
                    }
                    if !std::path::Path::new(saved).starts_with(dir.path().join("out")) {
                        bad.push(format!("round {} t {}: saved outside {}", round, t, saved));
                    }
                } else if !name.ends_with("exists.bin") && name != "<missing_flst>" && expect.is_some() {
                    // same base names are possible? (f{t} distinct per t) so should have been saved
                    bad.push(format!("round {} t {}: complete but not saved {:?}", round, t, c));
                }
            }
        }
    }
    for b in bad.iter().take(20) {
        println!("BAD {}", b);
    }
    assert!(bad.is_empty(), "{} disagreements", bad.len());
}
