//! `SeekableChain` over `Cursor` volumes under read/seek scripts (C20, first half)
use crate::{Area, Rng};
use adlt::utils::seekablechain::SeekableChain;
use std::io::{Cursor, Read, Seek, SeekFrom};

pub struct Chn;

fn run(case: &str) -> String {
    let mut parts = case.split('|');
    let lens: Vec<usize> = parts.next().unwrap().split_whitespace().map(|x| x.parse().unwrap()).collect();
    let ops: Vec<&str> = parts.next().unwrap_or("").split_whitespace().collect();
    let mut vols = vec![];
    let mut j = 0usize;
    for l in &lens {
        let v: Vec<u8> = (0..*l).map(|i| (((j + i) * 5 + 1) % 253) as u8).collect();
        j += l;
        vols.push(Cursor::new(v));
    }
    let mut ch = SeekableChain::new(vols);
    let mut outs = vec![];
    for op in ops {
        let (k, v) = op.split_once(':').unwrap();
        let fmt = |r: std::io::Result<u64>| match r {
            Ok(p) => format!("p{}", p),
            Err(_) => "X".to_string(),
        };
        match k {
            "r" => {
                let n: usize = v.parse().unwrap();
                let mut b = vec![0u8; n];
                match ch.read(&mut b) {
                    Ok(got) => outs.push(format!("r{}", crate::dp::hex(&b[..got]))),
                    Err(_) => outs.push("X".to_string()),
                }
            }
            "S" => outs.push(fmt(ch.seek(SeekFrom::Start(v.parse().unwrap())))),
            "C" => outs.push(fmt(ch.seek(SeekFrom::Current(v.parse().unwrap())))),
            "E" => outs.push(fmt(ch.seek(SeekFrom::End(v.parse().unwrap())))),
            _ => outs.push("?".to_string()),
        }
    }
    outs.join(" ")
}

impl Area for Chn {
    fn gen(&self, rng: &mut Rng, tier: u32) -> String {
        let nv = 1 + rng.below(if tier > 0 { 8 } else { 5 }) as usize;
        let lens: Vec<usize> = (0..nv)
            .map(|_| match rng.below(5) {
                0 => 0,
                1 => 1,
                _ => rng.below(12) as usize,
            })
            .collect();
        let total: i64 = lens.iter().sum::<usize>() as i64;
        let mut ops = vec![];
        for _ in 0..(1 + rng.below(if tier > 0 { 40 } else { 14 })) {
            match rng.below(6) {
                0..=2 => ops.push(format!("r:{}", rng.below(9))),
                3 => ops.push(format!("S:{}", rng.below((total + 4) as u64))),
                4 => ops.push(format!("C:{}", rng.below((2 * total + 6) as u64) as i64 - total - 3)),
                _ => ops.push(format!("E:{}", rng.below((total + 6) as u64) as i64 - total - 2)),
            }
        }
        format!("{} | {}", lens.iter().map(|l| l.to_string()).collect::<Vec<_>>().join(" "), ops.join(" "))
    }
    fn run(&self, case: &str) -> String {
        run(case)
    }
}
