//! the incremental stream index of the remote server at library level: `StreamContext::from` + any sequence of
//! `process_stream_new_msgs` calls (arbitrary arrival batching, chunk sizes, window changes)  (C16)
use crate::rem::{filters_json, msg_bytes, parse_msgs};
use crate::{Area, Rng};
use adlt::dlt::*;
use adlt::utils::remote_utils::{process_stream_new_msgs, StreamContext};

pub struct Rsn;

/// case: `<msgs> | <stream|query> <filters> <start> <stop> | <ev>;<ev>…`   ev: `a<n>` n more messages parsed,
/// `t<chunk>` one server round (process_stream_new_msgs with max_chunk_size), `w<a>,<b>` window change
fn run(case: &str) -> String {
    let parts: Vec<&str> = case.split(" | ").collect();
    if parts.len() != 3 {
        return "bad".to_string();
    }
    let msgs = parse_msgs(parts[0]);
    let all: Vec<DltMessage> = msgs.iter().enumerate().map(|(i, m)| parse_dlt_with_storage_header(i as u32, &msg_bytes(m)).unwrap().1).collect();
    let f: Vec<&str> = parts[1].split_whitespace().collect();
    let log = slog::Logger::root(slog::Discard, slog::o!());
    let json = format!(r#"{{"window":[{},{}],"binary":true,"filters":{}}}"#, f[2], f[3], filters_json(f[1]));
    let mut stream = match StreamContext::from(&log, f[0], &json) {
        Ok(s) => s,
        Err(_) => return "nostream".to_string(),
    };
    // collect mode one_pass_streams: the stream is created after `drained` messages were parsed and dropped
    let drained: usize = f.get(4).and_then(|x| x.strip_prefix('d')).and_then(|x| x.parse().ok()).unwrap_or(0).min(all.len());
    let mut avail = drained;
    let mut obs = vec![];
    for ev in parts[2].split(';').filter(|x| !x.is_empty()) {
        let (k, v) = ev.split_at(1);
        match k {
            "a" => avail = (avail + v.parse::<usize>().unwrap_or(0)).min(all.len()),
            "t" => {
                // as process_file_context calls it
                let last = std::cmp::max(std::cmp::min(stream.all_msgs_last_processed_len, avail), drained);
                process_stream_new_msgs(&mut stream, last, &all[last..avail], v.parse::<usize>().unwrap_or(0));
                obs.push(format!("{}:{}", stream.filtered_msgs.len(), stream.all_msgs_last_processed_len));
            }
            "w" => {
                let (a, b) = v.split_once(',').unwrap_or(("0", "0"));
                let a: usize = a.parse().unwrap_or(0);
                stream.msgs_to_send = a..b.parse().unwrap_or(0);
                stream.msgs_sent = a..a;
            }
            _ => {}
        }
    }
    // the final index: run-length compressed to keep the lines short (a+n = n consecutive positions from a)
    let mut runs: Vec<(usize, usize)> = vec![];
    for p in &stream.filtered_msgs {
        match runs.last_mut() {
            Some((a, n)) if *a + *n == *p => *n += 1,
            _ => runs.push((*p, 1)),
        }
    }
    format!(
        "{} | {} | fa={} p={}",
        obs.join(" "),
        runs.iter().map(|(a, n)| format!("{}+{}", a, n)).collect::<Vec<_>>().join(","),
        stream.filters_active as u8,
        stream.all_msgs_last_processed_len
    )
}

fn gen(rng: &mut Rng, tier: u32) -> String {
    // a base of distinct messages, sometimes repeated to a large file (beyond the part chunk size of the query loop)
    let n = 1 + rng.below(if tier > 0 { 40 } else { 20 }) as usize;
    let mut ms = vec![];
    let mut recv = 1_700_000_000_000_000u64;
    for _ in 0..n {
        recv += 1000;
        ms.push(format!(
            "{},{},{},{},{},{}",
            rng.below(2),
            recv,
            10_000 + rng.below(1000),
            rng.pick(&["APP1", "APP2", "SYS"][..]),
            rng.pick(&["CTX1", "CTX2"][..]),
            crate::dp::hex(rng.pick(&["boot ok", "error x", "status ok", "x", "err 42", "all fine"][..]).as_bytes())
        ));
    }
    let big = rng.chance(if tier > 0 { 12 } else { 60 });
    let reps = if big { 1 + (140_000 / n as u64 + rng.below(20_000 / n as u64 + 1)) as usize } else { 1 + rng.below(4) as usize };
    let total = n * reps;
    let msgs = if reps > 1 { format!("{};*{}", ms.join(";"), reps) } else { ms.join(";") };
    let fs = {
        let k = rng.below(10);
        if k == 0 {
            "-".to_string()
        } else {
            let cnt = 1 + rng.below(2);
            (0..cnt)
                .map(|_| {
                    let neg = if rng.chance(4) { "!" } else { "" };
                    let it = match rng.below(4) {
                        0 => format!("e{}", rng.below(3)),
                        1 => format!("a{}", rng.pick(&["APP1", "APP2", "SYS"][..])),
                        2 => format!("c{}", rng.pick(&["CTX1", "CTX2"][..])),
                        _ => format!("t{}", crate::dp::hex(rng.pick(&["err", "ok", "x", "boot"][..]).as_bytes())),
                    };
                    format!("{}{}", neg, it)
                })
                .collect::<Vec<_>>()
                .join("+")
        }
    };
    let kind = if rng.chance(2) { "query" } else { "stream" };
    let scale = |rng: &mut Rng| -> u64 {
        match rng.below(4) {
            0 => rng.below(6),
            1 => rng.below(total as u64 + 2),
            2 => rng.below(total as u64 / 2 + 2),
            _ => rng.below(70),
        }
    };
    let start = rng.below(8);
    let stop = start + scale(rng);
    let nev = 2 + rng.below(if tier > 0 { 14 } else { 9 });
    let mut evs = vec![];
    for _ in 0..nev {
        match rng.below(10) {
            0..=3 => evs.push(format!("a{}", if big && rng.chance(2) { rng.below(total as u64 + 1) } else { scale(rng) })),
            4..=8 => evs.push(format!(
                "t{}",
                match rng.below(6) {
                    0 => rng.below(3),
                    1 => 1 + rng.below(7),
                    2 => 64,
                    3 => 65_536 + rng.below(3) - 1,
                    4 => 3_000_000,
                    _ => 1 + scale(rng),
                }
            )),
            _ => {
                let a = rng.below(8);
                evs.push(format!("w{},{}", a, a + scale(rng)))
            }
        }
    }
    if !rng.chance(4) {
        // let everything arrive and give the loop the rounds to finish
        evs.push(format!("a{}", total));
        for _ in 0..3 {
            evs.push("t3000000".to_string());
        }
    }
    // one in five: the stream is created late in collect mode one_pass_streams
    let late = if rng.chance(5) { format!(" d{}", 1 + rng.below(total as u64)) } else { String::new() };
    format!("{} | {} {} {} {}{} | {}", msgs, kind, fs, start, stop, late, evs.join(";"))
}

impl Area for Rsn {
    fn gen(&self, rng: &mut Rng, tier: u32) -> String {
        gen(rng, tier)
    }
    fn run(&self, case: &str) -> String {
        run(case)
    }
}
