//! filters: `Filter::matches` through the JSON / DLF front-ends and the JSON round trip (C11); `filter_as_streams` and
//! `match_filters` (C12)
use crate::dp::{hex, unhex};
use crate::{Area, Rng};
use adlt::dlt::*;
use adlt::filter::functions::{filter_as_streams, filters_from_convert_format, filters_from_dlf};
use adlt::filter::Filter;
use adlt::utils::remote_utils::match_filters;
use std::sync::mpsc::channel;

pub struct Flt;

#[derive(Clone, Default, Debug)]
pub(crate) struct AF {
    pub(crate) t: u8,
    pub(crate) en: bool,
    pub(crate) not: bool,
    pub(crate) ecu: Option<String>,
    pub(crate) ecure: Option<bool>,
    pub(crate) apid: Option<String>,
    pub(crate) apidre: Option<bool>,
    pub(crate) ctid: Option<String>,
    pub(crate) ctidre: Option<bool>,
    pub(crate) vmm: Option<u32>,
    pub(crate) mstp: Option<u32>,
    pub(crate) pl: Option<String>,
    pub(crate) plre: Option<String>,
    pub(crate) ic: bool,
    pub(crate) lmin: Option<u32>,
    pub(crate) lmax: Option<u32>,
    pub(crate) lcs: Option<Vec<u32>>,
}

fn flag(f: &Option<bool>) -> &'static str {
    match f {
        Some(true) => "1",
        Some(false) => "0",
        None => "-",
    }
}

pub(crate) fn fmt_af(a: &AF) -> String {
    let mut v = vec![format!("t={}", a.t), format!("en={}", a.en as u8), format!("not={}", a.not as u8)];
    if let Some(s) = &a.ecu {
        v.push(format!("ecu={}", hex(s.as_bytes())));
        v.push(format!("ecure={}", flag(&a.ecure)));
    }
    if let Some(s) = &a.apid {
        v.push(format!("apid={}", hex(s.as_bytes())));
        v.push(format!("apidre={}", flag(&a.apidre)));
    }
    if let Some(s) = &a.ctid {
        v.push(format!("ctid={}", hex(s.as_bytes())));
        v.push(format!("ctidre={}", flag(&a.ctidre)));
    }
    if let Some(x) = a.vmm {
        v.push(format!("vmm={}", x));
    }
    if let Some(x) = a.mstp {
        v.push(format!("mstp={}", x));
    }
    if let Some(s) = &a.pl {
        v.push(format!("pl={}", hex(s.as_bytes())));
    }
    if let Some(s) = &a.plre {
        v.push(format!("plre={}", hex(s.as_bytes())));
    }
    v.push(format!("ic={}", a.ic as u8));
    if let Some(x) = a.lmin {
        v.push(format!("lmin={}", x));
    }
    if let Some(x) = a.lmax {
        v.push(format!("lmax={}", x));
    }
    if let Some(l) = &a.lcs {
        v.push(format!("lcs={}", l.iter().map(|x| x.to_string()).collect::<Vec<_>>().join("+")));
    }
    v.join(",")
}

pub(crate) fn parse_af(s: &str) -> AF {
    let mut a = AF { en: true, ..Default::default() };
    let st = |h: &str| String::from_utf8(unhex(h)).unwrap();
    let fl = |v: &str| match v {
        "0" => Some(false),
        "1" => Some(true),
        _ => None,
    };
    for kv in s.split(',').filter(|x| !x.is_empty()) {
        let (k, v) = kv.split_once('=').unwrap();
        match k {
            "t" => a.t = v.parse().unwrap(),
            "en" => a.en = v == "1",
            "not" => a.not = v == "1",
            "ecu" => a.ecu = Some(st(v)),
            "ecure" => a.ecure = fl(v),
            "apid" => a.apid = Some(st(v)),
            "apidre" => a.apidre = fl(v),
            "ctid" => a.ctid = Some(st(v)),
            "ctidre" => a.ctidre = fl(v),
            "vmm" => a.vmm = v.parse().ok(),
            "mstp" => a.mstp = v.parse().ok(),
            "pl" => a.pl = Some(st(v)),
            "plre" => a.plre = Some(st(v)),
            "ic" => a.ic = v == "1",
            "lmin" => a.lmin = v.parse().ok(),
            "lmax" => a.lmax = v.parse().ok(),
            "lcs" => a.lcs = Some(v.split('+').filter(|x| !x.is_empty()).map(|x| x.parse().unwrap()).collect()),
            _ => {}
        }
    }
    a
}

fn to_json(a: &AF) -> String {
    let mut m = serde_json::Map::new();
    m.insert("type".into(), a.t.into());
    if !a.en {
        m.insert("enabled".into(), false.into());
    }
    if a.not {
        m.insert("not".into(), true.into());
    }
    let mut id = |k: &str, s: &Option<String>, f: &Option<bool>| {
        if let Some(s) = s {
            m.insert(k.into(), s.clone().into());
            if let Some(f) = f {
                m.insert(format!("{}IsRegex", k), (*f).into());
            }
        }
    };
    id("ecu", &a.ecu, &a.ecure);
    id("apid", &a.apid, &a.apidre);
    id("ctid", &a.ctid, &a.ctidre);
    if let Some(x) = a.vmm {
        m.insert("verb_mstp_mtin".into(), x.into());
    }
    if let Some(x) = a.mstp {
        m.insert("mstp".into(), x.into());
    }
    if let Some(s) = &a.pl {
        m.insert("payload".into(), s.clone().into());
    }
    if let Some(s) = &a.plre {
        m.insert("payloadRegex".into(), s.clone().into());
    }
    if a.ic {
        m.insert("ignoreCasePayload".into(), true.into());
    }
    if let Some(x) = a.lmin {
        m.insert("logLevelMin".into(), x.into());
    }
    if let Some(x) = a.lmax {
        m.insert("logLevelMax".into(), x.into());
    }
    if let Some(l) = &a.lcs {
        m.insert("lifecycles".into(), l.clone().into());
    }
    serde_json::Value::Object(m).to_string()
}

pub(crate) fn xml_esc(s: &str) -> String {
    s.replace('&', "&amp;").replace('<', "&lt;").replace('>', "&gt;")
}

pub(crate) fn dlf_expressible(a: &AF) -> bool {
    !a.not && a.lcs.is_none() && a.vmm.is_none() && (a.mstp.is_none() || a.mstp == Some(3)) && a.t <= 3 && (a.ecu.is_none() || a.ecure == Some(false))
}

/// can the abstract filter be written as one entry of a dlt-convert APID/CTID list? (positive, enabled, two literal ids of at
/// most four ASCII bytes without the padding character, nothing else)
pub(crate) fn list_expressible(a: &AF) -> bool {
    // an id that is not given is written as `----`
    let id_ok = |s: &Option<String>, re: &Option<bool>| s.is_none() || matches!((s, re), (Some(x), Some(false)) if !x.is_empty() && x.len() <= 4 && x.is_ascii() && !x.contains('-'));
    a.t == 0 && a.en && !a.not && a.ecu.is_none() && id_ok(&a.apid, &a.apidre) && id_ok(&a.ctid, &a.ctidre) && a.vmm.is_none() && a.mstp.is_none()
        && a.pl.is_none() && a.plre.is_none() && a.lmin.is_none() && a.lmax.is_none() && a.lcs.is_none()
}

/// the list format: per entry APID and CTID, each padded to four bytes with `-` and followed by one separator byte
pub(crate) fn to_list_many(afs: &[AF]) -> String {
    afs.iter().map(|a| format!("{:-<4} {:-<4} ", a.apid.clone().unwrap_or_default(), a.ctid.clone().unwrap_or_default())).collect()
}

fn to_dlf(a: &AF) -> String {
    to_dlf_many(std::slice::from_ref(a))
}

/// a dlt-viewer DLF document with one `<filter>` element per abstract filter
pub(crate) fn to_dlf_many(afs: &[AF]) -> String {
    let mut s = String::from("<?xml version=\"1.0\" encoding=\"UTF-8\"?><dltfilter>");
    for a in afs {
        s.push_str(&dlf_filter_element(a));
    }
    s.push_str("</dltfilter>");
    s
}

fn dlf_filter_element(a: &AF) -> String {
    let mut s = String::from("<filter>");
    let mut el = |k: &str, v: &str| s.push_str(&format!("<{}>{}</{}>", k, xml_esc(v), k));
    el("type", &a.t.to_string());
    el("enablefilter", if a.en { "1" } else { "0" });
    if let Some(x) = &a.ecu {
        el("enableecuid", "1");
        el("ecuid", x);
    }
    if let Some(x) = &a.apid {
        el("enableapplicationid", "1");
        el("applicationid", x);
        if let Some(f) = a.apidre {
            el("enableregexp_Appid", if f { "1" } else { "0" });
        }
    }
    if let Some(x) = &a.ctid {
        el("enablecontextid", "1");
        el("contextid", x);
        if let Some(f) = a.ctidre {
            el("enableregexp_Context", if f { "1" } else { "0" });
        }
    }
    if a.mstp == Some(3) {
        el("enablecontrolmsgs", "1");
    }
    if a.pl.is_some() || a.plre.is_some() {
        el("enablepayloadtext", "1");
        el("ignoreCase_Payload", if a.ic { "1" } else { "0" });
        if let Some(x) = &a.plre {
            el("enableregexp_Payload", "1");
            el("payloadtext", x);
        } else if let Some(x) = &a.pl {
            el("enableregexp_Payload", "0");
            el("payloadtext", x);
        }
    }
    if let Some(x) = a.lmax {
        el("enableLogLevelMax", "1");
        el("logLevelMax", &x.to_string());
    }
    if let Some(x) = a.lmin {
        el("enableLogLevelMin", "1");
        el("logLevelMin", &x.to_string());
    }
    s.push_str("</filter>");
    s
}

/// ecuhex,ext,apidhex,ctidhex,vmm,lc,texthex,payloadhex,noar
fn mk_msg(f: &[&str]) -> DltMessage {
    let ecu = unhex(f[0]);
    let ext = f[1] == "1";
    let mut v = vec![b'D', b'L', b'T', 1, 1, 0, 0, 0, 2, 0, 0, 0];
    v.extend_from_slice(&ecu);
    let payload = unhex(f[7]);
    let len = 4 + if ext { 10 } else { 0 } + payload.len();
    v.extend_from_slice(&[0x20 | ext as u8, 0, (len >> 8) as u8, len as u8]);
    if ext {
        v.push(f[4].parse::<u32>().unwrap() as u8);
        v.push(f[8].parse::<u32>().unwrap() as u8);
        v.extend_from_slice(&unhex(f[2]));
        v.extend_from_slice(&unhex(f[3]));
    }
    v.extend_from_slice(&payload);
    let mut m = parse_dlt_with_storage_header(0, &v).unwrap().1;
    m.lifecycle = f[5].parse().unwrap();
    m
}

fn bits(v: &[bool]) -> String {
    v.iter().map(|b| if *b { '1' } else { '0' }).collect()
}

fn run(case: &str) -> String {
    let parts: Vec<&str> = case.split(" | ").collect();
    let afs: Vec<AF> = parts[0].split(';').filter(|x| !x.is_empty()).map(parse_af).collect();
    let msgs: Vec<DltMessage> = parts[1].split(';').filter(|x| !x.is_empty()).map(|m| mk_msg(&m.split(',').collect::<Vec<_>>())).collect();
    let mut outs = vec![];
    let mut loaded: Vec<Option<Filter>> = vec![];
    for (i, a) in afs.iter().enumerate() {
        let j = Filter::from_json(&to_json(a)).ok();
        let jb = match &j {
            Some(f) => bits(&msgs.iter().map(|m| f.matches(m)).collect::<Vec<_>>()),
            None => "E".to_string(),
        };
        let db = if dlf_expressible(a) {
            // the file in one line, and formatted with one element per line (the way dlt-viewer writes it)
            let compact = to_dlf(a);
            // (white space between the elements only - not inside an empty element, which would be another value)
            let pretty = compact.replace("><", ">\n        <").replace(">\n        </", "></");
            let load = |t: &str| match filters_from_dlf(t.as_bytes()) {
                Ok(fs) if fs.len() == 1 => bits(&msgs.iter().map(|m| fs[0].matches(m)).collect::<Vec<_>>()),
                _ => "E".to_string(),
            };
            let (b1, b2) = (load(&compact), load(&pretty));
            if b1 == b2 { b1 } else { format!("{}/{}", b1, b2) }
        } else {
            "-".to_string()
        };
        let rb = match &j {
            Some(f) => match Filter::from_json(&f.to_json()) {
                Ok(g) => bits(&msgs.iter().map(|m| g.matches(m)).collect::<Vec<_>>()),
                Err(_) => "E".to_string(),
            },
            None => "E".to_string(),
        };
        // the list front-end: the entry alone, and the entry behind the other expressible entries of the case (position in the list)
        let lb = if list_expressible(a) {
            let alone = filters_from_convert_format(to_list_many(std::slice::from_ref(a)).as_bytes());
            let mut all: Vec<AF> = afs.iter().enumerate().filter(|(k, x)| *k != i && list_expressible(x)).map(|(_, x)| x.clone()).collect();
            all.push(a.clone());
            let many = filters_from_convert_format(to_list_many(&all).as_bytes());
            match (alone, many) {
                (Ok(f1), Ok(fm)) if f1.len() == 1 && fm.len() == all.len() => {
                    let b1 = bits(&msgs.iter().map(|m| f1[0].matches(m)).collect::<Vec<_>>());
                    let bm = bits(&msgs.iter().map(|m| fm[all.len() - 1].matches(m)).collect::<Vec<_>>());
                    if b1 == bm { b1 } else { format!("{}/{}", b1, bm) }
                }
                _ => "E".to_string(),
            }
        } else {
            "-".to_string()
        };
        outs.push(format!("J{}:{} D{}:{} R{}:{} L{}:{}", i, jb, i, db, i, rb, i, lb));
        loaded.push(j);
    }
    if loaded.iter().all(|f| f.is_some()) {
        let fs: Vec<Filter> = loaded.into_iter().map(|f| f.unwrap()).collect();
        // the stream filter used by convert
        let (tx, rx) = channel();
        for (i, m) in msgs.iter().enumerate() {
            let mut m = m.clone();
            m.index = i as u32;
            tx.send(m).unwrap();
        }
        drop(tx);
        let (tx2, rx2) = channel();
        let (passed, filtered) = filter_as_streams(&fs, &rx, &|m| tx2.send(m)).unwrap();
        drop(tx2);
        let kept: Vec<String> = rx2.iter().map(|m| m.index.to_string()).collect();
        // the set matcher used by remote streams: the container is built by the server's own constructor (StreamContext::from)
        // from the JSON of the request
        let log = slog::Logger::root(slog::Discard, slog::o!());
        let json = format!(r#"{{"window":[0,1],"filters":[{}]}}"#, afs.iter().map(to_json).collect::<Vec<_>>().join(","));
        let mb = match adlt::utils::remote_utils::StreamContext::from(&log, "stream", &json) {
            Ok(sc) => {
                let active = fs.iter().any(|f| f.enabled && f.kind != adlt::filter::FilterKind::Marker);
                if sc.filters_active != active {
                    "A".to_string() // filters_active is not "an enabled non-marker filter exists"
                } else {
                    bits(&msgs.iter().map(|m| match_filters(m, &sc.filters)).collect::<Vec<_>>())
                }
            }
            Err(_) => "E".to_string(),
        };
        outs.push(format!("S:{}:{}:{} M:{}", kept.join("+"), passed, filtered, mb));
    } else {
        outs.push("S:E M:E".to_string());
    }
    outs.join(" ")
}

const ECUS: [&str; 4] = ["ECU1", "ECU2", "EC", "E1"];
const APIDS: [&str; 5] = ["APID", "AP1", "A", "SYS", "AP-1"];
const CTIDS: [&str; 4] = ["CTID", "CT", "C1", "MAIN"];
const TEXTS: [&str; 7] = ["Hello World", "say hello", "HELLO", "error 42", "", "status ok", "Error: disk"];

fn pad4(s: &str) -> Vec<u8> {
    let mut b: Vec<u8> = s.bytes().take(4).collect();
    while b.len() < 4 {
        b.push(0);
    }
    b
}

fn gen_id(rng: &mut Rng, universe: &[&str]) -> (String, Option<bool>) {
    match rng.below(10) {
        0..=3 => (rng.pick(universe).to_string(), Some(false)),
        4 => (rng.pick(universe).to_string(), None), // flag omitted: auto-detection
        5 => (rng.pick(&["ECU.", "^AP", "A|C", "EC", "CT[I1]D", "^E.U1$", "1$", "SYS|MAIN"]).to_string(), Some(true)),
        6 => (rng.pick(&["ECU.", "AP-1", "A|C", "C.", "AP?"]).to_string(), None), // auto-detected as regex
        7 => (rng.pick(&["TOOLONG", "ECU12", "APIDX"]).to_string(), Some(false)), // over-long literal
        8 if rng.chance(4) => (rng.pick(&["(", "[a", "*"]).to_string(), Some(true)), // does not compile
        _ => (rng.pick(universe).to_string(), Some(true)),                          // plain text as regex (substring semantics)
    }
}

pub(crate) fn gen_filter(rng: &mut Rng) -> AF {
    let mut a = AF { en: !rng.chance(6), not: rng.chance(5), ..Default::default() };
    a.t = match rng.below(12) {
        0..=5 => 0,
        6..=8 => 1,
        9 => 2,
        10 => 3,
        _ => if rng.chance(5) { 4 } else { 0 }, // 4 = invalid
    };
    if rng.chance(3) {
        let (s, f) = gen_id(rng, &ECUS);
        a.ecu = Some(s);
        a.ecure = f;
    }
    if rng.chance(3) {
        let (s, f) = gen_id(rng, &APIDS);
        a.apid = Some(s);
        a.apidre = f;
    }
    if rng.chance(4) {
        let (s, f) = gen_id(rng, &CTIDS);
        a.ctid = Some(s);
        a.ctidre = f;
    }
    match rng.below(8) {
        0 => a.vmm = Some(rng.below(256) as u32),
        1 => a.vmm = Some((rng.below(8) << 1 | rng.below(2)) as u32), // mtin 0: mask 0x0f
        2 => a.mstp = Some(rng.below(8) as u32),
        3 => a.mstp = Some(3),
        _ => {}
    }
    match rng.below(6) {
        0 => a.pl = Some(rng.pick(&["Hello", "hello", "42", "", "ok", "Error", "o W", "a.b", "disk"]).to_string()),
        1 => a.plre = Some(if rng.chance(12) { "(".to_string() } else { rng.pick(&["[Hh]ello", "^say", "4\\d", "ok$", "error|Error", "H.llo", "^$"]).to_string() }),
        _ => {}
    }
    a.ic = rng.chance(3);
    if rng.chance(6) {
        a.lmin = Some(if rng.chance(15) { 7 } else { rng.below(7) as u32 });
    }
    if rng.chance(6) {
        a.lmax = Some(if rng.chance(15) { 7 } else { rng.below(7) as u32 });
    }
    if rng.chance(6) {
        a.lcs = Some(match rng.below(3) {
            0 => vec![],
            1 => vec![1],
            _ => vec![1, 2],
        });
    }
    a
}

fn gen(rng: &mut Rng, tier: u32) -> String {
    let nf = 1 + rng.below(if tier > 0 { 6 } else { 4 }) as usize;
    let mut afs: Vec<AF> = (0..nf).map(|_| gen_filter(rng)).collect();
    // filters that the dlt-convert list format can express: ids of different lengths next to each other
    if rng.chance(4) {
        for a in afs.iter_mut() {
            if rng.chance(2) {
                *a = AF { t: 0, en: true, apid: Some(rng.pick(&["APID", "AP1", "A", "SYS"]).to_string()), apidre: Some(false), ctid: Some(rng.pick(&["CTID", "CT", "C1", "MAIN"]).to_string()), ctidre: Some(false), ..Default::default() };
                match rng.below(6) {
                    0 => {
                        a.apid = None;
                        a.apidre = None;
                    }
                    1 => {
                        a.ctid = None;
                        a.ctidre = None;
                    }
                    _ => {}
                }
            }
        }
    }
    let nm = 1 + rng.below(if tier > 0 { 16 } else { 8 }) as usize;
    let mut ms = vec![];
    let mut built = vec![];
    for _ in 0..nm {
        let ecu = pad4(*rng.pick(&ECUS[..]));
        let ext = !rng.chance(4);
        let apid = pad4(*rng.pick(&APIDS[..]));
        let ctid = pad4(*rng.pick(&CTIDS[..]));
        // all 256 type bytes; verbose ones carry one string argument, the others raw bytes
        let vmm = if rng.chance(2) { rng.below(256) } else { (rng.below(7) << 4) | 1 } as u32;
        let text = *rng.pick(&TEXTS[..]);
        let verbose = vmm & 1 == 1 && ext;
        let (payload, noar) = if verbose {
            let mut p = vec![];
            p.extend_from_slice(&DLT_TYPE_INFO_STRG.to_le_bytes());
            p.extend_from_slice(&((text.len() + 1) as u16).to_le_bytes());
            p.extend_from_slice(text.as_bytes());
            p.push(0);
            (p, 1u32)
        } else {
            let mut p = vec![1, 0, 0, 0];
            p.extend_from_slice(text.as_bytes());
            (p, 0)
        };
        let lc = rng.below(4);
        let fields = vec![hex(&ecu), (ext as u8).to_string(), hex(&apid), hex(&ctid), vmm.to_string(), lc.to_string(), String::new(), hex(&payload), noar.to_string()];
        let refs: Vec<&str> = fields.iter().map(|s| s.as_str()).collect();
        let m = mk_msg(&refs);
        let t = m.payload_as_text().map(|c| c.to_string()).unwrap_or_default();
        let mut fields = fields;
        fields[6] = hex(t.as_bytes());
        ms.push(fields.join(","));
        built.push((m, t));
    }
    // the regex engines' verdicts on the pattern / haystack pairs of this case
    let mut tbl: Vec<String> = vec![];
    let mut seen = std::collections::HashSet::new();
    for a in &afs {
        let mut idp = |s: &Option<String>, which: u8| {
            if let Some(p) = s {
                match regex::bytes::Regex::new(p) {
                    Ok(r) => {
                        for (m, _) in &built {
                            let hay: Vec<u8> = match which {
                                0 => m.ecu.as_buf().to_vec(),
                                1 => m.apid().map(|x| x.as_buf().to_vec()).unwrap_or_default(),
                                _ => m.ctid().map(|x| x.as_buf().to_vec()).unwrap_or_default(),
                            };
                            let e = format!("I{}:{}:{}", hex(p.as_bytes()), hex(&hay), r.is_match(&hay) as u8);
                            if seen.insert(e.clone()) {
                                tbl.push(e);
                            }
                        }
                    }
                    Err(_) => {
                        let e = format!("B{}", hex(p.as_bytes()));
                        if seen.insert(e.clone()) {
                            tbl.push(e);
                        }
                    }
                }
            }
        };
        idp(&a.ecu, 0);
        idp(&a.apid, 1);
        idp(&a.ctid, 2);
        if let Some(p) = &a.plre {
            let p = if a.ic { format!("(?i){}", p) } else { p.clone() };
            match fancy_regex::Regex::new(&p) {
                Ok(r) => {
                    for (_, t) in &built {
                        let e = format!("T{}:{}:{}", hex(p.as_bytes()), hex(t.as_bytes()), r.is_match(t).unwrap_or(false) as u8);
                        if seen.insert(e.clone()) {
                            tbl.push(e);
                        }
                    }
                }
                Err(_) => {
                    let e = format!("B{}", hex(p.as_bytes()));
                    if seen.insert(e.clone()) {
                        tbl.push(e);
                    }
                }
            }
        }
    }
    format!("{} | {} | {}", afs.iter().map(fmt_af).collect::<Vec<_>>().join(";"), ms.join(";"), tbl.join(" "))
}

impl Area for Flt {
    fn gen(&self, rng: &mut Rng, tier: u32) -> String {
        gen(rng, tier)
    }
    fn run(&self, case: &str) -> String {
        run(case)
    }
}
