//! DLT framing: `DltMessageIterator` over a `Cursor` (C01) and `DltMessage::to_write` round trip (C02)
use crate::{Area, Rng};
use adlt::dlt::*;
use adlt::utils::*;
use std::io::Cursor;

pub struct Dp;

pub fn hex(b: &[u8]) -> String {
    let mut s = String::with_capacity(b.len() * 2);
    for x in b {
        s.push_str(&format!("{:02x}", x));
    }
    s
}
pub fn unhex(s: &str) -> Vec<u8> {
    let b = s.as_bytes();
    (0..b.len() / 2).map(|i| u8::from_str_radix(std::str::from_utf8(&b[2 * i..2 * i + 2]).unwrap(), 16).unwrap()).collect()
}

#[derive(Clone)]
pub enum Item {
    G(Vec<u8>),
    M { sh: Vec<u8>, htyp: u8, mcnt: u8, add: Vec<u8>, payload: Vec<u8> },
}

/// the harness' own encoder (independent of the library's writer)
pub fn item_bytes(serial: bool, it: &Item) -> Vec<u8> {
    match it {
        Item::G(b) => b.clone(),
        Item::M { sh, htyp, mcnt, add, payload } => {
            let mut v = if serial { b"DLS\x01".to_vec() } else { b"DLT\x01".to_vec() };
            v.extend_from_slice(sh);
            let len = 4 + add.len() + payload.len();
            v.extend_from_slice(&[*htyp, *mcnt, (len >> 8) as u8, len as u8]);
            v.extend_from_slice(add);
            v.extend_from_slice(payload);
            v
        }
    }
}

pub struct Case {
    pub i0: u32,
    pub serial: bool,
    pub big: bool,
    pub items: Vec<Item>,
}

pub fn fmt_case(c: &Case) -> String {
    let its: Vec<String> = c
        .items
        .iter()
        .map(|it| match it {
            Item::G(b) => format!("g:{}", hex(b)),
            Item::M { sh, htyp, mcnt, add, payload } => format!("m:{},{},{},{},{}", hex(sh), htyp, mcnt, hex(add), hex(payload)),
        })
        .collect();
    format!("{} {} {} {}", c.i0, if c.serial { "s" } else { "d" }, if c.big { "b" } else { "n" }, its.join(";"))
}

pub fn parse_case(s: &str) -> Case {
    let f: Vec<&str> = s.split(' ').collect();
    let items = if f.len() > 3 {
        f[3].split(';')
            .filter(|x| !x.is_empty())
            .map(|x| {
                if let Some(h) = x.strip_prefix("g:") {
                    Item::G(unhex(h))
                } else {
                    let p: Vec<&str> = x[2..].split(',').collect();
                    Item::M { sh: unhex(p[0]), htyp: p[1].parse().unwrap(), mcnt: p[2].parse().unwrap(), add: unhex(p[3]), payload: unhex(p[4]) }
                }
            })
            .collect()
    } else {
        vec![]
    };
    Case { i0: f[0].parse().unwrap(), serial: f[1] == "s", big: f[2] == "b", items }
}

pub fn render(c: &Case) -> Vec<u8> {
    let mut d = vec![];
    for it in &c.items {
        d.extend_from_slice(&item_bytes(c.serial, it));
    }
    d
}

pub fn show_msg(m: &DltMessage) -> String {
    format!(
        "{},{},{},{},{},{},{},{},{}",
        m.index,
        m.reception_time_us,
        hex(m.ecu.as_buf()),
        m.timestamp_dms,
        m.standard_header.htyp,
        m.standard_header.mcnt,
        m.standard_header.len,
        m.extended_header.as_ref().map_or("-".to_string(), |e| {
            let mut v = vec![e.verb_mstp_mtin, e.noar];
            v.extend_from_slice(e.apid.as_buf());
            v.extend_from_slice(e.ctid.as_buf());
            hex(&v)
        }),
        hex(&m.payload)
    )
}

fn ext_bytes(m: &DltMessage) -> Option<Vec<u8>> {
    m.extended_header.as_ref().map(|e| {
        let mut v = vec![e.verb_mstp_mtin, e.noar];
        v.extend_from_slice(e.apid.as_buf());
        v.extend_from_slice(e.ctid.as_buf());
        v
    })
}

/// what the implementation writes for `m`, and whether re-reading/re-writing it is faithful (C02 on the code itself)
fn write_obs(m: &DltMessage) -> String {
    let r = std::panic::catch_unwind(std::panic::AssertUnwindSafe(|| {
        let mut w = vec![];
        m.to_write(&mut w).unwrap();
        w
    }));
    match r {
        Err(_) => "PANIC:0".to_string(),
        Ok(w) => {
            let rt = match parse_dlt_with_storage_header(m.index, &w) {
                Ok((n, m2)) => {
                    let mut w2 = vec![];
                    let _ = m2.to_write(&mut w2);
                    n == w.len()
                        && m2.ecu == m.ecu
                        && m2.reception_time_us == m.reception_time_us
                        && m2.standard_header.has_timestamp() == m.standard_header.has_timestamp()
                        && (m2.timestamp_dms == m.timestamp_dms || !m.standard_header.has_timestamp())
                        && m2.mcnt() == m.mcnt()
                        && m2.is_big_endian() == m.is_big_endian()
                        && ext_bytes(&m2) == ext_bytes(m)
                        && m2.payload == m.payload
                        && w2 == w
                }
                Err(_) => false,
            };
            format!("{}:{}", hex(&w), rt as u8)
        }
    }
}

pub fn run_bytes(i0: u32, d: &[u8]) -> String {
    let mut it = DltMessageIterator::new(i0, Cursor::new(d.to_vec()));
    let mut strs = vec![];
    let mut ws = vec![];
    while let Some(m) = it.next() {
        strs.push(show_msg(&m));
        ws.push(write_obs(&m));
    }
    format!(
        "{} | {} {} {} {} {} | {}",
        strs.join(" "),
        it.index,
        it.bytes_processed,
        it.bytes_skipped,
        it.detected_storage_header as u8,
        it.detected_serial_header as u8,
        ws.join(" ")
    )
}

pub fn marker_free_byte(rng: &mut Rng) -> u8 {
    // never 0x01, so no 4-byte marker (which ends in 0x01) can be completed by these bytes alone
    loop {
        let b = match rng.below(10) {
            0 => b'D',
            1 => b'L',
            2 => b'T',
            3 => b'S',
            _ => rng.below(256) as u8,
        };
        if b != 1 {
            return b;
        }
    }
}
pub fn any_byte(rng: &mut Rng) -> u8 {
    match rng.below(10) {
        0 => b'D',
        1 => b'L',
        2 => b'T',
        3 => b'S',
        4 => 1,
        _ => rng.below(256) as u8,
    }
}

pub fn gen_msg(rng: &mut Rng, serial: bool, clean: bool, big_micros: bool, tier: u32, huge: bool) -> Item {
    let sh = if serial {
        vec![]
    } else {
        let mut v = vec![];
        v.extend_from_slice(&(rng.below(2_000_000_000) as u32).to_le_bytes());
        let lim = if big_micros && rng.chance(2) { 4_000_000_000 } else { 1_000_000 };
        v.extend_from_slice(&(rng.below(lim) as u32).to_le_bytes());
        for _ in 0..4 {
            v.push(b'A' + rng.below(26) as u8);
        }
        if clean {
            for b in v.iter_mut() {
                if *b == 1 {
                    *b = 2;
                }
            }
        }
        v
    };
    let flags = rng.below(32) as u8; // ext, be, ecu, sid, ts
    let mut htyp = flags | ((rng.below(8) as u8) << 5);
    if clean && htyp == 1 {
        htyp = 0x21;
    }
    let hsize = 4 + if flags & 4 != 0 { 4 } else { 0 } + if flags & 8 != 0 { 4 } else { 0 } + if flags & 16 != 0 { 4 } else { 0 } + if flags & 1 != 0 { 10 } else { 0 };
    let plen = match rng.below(8) {
        0 => 0,
        1 => 1,
        2 => rng.below(300),
        3 | 5 | 6 | 7 if huge => 65535 - hsize as u64 - rng.below(20),
        4 if tier > 0 && rng.chance(10) => rng.below(5000),
        _ => rng.below(12),
    } as usize;
    let mut mcnt = rng.below(256) as u8;
    let mut gen_bytes = |n: usize, rng: &mut Rng| -> Vec<u8> { (0..n).map(|_| if clean { marker_free_byte(rng) } else { any_byte(rng) }).collect() };
    let mut add = gen_bytes(hsize - 4, rng);
    // boundary values in the optional header parts (ECU id, session id, timestamp): all zero / all ones
    {
        let mut off = 0;
        for bit in [4u8, 8, 16] {
            if flags & bit != 0 {
                match rng.below(6) {
                    0 => add[off..off + 4].copy_from_slice(&[0, 0, 0, 0]),
                    1 => add[off..off + 4].copy_from_slice(&[0xff, 0xff, 0xff, 0xff]),
                    _ => {}
                }
                off += 4;
            }
        }
    }
    let payload = gen_bytes(plen, rng);
    if clean {
        // also the length bytes and mcnt must not be 0x01 preceded by a marker prefix: simplest is to avoid 0x01 for them
        if mcnt == 1 {
            mcnt = 2;
        }
        let len = hsize + plen;
        if (len >> 8) as u8 == 1 || (len & 0xff) as u8 == 1 {
            // drop/add one payload byte to avoid 0x01 in the length field
            let mut p = payload.clone();
            if p.is_empty() {
                p.push(7);
                p.push(7);
            } else {
                p.pop();
            }
            let len2 = hsize + p.len();
            if (len2 >> 8) as u8 != 1 && (len2 & 0xff) as u8 != 1 {
                return Item::M { sh, htyp, mcnt, add, payload: p };
            }
            let mut p2 = payload.clone();
            p2.extend_from_slice(&[7; 300]);
            p2.truncate(600 - hsize);
            return Item::M { sh, htyp, mcnt, add, payload: p2 };
        }
    }
    Item::M { sh, htyp, mcnt, add, payload }
}

pub fn gen_case(rng: &mut Rng, tier: u32) -> Case {
    let serial = rng.chance(3);
    // maximum-size messages only in dedicated well-formed cases with short garbage (the list-based model
    // re-measures the remaining input at every skipped byte: skipping through a corrupt 64 KiB message is quadratic)
    let huge = rng.chance(100);
    let clean = huge || !rng.chance(3); // two thirds in the property's range, one third malformed
    let big = !serial && rng.chance(10);
    let mut items = vec![];
    let nm = rng.below(5);
    for _ in 0..=nm {
        let g = match rng.below(6) {
            0 => 0,
            1 => rng.below(4),
            2 => rng.below(30),
            3 => rng.below(71),
            4 if tier > 0 && !huge && rng.chance(4) => 100 + rng.below(3000),
            _ => 0,
        } as usize;
        if g > 0 {
            items.push(Item::G((0..g).map(|_| if clean { marker_free_byte(rng) } else { any_byte(rng) }).collect()));
        }
        if !rng.chance(10) {
            let ser_m = if !clean && rng.chance(12) { !serial } else { serial };
            let mut it = gen_msg(rng, ser_m, clean, big, tier, huge);
            if !clean {
                // malformed stream: corrupt some messages and present them as raw bytes
                match rng.below(6) {
                    0 | 1 => {
                        let mut b = item_bytes(serial, &it);
                        let lo = if serial { 6 } else { 18 };
                        match rng.below(3) {
                            0 if b.len() > lo + 1 => {
                                b[lo] = 0;
                                b[lo + 1] = rng.below(12) as u8; // too small len
                            }
                            1 if b.len() > lo + 1 => {
                                let l = ((b[lo] as usize) << 8 | b[lo + 1] as usize) + 1 + rng.below(40) as usize;
                                b[lo] = (l >> 8) as u8;
                                b[lo + 1] = l as u8; // too large len
                            }
                            _ => {
                                let n = b.len();
                                if n > 12 {
                                    let p = n - 1 - rng.below(8.min(n as u64 - 5)) as usize;
                                    let pat: &[u8] = if serial { b"DLS\x01" } else { b"DLT\x01" };
                                    if p >= 4 {
                                        b[p - 3..=p].copy_from_slice(pat); // marker inside
                                    }
                                }
                            }
                        }
                        it = Item::G(b);
                    }
                    _ => {}
                }
            }
            items.push(it);
        }
    }
    if rng.chance(4) {
        let g = rng.below(40) as usize;
        items.push(Item::G((0..g).map(|_| if clean { marker_free_byte(rng) } else { any_byte(rng) }).collect()));
    }
    if !clean && rng.chance(6) {
        // truncate the stream
        let d: Vec<u8> = {
            let c = Case { i0: 0, serial, big, items: items.clone() };
            render(&c)
        };
        let l = d.len();
        let cut = (rng.below(10) as usize).min(l);
        items = vec![Item::G(d[..l - cut].to_vec())];
    }
    Case { i0: rng.below(1000) as u32, serial, big, items }
}

impl Area for Dp {
    fn gen(&self, rng: &mut Rng, tier: u32) -> String {
        fmt_case(&gen_case(rng, tier))
    }
    fn run(&self, case: &str) -> String {
        let c = parse_case(case);
        run_bytes(c.i0, &render(&c))
    }
}

// ---------------------------------------------------------------------------------------------
/// C04 (chunking): `DltMessageIterator` over `LowMarkBufReader` over a scripted short-read source with the
/// production low mark, compared with the model's parse of the whole byte string.
pub struct Lw;

/// the low mark the library tells its callers to use (self-test of the check: VERIF_LOWMARK overrides it)
fn lw_low_mark() -> usize {
    std::env::var("VERIF_LOWMARK").ok().and_then(|v| v.parse().ok()).unwrap_or(adlt::dlt::DLT_MIN_PARSE_BUFFER_SIZE)
}

fn gen_lw(rng: &mut Rng, tier: u32) -> String {
    let serial = rng.chance(4);
    let mut items: Vec<Item> = vec![];
    let target = match rng.below(4) {
        0 => 2_000,
        1 => 70_000,
        _ => 70_000 + rng.below(if tier > 0 { 400_000 } else { 150_000 }) as usize,
    };
    let mut total = 0usize;
    let trap = rng.chance(3); // maximum-size messages with an embedded marker followed by non-marker bytes
    // directed: a maximum-size message with an embedded marker at the very start, non-marker bytes after it, and a first
    // read that delivers exactly the message (+0..3 bytes): the window then ends where the parser wants to look ahead
    let exact = trap && !serial && rng.chance(2);
    let mut first_read = 0usize;
    let mut follow_msg = false;
    if exact {
        let mut it = gen_msg(rng, serial, true, false, 0, true);
        if let Item::M { ref mut payload, ref add, .. } = it {
            payload.resize(65535 - 4 - add.len(), 7);
            let at = 20 + rng.below(200) as usize;
            payload[at..at + 4].copy_from_slice(b"DLT\x01");
        }
        // ... or is followed directly by the next message, and the first read delivers the message plus 4..15 bytes of it:
        // the marker of the next message is in the window, its storage header is not complete yet
        follow_msg = rng.chance(2);
        first_read = item_bytes(serial, &it).len() + if follow_msg { 4 + rng.below(12) as usize } else { rng.below(4) as usize };
        total += item_bytes(serial, &it).len();
        items.push(it);
        if !follow_msg {
            let g = 4 + rng.below(30) as usize;
            items.push(Item::G((0..g).map(|_| marker_free_byte(rng)).collect()));
            total += g;
        }
    }
    while total < target {
        if rng.chance(12) {
            let g = 1 + rng.below(40) as usize;
            let it = Item::G((0..g).map(|_| marker_free_byte(rng)).collect());
            total += g;
            items.push(it);
        }
        let huge = rng.chance(if trap { 6 } else { 25 });
        let t = if rng.chance(8) { 1 } else { 0 };
        let mut it = gen_msg(rng, serial, true, false, t, huge);
        if huge && trap {
            if let Item::M { ref mut payload, .. } = it {
                if payload.len() > 400 {
                    let at = 20 + rng.below(200) as usize;
                    let pat: &[u8] = if serial { b"DLS\x01" } else { b"DLT\x01" };
                    payload[at..at + 4].copy_from_slice(pat);
                }
            }
        }
        total += item_bytes(serial, &it).len();
        items.push(it);
        if huge && trap && rng.chance(2) {
            let g = 4 + rng.below(30) as usize;
            items.push(Item::G((0..g).map(|_| marker_free_byte(rng)).collect()));
            total += g;
        }
    }
    let low = lw_low_mark();
    let cap = low + 4096 + match rng.below(3) {
        0 => 0,
        1 => rng.below(5000) as usize,
        _ => 512 * 1024 - low - 4096,
    };
    let nsched = rng.below(60) as usize;
    let sizes: Vec<usize> = (0..nsched)
        .map(|_| match rng.below(7) {
            0 => 1,
            1 => 1 + rng.below(10) as usize,
            2 => 4096,
            3 => 65551,
            4 => 65555,
            5 => 1 + rng.below(70_000) as usize,
            _ if rng.chance(3) => 1_000_000_001 + rng.below(4) as usize,
            _ => 1 + rng.below(300) as usize,
        })
        .collect();
    let mut sizes = sizes;
    if first_read > 0 {
        if follow_msg {
            // then byte by byte: the parser is asked again with every byte that arrives
            for _ in 0..24 {
                sizes.insert(0, 1);
            }
        }
        sizes.insert(0, first_read);
    }
    let c = Case { i0: rng.below(1000) as u32, serial, big: false, items };
    format!("{} {} | {}", cap, sizes.iter().map(|s| s.to_string()).collect::<Vec<_>>().join(" "), fmt_case(&c))
}

impl Area for Lw {
    fn gen(&self, rng: &mut Rng, tier: u32) -> String {
        gen_lw(rng, tier)
    }
    fn run(&self, case: &str) -> String {
        let (cfg, dpcase) = case.split_once(" | ").unwrap();
        let nums: Vec<usize> = cfg.split_whitespace().map(|x| x.parse().unwrap()).collect();
        let c = parse_case(dpcase);
        let data = render(&c);
        let src = crate::lm::Chunked { data, pos: 0, sizes: nums[1..].to_vec(), i: 0 };
        let r = adlt::utils::LowMarkBufReader::new(src, nums[0], lw_low_mark());
        let mut it = DltMessageIterator::new(c.i0, r);
        let mut strs = vec![];
        while let Some(m) = it.next() {
            // payloads are long: index, times, header bytes, payload length and a hash of the payload
            let h = m.payload.iter().fold(7u64, |h, x| (h * 31 + *x as u64 + 1) % 4294967291);
            strs.push(format!("{},{},{},{},{},{},{},{}", m.index, m.reception_time_us, hex(m.ecu.as_buf()), m.timestamp_dms, m.standard_header.htyp, m.standard_header.len, m.payload.len(), h));
        }
        format!("{} | {} {} {} {} {}", strs.join(" "), it.index, it.bytes_processed, it.bytes_skipped, it.detected_storage_header as u8, it.detected_serial_header as u8)
    }
}
