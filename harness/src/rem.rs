//! the `adlt remote` websocket server (binary built from the working tree): command histories, replies, stream windows,
//! searches and lookups (C15, C16)
use crate::dp::{hex, unhex};
use crate::{Area, Rng};
use adlt::dlt::*;
use adlt::lifecycle::*;
use adlt::utils::remote_types::BinType;
use std::io::Write;
use std::sync::mpsc::channel;
use std::time::{Duration, Instant};
use tungstenite::Message;

pub struct Rem;

const BINCODE_CONFIG: bincode::config::Configuration<bincode::config::LittleEndian, bincode::config::Fixint, bincode::config::NoLimit> = bincode::config::legacy();

fn adlt_bin() -> String {
    std::env::var("VERIF_ADLT_BIN").unwrap_or_else(|_| "/verif/build/adlt/debug/adlt".to_string())
}

#[derive(Clone)]
pub struct Msg {
    pub ecu: u8,
    pub recv: u64,
    pub ts: u32,
    pub apid: String,
    pub ctid: String,
    pub text: String,
    /// a control request (sent by the logger: its time stamp is from the clock of the logger)
    pub ctrl: bool,
}

fn pad4(s: &str) -> [u8; 4] {
    let mut b = [0u8; 4];
    for (i, c) in s.bytes().take(4).enumerate() {
        b[i] = c;
    }
    b
}

pub fn msg_bytes(m: &Msg) -> Vec<u8> {
    let mut v = vec![b'D', b'L', b'T', 1];
    v.extend_from_slice(&((m.recv / 1_000_000) as u32).to_le_bytes());
    v.extend_from_slice(&((m.recv % 1_000_000) as u32).to_le_bytes());
    v.extend_from_slice(&[b'E', b'C', b'U', b'0' + m.ecu]);
    if m.ctrl {
        // control request, non-verbose: service id get_software_version
        let payload = 0x13u32.to_le_bytes();
        let len = 4 + 4 + 10 + payload.len();
        v.extend_from_slice(&[0x31, 0, (len >> 8) as u8, len as u8]);
        v.extend_from_slice(&m.ts.to_be_bytes());
        v.extend_from_slice(&[(3 << 1) | (1 << 4), 1]);
        v.extend_from_slice(&pad4(&m.apid));
        v.extend_from_slice(&pad4(&m.ctid));
        v.extend_from_slice(&payload);
        return v;
    }
    let mut payload = vec![];
    payload.extend_from_slice(&(DLT_TYPE_INFO_STRG | DLT_SCOD_UTF8).to_le_bytes());
    payload.extend_from_slice(&((m.text.len() + 1) as u16).to_le_bytes());
    payload.extend_from_slice(m.text.as_bytes());
    payload.push(0);
    let len = 4 + 4 + 10 + payload.len();
    v.extend_from_slice(&[0x31, 0, (len >> 8) as u8, len as u8]);
    v.extend_from_slice(&m.ts.to_be_bytes());
    v.extend_from_slice(&[(4 << 4) | 1, 1]); // verbose log info, 1 arg
    v.extend_from_slice(&pad4(&m.apid));
    v.extend_from_slice(&pad4(&m.ctid));
    v.extend_from_slice(&payload);
    v
}

pub fn parse_msgs(s: &str) -> Vec<Msg> {
    let mut out: Vec<Msg> = vec![];
    for x in s.split(';').filter(|x| !x.is_empty()) {
        if let Some(k) = x.strip_prefix('*') {
            // `*K`: everything before is repeated to K copies in total
            let k: usize = k.parse().unwrap_or(1);
            let base = out.clone();
            for _ in 1..k {
                out.extend(base.iter().cloned());
            }
            continue;
        }
        let f: Vec<&str> = x.split(',').collect();
        out.push(Msg { ecu: f[0].parse().unwrap(), recv: f[1].parse().unwrap(), ts: f[2].parse().unwrap(), apid: f[3].to_string(), ctid: f[4].to_string(), text: String::from_utf8(unhex(f[5])).unwrap(), ctrl: f.get(7).map_or(false, |c| *c == "1") });
    }
    out
}

pub fn filters_json(fs: &str) -> String {
    if fs == "-" {
        return "[]".to_string();
    }
    let items: Vec<String> = fs
        .split('+')
        .map(|it| {
            let (neg, it) = if let Some(r) = it.strip_prefix('!') { (true, r) } else { (false, it) };
            let t = if neg { 1 } else { 0 };
            let (k, v) = it.split_at(1);
            match k {
                "e" => format!(r#"{{"type":{},"ecu":"ECU{}","ecuIsRegex":false}}"#, t, v),
                "a" => format!(r#"{{"type":{},"apid":"{}","apidIsRegex":false}}"#, t, v),
                "c" => format!(r#"{{"type":{},"ctid":"{}","ctidIsRegex":false}}"#, t, v),
                "r" => format!(r#"{{"type":{},"payloadRegex":{}}}"#, t, serde_json::json!(String::from_utf8(unhex(v)).unwrap())),
                _ => format!(r#"{{"type":{},"payload":{}}}"#, t, serde_json::json!(String::from_utf8(unhex(v)).unwrap())),
            }
        })
        .collect();
    format!("[{}]", items.join(","))
}

struct Session {
    child: std::process::Child,
    ws: tungstenite::WebSocket<tungstenite::stream::MaybeTlsStream<std::net::TcpStream>>,
    /// real id -> canonical k
    ids: Vec<u32>,
    /// per canonical k: received message indices, flags
    got: Vec<(Vec<u32>, bool, bool, bool)>,
    pending_frames_for_unknown: Vec<(u32, Vec<u32>, bool, bool)>,
    nr_file_msgs: u32,
    processed: std::collections::HashMap<u32, u32>,
    expect: Vec<DltMessage>,
    /// per canonical k: is it a query; has it been ended by stop / close / window change
    is_query: Vec<bool>,
    ended: Vec<bool>,
}

impl Session {
    /// everything the live streams and queries are going to get has arrived (or `max` is over)
    fn wait_settled(&mut self, total: u32, max: Duration) {
        let t0 = Instant::now();
        while t0.elapsed() < max {
            let all = self.nr_file_msgs >= total
                && (0..self.ids.len()).all(|k| self.ended[k] || if self.is_query[k] { self.got[k].3 } else { self.processed.get(&self.ids[k]).map_or(false, |p| *p >= total) });
            if all {
                break;
            }
            self.drain(Duration::from_millis(30), Duration::from_millis(60));
        }
        self.drain(Duration::from_millis(60), Duration::from_millis(400));
    }

    fn handle_bin(&mut self, d: &[u8]) {
        if let Ok((bt, _)) = bincode::decode_from_slice::<BinType, _>(d, BINCODE_CONFIG) {
            match bt {
                BinType::FileInfo(fi) => self.nr_file_msgs = fi.nr_msgs,
                BinType::StreamInfo(si) => {
                    self.processed.insert(si.stream_id, si.nr_file_msgs_processed);
                }
                BinType::DltMsgs((id, msgs)) => {
                    let mut idxs = vec![];
                    let mut diff = false;
                    for m in &msgs {
                        idxs.push(m.index);
                        match self.expect.get(m.index as usize) {
                            Some(e) => {
                                let t = e.payload_as_text().map(|c| c.to_string()).unwrap_or_default();
                                if e.reception_time_us != m.reception_time
                                    || e.timestamp_dms != m.timestamp_dms
                                    || e.ecu.as_u32le() != m.ecu
                                    || e.apid().map_or(0, |a| a.as_u32le()) != m.apid
                                    || e.ctid().map_or(0, |a| a.as_u32le()) != m.ctid
                                    || e.mcnt() != m.mcnt
                                    || e.standard_header.htyp != m.htyp
                                    || t != m.payload_as_text
                                {
                                    diff = true;
                                }
                            }
                            None => diff = true,
                        }
                    }
                    let end_marker = msgs.is_empty();
                    if let Some(k) = self.ids.iter().position(|x| *x == id) {
                        if self.got[k].3 && !end_marker {
                            diff = true; // data after the end-of-query marker
                        }
                        self.got[k].0.extend(idxs);
                        self.got[k].2 |= diff;
                        self.got[k].3 |= end_marker;
                    } else {
                        // data under an id that has not been announced (yet)
                        self.pending_frames_for_unknown.push((id, idxs, diff, end_marker));
                    }
                }
                _ => {}
            }
        }
    }

    /// read frames until a text frame (the reply) arrives
    fn read_reply(&mut self, timeout: Duration) -> Option<String> {
        let deadline = Instant::now() + timeout;
        while Instant::now() < deadline {
            match self.ws.read_message() {
                Ok(Message::Text(t)) => return Some(t),
                Ok(Message::Binary(d)) => self.handle_bin(&d),
                Ok(_) => {}
                Err(tungstenite::Error::Io(e)) if e.kind() == std::io::ErrorKind::WouldBlock || e.kind() == std::io::ErrorKind::TimedOut => {}
                Err(e) => {
                    if std::env::var("VERIF_REM_STDERR").is_ok() {
                        eprintln!("client read error: {:?}", e);
                    }
                    return None;
                }
            }
        }
        None
    }

    /// drain asynchronous frames until nothing arrived for `quiet`
    fn drain(&mut self, quiet: Duration, max: Duration) -> bool {
        let start = Instant::now();
        let mut last = Instant::now();
        while last.elapsed() < quiet && start.elapsed() < max {
            match self.ws.read_message() {
                Ok(Message::Binary(d)) => {
                    self.handle_bin(&d);
                    last = Instant::now();
                }
                Ok(Message::Text(_)) => {
                    last = Instant::now(); // an unsolicited text frame: counted by the caller as protocol violation
                    return false;
                }
                Ok(_) => {}
                Err(tungstenite::Error::Io(e)) if e.kind() == std::io::ErrorKind::WouldBlock || e.kind() == std::io::ErrorKind::TimedOut => {}
                Err(_) => return false,
            }
        }
        true
    }

    fn announce(&mut self, id: u32, is_query: bool) -> usize {
        self.ids.push(id);
        self.is_query.push(is_query);
        self.ended.push(false);
        let mut entry = (vec![], false, false, false);
        // frames that arrived before the reply announcing the id
        let early: Vec<(u32, Vec<u32>, bool, bool)> = self.pending_frames_for_unknown.drain(..).collect();
        for (pid, idxs, diff, end) in early {
            if pid == id {
                entry.0.extend(idxs);
                entry.1 = true;
                entry.2 |= diff;
                entry.3 |= end;
            } else {
                self.pending_frames_for_unknown.push((pid, idxs, diff, end));
            }
        }
        self.got.push(entry);
        self.ids.len()
    }
}

fn real_id(s: &Session, k: &str) -> String {
    let k: usize = k.parse().unwrap_or(0);
    if k >= 1 && k <= s.ids.len() {
        s.ids[k - 1].to_string()
    } else {
        "999999".to_string()
    }
}

/// start `adlt remote` on a free port and connect to it
pub fn start_server() -> Option<(std::process::Child, tungstenite::WebSocket<tungstenite::stream::MaybeTlsStream<std::net::TcpStream>>)> {
    // start the server and make sure it is *our* child that listens on the port before connecting: the free port is found
    // by binding port 0 and closing again, so a parallel session may grab the same port in between - then our child
    // fails to bind and a connect would reach a foreign server (which dies when its own session ends)
    let mut started = None;
    for _attempt in 0..5 {
        let port = {
            let l = std::net::TcpListener::bind("127.0.0.1:0").unwrap();
            l.local_addr().unwrap().port()
        };
        let mut child = std::process::Command::new(adlt_bin())
            .args(["remote", "-p", &port.to_string()])
            .stdout(std::process::Stdio::piped())
            .stderr(if std::env::var("VERIF_REM_STDERR").is_ok() { std::process::Stdio::inherit() } else { std::process::Stdio::null() })
            .spawn()
            .expect("adlt binary");
        let out = child.stdout.take().unwrap();
        let (tx, rx) = std::sync::mpsc::channel::<bool>();
        std::thread::spawn(move || {
            use std::io::BufRead;
            let echo = std::env::var("VERIF_REM_STDERR").is_ok();
            let mut told = false;
            for line in std::io::BufReader::new(out).lines() {
                let Ok(line) = line else { break };
                if echo {
                    eprintln!("{}", line);
                }
                if !told && line.contains("remote server listening on") {
                    told = true;
                    let _ = tx.send(true);
                }
            }
            if !told {
                let _ = tx.send(false);
            }
        });
        match rx.recv_timeout(Duration::from_secs(10)) {
            Ok(true) => {}
            _ => {
                let _ = child.kill();
                let _ = child.wait();
                continue;
            }
        }
        let start = Instant::now();
        let ws = loop {
            match tungstenite::client::connect(format!("ws://127.0.0.1:{}", port)) {
                Ok(p) => break Some(p.0),
                Err(_) => {
                    if start.elapsed() > Duration::from_secs(5) {
                        break None;
                    }
                    std::thread::sleep(Duration::from_millis(15));
                }
            }
        };
        match ws {
            Some(ws) => {
                started = Some((child, ws));
                break;
            }
            None => {
                let _ = child.kill();
                let _ = child.wait();
            }
        }
    }
    started
}

fn run(case: &str) -> String {
    let (ms, script) = case.split_once(" | ").unwrap_or((case, ""));
    let msgs = parse_msgs(ms);
    let dir = tempfile::tempdir().unwrap();
    let path = dir.path().join("t.dlt");
    let mut bytes = vec![];
    for m in &msgs {
        bytes.extend_from_slice(&msg_bytes(m));
    }
    std::fs::File::create(&path).unwrap().write_all(&bytes).unwrap();
    // for the `fs` commands: something that is not an archive under an archive name, and a real archive
    let _ = std::fs::write(dir.path().join("bad.zip"), b"this is not a zip archive at all");
    {
        let mut w = zip::ZipWriter::new(std::fs::File::create(dir.path().join("good.zip")).unwrap());
        let o = zip::write::SimpleFileOptions::default().compression_method(zip::CompressionMethod::Stored);
        let _ = w.start_file("a.dlt", o);
        let _ = w.write_all(b"abc");
        let _ = w.finish();
    }
    let d = dir.path().to_str().unwrap().to_string();
    // what the library itself reads from that file
    let expect: Vec<DltMessage> = adlt::utils::DltMessageIterator::new(0, std::io::Cursor::new(bytes)).collect();

    let started = start_server();
    let Some((child, ws)) = started else {
        return "NOCONNECT".to_string();
    };
    let mut s = Session { child, ws, ids: vec![], got: vec![], pending_frames_for_unknown: vec![], nr_file_msgs: 0, processed: Default::default(), expect, is_query: vec![], ended: vec![] };
    if let tungstenite::stream::MaybeTlsStream::Plain(t) = s.ws.get_mut() {
        let _ = t.set_read_timeout(Some(Duration::from_millis(20)));
    }
    let total = msgs.len() as u32;
    let mut replies = vec![];
    let mut dead = false;
    let mut file_open = false;
    let big = ms.contains('*');
    // sessions that use the other collect modes (one-pass streams, no collection): only "one reply each, server alive" is specified
    let wild = script.contains("open1p") || script.contains("opennc") || script.contains("openxc") || script.contains("stream1p") || script.contains("openexp") || script.contains("openmun");
    let long = if big { Duration::from_secs(40) } else { Duration::from_secs(4) };
    for cmd in script.split(" ;; ").filter(|x| !x.trim().is_empty()) {
        // `!cmd`: sent at once, whatever the parsing progress is
        let (racing, cmd) = match cmd.trim().strip_prefix('!') {
            Some(c) => (true, c),
            None => (false, cmd.trim()),
        };
        let f: Vec<&str> = cmd.split_whitespace().collect();
        if f[0] == "sleep" {
            // not a command: the client is silent for a while (the server keeps parsing / filling its channels)
            let ms: u64 = f.get(1).and_then(|x| x.parse().ok()).unwrap_or(100);
            let t0 = Instant::now();
            while t0.elapsed() < Duration::from_millis(ms) {
                s.drain(Duration::from_millis(20), Duration::from_millis(50));
            }
            continue;
        }
        // searches and lookups are specified on the fully processed stream: let the server catch up first
        if wild {
            s.drain(Duration::from_millis(40), Duration::from_millis(250));
        } else if !racing && file_open && matches!(f[0], "search" | "bsi" | "bst" | "cw" | "stop" | "close") {
            s.wait_settled(total, long);
        }
        let text = match f[0] {
            "open" => format!(r#"open {{"files":[{}]}}"#, serde_json::json!(path.to_str().unwrap())),
            "opensort" => format!(r#"open {{"files":[{}],"sort":true}}"#, serde_json::json!(path.to_str().unwrap())),
            "openbad" => r#"open {"files":["/nonexistent/dir/x.dlt"#.to_string(),
            "open1p" => format!(r#"open {{"files":[{}],"collect":"one_pass_streams"}}"#, serde_json::json!(path.to_str().unwrap())),
            "opennc" => format!(r#"open {{"files":[{}],"collect":false}}"#, serde_json::json!(path.to_str().unwrap())),
            "openxc" => format!(r#"open {{"files":[{}],"collect":"bogus"}}"#, serde_json::json!(path.to_str().unwrap())),
            // plugin configurations with extreme / odd values in the open command
            x if x.starts_with("openexp") => {
                let v = match x.trim_start_matches("openexp") {
                    "0" => serde_json::json!(18446744073709551615u64),
                    "1" => serde_json::json!("18446744073709551615n"),
                    "2" => serde_json::json!(18446744073709552u64),
                    _ => serde_json::json!(1000),
                };
                let key = if x.ends_with('2') { "recordedTimeToMs" } else { "recordedTimeFromMs" };
                format!(
                    r#"open {{"files":[{}],"plugins":[{{"name":"Export","exportFileName":{},"filters":[],"{}":{}}}]}}"#,
                    serde_json::json!(path.to_str().unwrap()),
                    serde_json::json!(dir.path().join("export.dlt").to_str().unwrap()),
                    key,
                    v
                )
            }
            "openmun" => {
                // a description directory with a file that is not valid UTF-8
                let jd = dir.path().join("muniic_bad");
                let _ = std::fs::create_dir_all(&jd);
                let _ = std::fs::write(jd.join("model.json"), [0xffu8, 0xfe, 0x00, 0x7b]);
                format!(r#"open {{"files":[{}],"plugins":[{{"name":"Muniic","jsonDir":{}}}]}}"#, serde_json::json!(path.to_str().unwrap()), serde_json::json!(jd.to_str().unwrap()))
            }
            "stream1p" => format!(r#"stream {{"one_pass":true,"window":[{},{}],"binary":true,"filters":{}}}"#, f[2], f[3], filters_json(f[1])),
            "close" => "close".to_string(),
            "pause" => "pause".to_string(),
            "resume" => "resume".to_string(),
            "junk" => "frobnicate 1 2 3".to_string(),
            "stream" | "query" => format!(r#"{} {{"window":[{},{}],"binary":true,"filters":{}}}"#, f[0], f[2], f[3], filters_json(f[1])),
            "streambad" => r#"stream {"window":[1"#.to_string(),
            "stop" => format!("stop {}", real_id(&s, f[1])),
            "cw" => format!("stream_change_window {} {},{}", real_id(&s, f[1]), f[2], f[3]),
            "cwbad" => format!("stream_change_window {}", real_id(&s, f[1])),
            "search" => format!(r#"stream_search {} {{"start_idx":{},"max_results":{},"filters":{}}}"#, real_id(&s, f[1]), f[3], f[4], filters_json(f[2])),
            "searchnobody" => format!("stream_search {}", real_id(&s, f[1])),
            "bsi" => format!("stream_binary_search {} index={}", real_id(&s, f[1]), f[2]),
            "bst" => format!("stream_binary_search {} time_ms={}", real_id(&s, f[1]), f[2]),
            "bsbad" => format!("stream_binary_search {}", real_id(&s, f[1])),
            "fs" => match f.get(1).and_then(|x| x.parse::<u32>().ok()).unwrap_or(0) {
                0 => "fs notjson".to_string(),
                1 => "fs [1,2]".to_string(),
                2 => r#"fs {"cmd":"stat"}"#.to_string(),
                3 => format!(r#"fs {{"cmd":"frob","path":{}}}"#, serde_json::json!(d)),
                4 => format!(r#"fs {{"cmd":"stat","path":{}}}"#, serde_json::json!(d)),
                5 => format!(r#"fs {{"cmd":"readDirectory","path":{}}}"#, serde_json::json!(d)),
                6 => format!(r#"fs {{"cmd":"readDirectory","path":{}}}"#, serde_json::json!(format!("{}/t.dlt", d))),
                7 => format!(r#"fs {{"cmd":"stat","path":{}}}"#, serde_json::json!(format!("{}/nonexistent", d))),
                8 => format!(r#"fs {{"cmd":"readDirectory","path":{}}}"#, serde_json::json!(format!("{}/bad.zip!/x", d))),
                9 => format!(r#"fs {{"cmd":"readDirectory","path":{}}}"#, serde_json::json!(format!("{}/good.zip!/", d))),
                10 => format!(r#"fs {{"cmd":"stat","path":{}}}"#, serde_json::json!(format!("{}/nothere.zip!/a", d))),
                _ => "fs".to_string(),
            },
            "pcmd" => match f.get(1).and_then(|x| x.parse::<u32>().ok()).unwrap_or(0) {
                0 => "plugin_cmd notjson".to_string(),
                1 => "plugin_cmd [1]".to_string(),
                2 => r#"plugin_cmd {"cmd":"x"}"#.to_string(),
                _ => r#"plugin_cmd {"cmd":"x","name":"nope"}"#.to_string(),
            },
            "noid" => format!("{} notanumber", ["stop", "stream_search", "stream_change_window", "stream_binary_search"][f[1].parse::<usize>().unwrap_or(0) % 4]),
            _ => cmd.to_string(),
        };
        if dead {
            replies.push("DEAD".to_string());
            continue;
        }
        if s.ws.write_message(Message::Text(text)).is_err() {
            dead = true;
            replies.push("DEAD".to_string());
            continue;
        }
        match s.read_reply(if big { Duration::from_secs(40) } else { Duration::from_secs(4) }) {
            None => {
                // no reply: is the connection gone?
                if s.ws.write_message(Message::Ping(vec![])).is_err() || !s.ws.can_write() {
                    dead = true;
                }
                replies.push("NOREPLY".to_string());
            }
            Some(t) => {
                let r = if t.starts_with("ok:") {
                    match f[0] {
                        x if x.starts_with("open") => {
                            file_open = true;
                            "ok:open".to_string()
                        }
                        "close" => {
                            file_open = false;
                            s.ended.iter_mut().for_each(|e| *e = true);
                            "ok:close".to_string()
                        }
                        "fs" => "ok:fs".to_string(),
                        "pause" => "ok:pause".to_string(),
                        "resume" => "ok:resume".to_string(),
                        "stop" => {
                            if let Some(k) = f[1].parse::<usize>().ok().filter(|k| *k >= 1 && *k <= s.ended.len()) {
                                s.ended[k - 1] = true;
                            }
                            "ok:stop".to_string()
                        }
                        "stream" | "query" | "stream1p" => {
                            let id = t.split("\"id\":").nth(1).and_then(|x| x.split(|c: char| !c.is_ascii_digit()).next()).and_then(|x| x.parse::<u32>().ok()).unwrap_or(0);
                            format!("ok:id{}", s.announce(id, f[0] == "query"))
                        }
                        "cw" => {
                            let id = t.split("\"id\":").nth(1).and_then(|x| x.split(|c: char| !c.is_ascii_digit()).next()).and_then(|x| x.parse::<u32>().ok()).unwrap_or(0);
                            // the renewed id continues the progress of the old one (no new StreamInfo frame unless new messages arrive)
                            if let Some(p) = real_id(&s, f[1]).parse::<u32>().ok().and_then(|o| s.processed.get(&o).copied()) {
                                s.processed.insert(id, p);
                            }
                            let mut q = false;
                            if let Some(k) = f[1].parse::<usize>().ok().filter(|k| *k >= 1 && *k <= s.ended.len()) {
                                s.ended[k - 1] = true;
                                q = s.is_query[k - 1];
                            }
                            format!("ok:id{}", s.announce(id, q))
                        }
                        "search" => {
                            let v: serde_json::Value = t.split_once('=').and_then(|x| serde_json::from_str(x.1).ok()).unwrap_or_default();
                            let idxs: Vec<String> = v["search_idxs"].as_array().map(|a| a.iter().map(|x| x.to_string()).collect()).unwrap_or_default();
                            let next = v["next_search_idx"].as_u64().map_or("-".to_string(), |n| n.to_string());
                            format!("ok:[{}]->{}", idxs.join(","), next)
                        }
                        "bsi" | "bst" => {
                            let p = t.split("\"filtered_msg_index\":").nth(1).and_then(|x| x.split(|c: char| !c.is_ascii_digit()).next()).unwrap_or("?");
                            format!("ok:pos{}", p)
                        }
                        _ => "ok:?".to_string(),
                    }
                } else if t.starts_with("err:") {
                    "err".to_string()
                } else if t.starts_with("unknown command") {
                    "unknown".to_string()
                } else {
                    format!("OTHER:{}", t.chars().take(20).collect::<String>().replace(' ', "_"))
                };
                replies.push(r);
            }
        }
        if !wild && !racing && file_open && matches!(f[0], "stream" | "query" | "cw") {
            // give the stream the time to deliver its window
            s.wait_settled(total, long);
        }
    }
    if file_open && !dead && !wild {
        s.wait_settled(total, long);
    }
    // a little time for late frames
    if !dead {
        s.drain(Duration::from_millis(100), Duration::from_millis(600));
    }
    let alive = !dead && s.ws.write_message(Message::Text("frobnicate".to_string())).is_ok() && s.read_reply(Duration::from_secs(2)).map_or(false, |t| t.starts_with("unknown command"));
    let proc_alive = matches!(s.child.try_wait(), Ok(None));
    let _ = s.ws.close(None);
    let _ = s.child.kill();
    let _ = s.child.wait();
    let del: Vec<String> = s
        .got
        .iter()
        .enumerate()
        .map(|(k, (idxs, early, diff, end))| format!("{}:{}{}{}{}", k + 1, idxs.iter().map(|x| x.to_string()).collect::<Vec<_>>().join("+"), if *end { ":end" } else { "" }, if *early { ":early" } else { "" }, if *diff { ":diff" } else { "" }))
        .collect();
    let stray = if s.pending_frames_for_unknown.is_empty() { "" } else { " stray" };
    format!("{} | {}{} | alive={} proc={}", replies.join(" "), del.join(" "), stray, alive as u8, proc_alive as u8)
}

/// lifecycle start per message, as the library detects it (data for the time lookups of the model)
fn lc_starts(msgs: &[Msg]) -> Vec<u64> {
    let (tx, rx) = channel();
    for (i, m) in msgs.iter().enumerate() {
        let mut d = parse_dlt_with_storage_header(i as u32, &msg_bytes(m)).unwrap().1;
        d.index = i as u32;
        tx.send(d).unwrap();
    }
    drop(tx);
    let (tx2, rx2) = channel();
    let (lcs_r, lcs_w) = evmap::Options::default().with_hasher(nohash_hasher::BuildNoHashHasher::<LifecycleId>::default()).construct::<LifecycleId, LifecycleItem>();
    let _w = parse_lifecycles_buffered_from_stream(lcs_w, rx, &|m| tx2.send(m));
    drop(tx2);
    let out: Vec<DltMessage> = rx2.iter().collect();
    out.iter().map(|m| lcs_r.get_one(&m.lifecycle).map_or(0, |l| l.start_time)).collect()
}

fn gen_fs(rng: &mut Rng) -> String {
    if rng.chance(4) {
        return "-".to_string();
    }
    let n = 1 + rng.below(2);
    (0..n)
        .map(|_| {
            let neg = if rng.chance(4) { "!" } else { "" };
            let it = match rng.below(4) {
                0 => format!("e{}", rng.below(3)),
                1 => format!("a{}", rng.pick(&["APP1", "APP2", "SYS"][..])),
                2 => format!("c{}", rng.pick(&["CTX1", "CTX2"][..])),
                _ => format!("t{}", hex(rng.pick(&["err", "ok", "x", "boot"][..]).as_bytes())),
            };
            format!("{}{}", neg, it)
        })
        .collect::<Vec<_>>()
        .join("+")
}

/// a large file (one lifecycle, equal times) and commands sent while it is still being parsed
fn gen_big(rng: &mut Rng) -> String {
    let n = 10 + rng.below(30) as usize;
    let necu = 1 + rng.below(2);
    let ms: Vec<String> = (0..n)
        .map(|_| {
            format!(
                "{},1700000000000000,10000,{},{},{}",
                rng.below(necu),
                rng.pick(&["APP1", "APP2", "SYS"][..]),
                rng.pick(&["CTX1", "CTX2"][..]),
                hex(rng.pick(&["boot ok", "error x", "status ok", "x", "err 42", "all fine"][..]).as_bytes())
            )
        })
        .collect();
    let reps = (60_000 + rng.below(240_000)) as usize / n;
    let total = (n * reps + 1) as u64;
    // one last message that differs from all others: a filter on it matches only at the very end
    let tail = format!("0,1700000000000000,10000,LAST,CTX1,{}", hex(b"needle"));
    let mut cmds: Vec<String> = vec!["open".to_string()];
    let mut announced: Vec<bool> = vec![]; // per id: is it a stream that may be stopped / changed
    let ncmd = 2 + rng.below(8);
    let mut open = true;
    for _ in 0..ncmd {
        let win = |rng: &mut Rng| {
            let a = match rng.below(3) {
                0 => rng.below(5),
                1 => rng.below(total),
                _ => total - rng.below(30).min(total),
            };
            (a, a + rng.below(50))
        };
        let c = match rng.below(100) {
            0..=24 => {
                let (a, b) = win(rng);
                if open {
                    announced.push(true);
                }
                format!("!stream {} {} {}", gen_fs(rng), a, b)
            }
            25..=49 => {
                let (a, b) = win(rng);
                if open {
                    announced.push(false);
                }
                let fs = if rng.chance(3) { format!("t{}", hex(b"needle")) } else { gen_fs(rng) };
                format!("!query {} {} {}", fs, if rng.chance(2) { 0 } else { a.min(40) }, b.min(60))
            }
            50..=59 => {
                let live: Vec<usize> = announced.iter().enumerate().filter(|(_, s)| **s).map(|(i, _)| i + 1).collect();
                if open && !live.is_empty() {
                    let k = *rng.pick(&live[..]);
                    let (a, b) = win(rng);
                    announced[k - 1] = false;
                    announced.push(true);
                    format!("!cw {} {} {}", k, a, b)
                } else {
                    "junk".to_string()
                }
            }
            60..=67 => {
                let live: Vec<usize> = announced.iter().enumerate().filter(|(_, s)| **s).map(|(i, _)| i + 1).collect();
                if open && !live.is_empty() {
                    let k = *rng.pick(&live[..]);
                    announced[k - 1] = false;
                    format!("!stop {}", k)
                } else {
                    "!stop 0".to_string()
                }
            }
            68..=79 => {
                if open {
                    open = false;
                    announced.iter_mut().for_each(|s| *s = false);
                    "!close".to_string()
                } else {
                    open = true;
                    "open".to_string()
                }
            }
            80..=84 => "pause ;; resume".to_string(),
            85..=88 => "!open".to_string(),
            89..=91 => "!close ;; open ;; !close ;; open".to_string(),
            92..=93 => "streambad".to_string(),
            94..=95 => "!searchnobody 1".to_string(),
            96..=97 => "!bsbad 1".to_string(),
            _ => "junk".to_string(),
        };
        if c.starts_with("!close ;;") {
            announced.iter_mut().for_each(|s| *s = false);
            open = true;
        }
        cmds.push(c);
    }
    format!("{};*{};{} | {}", ms.join(";"), reps, tail, cmds.join(" ;; "))
}

fn gen(rng: &mut Rng, tier: u32) -> String {
    if rng.chance(if tier > 0 { 8 } else { 25 }) {
        return gen_big(rng);
    }
    let n = rng.below(if tier > 0 { 60 } else { 25 }) as usize;
    let mut recv = 1_700_000_000_000_000u64;
    let mut ts = 10_000u32;
    let mut msgs = vec![];
    // directed: a time-sorted session over two ECUs that booted at very different times, with index lookups on a filtered
    // stream that mixes their lifecycles
    let directed = n >= 4 && rng.chance(8);
    let necu = if directed { 2 } else { 1 + rng.below(2) as u8 };
    let distinct = (directed && rng.chance(2)) || rng.chance(3);
    // ECUs that booted at very different times: equal reception times, lifecycle starts (and timestamps) far apart
    let ts_off: Vec<u32> = (0..necu).map(|e| if e > 0 && (directed || rng.chance(2)) { [300_000u32, 6_000_000][rng.below(2) as usize] } else { 0 }).collect();
    for _ in 0..n {
        let step = if distinct { [1000u64, 20_000, 500_000][rng.below(3) as usize] } else { [0u64, 0, 1000, 20_000, 500_000][rng.below(5) as usize] };
        recv += step;
        ts += (step / 100) as u32;
        let ecu = rng.below(necu as u64) as u8;
        msgs.push(Msg {
            ecu,
            recv,
            ts: ts + ts_off[ecu as usize],
            apid: rng.pick(&["APP1", "APP2", "SYS"][..]).to_string(),
            ctid: rng.pick(&["CTX1", "CTX2"][..]).to_string(),
            text: rng.pick(&["boot ok", "error x", "status ok", "x", "err 42", "all fine"][..]).to_string(),
            ctrl: false,
        });
    }
    // in one case of three some messages are control requests: sent by the logger, with a time stamp of the logger's clock -
    // the lifecycle detection ignores that time stamp, the time sort and the time lookup use the reception time for them
    if rng.chance(3) {
        for m in msgs.iter_mut() {
            if rng.chance(4) {
                m.ctrl = true;
                m.ts = *rng.pick(&[0u32, 20_000, 600_000_000]);
                m.text = "get_software_version".to_string();
            }
        }
    }
    let starts = lc_starts(&msgs);
    // the time of a message for sorting and time lookups: reception time for control requests, otherwise lifecycle start +
    // time stamp, but not later than the reception time
    let times: Vec<u64> = msgs.iter().zip(starts.iter()).map(|(m, s)| if m.ctrl { m.recv } else { (s + m.ts as u64 * 100).min(m.recv) }).collect();
    let monotone = times.windows(2).all(|w| w[0] <= w[1]);
    let strict = times.windows(2).all(|w| w[0] < w[1]);
    let wild = rng.chance(6);
    let wild = wild && !directed;
    let open_cmd = if wild {
        *rng.pick(&["open1p", "open1p", "open1p", "opennc", "openxc", "openexp0", "openexp1", "openexp2", "openexp3", "openmun"])
    } else if (strict || (monotone && rng.chance(2))) && (directed || rng.chance(2)) {
        "opensort"
    } else {
        "open"
    };
    let ms: Vec<String> = msgs.iter().zip(starts.iter()).map(|(m, s)| format!("{},{},{},{},{},{},{},{}", m.ecu, m.recv, m.ts, m.apid, m.ctid, hex(m.text.as_bytes()), s, m.ctrl as u8)).collect();
    // command history
    let mut cmds: Vec<String> = vec![];
    let mut announced = 0u64;
    let ncmd = 2 + rng.below(if tier > 0 { 14 } else { 9 });
    let mut open = false;
    if directed || !rng.chance(6) {
        open = true;
        cmds.push(open_cmd.to_string());
    }
    if directed {
        let fs = match rng.below(3) {
            0 => format!("a{}", rng.pick(&["APP1", "APP2", "SYS"][..])),
            1 => format!("!c{}", rng.pick(&["CTX1", "CTX2"][..])),
            _ => format!("!t{}", hex(b"zzz")),
        };
        cmds.push(format!("stream {} 0 {}", fs, n + 3));
        announced += 1;
        for _ in 0..3 {
            cmds.push(format!("bsi 1 {}", rng.below(n as u64 + 1)));
        }
    }
    for _ in 0..ncmd {
        let r = rng.below(100);
        let k = if announced > 0 && !rng.chance(8) { 1 + rng.below(announced) } else { 0 };
        let c = match r {
            0..=13 => {
                if !open || rng.chance(6) {
                    open = true;
                    open_cmd.to_string()
                } else {
                    "pause ;; resume".to_string() // (delivery while paused is not modelled: always resumed at once)
                }
            }
            14..=17 => {
                if rng.chance(2) {
                    open = false;
                }
                if !open { "close".to_string() } else { "resume".to_string() }
            }
            18..=40 => {
                let start = rng.below(6);
                let stop = start + rng.below(n as u64 + 4);
                if open {
                    announced += 1;
                }
                let verb = if wild && !rng.chance(4) { "stream1p" } else if rng.chance(3) { "query" } else { "stream" };
                if wild {
                    // one-pass streams deliver only after `resume`
                    format!("{} {} {} {} ;; resume", verb, if rng.chance(2) { "-".to_string() } else { gen_fs(rng) }, start, stop)
                } else {
                    format!("{} {} {} {}", verb, gen_fs(rng), start, stop)
                }
            }
            41..=50 => {
                let start = rng.below(6);
                let stop = start + rng.below(n as u64 + 4);
                if open && k > 0 {
                    announced += 1;
                }
                format!("cw {} {} {}", k, start, stop)
            }
            51..=64 => format!("search {} {} {} {}", k, gen_fs(rng), rng.below(n as u64 + 2), if rng.chance(12) { [1u64 << 40, 1 << 53, u32::MAX as u64][rng.below(3) as usize] } else { rng.below(5) }),
            65..=72 => format!("bsi {} {}", k, rng.below(n as u64 + 3)),
            73..=78 => {
                if monotone && n > 0 {
                    let i = rng.below(n as u64) as usize;
                    let t = times[i] / 1000 + rng.below(2);
                    // sometimes a time far beyond every message (also beyond what fits into microseconds)
                    let t = if rng.chance(10) { [u64::MAX / 1000 + 1, u64::MAX / 1000, u64::MAX][rng.below(3) as usize] } else { t };
                    format!("bst {} {}", k, t)
                } else {
                    format!("bsbad {}", k)
                }
            }
            79..=82 => format!("stop {}", k),
            83..=84 => "streambad".to_string(),
            85..=86 => format!("cwbad {}", k),
            87..=89 => format!("searchnobody {}", k),
            90..=91 => format!("bsbad {}", k),
            92..=94 => format!("noid {}", rng.below(4)),
            95 => "openbad".to_string(),
            96..=97 => format!("fs {}", rng.below(12)),
            98 => format!("pcmd {}", rng.below(4)),
            _ => "junk".to_string(),
        };
        // a stop makes the id unusable; keep the generator simple: ids stay in the pool (later use must be answered with err)
        cmds.push(c);
    }
    format!("{} | {}", ms.join(";"), cmds.join(" ;; "))
}

impl Area for Rem {
    fn gen(&self, rng: &mut Rng, tier: u32) -> String {
        gen(rng, tier)
    }
    fn run(&self, case: &str) -> String {
        run(case)
    }
}
