/// xorshift64*: every random choice of a run derives from one seed
pub struct Rng(pub u64);
impl Rng {
    pub fn new(seed: u64) -> Rng {
        let mut r = Rng(seed.wrapping_mul(0x9E3779B97F4A7C15) ^ 0xD1B54A32D192ED03);
        if r.0 == 0 {
            r.0 = 1;
        }
        for _ in 0..4 {
            r.next();
        }
        r
    }
    pub fn next(&mut self) -> u64 {
        self.0 ^= self.0 << 13;
        self.0 ^= self.0 >> 7;
        self.0 ^= self.0 << 17;
        self.0.wrapping_mul(0x2545F4914F6CDD1D)
    }
    pub fn below(&mut self, n: u64) -> u64 {
        if n == 0 {
            0
        } else {
            self.next() % n
        }
    }
    pub fn chance(&mut self, one_in: u64) -> bool {
        self.below(one_in) == 0
    }
    pub fn pick<'a, T>(&mut self, xs: &'a [T]) -> &'a T {
        &xs[self.below(xs.len() as u64) as usize]
    }
}
