//! C07 at the level of the `adlt remote` binary: the lifecycle table a client ends up with. The client opens the file, applies
//! every `Lifecycles` update it is sent (keyed by id; an entry with 0 messages = "not valid any more" removes the id) and, once
//! the whole file has been processed, lists the table sorted by the start time it was sent - the way the server orders every
//! update. This is compared with the final table of the library for the same messages.
//!
//! case: a message list as in the `lc` area, optionally with runs `*<n>,<ecu>,<recv>,<ts>,<step>` (n messages of one ECU,
//! reception time and timestamp advancing by `step` us) so that more messages than the server's channels hold (1.5 million)
//! can be put between two events.
//! obs: `T:<id,ecu,n,start,end,resume> …` (client, in listing order) ` L:<the same from the library, in the order of
//! get_sorted_lifecycles_as_vec, lifecycles with control requests only left out> R:<id>-<resumed id> …`
use crate::lc::{mk, M};
use crate::{Area, Rng};
use adlt::lifecycle::*;
use adlt::utils::remote_types::{self, BinType};
use std::io::Write;
use std::sync::mpsc::channel;
use std::time::{Duration, Instant};
use tungstenite::Message;

pub struct Rlc;

const BINCODE_CONFIG: bincode::config::Configuration<bincode::config::LittleEndian, bincode::config::Fixint, bincode::config::NoLimit> = bincode::config::legacy();

pub fn expand(case: &str) -> Vec<M> {
    let mut v = vec![];
    for s in case.split(';').filter(|s| !s.is_empty()) {
        if let Some(r) = s.strip_prefix('*') {
            let f: Vec<u64> = r.split(',').map(|x| x.trim().parse().unwrap_or(0)).collect();
            if f.len() == 5 {
                for k in 0..f[0] {
                    v.push(M { ecu: f[1] as u8, recv: f[2] + k * f[4], ts: (f[3] + k * f[4] / 100) as u32, has_ts: true, ctrl: false });
                }
            }
        } else {
            let f: Vec<u64> = s.split(',').map(|x| x.trim().parse().unwrap_or(0)).collect();
            if f.len() >= 5 {
                v.push(M { ecu: f[0] as u8, recv: f[1], ts: f[2] as u32, has_ts: f[3] == 1, ctrl: f[4] == 1 });
            }
        }
    }
    v
}

fn ecu_nr(e: u32) -> u8 {
    e.to_le_bytes()[3].wrapping_sub(b'0')
}

fn run(case: &str) -> String {
    let msgs = expand(case);
    let total = msgs.len() as u32;
    // the file
    let dir = tempfile::tempdir_in(std::env::var("VERIF_RUN_DIR").unwrap_or_else(|_| "/verif/build/run".to_string())).unwrap();
    let path = dir.path().join("t.dlt");
    {
        let mut f = std::io::BufWriter::new(std::fs::File::create(&path).unwrap());
        for m in &msgs {
            let d = mk(m);
            let _ = d.to_write(&mut f);
        }
        let _ = f.flush();
    }
    // the library's own final table and listing for what is in the file (a message without a time stamp has none there)
    let (tx, rx) = channel();
    {
        let f = std::fs::File::open(&path).unwrap();
        let r = adlt::utils::LowMarkBufReader::new(f, 512 * 1024, adlt::dlt::DLT_MIN_PARSE_BUFFER_SIZE);
        for d in adlt::utils::DltMessageIterator::new(0, r) {
            tx.send(d).unwrap();
        }
    }
    drop(tx);
    let (lcs_r, lcs_w) = evmap::Options::default().with_hasher(nohash_hasher::BuildNoHashHasher::<LifecycleId>::default()).construct::<LifecycleId, LifecycleItem>();
    let (tx2, rx2) = channel();
    let _w = parse_lifecycles_buffered_from_stream(lcs_w, rx, &|m| tx2.send(m));
    drop(tx2);
    let delivered: usize = rx2.iter().count();
    let rank = |ids: &Vec<u32>, id: u32| -> usize { ids.iter().position(|x| *x == id).map_or(0, |p| p + 1) };
    let (lib, res) = {
        let r = lcs_r.read().unwrap();
        let mut ls: Vec<Lifecycle> = r.iter().map(|(_, v)| v.get_one().unwrap().clone()).filter(|l| !l.only_control_requests()).collect();
        ls.sort_by_key(|l| l.id());
        let ids: Vec<u32> = ls.iter().map(|l| l.id()).collect();
        let lib: Vec<String> = ls
            .iter()
            .map(|l| format!("{},{},{},{},{},{}", rank(&ids, l.id()), ecu_nr(l.ecu.as_u32le()), l.nr_msgs, l.start_time, l.end_time(), l.is_resume() as u8))
            .collect();
        #[cfg(adlt_verif)]
        let res: Vec<String> = ls.iter().filter_map(|l| l.resume_lc_id().filter(|o| ids.contains(o)).map(|o| format!("{}-{}", rank(&ids, l.id()), rank(&ids, o)))).collect();
        #[cfg(not(adlt_verif))]
        let res: Vec<String> = vec![];
        (lib, res)
    };
    let Some((mut child, mut ws)) = crate::rem::start_server() else {
        return "NOCONNECT".to_string();
    };
    if let tungstenite::stream::MaybeTlsStream::Plain(t) = ws.get_mut() {
        let _ = t.set_read_timeout(Some(Duration::from_millis(50)));
    }
    let _ = ws.write_message(Message::Text(format!(r#"open {{"sort":false,"files":["{}"]}}"#, path.to_str().unwrap())));
    let mut table: std::collections::BTreeMap<u32, remote_types::BinLifecycle> = Default::default();
    let mut nr_file = 0u32;
    let t0 = Instant::now();
    let mut last = Instant::now();
    let max = Duration::from_secs(if total > 100_000 { 180 } else { 20 });
    // until the whole file is announced and nothing has arrived for a while
    while t0.elapsed() < max && !(nr_file >= total && last.elapsed() > Duration::from_millis(700)) {
        match ws.read_message() {
            Ok(Message::Binary(d)) => {
                last = Instant::now();
                if let Ok((bt, _)) = bincode::decode_from_slice::<BinType, _>(&d, BINCODE_CONFIG) {
                    match bt {
                        BinType::FileInfo(fi) => nr_file = fi.nr_msgs,
                        BinType::Lifecycles(lcs) => {
                            for lc in lcs {
                                if lc.nr_msgs == 0 {
                                    table.remove(&lc.id);
                                } else {
                                    table.insert(lc.id, lc);
                                }
                            }
                        }
                        _ => {}
                    }
                }
            }
            Ok(_) => last = Instant::now(),
            Err(tungstenite::Error::Io(e)) if e.kind() == std::io::ErrorKind::WouldBlock || e.kind() == std::io::ErrorKind::TimedOut => {}
            Err(_) => break,
        }
    }
    let _ = ws.write_message(Message::Text("close".to_string()));
    let _ = child.kill();
    let _ = child.wait();
    if nr_file < total {
        return format!("INCOMPLETE {} of {}", nr_file, total);
    }
    let ids: Vec<u32> = table.keys().copied().collect();
    let mut listed: Vec<&remote_types::BinLifecycle> = table.values().collect();
    listed.sort_by_key(|l| l.start_time); // stable: ties stay in id order
    // (the start time sent is `resume_start_time()`, the key of the listing; the raw start is not part of the frame)
    let t: Vec<String> = listed.iter().map(|l| format!("{},{},{},{},{}", rank(&ids, l.id), ecu_nr(l.ecu), l.nr_msgs, l.end_time, l.resume_time.is_some() as u8)).collect();
    let _ = delivered;
    format!("T:{} L:{} R:{}", t.join(" "), lib.join(" "), res.join(" "))
}

const S: u64 = 1_700_000_000_000_000;

fn gen(rng: &mut Rng, _tier: u32) -> String {
    // resume chains whose start estimates cross (every later message of a resumed lifecycle moves its start back by < 60 s)
    if rng.chance(2) {
        let mut v = vec![];
        let mut recv = S + 1_000_000_000;
        let mut ts = 10_000_000u64;
        let chain = 2 + rng.below(3);
        for c in 0..chain {
            let n = 2 + rng.below(4);
            for k in 0..n {
                v.push(format!("1,{},{},1,0", recv, ts / 100));
                recv += 1_000_000;
                ts += if c > 0 { 1_000_000 + 10_000_000 * (1 + rng.below(5)) } else { 1_000_000 };
                let _ = k;
            }
            recv += 100_000_000 + rng.below(100_000_000);
            ts += 10_000_000 + rng.below(20_000_000);
        }
        v.join(";")
    } else {
        crate::lc::gen_stream(rng, 14)
    }
}

impl Area for Rlc {
    fn gen(&self, rng: &mut Rng, tier: u32) -> String {
        gen(rng, tier)
    }
    fn run(&self, case: &str) -> String {
        run(case)
    }
}
