//! `adlt convert` (binary built from the working tree): option combinations x generated input files x orders of the
//! file arguments (C14). Observation: the lifecycle listing of the unfiltered input, the messages printed, the messages
//! re-read from the `-o` file, whether that file is byte-identical to the selected input messages, and whether naming
//! the files in another order gives the same result.
use crate::dp::{hex, unhex};
use crate::flt::{dlf_expressible, fmt_af, gen_filter, parse_af, to_dlf_many, AF};
use crate::{Area, Rng};
use adlt::dlt::*;
use adlt::utils::DltMessageIterator;

pub struct Cvt;

fn adlt_bin() -> String {
    std::env::var("VERIF_ADLT_BIN").unwrap_or_else(|_| "/verif/build/adlt/debug/adlt".to_string())
}

#[derive(Clone, Debug)]
struct M {
    ecu: u8,
    recv: u64,
    ts: u32,
    apid: String,
    ctid: String,
    lvl: u8,
    text: String,
    mcnt: u8,
}

#[derive(Clone, Debug)]
enum Item {
    Msg(M),
    Garbage(Vec<u8>),
}

fn pad4(s: &str) -> [u8; 4] {
    let mut b = [0u8; 4];
    for (i, c) in s.bytes().take(4).enumerate() {
        b[i] = c;
    }
    b
}

fn msg_bytes(m: &M) -> Vec<u8> {
    let mut v = vec![b'D', b'L', b'T', 1];
    v.extend_from_slice(&((m.recv / 1_000_000) as u32).to_le_bytes());
    v.extend_from_slice(&((m.recv % 1_000_000) as u32).to_le_bytes());
    v.extend_from_slice(&[b'E', b'C', b'U', b'0' + m.ecu]);
    let mut payload = vec![];
    payload.extend_from_slice(&(DLT_TYPE_INFO_STRG | DLT_SCOD_UTF8).to_le_bytes());
    payload.extend_from_slice(&((m.text.len() + 1) as u16).to_le_bytes());
    payload.extend_from_slice(m.text.as_bytes());
    payload.push(0);
    let len = 4 + 4 + 10 + payload.len();
    v.extend_from_slice(&[0x31, m.mcnt, (len >> 8) as u8, len as u8]);
    v.extend_from_slice(&m.ts.to_be_bytes());
    v.extend_from_slice(&[(m.lvl << 4) | 1, 1]); // verbose log, 1 arg
    v.extend_from_slice(&pad4(&m.apid));
    v.extend_from_slice(&pad4(&m.ctid));
    v.extend_from_slice(&payload);
    v
}

fn fmt_item(it: &Item) -> String {
    match it {
        Item::Msg(m) => format!("{},{},{},{},{},{},{},{}", m.ecu, m.recv, m.ts, hex(m.apid.as_bytes()), hex(m.ctid.as_bytes()), m.lvl, hex(m.text.as_bytes()), m.mcnt),
        Item::Garbage(g) => format!("g{}", hex(g)),
    }
}

fn parse_item(s: &str) -> Item {
    if let Some(g) = s.strip_prefix('g') {
        return Item::Garbage(unhex(g));
    }
    let f: Vec<&str> = s.split(',').collect();
    let st = |h: &str| String::from_utf8(unhex(h)).unwrap();
    Item::Msg(M { ecu: f[0].parse().unwrap(), recv: f[1].parse().unwrap(), ts: f[2].parse().unwrap(), apid: st(f[3]), ctid: st(f[4]), lvl: f[5].parse().unwrap(), text: st(f[6]), mcnt: f[7].parse().unwrap() })
}

#[derive(Default, Debug)]
struct Opts {
    b: Option<u32>,
    e: Option<u32>,
    lcs: Vec<u32>,
    sort: bool,
    style: char,
    o: bool,
    ff: char,
    perm: Vec<usize>,
    eac: Vec<String>,
}

fn parse_opts(s: &str, nfiles: usize) -> Opts {
    let mut o = Opts { style: 'a', ff: '-', perm: (0..nfiles).collect(), ..Default::default() };
    for kv in s.split(',').filter(|x| !x.is_empty()) {
        let (k, v) = kv.split_once('=').unwrap_or((kv, ""));
        match k {
            "b" => o.b = v.parse().ok(),
            "e" => o.e = v.parse().ok(),
            "lcs" => o.lcs = v.split('+').filter_map(|x| x.parse().ok()).collect(),
            "sort" => o.sort = v == "1",
            "style" => o.style = v.chars().next().unwrap_or('a'),
            "o" => o.o = v == "1",
            "ff" => o.ff = v.chars().next().unwrap_or('-'),
            "perm" => o.perm = v.split('+').filter_map(|x| x.parse().ok()).filter(|x| *x < nfiles).collect(),
            "eac" => o.eac = v.split('+').filter(|x| !x.is_empty()).map(|x| String::from_utf8(unhex(x)).unwrap()).collect(),
            _ => {}
        }
    }
    if o.perm.is_empty() {
        o.perm = (0..nfiles).collect();
    }
    o
}

/// one field of the dlt-convert list format: the id, filled with `-` to 4 bytes
fn conv_field(s: &str) -> String {
    let mut x: String = s.chars().take(4).collect();
    while x.len() < 4 {
        x.push('-');
    }
    x
}

struct RunOut {
    code: i32,
    stdout: String,
    ofile: Option<Vec<u8>>,
}

fn run_bin(dir: &std::path::Path, files: &[String], o: &Opts, afs: &[AF], selections: bool, tag: &str) -> RunOut {
    let mut cmd = std::process::Command::new(adlt_bin());
    cmd.arg("convert");
    let opath = dir.join(format!("out_{}.dlt", tag));
    if selections {
        match o.style {
            'a' => {
                cmd.arg("-a");
            }
            'x' => {
                cmd.arg("-x");
            }
            's' => {
                cmd.arg("-s");
            }
            _ => {}
        }
        if let Some(b) = o.b {
            cmd.arg("-b").arg(b.to_string());
        }
        if let Some(e) = o.e {
            cmd.arg("-e").arg(e.to_string());
        }
        if !o.lcs.is_empty() {
            cmd.arg(format!("--lcs={}", o.lcs.iter().map(|l| l.to_string()).collect::<Vec<_>>().join(",")));
        }
        if o.sort {
            cmd.arg("--sort");
        }
        if !o.eac.is_empty() {
            cmd.arg(format!("--eac={}", o.eac.join(",")));
        }
        if o.ff == 'd' {
            let p = dir.join("filters.dlf");
            std::fs::write(&p, to_dlf_many(afs)).unwrap();
            cmd.arg("-f").arg(p);
        } else if o.ff == 'c' {
            let p = dir.join("filters.txt");
            let mut s = String::new();
            for a in afs {
                s.push_str(&format!("{} {} ", conv_field(a.apid.as_deref().unwrap_or("")), conv_field(a.ctid.as_deref().unwrap_or(""))));
            }
            std::fs::write(&p, s).unwrap();
            cmd.arg("-f").arg(p);
        }
        if o.o {
            cmd.arg("-o").arg(&opath);
        }
    }
    // `--` so that nothing after the multi-value options is taken for a value
    cmd.arg("--");
    for f in files {
        cmd.arg(f);
    }
    cmd.env("TZ", "UTC");
    let out = cmd.output().expect("adlt binary runs");
    RunOut { code: out.status.code().unwrap_or(-1), stdout: String::from_utf8_lossy(&out.stdout).to_string(), ofile: if selections && o.o { std::fs::read(&opath).ok() } else { None } }
}

fn dash_trim(s: &str) -> String {
    s.trim_end_matches('-').to_string()
}

/// `idx:ecu:apid:ctid:ts:mcnt[:texthex]` per printed message
fn parse_lines(stdout: &str, style: char) -> Vec<String> {
    let mut v = vec![];
    for l in stdout.lines() {
        let t: Vec<&str> = l.split_whitespace().collect();
        if t.len() < 8 || t[0].parse::<u32>().is_err() || !t[1].contains('/') {
            continue;
        }
        let mut s = format!("{}:{}:{}:{}:{}:{}", t[0], dash_trim(t[5]), dash_trim(t[6]), dash_trim(t[7]), t[3], t[4].parse::<u32>().unwrap_or(999));
        if style == 'a' {
            if let (Some(i), Some(j)) = (l.find(" ["), l.rfind(']')) {
                if i + 2 <= j {
                    s.push(':');
                    s.push_str(&hex(l[i + 2..j].as_bytes()));
                }
            }
        }
        v.push(s);
    }
    v
}

/// `id,ecu,nrmsgs` per listed lifecycle, in listing order
fn parse_listing(stdout: &str) -> Vec<String> {
    let mut v = vec![];
    for l in stdout.lines() {
        if let Some(r) = l.strip_prefix("LC#") {
            // "LC#  1: ECU0 2023/… - 12:00:00 #       3 …"
            let (id, rest) = r.split_once(':').unwrap_or(("", ""));
            let ecu = rest.split_whitespace().next().unwrap_or("");
            let n = rest.split(" #").nth(1).map(|x| x.trim().split_whitespace().next().unwrap_or("")).unwrap_or("");
            v.push(format!("{},{},{}", id.trim(), ecu.trim_start_matches("ECU"), n));
        }
    }
    v
}

fn reread(bytes: &[u8]) -> (Vec<String>, bool) {
    let mut v = vec![];
    let mut again = vec![];
    let it = DltMessageIterator::new(0, std::io::Cursor::new(bytes.to_vec()));
    for m in it {
        let text = m.payload_as_text().map(|c| c.to_string()).unwrap_or_default();
        let apid = m.apid().map(|a| a.to_string()).unwrap_or_default();
        let ctid = m.ctid().map(|a| a.to_string()).unwrap_or_default();
        v.push(format!("{}:{}:{}:{}:{}:{}:{}", m.ecu, apid, ctid, m.timestamp_dms, m.mcnt(), m.reception_time_us, hex(text.as_bytes())));
        let lvl = m.extended_header.as_ref().map(|e| e.verb_mstp_mtin >> 4).unwrap_or(0);
        let ecu_n = m.ecu.to_string().trim_start_matches("ECU").parse::<u8>().unwrap_or(0);
        again.extend_from_slice(&msg_bytes(&M { ecu: ecu_n, recv: m.reception_time_us, ts: m.timestamp_dms, apid, ctid, lvl, text, mcnt: m.mcnt() }));
    }
    (v, again == bytes)
}

fn run(case: &str) -> String {
    let parts: Vec<&str> = case.split(" | ").collect();
    let files: Vec<Vec<Item>> = parts[2].split('#').map(|f| f.split(';').filter(|x| !x.is_empty()).map(parse_item).collect()).collect();
    let o = parse_opts(parts[0], files.len());
    let afs: Vec<AF> = parts[1].split(';').filter(|x| !x.is_empty()).map(parse_af).collect();
    let dir = tempfile::tempdir().unwrap();
    let mut names = vec![];
    for (i, f) in files.iter().enumerate() {
        let p = dir.path().join(format!("f{}.dlt", i));
        let mut b = vec![];
        for it in f {
            match it {
                Item::Msg(m) => b.extend_from_slice(&msg_bytes(m)),
                Item::Garbage(g) => b.extend_from_slice(g),
            }
        }
        std::fs::write(&p, b).unwrap();
        names.push(p.to_string_lossy().to_string());
    }
    let ordered: Vec<String> = o.perm.iter().map(|i| names[*i].clone()).collect();
    // 1. the unfiltered input: lifecycle listing (the ids `--lcs` refers to)
    let base = run_bin(dir.path(), &ordered, &o, &afs, false, "base");
    let listing = parse_listing(&base.stdout);
    // 2. the run with the selections
    let sel = run_bin(dir.path(), &ordered, &o, &afs, true, "sel");
    let lines = parse_lines(&sel.stdout, o.style);
    let (re, same) = match &sel.ofile {
        Some(b) => {
            let (v, w) = reread(b);
            (v.join(" "), if w { "1" } else { "0" })
        }
        None => (String::new(), "-"),
    };
    // 3. the files named in another order
    let p = if ordered.len() > 1 {
        let mut other = ordered.clone();
        other.rotate_left(1);
        if other == ordered {
            other.reverse();
        }
        let alt = run_bin(dir.path(), &other, &o, &afs, true, "alt");
        let lines2 = parse_lines(&alt.stdout, o.style);
        let same_lines = if o.sort {
            let mut a = lines.clone();
            let mut b = lines2.clone();
            a.sort();
            b.sort();
            a == b
        } else {
            lines == lines2
        };
        let same_file = if o.sort {
            match (&sel.ofile, &alt.ofile) {
                (Some(a), Some(b)) => {
                    let mut x = reread(a).0;
                    let mut y = reread(b).0;
                    x.sort();
                    y.sort();
                    x == y
                }
                (None, None) => true,
                _ => false,
            }
        } else {
            sel.ofile == alt.ofile
        };
        if same_lines && same_file && alt.code == sel.code {
            "1"
        } else {
            "0"
        }
    } else {
        "-"
    };
    format!("X:{}:{} T:{} L:{} O:{} W:{} P:{}", base.code, sel.code, listing.join("+"), lines.join("+"), re.replace(' ', "+"), same, p)
}

const APIDS: [&str; 5] = ["APID", "AP1", "SYS", "A", "LOGD"];
const CTIDS: [&str; 5] = ["CTID", "CT", "MAIN", "C1", "TCGD"];
const TEXTS: [&str; 6] = ["Hello World", "say hello", "HELLO", "error 42", "status ok", "Error: disk"];
const S: u64 = 1_700_000_000_000_000;

fn gen(rng: &mut Rng, tier: u32) -> String {
    let nfiles = 1 + rng.below(if tier > 0 { 4 } else { 3 }) as usize;
    // ECU set of each file
    let sets: Vec<Vec<u8>> = (0..nfiles)
        .map(|_| match rng.below(6) {
            0 | 1 | 2 => vec![0],
            3 | 4 => vec![1],
            _ => vec![0, 1],
        })
        .collect();
    let n = 1 + rng.below(if tier > 0 { 60 } else { 24 }) as usize;
    let mut files: Vec<Vec<Item>> = vec![vec![]; nfiles];
    let mut recv = S;
    let mut base: [u64; 2] = [S, S];
    // files of one group are mostly recorded one after the other; sometimes interleaved
    let interleave = rng.chance(3);
    for k in 0..n {
        recv += match rng.below(8) {
            0 => 7,
            1 => 1000,
            2 => 1_000_000,
            3 => 20_000_000,
            4 => 70_000_000,
            5 => 130_000_000,
            _ => 500_000,
        } + 1;
        let f = if interleave { rng.below(nfiles as u64) as usize } else { (k * nfiles / n + if rng.chance(8) { 1 } else { 0 }).min(nfiles - 1) };
        let e = *rng.pick(&sets[f][..]);
        if rng.chance(5) {
            base[e as usize] = recv - rng.below(3) * 30_000_000; // reboot
        }
        let recv_m = if rng.chance(14) { recv - rng.below(4_000_000).min(recv - S) } else { recv };
        let ts_us = match rng.below(9) {
            0 => 0,
            1 => recv.saturating_sub(base[e as usize]) + 50_000_000,
            _ => recv.saturating_sub(base[e as usize]).saturating_sub(rng.below(3) * 40_000_000),
        };
        if rng.chance(7) {
            let g: Vec<u8> = (0..1 + rng.below(30)).map(|_| *rng.pick(&[b'x', 0u8, 0xff, b'D', b'L', 0x20, 0x7f])).collect();
            files[f].push(Item::Garbage(g));
        }
        files[f].push(Item::Msg(M {
            ecu: e,
            recv: recv_m,
            ts: (ts_us / 100).min(u32::MAX as u64) as u32,
            apid: rng.pick(&APIDS[..]).to_string(),
            ctid: rng.pick(&CTIDS[..]).to_string(),
            lvl: 1 + rng.below(6) as u8,
            text: rng.pick(&TEXTS[..]).to_string(),
            mcnt: (k % 256) as u8,
        }));
    }
    // unique reception times (no ties between files): nudge by microseconds
    let mut k = 0u64;
    let mut seen = std::collections::HashSet::new();
    for f in files.iter_mut() {
        for it in f.iter_mut() {
            if let Item::Msg(m) = it {
                while !seen.insert(m.recv) {
                    m.recv += 1 + k % 3;
                }
                k += 1;
            }
        }
    }
    // later messages of different files may well carry equal reception times (only the first ones are distinct)
    if nfiles > 1 && rng.chance(3) {
        for _ in 0..1 + rng.below(3) {
            let f = rng.below(nfiles as u64) as usize;
            let g = rng.below(nfiles as u64) as usize;
            let mf: Vec<usize> = files[f].iter().enumerate().filter(|(_, i)| matches!(i, Item::Msg(_))).map(|(k, _)| k).skip(1).collect();
            let mg: Vec<usize> = files[g].iter().enumerate().filter(|(_, i)| matches!(i, Item::Msg(_))).map(|(k, _)| k).skip(1).collect();
            if f != g && !mf.is_empty() && !mg.is_empty() {
                let a = *rng.pick(&mf[..]);
                let b = *rng.pick(&mg[..]);
                let t = if let Item::Msg(m) = &files[f][a] { m.recv } else { 0 };
                if let Item::Msg(m) = &mut files[g][b] {
                    m.recv = t;
                }
            }
        }
    }
    if rng.chance(10) && nfiles > 1 {
        let i = rng.below(nfiles as u64) as usize;
        files[i] = if rng.chance(2) { vec![] } else { vec![Item::Garbage(vec![b'x'; 1 + rng.below(40) as usize])] };
    }
    let total: usize = files.iter().map(|f| f.iter().filter(|i| matches!(i, Item::Msg(_))).count()).sum();
    // options
    let mut opts: Vec<String> = vec![];
    if rng.chance(3) {
        // mostly a lower bound in the first half; sometimes anywhere (also beyond the end)
        opts.push(format!("b={}", if rng.chance(5) { rng.below(total as u64 + 2) } else { rng.below(total as u64 / 2 + 1) }));
    }
    if rng.chance(3) {
        opts.push(format!("e={}", if rng.chance(5) { rng.below(total as u64 + 2) } else { total as u64 / 2 + rng.below(total as u64 / 2 + 2) }));
    }
    if rng.chance(3) {
        let mut l: Vec<u64> = (0..1 + rng.below(3)).map(|_| { let hi = if rng.chance(3) { 6 } else { 2 }; 1 + rng.below(hi) }).collect();
        l.dedup();
        opts.push(format!("lcs={}", l.iter().map(|x| x.to_string()).collect::<Vec<_>>().join("+")));
    }
    if rng.chance(4) {
        opts.push("sort=1".into());
    }
    let style = *rng.pick(&['a', 'a', 'x', 's', 'n']);
    opts.push(format!("style={}", style));
    if style == 'n' || rng.chance(2) {
        opts.push("o=1".into());
    }
    let mut afs: Vec<AF> = vec![];
    match rng.below(4) {
        0 => {
            opts.push("ff=d".into());
            for _ in 0..1 + rng.below(3) {
                for _ in 0..20 {
                    let mut a = gen_filter(rng);
                    if a.t > 1 && !rng.chance(4) {
                        a.t = rng.below(2) as u8;
                    }
                    if let Some(e) = &a.ecu {
                        if !rng.chance(4) {
                            a.ecu = Some(if e.contains('1') { "ECU1".into() } else { "ECU0".into() });
                        }
                    }
                    if dlf_expressible(&a) && a.t <= 3 {
                        afs.push(a);
                        break;
                    }
                }
            }
            if afs.is_empty() {
                afs.push(AF { en: true, apid: Some("APID".into()), apidre: Some(false), ..Default::default() });
            }
        }
        1 => {
            opts.push("ff=c".into());
            for _ in 0..1 + rng.below(3) {
                afs.push(AF { en: true, apid: Some(rng.pick(&APIDS[..]).to_string()), ctid: Some(rng.pick(&CTIDS[..]).to_string()), ..Default::default() });
            }
        }
        _ => {}
    }
    if rng.chance(3) {
        let ex: Vec<String> = (0..1 + rng.below(2))
            .map(|_| rng.pick(&["ECU0", "ECU1::", "::CTID", ":AP1", ":A|S:", "ECU.:APID:CTID", "::C", ":SYS:MAIN", "ECU0:AP1", "ECU1:LOGD:TC", ":^A:T$", "E:A:C", ":LOGD:TCGD", "ECU1:.*:MAIN|CT"]).to_string())
            .collect();
        opts.push(format!("eac={}", ex.iter().map(|e| hex(e.as_bytes())).collect::<Vec<_>>().join("+")));
    }
    if nfiles > 1 && rng.chance(2) {
        let mut perm: Vec<usize> = (0..nfiles).collect();
        for i in (1..nfiles).rev() {
            perm.swap(i, rng.below(i as u64 + 1) as usize);
        }
        if rng.chance(8) {
            perm.push(perm[0]); // the same file named twice
        }
        opts.push(format!("perm={}", perm.iter().map(|x| x.to_string()).collect::<Vec<_>>().join("+")));
    }
    // regex verdicts on the id / text pairs of this case
    let mut tbl: Vec<String> = vec![];
    let mut seen = std::collections::HashSet::new();
    let msgs: Vec<&M> = files.iter().flat_map(|f| f.iter().filter_map(|i| if let Item::Msg(m) = i { Some(m) } else { None })).collect();
    let mut idp = |p: &str, tbl: &mut Vec<String>| {
        match regex::bytes::Regex::new(p) {
            Ok(r) => {
                for m in &msgs {
                    for hay in [[b'E', b'C', b'U', b'0' + m.ecu], pad4(&m.apid), pad4(&m.ctid)] {
                        let e = format!("I{}:{}:{}", hex(p.as_bytes()), hex(&hay), r.is_match(&hay) as u8);
                        if seen.insert(e.clone()) {
                            tbl.push(e);
                        }
                    }
                }
            }
            Err(_) => {
                let e = format!("B{}", hex(p.as_bytes()));
                if seen.insert(e.clone()) {
                    tbl.push(e);
                }
            }
        }
    };
    for a in &afs {
        for s in [&a.ecu, &a.apid, &a.ctid].into_iter().flatten() {
            idp(s, &mut tbl);
        }
    }
    for kv in &opts {
        if let Some(v) = kv.strip_prefix("eac=") {
            for e in v.split('+') {
                let e = String::from_utf8(unhex(e)).unwrap();
                for part in e.split(':').filter(|p| !p.is_empty()) {
                    idp(part, &mut tbl);
                }
            }
        }
    }
    let mut seen_t = std::collections::HashSet::new();
    for a in &afs {
        if let Some(p) = &a.plre {
            let p = if a.ic { format!("(?i){}", p) } else { p.clone() };
            match fancy_regex::Regex::new(&p) {
                Ok(r) => {
                    for m in &msgs {
                        let e = format!("T{}:{}:{}", hex(p.as_bytes()), hex(m.text.as_bytes()), r.is_match(&m.text).unwrap_or(false) as u8);
                        if seen_t.insert(e.clone()) {
                            tbl.push(e);
                        }
                    }
                }
                Err(_) => {
                    let e = format!("B{}", hex(p.as_bytes()));
                    if seen_t.insert(e.clone()) {
                        tbl.push(e);
                    }
                }
            }
        }
    }
    format!(
        "{} | {} | {} | {}",
        opts.join(","),
        afs.iter().map(fmt_af).collect::<Vec<_>>().join(";"),
        files.iter().map(|f| f.iter().map(fmt_item).collect::<Vec<_>>().join(";")).collect::<Vec<_>>().join("#"),
        tbl.join(" ")
    )
}

impl Area for Cvt {
    fn gen(&self, rng: &mut Rng, tier: u32) -> String {
        gen(rng, tier)
    }
    fn run(&self, case: &str) -> String {
        run(case)
    }
}
