//! C04, position clause: the messages recognised in a suffix S of a stream, read (A) with nothing in front, (B) behind k1 and
//! (C) behind k2 complete messages of the stream's framing (k1 != k2, both >= 1). The start index is chosen so that the
//! messages of S get the same indices in all three readings.
//!
//! case: `<k1> <k2> | <dp case>`     obs: `<msgs of S in A> | <msgs of S in B> | <msgs of S in C>`
use crate::dp::{gen_case, item_bytes, parse_case, render, show_msg, fmt_case, marker_free_byte, Case, Item};
use crate::{Area, Rng};
use adlt::utils::DltMessageIterator;
use std::io::Cursor;

pub struct Pos;

const BASE: u32 = 1000;

fn prefix(serial: bool, k: usize) -> Vec<u8> {
    let mut v = vec![];
    for i in 0..k {
        let it = Item::M { sh: if serial { vec![] } else { vec![1, 0, 0, 0, 0, 0, 0, 0, b'P', b'R', b'E', b'0'] }, htyp: 0x20, mcnt: i as u8, add: vec![], payload: vec![9, i as u8] };
        v.extend_from_slice(&item_bytes(serial, &it));
    }
    v
}

fn reading(serial: bool, k: usize, s: &[u8]) -> String {
    let mut d = prefix(serial, k);
    d.extend_from_slice(s);
    let it = DltMessageIterator::new(BASE - k as u32, Cursor::new(d));
    let all: Vec<String> = it.map(|m| show_msg(&m)).collect();
    if all.len() < k {
        return "PREFIX-LOST".to_string();
    }
    all[k..].join(" ")
}

fn run(case: &str) -> String {
    let (cfg, dpc) = match case.split_once(" | ") {
        Some(x) => x,
        None => return "bad".to_string(),
    };
    let ks: Vec<usize> = cfg.split_whitespace().filter_map(|x| x.parse().ok()).collect();
    if ks.len() != 2 {
        return "bad".to_string();
    }
    let c = parse_case(dpc);
    let s = render(&c);
    format!("{} | {} | {}", reading(c.serial, 0, &s), reading(c.serial, ks[0], &s), reading(c.serial, ks[1], &s))
}

fn small_msg(serial: bool, ecu: &[u8; 4], mcnt: u8, payload: Vec<u8>) -> Item {
    Item::M { sh: if serial { vec![] } else { [&[1u8, 0, 0, 0, 0, 0, 0, 0][..], &ecu[..]].concat() }, htyp: 0x20, mcnt, add: vec![], payload }
}

fn gen(rng: &mut Rng, tier: u32) -> String {
    let mut c = gen_case(rng, tier);
    // keep the suffixes short: three readings per case
    c.items.truncate(4);
    for it in c.items.iter_mut() {
        if let Item::M { payload, .. } = it {
            payload.truncate(300);
        }
        if let Item::G(b) = it {
            b.truncate(300);
        }
    }
    let serial = c.serial;
    let mut front: Vec<Item> = vec![];
    match rng.below(8) {
        0 | 1 => {
            // a truncated message (announces more than follows) that embeds complete messages of either framing
            let emb_serial = if rng.chance(4) { !serial } else { serial };
            let emb = item_bytes(emb_serial, &small_msg(emb_serial, b"EMBD", 7, vec![1, 2, 3, 4]));
            let mut b = item_bytes(serial, &small_msg(serial, b"TRUN", 1, vec![0; 200 + rng.below(2000) as usize]));
            b.truncate(if serial { 8 } else { 20 } + rng.below(6) as usize);
            b.extend_from_slice(&emb);
            if rng.chance(2) {
                c.items.clear(); // the stream ends inside the truncated message
            }
            front.push(Item::G(b));
        }
        2 | 3 => {
            // a message that the corrupt-message heuristic rejects (holds a marker, is not followed by one) and embeds
            // complete messages of both framings
            let other = item_bytes(!serial, &small_msg(!serial, b"OTHR", 5, vec![0xaa, 0xbb]));
            let same = item_bytes(serial, &small_msg(serial, b"SAME", 11, vec![1]));
            let mut pl = vec![];
            if rng.chance(2) {
                pl.extend_from_slice(&other);
                pl.extend_from_slice(&same);
            } else {
                pl.extend_from_slice(&same);
                pl.extend_from_slice(&other);
            }
            front.push(Item::G(item_bytes(serial, &small_msg(serial, b"REJE", 10, pl))));
            front.push(Item::G((0..4 + rng.below(4) as usize).map(|_| marker_free_byte(rng)).collect()));
        }
        4 => {
            // garbage, then a frame of the other framing, then the stream
            front.push(Item::G((0..1 + rng.below(20) as usize).map(|_| marker_free_byte(rng)).collect()));
            front.push(Item::G(item_bytes(!serial, &small_msg(!serial, b"OTHR", 3, vec![5, 5]))));
        }
        _ => {}
    }
    front.extend(c.items);
    let c = Case { i0: 0, serial, big: c.big, items: front };
    let k1 = 1 + rng.below(3) as usize;
    let k2 = k1 + 1 + rng.below(3) as usize;
    format!("{} {} | {}", k1, k2, fmt_case(&c))
}

impl Area for Pos {
    fn gen(&self, rng: &mut Rng, tier: u32) -> String {
        gen(rng, tier)
    }
    fn run(&self, case: &str) -> String {
        run(case)
    }
}
