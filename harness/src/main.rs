//! Correspondence harness: runs the real adlt code (path dependency on /repo, rebuilt from the
//! working tree) on generated or given cases and prints `case \t observation` lines that the Lean
//! driver consumes. One module per modelled area.
use std::io::{BufRead, Write};

mod rng;
mod lc;
mod dp;
mod srt;
mod chn;
mod lm;
mod ft;
mod pipe;
mod mrg;
mod flt;
mod arg;
mod plg;
mod rem;
mod rsn;
mod cvt;
mod c03;
mod zipx;
mod pos;
mod rlc;

pub use rng::Rng;

pub trait Area: Sync {
    /// generate one case (text, one line, no tabs)
    fn gen(&self, rng: &mut Rng, tier: u32) -> String;
    /// run the implementation on a case, return its canonical observation (one line, no tabs)
    fn run(&self, case: &str) -> String;
}

fn area(name: &str) -> Box<dyn Area> {
    match name {
        "lc" => Box::new(lc::Lc),
        "lc8" => Box::new(lc::Lc8),
        "dp" => Box::new(dp::Dp),
        "srt" => Box::new(srt::Srt),
        "chn" => Box::new(chn::Chn),
        "lm" => Box::new(lm::Lm),
        "lw" => Box::new(dp::Lw),
        "ft" => Box::new(ft::Ft),
        "pipe" => Box::new(pipe::Pipe),
        "mrg" => Box::new(mrg::Mrg),
        "flt" => Box::new(flt::Flt),
        "arg" => Box::new(arg::Arg),
        "plg" => Box::new(plg::Plg),
        "rem" => Box::new(rem::Rem),
        "rsn" => Box::new(rsn::Rsn),
        "cvt" => Box::new(cvt::Cvt),
        "c03" => Box::new(c03::C03),
        "c03f" => Box::new(c03::C03f),
        "zip" => Box::new(zipx::Zipx),
        "pos" => Box::new(pos::Pos),
        "rlc" => Box::new(rlc::Rlc),
        _ => {
            eprintln!("unknown area {}", name);
            std::process::exit(2)
        }
    }
}

fn run_case(a: &dyn Area, case: &str) -> String {
    let r = std::panic::catch_unwind(std::panic::AssertUnwindSafe(|| a.run(case)));
    match r {
        Ok(s) => s,
        Err(e) => {
            let msg = if let Some(s) = e.downcast_ref::<String>() {
                s.clone()
            } else if let Some(s) = e.downcast_ref::<&str>() {
                s.to_string()
            } else {
                String::new()
            };
            let msg: String = msg.chars().filter(|c| *c != '\t' && *c != '\n').take(80).collect();
            if std::env::var("VERIF_PANIC_MSG").is_ok() {
                format!("PANIC {}", msg)
            } else {
                "PANIC".to_string()
            }
        }
    }
}

fn main() {
    std::panic::set_hook(Box::new(|_| {}));
    let args: Vec<String> = std::env::args().collect();
    if args.len() == 2 && args[1] == "c03child" {
        c03::child_main();
        return;
    }
    if args.len() >= 2 && args[1] == "zipprobe" {
        if args.len() > 3 {
            let v: Vec<usize> = args[2..].iter().filter_map(|x| x.parse().ok()).collect();
            zipx::probe_real(&v);
        } else {
            zipx::probe(args.get(2).and_then(|x| x.parse().ok()).unwrap_or(400));
        }
        return;
    }
    if args.len() < 5 {
        eprintln!("usage: adlt-verif <area> gen <seed> <n> <out> [tier] | adlt-verif <area> run <cases> <out>");
        std::process::exit(2);
    }
    let a = area(&args[1]);
    match args[2].as_str() {
        "gen" => {
            let seed: u64 = args[3].parse().unwrap();
            let n: usize = args[4].parse().unwrap();
            let mut out = std::io::BufWriter::new(std::fs::File::create(&args[5]).unwrap());
            let tier: u32 = args.get(6).map(|t| t.parse().unwrap()).unwrap_or(0);
            let mut rng = Rng::new(seed);
            // all cases are generated first (one PRNG stream), then executed by a few worker threads, output in order
            let cases: Vec<String> = (0..n).map(|_| a.gen(&mut rng, tier)).collect();
            let jobs: usize = std::env::var("VERIF_JOBS").ok().and_then(|v| v.parse().ok()).unwrap_or(1).max(1);
            let results: Vec<std::sync::Mutex<Option<String>>> = (0..n).map(|_| std::sync::Mutex::new(None)).collect();
            let next = std::sync::atomic::AtomicUsize::new(0);
            std::thread::scope(|sc| {
                for w in 0..jobs.min(n.max(1)) {
                    let (next, cases, results, a, args) = (&next, &cases, &results, &a, &args);
                    sc.spawn(move || loop {
                        let i = next.fetch_add(1, std::sync::atomic::Ordering::SeqCst);
                        if i >= n {
                            break;
                        }
                        // breadcrumb: if the implementation takes the whole process down (stack overflow, allocation
                        // failure, abort), the check finds the case that was running here
                        let crumb = format!("{}.cur{}", args[5], w);
                        let _ = std::fs::write(&crumb, &cases[i]);
                        let o = run_case(a.as_ref(), &cases[i]);
                        let _ = std::fs::remove_file(&crumb);
                        *results[i].lock().unwrap() = Some(o);
                    });
                }
            });
            for (c, r) in cases.iter().zip(results.iter()) {
                writeln!(out, "{}\t{}", c, r.lock().unwrap().take().unwrap_or_default()).unwrap();
            }
        }
        "run" => {
            let f = std::io::BufReader::new(std::fs::File::open(&args[3]).unwrap());
            let mut out = std::io::BufWriter::new(std::fs::File::create(&args[4]).unwrap());
            for line in f.lines() {
                let line = line.unwrap();
                let c = line.split('\t').next().unwrap_or("").trim_end();
                if c.is_empty() || c.starts_with('#') {
                    continue;
                }
                let crumb = format!("{}.cur0", args[4]);
                let _ = std::fs::write(&crumb, c);
                let o = run_case(a.as_ref(), c);
                let _ = std::fs::remove_file(&crumb);
                writeln!(out, "{}\t{}", c, o).unwrap();
            }
        }
        _ => std::process::exit(2),
    }
}
