//! archive extraction (C20, second half): `extract_archives` on generated zip archives with nested, odd and hostile member
//! names and glob patterns; what is reported, what is found on disk (inside and outside the temporary directory), contents.
use crate::dp::{hex, unhex};
use crate::{Area, Rng};
use std::io::Write;
use std::sync::atomic::AtomicBool;
use std::sync::Arc;

pub struct Zipx;

struct Member {
    name: String,
    dir: bool,
    data: Vec<u8>,
}

fn hash(b: &[u8]) -> u64 {
    b.iter().fold(7u64, |h, x| (h.wrapping_mul(31).wrapping_add(*x as u64 + 1)) % 4294967291)
}

fn build_zip(ms: &[Member]) -> Vec<u8> {
    let mut w = zip::ZipWriter::new(std::io::Cursor::new(Vec::new()));
    let opts = zip::write::SimpleFileOptions::default().compression_method(zip::CompressionMethod::Stored);
    for m in ms {
        if m.dir {
            let _ = w.add_directory(m.name.clone(), opts);
        } else if w.start_file(m.name.clone(), opts).is_ok() {
            let _ = w.write_all(&m.data);
        }
    }
    w.finish().map(|c| c.into_inner()).unwrap_or_default()
}

fn parse_members(s: &str) -> Vec<Member> {
    s.split(';')
        .filter(|x| !x.is_empty())
        .map(|x| {
            let f: Vec<&str> = x.split(',').collect();
            Member { name: String::from_utf8(unhex(f[0])).unwrap_or_default(), dir: f[1] == "d", data: unhex(f.get(2).copied().unwrap_or("")) }
        })
        .collect()
}

fn walk(dir: &std::path::Path, base: &std::path::Path, out: &mut Vec<(String, Vec<u8>)>) {
    if let Ok(rd) = std::fs::read_dir(dir) {
        for e in rd.flatten() {
            let p = e.path();
            if p.is_dir() {
                walk(&p, base, out);
            } else if let Ok(d) = std::fs::read(&p) {
                out.push((p.strip_prefix(base).unwrap_or(&p).to_string_lossy().to_string(), d));
            }
        }
    }
}

fn run(case: &str) -> String {
    let parts: Vec<&str> = case.split(" | ").collect();
    let pattern = String::from_utf8(unhex(parts[0])).unwrap_or_default();
    let bang = parts[1] == "!";
    let ms = parse_members(parts[2]);
    // a private sandbox: sb/in/arch.zip, and sb/tmp as the place where temporary directories are created
    let sb = tempfile::Builder::new().prefix("zipx").tempdir_in(std::env::var("VERIF_RUN_DIR").unwrap_or_else(|_| "/verif/build/run".to_string())).unwrap();
    let indir = sb.path().join("in");
    let tmp = sb.path().join("tmp");
    std::fs::create_dir_all(&indir).unwrap();
    std::fs::create_dir_all(&tmp).unwrap();
    // optionally the archive is stored as a multi-volume archive (arch.zip.001, .002, ...) and named by its first volume
    // in one of three ways: absolute, `./arch.zip.001` or the bare `arch.zip.001` (the latter two relative to the directory)
    let vol: Option<(usize, String)> = parts.get(7).and_then(|v| v.strip_prefix("vol=")).and_then(|v| v.split_once(',')).map(|(n, f)| (n.parse().unwrap_or(2), f.trim().to_string()));
    let zbytes = build_zip(&ms);
    // adlt caches archive listings for a minute under the path *as given*: relative names must be unique per case
    static NONCE: std::sync::atomic::AtomicUsize = std::sync::atomic::AtomicUsize::new(0);
    let vname = format!("arch{}x{}.zip", std::process::id(), NONCE.fetch_add(1, std::sync::atomic::Ordering::SeqCst));
    let zpath = match &vol {
        None => {
            let z = indir.join("arch.zip");
            std::fs::write(&z, &zbytes).unwrap();
            z
        }
        Some((n, _)) => {
            let n = (*n).max(1);
            let h = hash(&zbytes) as usize;
            let mut cuts: Vec<usize> = (1..n).map(|k| (h / (k * 7 + 1) + k * 131) % (zbytes.len() + 1)).collect();
            cuts.sort();
            let mut prev = 0;
            for (k, c) in cuts.iter().chain(std::iter::once(&zbytes.len())).enumerate() {
                std::fs::write(indir.join(format!("{}.{:03}", vname, k + 1)), &zbytes[prev..*c]).unwrap();
                prev = *c;
            }
            indir.join(format!("{}.001", vname))
        }
    };
    // something that exists next to (not inside) the future temporary directory: `<tmpdir>/../evil.dlt`
    std::fs::write(tmp.join("evil.dlt"), b"outside").unwrap();
    let zname = match &vol {
        Some((_, f)) if f == "dot" => format!("./{}.001", vname),
        Some((_, f)) if f == "bare" => format!("{}.001", vname),
        _ => zpath.to_string_lossy().to_string(),
    };
    let relative = matches!(&vol, Some((_, f)) if f != "abs");
    let arg = if pattern.is_empty() { zname.clone() } else { format!("{}{}{}", zname, if bang { "!/" } else { "/" }, pattern) };
    // the temporary directories of this thread's extraction go below sb/tmp (TMPDIR is process wide: serialise)
    static LOCK: std::sync::Mutex<()> = std::sync::Mutex::new(());
    let mut temp_dirs = vec![];
    let res = {
        let _g = LOCK.lock().unwrap_or_else(|e| e.into_inner());
        let old = std::env::var_os("TMPDIR");
        std::env::set_var("TMPDIR", &tmp);
        let log = slog::Logger::root(slog::Discard, slog::o!());
        let cwd = std::env::current_dir().ok();
        if relative {
            let _ = std::env::set_current_dir(&indir);
        }
        let r = adlt::utils::unzip::extract_archives(arg.clone(), &mut temp_dirs, &Arc::new(AtomicBool::new(false)), &log);
        if let (true, Some(c)) = (relative, &cwd) {
            let _ = std::env::set_current_dir(c);
        }
        match old {
            Some(v) => std::env::set_var("TMPDIR", v),
            None => std::env::remove_var("TMPDIR"),
        }
        r
    };
    if res.len() == 1 && res[0] == arg {
        return "P".to_string(); // passed through: not taken as an archive / extraction failed
    }
    // a second request for the same archive re-uses its temporary directory
    let res2: Option<Vec<String>> = parts.get(6).filter(|p| !p.is_empty()).map(|p2| {
        let pattern2 = String::from_utf8(unhex(p2)).unwrap_or_default();
        let arg2 = format!("{}{}{}", zpath.to_string_lossy(), if bang { "!/" } else { "/" }, pattern2);
        let _g = LOCK.lock().unwrap_or_else(|e| e.into_inner());
        let old = std::env::var_os("TMPDIR");
        std::env::set_var("TMPDIR", &tmp);
        let log = slog::Logger::root(slog::Discard, slog::o!());
        let r = adlt::utils::unzip::extract_archives(arg2.clone(), &mut temp_dirs, &Arc::new(AtomicBool::new(false)), &log);
        match old {
            Some(v) => std::env::set_var("TMPDIR", v),
            None => std::env::remove_var("TMPDIR"),
        }
        if r.len() == 1 && r[0] == arg2 {
            vec!["?passthrough".to_string()]
        } else {
            r
        }
    });
    let tdir: Option<std::path::PathBuf> = temp_dirs.first().map(|(_, d): &(String, tempfile::TempDir)| d.path().to_path_buf());
    // reported files: relative to the temporary directory of the archive, must lie inside it
    let mut reported = vec![];
    let mut outside = 0;
    for r in &res {
        let p = std::path::Path::new(r);
        match (&tdir, p.canonicalize()) {
            (Some(t), Ok(c)) => match c.strip_prefix(t.canonicalize().unwrap_or(t.clone())) {
                Ok(rel) => reported.push(rel.to_string_lossy().to_string()),
                Err(_) => outside += 1,
            },
            _ => reported.push(format!("?{}", r)),
        }
    }
    // what is on disk
    let mut inside = vec![];
    if let Some(t) = &tdir {
        walk(t, t, &mut inside);
    }
    let mut all = vec![];
    walk(sb.path(), sb.path(), &mut all);
    let expected_prefix = tdir.as_ref().and_then(|t| t.strip_prefix(sb.path()).ok().map(|x| x.to_string_lossy().to_string()));
    let escaped = all
        .iter()
        .filter(|(p, _)| !p.starts_with("in/") && p != "tmp/evil.dlt" && !expected_prefix.as_ref().map(|e| p.starts_with(&format!("{}/", e))).unwrap_or(false))
        .count();
    if std::env::var("VERIF_ZIP_DEBUG").is_ok() {
        eprintln!("tdir={:?} prefix={:?} all={:?} res={:?}", tdir, expected_prefix, all.iter().map(|(p, _)| p.clone()).collect::<Vec<_>>(), res);
    }
    // anything next to the sandbox (a member named ../../x)?
    let mut fs: Vec<String> = inside.iter().map(|(p, d)| format!("{}:{}:{}", hex(p.as_bytes()), d.len(), hash(d))).collect();
    fs.sort();
    let mut rp: Vec<String> = reported.iter().map(|p| hex(p.as_bytes())).collect();
    rp.sort();
    let second = match &res2 {
        None => String::new(),
        Some(r2) => {
            let mut v: Vec<String> = r2
                .iter()
                .map(|r| {
                    let p = std::path::Path::new(r);
                    match (&tdir, p.canonicalize()) {
                        (Some(t), Ok(c)) => match c.strip_prefix(t.canonicalize().unwrap_or(t.clone())) {
                            Ok(rel) => hex(rel.to_string_lossy().as_bytes()),
                            Err(_) => "OUTSIDE".to_string(),
                        },
                        _ => format!("?{}", hex(r.as_bytes())),
                    }
                })
                .collect();
            v.sort();
            // ... and, under the name as it was reported (not canonicalised), what the file holds: a reported member has to
            // hold the content of that member
            let mut nv: Vec<String> = r2
                .iter()
                .filter_map(|r| {
                    let t = tdir.as_ref()?;
                    let rel = r.strip_prefix(&format!("{}/", t.to_string_lossy()))?;
                    let d = std::fs::read(r).ok()?;
                    Some(format!("{}:{}:{}", hex(rel.as_bytes()), d.len(), hash(&d)))
                })
                .collect();
            nv.sort();
            format!(" S:{} N:{}", v.join("+"), nv.join("+"))
        }
    };
    format!("R:{}{} F:{} X:{}", rp.join("+"), second, fs.join("+"), escaped + outside)
}

const NAMES: [&str; 28] = [
    // names that stay inside but do not name a file (F4 of the audit), and other spellings of names listed below
    "dir/sub/..", "b/.", "./a.dlt", "dir/../a.dlt", "dir/./b.dlt",
    "a.dlt", "b.dlt", "dir/b.dlt", "dir/sub/c.txt", "dir/sub/d.dlt", "../evil.dlt", "/abs.dlt", "dir/../x.dlt", "./e.dlt", "dir/../../out.dlt", "weird [1].dlt", "data", "UP.DLT", "dir/.hidden.dlt", "a b.dlt", "dir//f.dlt",
    "..", "/etc/hostname", "dir/sub/../../../esc.dlt", "c:evil.dlt", "dir\\g.dlt", "x/../../y.dlt", "\u{00e4}.dlt",
];
const PATTERNS: [&str; 20] = ["", "**/*", "*.dlt", "**/*.dlt", "dir/*", "dir/b.dlt", "weird [1].dlt", "[ab]*", "../*", "data", "[", "dir/**", "*", "**/c.txt", "?.dlt", "dir/sub/*", "*.DLT", "**/../*", "a.dlt", "./*.dlt"];

fn gen(rng: &mut Rng, tier: u32) -> String {
    let n = rng.below(if tier > 0 { 9 } else { 6 }) as usize;
    let mut ms: Vec<Member> = vec![];
    for _ in 0..n {
        if rng.chance(7) {
            ms.push(Member { name: rng.pick(&["dir/", "dir/sub/", "empty/", "../up/"]).to_string(), dir: true, data: vec![] });
        } else {
            let name = rng.pick(&NAMES[..]).to_string();
            // mostly small members; sometimes sizes that put the following members, the central directory and the end
            // record near or across the 2 KiB / 4 KiB / 8 KiB marks (the zip reader looks for the end record in such steps)
            let len = match rng.below(12) {
                0..=7 => *rng.pick(&[0usize, 1, 5, 40, 300]),
                8..=9 => 1500 + rng.below(900) as usize,
                10 => 3500 + rng.below(900) as usize,
                _ => rng.below(9000) as usize,
            };
            let k = ms.len() as u8;
            ms.push(Member { name, dir: false, data: (0..len).map(|i| (i as u8).wrapping_mul(7).wrapping_add(k)).collect() });
        }
    }
    if rng.chance(12) {
        ms = vec![Member { name: "data".into(), dir: false, data: vec![1, 2, 3] }];
    }
    // no duplicate names (the zip writer refuses them)
    let mut seen = std::collections::HashSet::new();
    ms.retain(|m| seen.insert(m.name.clone()));
    let pattern = rng.pick(&PATTERNS[..]).to_string();
    let bang = rng.chance(3);
    // what the zip crate says about each member, and what the glob crate says about each (pattern, name) pair
    let z = build_zip(&ms);
    let mut info: Vec<String> = vec![];
    let mut listing: Vec<String> = vec![];
    if let Ok(mut a) = zip::ZipArchive::new(std::io::Cursor::new(z)) {
        listing = a.file_names().map(|s| s.to_string()).collect();
        for i in 0..a.len() {
            if let Ok(f) = a.by_index(i) {
                let e = f.enclosed_name().map(|p| hex(p.to_string_lossy().as_bytes())).unwrap_or("-".into());
                info.push(format!("{},{},{},{}", hex(f.name().as_bytes()), if f.is_dir() { "d" } else if f.is_file() { "f" } else { "o" }, e, i));
            }
        }
    }
    let mut tbl: Vec<String> = vec![];
    let mut pats = vec![pattern.clone()];
    if pattern.is_empty() {
        pats = vec!["**/*".to_string()];
    }
    // in a third of the cases the same archive is asked for a second time (same temporary directory)
    let pattern2 = if rng.chance(3) { rng.pick(&["**/*", "*.dlt", "**/*.dlt", "dir/*", "a.dlt", "a.*", "dir/b.dlt", "*"]).to_string() } else { String::new() };
    if !pattern2.is_empty() && !pats.contains(&pattern2) {
        pats.push(pattern2.clone());
    }
    for p in pats {
        match glob::Pattern::new(&p) {
            Ok(g) => {
                for nme in listing.iter().chain(std::iter::once(&"arch".to_string())) {
                    tbl.push(format!("G{}:{}:{}", hex(p.as_bytes()), hex(nme.as_bytes()), g.matches(nme) as u8));
                }
            }
            Err(_) => {
                tbl.push(format!("B{}", hex(p.as_bytes())));
                // the `!/` form falls back to the escaped pattern
                if let Ok(g) = glob::Pattern::new(&glob::Pattern::escape(&p)) {
                    for nme in listing.iter().chain(std::iter::once(&"arch".to_string())) {
                        tbl.push(format!("E{}:{}:{}", hex(p.as_bytes()), hex(nme.as_bytes()), g.matches(nme) as u8));
                    }
                }
            }
        }
    }
    // a sixth of the archives with more than one entry is stored in 1-3 volumes, named in one of three ways
    let volfield = if listing != vec!["data".to_string()] && !pattern2.is_empty() == false && rng.chance(5) {
        format!(" | vol={},{}", 1 + rng.below(3), rng.pick(&["abs", "dot", "bare"]))
    } else {
        String::new()
    };
    format!(
        "{} | {} | {} | {} | {} | {} | {}{}",
        hex(pattern.as_bytes()),
        if bang { "!" } else { "/" },
        ms.iter().map(|m| format!("{},{},{}", hex(m.name.as_bytes()), if m.dir { "d" } else { "f" }, hex(&m.data))).collect::<Vec<_>>().join(";"),
        info.join(";"),
        listing.iter().map(|l| hex(l.as_bytes())).collect::<Vec<_>>().join(";"),
        tbl.join(" "),
        hex(pattern2.as_bytes()),
        volfield
    )
}

impl Area for Zipx {
    fn gen(&self, rng: &mut Rng, tier: u32) -> String {
        gen(rng, tier)
    }
    fn run(&self, case: &str) -> String {
        run(case)
    }
}

/// development aid: the logic of `CloneableSeekableReader` (cached position of the shared reader) replayed over a cursor,
/// reporting every read at which the cached position equals the requested offset while the real position differs
struct ProbeInner {
    c: std::io::Cursor<Vec<u8>>,
    cached: u64,
    hits: Vec<(u64, u64, usize)>,
    reads: usize,
}
#[derive(Clone)]
struct ProbeReader {
    inner: std::sync::Arc<std::sync::Mutex<ProbeInner>>,
    pos: u64,
}
impl std::io::Read for ProbeReader {
    fn read(&mut self, buf: &mut [u8]) -> std::io::Result<usize> {
        use std::io::{Seek, SeekFrom};
        let mut i = self.inner.lock().unwrap();
        let real = i.c.position();
        i.reads += 1;
        if self.pos == i.cached && real != self.pos {
            let n = buf.len();
            i.hits.push((self.pos, real, n));
        }
        if self.pos != i.cached {
            i.c.seek(SeekFrom::Start(self.pos))?;
        }
        let n = std::io::Read::read(&mut i.c, buf)?;
        i.cached += n as u64;
        self.pos += n as u64;
        Ok(n)
    }
}
impl std::io::Seek for ProbeReader {
    fn seek(&mut self, pos: std::io::SeekFrom) -> std::io::Result<u64> {
        let len = self.inner.lock().unwrap().c.get_ref().len() as u64;
        self.pos = match pos {
            std::io::SeekFrom::Start(p) => p,
            std::io::SeekFrom::End(o) => (len as i64 + o) as u64,
            std::io::SeekFrom::Current(o) => (self.pos as i64 + o) as u64,
        };
        Ok(self.pos)
    }
}

pub fn probe(max: usize) {
    for s in 0..max {
        let want: Vec<u8> = (0..100u32).map(|i| (i * 7 + 1) as u8).collect();
        let ms = vec![
            Member { name: "skip.bin".into(), dir: false, data: (0..s).map(|i| (i * 13 + 5) as u8).collect() },
            Member { name: "want.dlt".into(), dir: false, data: want.clone() },
        ];
        let z = build_zip(&ms);
        let r = ProbeReader { inner: std::sync::Arc::new(std::sync::Mutex::new(ProbeInner { c: std::io::Cursor::new(z), cached: 0, hits: vec![], reads: 0 })), pos: 0 };
        let mut got = vec![];
        let mut err = String::new();
        match zip::ZipArchive::new(r.clone()) {
            Ok(mut a) => {
                for i in 0..a.len() {
                    match a.by_index(i) {
                        Ok(mut f) => {
                            if f.name() == "want.dlt" {
                                if let Err(e) = std::io::Read::read_to_end(&mut f, &mut got) {
                                    err = format!("{}", e);
                                }
                            }
                        }
                        Err(e) => err = format!("by_index: {}", e),
                    }
                }
            }
            Err(e) => err = format!("open: {}", e),
        }
        let i = r.inner.lock().unwrap();
        if s < 3 || !i.hits.is_empty() || got != want || !err.is_empty() {
            println!("s={} reads={} cached_end={} hits={:?} ok={} err={}", s, i.reads, i.cached, i.hits, got == want, err);
        }
    }
    println!("probe done");
}

/// development aid: the real `extract_archives` on [skip.bin (s bytes), want.dlt], requesting only want.dlt
pub fn probe_real(sizes: &[usize]) {
    let sb = tempfile::Builder::new().prefix("zipprobe").tempdir_in(std::env::var("VERIF_RUN_DIR").unwrap_or_else(|_| "/verif/build/run".to_string())).unwrap();
    let log = slog::Logger::root(slog::Discard, slog::o!());
    for &s in sizes {
        let want: Vec<u8> = (0..100u32).map(|i| (i * 7 + 1) as u8).collect();
        let ms = vec![
            Member { name: "skip.bin".into(), dir: false, data: (0..s).map(|i| (i * 13 + 5) as u8).collect() },
            Member { name: "want.dlt".into(), dir: false, data: want.clone() },
        ];
        let zpath = sb.path().join(format!("a{}.zip", s));
        std::fs::write(&zpath, build_zip(&ms)).unwrap();
        let arg = format!("{}!/want.dlt", zpath.to_string_lossy());
        let mut temp_dirs = vec![];
        let r = adlt::utils::unzip::extract_archives(arg.clone(), &mut temp_dirs, &Arc::new(AtomicBool::new(false)), &log);
        let ok = r.len() == 1 && std::fs::read(&r[0]).map_or(false, |d| d == want);
        println!("s={} ok={} result={:?}", s, ok, r.iter().map(|x| x.rsplit('/').next().unwrap_or("").to_string()).collect::<Vec<_>>());
    }
}
