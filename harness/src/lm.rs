//! `LowMarkBufReader` over a scripted short-read source under fill/consume/read/seek scripts (C04, reader part)
use crate::{Area, Rng};
use adlt::utils::LowMarkBufReader;
use std::io::{BufRead, Read, Seek, SeekFrom};

pub struct Lm;

pub struct Chunked {
    pub data: Vec<u8>,
    pub pos: usize,
    pub sizes: Vec<usize>,
    pub i: usize,
}
impl Read for Chunked {
    fn read(&mut self, buf: &mut [u8]) -> std::io::Result<usize> {
        let want = if self.i < self.sizes.len() {
            let s = self.sizes[self.i];
            // values >= 10^9 are relative to the space offered: 10^9+1 -> len-1, 10^9+d -> len/d
            if s >= 1_000_000_000 {
                if s == 1_000_000_001 {
                    (buf.len().saturating_sub(1)).max(1)
                } else {
                    (buf.len() / (s - 1_000_000_000)).max(1)
                }
            } else {
                s.max(1)
            }
        } else {
            buf.len()
        };
        self.i += 1;
        let n = want.min(buf.len()).min(self.data.len() - self.pos);
        buf[..n].copy_from_slice(&self.data[self.pos..self.pos + n]);
        self.pos += n;
        Ok(n)
    }
}

fn hash(b: &[u8]) -> u64 {
    b.iter().fold(7u64, |h, x| (h * 31 + *x as u64 + 1) % 4294967291)
}

fn run(case: &str) -> String {
    let p: Vec<&str> = case.split('|').collect();
    let cfg: Vec<usize> = p[0].split_whitespace().map(|x| x.parse().unwrap()).collect();
    let n: usize = p[1].trim().parse().unwrap();
    let sizes: Vec<usize> = p[2].split_whitespace().map(|x| x.parse().unwrap()).collect();
    let data: Vec<u8> = (0..n).map(|i| ((i * 7 + 3) % 251) as u8).collect();
    let mut r = LowMarkBufReader::new(Chunked { data, pos: 0, sizes, i: 0 }, cfg[0], cfg[1]);
    let mut outs = vec![];
    for op in p[3].split_whitespace() {
        let (k, v) = op.split_once(':').unwrap_or((op, ""));
        match k {
            "f" => {
                let b = r.fill_buf().unwrap();
                let (l, h) = (b.len(), hash(b));
                outs.push(format!("f{}:{}:{}", l, h, r.buffer().len()));
            }
            "c" => {
                r.consume(v.parse().unwrap());
                outs.push(format!("c:{}", r.buffer().len()));
            }
            "r" => {
                let mut b = vec![0u8; v.parse().unwrap()];
                let got = r.read(&mut b).unwrap();
                outs.push(format!("r{}:{}:{}", got, hash(&b[..got]), r.buffer().len()));
            }
            "s" => {
                let ok = r.seek(SeekFrom::Start(v.parse().unwrap())).is_ok();
                outs.push(format!("s{}:{}", ok as u8, r.buffer().len()));
            }
            "k" => {
                let ok = r.seek(SeekFrom::Current(v.parse().unwrap())).is_ok();
                outs.push(format!("k{}:{}", ok as u8, r.buffer().len()));
            }
            _ => outs.push("?".to_string()),
        }
    }
    outs.join(" ")
}

impl Area for Lm {
    fn gen(&self, rng: &mut Rng, tier: u32) -> String {
        let l0 = if rng.chance(3) { 6000 } else { 300 };
        let low = 1 + rng.below(l0) as usize;
        let c0 = if rng.chance(2) { 1 } else { 5000 };
        let cap = low + 4096 + rng.below(c0) as usize;
        let n0 = if rng.chance(3) { 30000 } else { 12000 };
        let n = rng.below(n0) as usize;
        let nsched = rng.below(40) as usize;
        let sizes: Vec<usize> = (0..nsched)
            .map(|_| match rng.below(7) {
                0 => 1,
                1 => 1 + rng.below(10) as usize,
                2 => 4096,
                3 => 1 + rng.below(5000) as usize,
                4 => 1_000_000_001 + rng.below(4) as usize, // relative to the offered space: len-1, len/2, len/3, len/4
                5 => 1_000_000_002,
                _ => 1 + rng.below(300) as usize,
            })
            .collect();
        let nops = 1 + rng.below(if tier > 0 { 80 } else { 40 });
        let mut ops = vec![];
        let mut approx_abs: i64 = 0;
        for _ in 0..nops {
            match rng.below(10) {
                0..=2 => ops.push("f".to_string()),
                3..=5 => {
                    let k = match rng.below(4) {
                        0 => rng.below(10),
                        1 => rng.below(5000),
                        2 => 4096 + rng.below(200),
                        _ => rng.below(600),
                    } as usize;
                    approx_abs += k as i64;
                    ops.push(format!("c:{}", k));
                }
                6..=7 => {
                    let k = rng.below(3000) as usize;
                    approx_abs += k as i64;
                    ops.push(format!("r:{}", k));
                }
                8 => {
                    let t = (approx_abs + rng.below(9000) as i64 - 5000).max(0) as u64;
                    approx_abs = t as i64;
                    ops.push(format!("s:{}", t));
                }
                _ => {
                    let d = rng.below(6000) as i64 - 4000;
                    approx_abs = (approx_abs + d).max(0);
                    ops.push(format!("k:{}", d));
                }
            }
        }
        format!("{} {} | {} | {} | {}", cap, low, n, sizes.iter().map(|s| s.to_string()).collect::<Vec<_>>().join(" "), ops.join(" "))
    }
    fn run(&self, case: &str) -> String {
        run(case)
    }
}
