//! C03: no input content can crash ingestion and analysis.
//! `c03`  - whole chain in an isolated worker process (address-space limit, time limit): read -> text -> re-serialise ->
//!          statistics -> argument iteration -> lifecycles -> listing -> sort -> filters -> built-in plugins.
//! `c03f` - function level: the control-message payload parsers and the argument iterators against their checked
//!          Lean models (panic vs value).
use crate::dp::{hex, unhex};
use crate::{Area, Rng};
use adlt::dlt::control_msgs::*;
use adlt::dlt::*;
use adlt::filter::Filter;
use adlt::lifecycle::*;
use adlt::plugins::plugin::Plugin;
use adlt::plugins::{anonymize::AnonymizePlugin, factory::get_plugin, plugins_process_msgs};
use adlt::utils::eac_stats::EacStats;
use serde_json::json;
use std::io::{BufRead, Write};
use std::sync::mpsc::channel;

pub struct C03;
pub struct C03f;

// --------------------------------------------------------------------------------------------- input construction

fn enc_args(be: bool, args: &[(u32, Vec<u8>)]) -> Vec<u8> {
    let mut v = vec![];
    for (ti, data) in args {
        v.extend_from_slice(&if be { ti.to_be_bytes() } else { ti.to_le_bytes() });
        if ti & (DLT_TYPE_INFO_STRG | DLT_TYPE_INFO_RAWD) != 0 {
            let l = data.len() as u16;
            v.extend_from_slice(&if be { l.to_be_bytes() } else { l.to_le_bytes() });
        }
        v.extend_from_slice(data);
    }
    v
}

struct Hdr {
    serial: bool,
    ecu: u8,
    recv: u64,
    ts: u32,
    be: bool,
    mcnt: u8,
    vmm: u8, // verb_mstp_mtin
    noar: u8,
    apid: [u8; 4],
    ctid: [u8; 4],
    weid: bool,
    wsid: bool,
    wtms: bool,
    ext: bool,
}

fn enc_msg(h: &Hdr, payload: &[u8]) -> Vec<u8> {
    let mut v = if h.serial { b"DLS\x01".to_vec() } else { b"DLT\x01".to_vec() };
    if !h.serial {
        v.extend_from_slice(&((h.recv / 1_000_000) as u32).to_le_bytes());
        v.extend_from_slice(&((h.recv % 1_000_000) as u32).to_le_bytes());
        v.extend_from_slice(&[b'E', b'C', b'U', b'0' + h.ecu]);
    }
    let mut htyp = 0x20u8;
    let mut add = vec![];
    if h.ext {
        htyp |= 1;
    }
    if h.be {
        htyp |= 2;
    }
    if h.weid {
        htyp |= 4;
        add.extend_from_slice(&[b'E', b'C', b'U', b'0' + h.ecu]);
    }
    if h.wsid {
        htyp |= 8;
        add.extend_from_slice(&[0, 0, 0, 7]);
    }
    if h.wtms {
        htyp |= 0x10;
        add.extend_from_slice(&h.ts.to_be_bytes());
    }
    if h.ext {
        add.extend_from_slice(&[h.vmm, h.noar]);
        add.extend_from_slice(&h.apid);
        add.extend_from_slice(&h.ctid);
    }
    let len = (4 + add.len() + payload.len()).min(65535);
    v.extend_from_slice(&[htyp, h.mcnt, (len >> 8) as u8, len as u8]);
    v.extend_from_slice(&add);
    v.extend_from_slice(payload);
    v
}

fn id4(s: &str) -> [u8; 4] {
    let mut b = [0u8; 4];
    for (i, c) in s.bytes().take(4).enumerate() {
        b[i] = c;
    }
    b
}

fn extreme_u16(rng: &mut Rng) -> u16 {
    match rng.below(8) {
        0 => 0,
        1 => 1,
        2 => 0xffff,
        3 => 0xfffe,
        4 => 0x8000,
        _ => rng.below(12) as u16,
    }
}
fn extreme_u32(rng: &mut Rng) -> u32 {
    match rng.below(9) {
        0 => 0,
        1 => 1,
        2 => u32::MAX,
        3 => u32::MAX - 1,
        4 => 0x8000_0000,
        5 => 65536,
        _ => rng.below(3000) as u32,
    }
}

/// a GET_LOG_INFO response body (after service id + status)
fn log_info_body(rng: &mut Rng, be: bool, status: u8) -> Vec<u8> {
    let w16 = |x: u16| if be { x.to_be_bytes() } else { x.to_le_bytes() };
    let has_ll = matches!(status, 4 | 6 | 7);
    let has_ts = matches!(status, 5 | 6 | 7);
    let has_d = status == 7;
    let napp = if rng.chance(8) { 0 } else { 1 + rng.below(3) as u16 };
    let mut v = vec![];
    v.extend_from_slice(&w16(if rng.chance(12) { extreme_u16(rng) } else { napp }));
    for _ in 0..napp {
        v.extend_from_slice(&id4(*rng.pick(&["APP", "SYS", "A", "LOGD"])));
        let nctx = rng.below(4) as u16;
        v.extend_from_slice(&w16(if rng.chance(14) { extreme_u16(rng) } else { nctx }));
        for _ in 0..nctx {
            v.extend_from_slice(&id4(*rng.pick(&["CTX", "MAIN", "C", "TCGD"])));
            if has_ll {
                v.push(rng.below(256) as u8);
            }
            if has_ts {
                v.push(rng.below(256) as u8);
            }
            if has_d {
                let d: Vec<u8> = (0..rng.below(6)).map(|_| *rng.pick(&[b'a', b'\n', 0xe4, b' ', 0])).collect();
                v.extend_from_slice(&w16(if rng.chance(14) { extreme_u16(rng) } else { d.len() as u16 }));
                v.extend_from_slice(&d);
            }
        }
        if has_d {
            let d: Vec<u8> = (0..rng.below(6)).map(|_| *rng.pick(&[b'x', b'\r', 0xfc, b' '])).collect();
            v.extend_from_slice(&w16(if rng.chance(14) { extreme_u16(rng) } else { d.len() as u16 }));
            v.extend_from_slice(&d);
        }
    }
    if rng.chance(6) && !v.is_empty() {
        let k = rng.below(v.len() as u64 + 1) as usize;
        v.truncate(k);
    }
    v
}

const DLT_TYPE_INFO_VARI: u32 = 0x800;
const DLT_TYPE_INFO_FIXP: u32 = 0x1000;
const U32T: u32 = DLT_TYPE_INFO_UINT | 3;
const U16T: u32 = DLT_TYPE_INFO_UINT | 2;

/// a synthetic stream: `n` messages of mixed kinds with extreme field values
fn synth(seed: u64, n: usize) -> Vec<u8> {
    let mut rng = Rng::new(seed);
    let rng = &mut rng;
    let serial = rng.chance(8);
    let mut out = vec![];
    let mut recv: u64 = 1_700_000_000_000_000;
    let mut boot: [u64; 3] = [recv; 3];
    let mut ft_serial = 1u32;
    for k in 0..n {
        let ecu = rng.below(3) as u8;
        recv += *rng.pick(&[0u64, 1000, 500_000, 1_000_000, 20_000_000, 70_000_000, 130_000_000]);
        if rng.chance(6) {
            boot[ecu as usize] = recv;
        }
        let ts = match rng.below(10) {
            0 => 0,
            1 => u32::MAX,
            2 => ((recv - boot[ecu as usize]) / 100) as u32 + 40_000_000,
            _ => ((recv - boot[ecu as usize]) / 100) as u32,
        };
        let recv_m = match rng.below(14) {
            0 => recv.saturating_sub(rng.below(5_000_000)),
            1 if rng.chance(3) => 0,
            2 if rng.chance(3) => u32::MAX as u64 * 1_000_000 + 999_999,
            _ => recv,
        };
        let be = rng.chance(4);
        let mut h = Hdr { serial, ecu, recv: recv_m, ts, be, mcnt: k as u8, vmm: (4 << 4) | 1, noar: 1, apid: id4(*rng.pick(&["APP", "SYS", "DA1", "LOGD"])), ctid: id4(*rng.pick(&["CTX", "TC", "DC1", "FILE"])), weid: rng.chance(3), wsid: rng.chance(5), wtms: !rng.chance(8), ext: true };
        let w32 = |x: u32| if be { x.to_be_bytes().to_vec() } else { x.to_le_bytes().to_vec() };
        let payload: Vec<u8> = match rng.below(16) {
            0 | 1 => {
                // verbose log with random typed arguments
                let na = rng.below(5) as usize;
                let mut args = vec![];
                for _ in 0..na {
                    let (ti, data): (u32, Vec<u8>) = match rng.below(9) {
                        0 => (DLT_TYPE_INFO_BOOL | rng.below(3) as u32, vec![1]),
                        1 => (DLT_TYPE_INFO_UINT | 1 + rng.below(5) as u32, vec![0xff; 1 << rng.below(5)]),
                        2 => (DLT_TYPE_INFO_SINT | 1 + rng.below(5) as u32, vec![0x80; 1 << rng.below(5)]),
                        3 => (DLT_TYPE_INFO_FLOA | 2 + rng.below(4) as u32, vec![0x7f; 2 << rng.below(4)]),
                        4 => (DLT_TYPE_INFO_STRG | DLT_SCOD_UTF8, b"hello w\xc3\xb6rld\0".to_vec()),
                        5 => (DLT_TYPE_INFO_STRG, vec![0xe4, b'\n', 0]),
                        6 => (DLT_TYPE_INFO_RAWD, (0..rng.below(20)).map(|i| i as u8).collect()),
                        7 => (extreme_u32(rng), vec![1, 2, 3, 4]),
                        _ => (DLT_TYPE_INFO_STRG | DLT_TYPE_INFO_VARI, vec![2, 0, b'a', 0]),
                    };
                    args.push((ti, data));
                }
                h.noar = if rng.chance(5) { rng.below(256) as u8 } else { na as u8 };
                h.vmm = ((rng.below(7) as u8) << 4) | ((rng.below(4) as u8) << 1) | 1;
                enc_args(be, &args)
            }
            2 | 3 => {
                // GET_LOG_INFO response
                let status = *rng.pick(&[3u8, 4, 5, 6, 7, 7, 7, 8, 0, 2]);
                h.vmm = (3 << 1) | (2 << 4); // control response
                h.noar = 0;
                let mut p = w32(3);
                p.push(status);
                p.extend_from_slice(&log_info_body(rng, be, status));
                p
            }
            4 => {
                // other control responses: sw version, unregister context, connection info, timezone, unknown
                h.vmm = (3 << 1) | (2 << 4);
                h.noar = 0;
                let sid = *rng.pick(&[0x13u32, 0xf01, 0xf02, 0xf03, 0x14, 0xfff, u32::MAX]);
                let mut p = w32(sid);
                p.push(rng.below(3) as u8);
                match sid {
                    0x13 => {
                        let s = b"SW 1.2.3\nline2";
                        p.extend_from_slice(&w32(if rng.chance(4) { extreme_u32(rng) } else { s.len() as u32 }));
                        p.extend_from_slice(s);
                    }
                    0xf01 => p.extend_from_slice(&b"APP\0CTX\0remo"[..if rng.chance(4) { rng.below(12) as usize } else { 12 }]),
                    0xf02 => p.extend_from_slice(&b"\x02remo"[..if rng.chance(4) { rng.below(5) as usize } else { 5 }]),
                    0xf03 => p.extend_from_slice(&[0, 0, 0x0e, 0x10, 1][..if rng.chance(4) { rng.below(5) as usize } else { 5 }]),
                    _ => p.extend_from_slice(&[1, 2, 3]),
                }
                if rng.chance(5) {
                    p.truncate(rng.below(p.len() as u64 + 1) as usize);
                }
                p
            }
            5 => {
                // a *verbose* control response / request with short arguments
                h.vmm = (3 << 1) | ((1 + rng.below(2) as u8) << 4) | 1;
                h.noar = 1;
                enc_args(be, &[(DLT_TYPE_INFO_UINT | 1 + rng.below(3) as u32, vec![3; 1 << rng.below(3)])])
            }
            6 => {
                // control request
                h.vmm = (3 << 1) | (1 << 4);
                h.noar = 0;
                let mut p = w32(*rng.pick(&[1u32, 3, 0x13, 0xf02]));
                p.extend_from_slice(&[0; 3][..rng.below(4) as usize]);
                p
            }
            7 | 8 => {
                // non-verbose
                h.vmm = (rng.below(7) as u8) << 4;
                h.noar = 0;
                h.ext = !rng.chance(3);
                let mut p = w32(*rng.pick(&[805312382u32, 805312383, 1, 0, u32::MAX]));
                p.extend_from_slice(&(0..rng.below(12)).map(|i| (i * 37) as u8).collect::<Vec<u8>>());
                if rng.chance(5) {
                    p.truncate(rng.below(4) as usize);
                }
                p
            }
            9 | 10 | 11 => {
                // file transfer
                h.apid = id4("SYS");
                h.ctid = id4("FILE");
                let s = |x: &[u8]| x.to_vec();
                let ser = if rng.chance(4) { extreme_u32(rng) } else { ft_serial };
                match rng.below(4) {
                    0 => {
                        ft_serial += 1;
                        h.noar = 8;
                        enc_args(
                            be,
                            &[(DLT_TYPE_INFO_STRG, s(b"FLST\0")), (U32T, w32(ser)), (DLT_TYPE_INFO_STRG, s(b"dir/../f.bin\0")), (U32T, w32(extreme_u32(rng))), (DLT_TYPE_INFO_STRG, s(b"date\0")), (U32T, w32(extreme_u32(rng))), (U32T, w32(extreme_u32(rng))), (DLT_TYPE_INFO_STRG, s(b"FLST\0"))],
                        )
                    }
                    1 | 2 => {
                        h.noar = 5;
                        let k = rng.below(40) as usize;
                        enc_args(be, &[(DLT_TYPE_INFO_STRG, s(b"FLDA\0")), (U32T, w32(ser)), (U32T, w32(extreme_u32(rng))), (DLT_TYPE_INFO_RAWD, vec![7; k]), (DLT_TYPE_INFO_STRG, s(b"FLDA\0"))])
                    }
                    _ => {
                        h.noar = 3;
                        enc_args(be, &[(DLT_TYPE_INFO_STRG, s(b"FLFI\0")), (U32T, w32(ser)), (DLT_TYPE_INFO_STRG, s(b"FLFI\0"))])
                    }
                }
            }
            12 | 13 | 14 => {
                // SOME/IP network trace, plain and segmented
                h.vmm = (2 << 1) | (1 << 4) | 1; // nw_trace ipc, verbose
                h.ctid = id4("TC");
                let ipinfo: Vec<u8> = vec![10, 0, 0, 1, 0x30, 0x39, 0, 1, 1, 2, 3, 4][..*rng.pick(&[9usize, 10, 12, 12, 8])].to_vec();
                let mut someip: Vec<u8> = vec![0x12, 0x34, 0x80, 0x01, 0, 0, 0, 12, 0, 1, 0, 2, 1, 1, 2, 0, 9, 9, 9, 9];
                someip.truncate(rng.below(someip.len() as u64 + 1) as usize);
                let seg = if rng.chance(3) { extreme_u32(rng) } else { 5 };
                let w16 = |x: u16| x.to_le_bytes().to_vec();
                match rng.below(6) {
                    0 | 1 => {
                        h.noar = 2;
                        enc_args(be, &[(DLT_TYPE_INFO_RAWD, ipinfo), (DLT_TYPE_INFO_RAWD, someip)])
                    }
                    2 => {
                        h.noar = 6;
                        enc_args(
                            be,
                            &[(DLT_TYPE_INFO_STRG, b"NWST\0".to_vec()), (U32T, seg.to_le_bytes().to_vec()), (DLT_TYPE_INFO_RAWD, ipinfo), (U32T, w32(extreme_u32(rng))), (U16T, w16(extreme_u16(rng))), (U16T, w16(extreme_u16(rng)))],
                        )
                    }
                    3 | 4 => {
                        h.noar = 4;
                        let k = rng.below(12) as usize;
                        enc_args(be, &[(DLT_TYPE_INFO_STRG, b"NWCH\0".to_vec()), (U32T, seg.to_le_bytes().to_vec()), (U16T, w16(extreme_u16(rng))), (DLT_TYPE_INFO_RAWD, someip[..k.min(someip.len())].to_vec())])
                    }
                    _ => {
                        h.noar = 2;
                        enc_args(be, &[(DLT_TYPE_INFO_STRG, b"NWEN\0".to_vec()), (U32T, seg.to_le_bytes().to_vec())])
                    }
                }
            }
            _ => {
                // CAN-like / muniic-like raw frames under the ids the plugins look at
                h.apid = id4(*rng.pick(&["CAN", "MUN", "DA1"]));
                h.ctid = id4(*rng.pick(&["TC", "DC1", "MUN"]));
                h.vmm = (2 << 1) | ((1 + rng.below(4) as u8) << 4) | 1;
                h.noar = 2;
                enc_args(be, &[(DLT_TYPE_INFO_RAWD, vec![0, 0, 1, 0x01, 0x23, 8][..rng.below(7) as usize].to_vec()), (DLT_TYPE_INFO_RAWD, vec![1, 2, 3, 4, 5, 6, 7, 8][..rng.below(9) as usize].to_vec())])
            }
        };
        out.extend_from_slice(&enc_msg(&h, &payload));
        if rng.chance(12) {
            out.extend_from_slice(&[b'D', b'L', b'T', 0, 0xff][..1 + rng.below(5) as usize]);
        }
    }
    out
}

/// grammar-based text lines for the text formats
fn synth_text(kind: &str, seed: u64, n: usize) -> Vec<u8> {
    let mut rng = Rng::new(seed);
    let rng = &mut rng;
    let mut s = String::new();
    let num = |rng: &mut Rng| -> String { rng.pick(&["0", "1", "8", "64", "65", "255", "999999999", "18446744073709551616", "-1", "0.5", "x", ""]).to_string() };
    match kind {
        "asc" => {
            if !rng.chance(4) {
                s.push_str(*rng.pick(&["date Tue Apr 12 08:55:37 AM 2022\n", "date Thu Apr 20 10:25:26 PM 2023\n", "date Xxx Foo 99 99:99:99 AM 99999\n", "date \n", "date Tue Apr 12 08:55:37.123 am 2022\n"]));
            }
            s.push_str(*rng.pick(&["base hex timestamps absolute\n", "base dec timestamps relative\n", "base hex\n", ""]));
            for _ in 0..n {
                let t = rng.pick(&["0.985210", "   6.941036", "99999999999.9", "-1.5", "0.1234567890123", ".5", "1e9", "4294967296.000001"]).to_string();
                let line = match rng.below(12) {
                    0 => format!("//BusMapping: CAN {} = {}\n", num(rng), rng.pick(&["IuK_CAN", "", "A B"])),
                    1 => format!("{} {}  Statistic: D {} R 0 XD 0 XR 0 E 0 O 0 B 2.48%\n", t, num(rng), num(rng)),
                    2 => format!("{} CAN {} Status:chip status error active\n", t, num(rng)),
                    3 => format!("{} {} ErrorFrame ECC: 10100010\n", t, num(rng)),
                    4 => format!("{} CANFD {} Rx {} name 1 0 d {} {} 00 11 22 33 44 55 66 77 88 99 aa bb cc dd ee ff 103 0 0 0 0 0\n", t, num(rng), rng.pick(&["18ff", "7ff", "x", "1ffffffff", ""]), num(rng), num(rng)),
                    5 => format!("{} {} {}x Rx d {} 01 02 03 04 05 06 07 08\n", t, num(rng), rng.pick(&["18ff0000", "1ffffffff", "7ff"]), num(rng)),
                    6 => "// version 9.0.0\n".to_string(),
                    7 => format!("{}\n", rng.pick(&["Begin Triggerblock Tue Apr 12 08:55:37 AM 2022", "End TriggerBlock", "no internal events logged", "\u{feff}date x", "\u{00e4}\u{00f6} \u{4e2d}"])),
                    _ => {
                        let dlc = num(rng);
                        let nb = rng.below(10);
                        let bytes: Vec<String> = (0..nb).map(|_| rng.pick(&["00", "ff", "7", "zz", "100"]).to_string()).collect();
                        format!("{} {} {} {} {} {} {} Length = {} BitCount = {} ID = {}\n", t, num(rng), rng.pick(&["36f", "7ff", "800", "1fffffffx", "zz", ""]), rng.pick(&["Rx", "Tx", ""]), rng.pick(&["d", "r", ""]), dlc, bytes.join(" "), num(rng), num(rng), num(rng))
                    }
                };
                s.push_str(&line);
            }
        }
        "txt" => {
            for _ in 0..n {
                let line = match rng.below(10) {
                    0 => "--------- beginning of main\n".to_string(),
                    1 => format!("{} {} {} {} {}: msg\n", rng.pick(&["    18.062", "99999999999.999", "99999999999999999.9", "18446744073709551615.999999", "-1.0", "1.", ".062", "18.0625", "1.99999999999999999999"]), num(rng), num(rng), rng.pick(&["I", "E", "X", ""]), rng.pick(&["tag  ", "", "a:b"])),
                    2 | 3 | 4 => format!(
                        "{}-{} {}:{}:{}.{} {} {} {} {}: text \u{00e4} {}\n",
                        rng.pick(&["01", "12", "13", "00", "2", "99"]),
                        rng.pick(&["01", "31", "32", "00", "5"]),
                        rng.pick(&["00", "23", "24", "7"]),
                        rng.pick(&["00", "59", "60"]),
                        rng.pick(&["00", "59", "61", "\u{0663}\u{0663}", "0\u{0663}"]),
                        rng.pick(&["000", "999", "1", "5", "123456", "\u{0663}\u{0661}\u{0662}", "12", "\u{0663}1"]),
                        num(rng),
                        num(rng),
                        rng.pick(&["V", "D", "I", "W", "E", "F", "S", "Z"]),
                        rng.pick(&["Tag", "", "a b"]),
                        num(rng)
                    ),
                    5 => format!("{}-{}-{} 12:00:00.000 1 2 I T: year first\n", rng.pick(&["2024", "0000", "99999", "1970"]), rng.pick(&["02", "13"]), rng.pick(&["29", "30", "31"])),
                    6 => format!("[ {}-{} 12:00:00.{} {}:{} I/tag ]\nlong format\n\n", rng.pick(&["02", "13"]), rng.pick(&["30", "10"]), num(rng), num(rng), num(rng)),
                    7 => "console:/ # logcat -b all\n".to_string(),
                    _ => format!("{}\n", rng.pick(&["", " ", "garbage line", "\u{feff}", "01-01 00:00:00.000", "01-01 00:00:00.0 1 1 I"])),
                };
                s.push_str(&line);
            }
        }
        _ => {
            for _ in 0..n {
                let line = match rng.below(8) {
                    0 => "-------------------------------- live log setup --------------------------------\n".to_string(),
                    1 | 2 | 3 => format!(
                        "[{}-{}-{} {}:{}:{}.{}] [{}] [{}] message {}\n",
                        rng.pick(&["2024", "1969", "0000", "99999", "-2024"]),
                        rng.pick(&["03", "13", "00"]),
                        rng.pick(&["09", "31", "32", "00"]),
                        rng.pick(&["23", "24", "00"]),
                        rng.pick(&["01", "60"]),
                        rng.pick(&["31", "61"]),
                        rng.pick(&["627", "1", "9999999", ""]),
                        rng.pick(&["INF", "ERR", "WRN", "DBG", "X", ""]),
                        rng.pick(&["conftest", "a.b.c", "", "[x]"]),
                        num(rng)
                    ),
                    4 => "[2024-03-09 23:01:31.627] [INF]\n".to_string(),
                    5 => "[2024-03-09 23:01:31.627\n".to_string(),
                    6 => format!("{} plain text {}\n", num(rng), num(rng)),
                    _ => "[] [] []\n".to_string(),
                };
                s.push_str(&line);
            }
        }
    }
    s.into_bytes()
}

/// text lines that *match* the converters' grammars (6 digit fractions, years 2xxx, ...) and are hostile in what the
/// grammar leaves open: magnitudes, non-ASCII characters (incl. Unicode white space where `\s` is accepted), lengths
/// around the u16 limit of a DLT message, dates before 1970 / far in the future / several of them, colliding tags
fn synth_text2(kind: &str, seed: u64, n: usize) -> Vec<u8> {
    let mut rng = Rng::new(seed);
    let rng = &mut rng;
    let mut s = String::new();
    fn ws(rng: &mut Rng) -> &'static str {
        *rng.pick(&[" ", " ", " ", " ", " ", "\t", "  ", "\u{a0}", "\u{2003}", "\u{3000}"])
    }
    fn long(rng: &mut Rng) -> usize {
        *rng.pick(&[300usize, 65400, 65499, 65510, 65534, 65535, 65536, 70000])
    }
    fn word(rng: &mut Rng, allow_long: bool) -> String {
        match rng.below(if allow_long { 14 } else { 12 }) {
            0 => "\u{e9}".to_string(),
            1 => "ab\u{e9}".to_string(),
            2 => "a\u{4e2d}".to_string(),
            3 => "\u{1f600}".to_string(),
            4 => "".to_string(),
            5 => "abcd".to_string(),
            6 => "abcde".to_string(),
            7 => "abcdf".to_string(),
            8 => "a b".to_string(),
            9 => "x\u{a0}y".to_string(),
            10 => "Tag".to_string(),
            11 => "\u{e4}\u{f6}\u{fc}\u{df}\u{20ac}".to_string(),
            _ => rng.pick(&["t", "\u{e9}", "ab"]).repeat(long(rng)),
        }
    }
    match kind {
        "asc" => {
            let dates = [
                "date Tue Apr 12 08:55:37 AM 2022",
                "date Wed Dec 31 11:59:59 PM 1969",
                "date Thu Jan 1 00:00:00 AM 1970",
                "date Sat Nov 18 08:55:37 AM 2023",
                "date Wed Nov 15 00:00:01 AM 2023",
                "date Mon Jan 1 00:00:00 AM 0001",
                "date Fri Dec 31 11:59:59 PM 9999",
                "date Sun Feb 7 06:28:15 AM 2106",
                "date Thu Apr 20 10:25:26.500 pm 2023",
            ];
            let tss = [
                "0.000100", "0.985210", "1.000000", "400000.000000", "4294967.295000", "4294967.296000", "42949672.960000", "200000.000000",
                "9223372036854.775807", "9999999999999.000000", "9223372036854.999999", "-0.000100", "-5.000000", "-9999999999999.000000",
                "99999999999999999999.000000", "18446744073709.551615",
            ];
            if !rng.chance(3) {
                s.push_str(*rng.pick(&dates));
                s.push('\n');
            }
            s.push_str(*rng.pick(&["base hex timestamps absolute\n", "base dec timestamps relative\n", ""]));
            for _ in 0..n {
                let t = rng.pick(&tss).to_string();
                let ch = rng.pick(&["1", "2", "0", "255", "256", "99999999999999999999"]).to_string();
                let id = rng.pick(&["36f", "7ff", "18ff0000x", "1fffffffx", "ffffffffffffffffffff", "x", "0"]).to_string();
                let dl = match rng.below(10) {
                    0 => long(rng).to_string(),
                    1 => "4294967296".to_string(),
                    2 => "0".to_string(),
                    3 => "64".to_string(),
                    _ => rng.pick(&["1", "2", "8"]).to_string(),
                };
                let data = match rng.below(12) {
                    0 => "a\u{e9} x".to_string(),
                    1 => "1\u{e9} 12".to_string(),
                    2 => "\u{e9}".to_string(),
                    3 => "".to_string(),
                    4 => {
                        let k = dl.parse::<usize>().unwrap_or(8).min(70000);
                        "00 ".repeat(k)
                    }
                    5 => "zz 1 100 ".to_string(),
                    6 => "0\u{a0}11\u{2003}22".to_string(),
                    _ => "01 02 03 04 05 06 07 08 ".to_string(),
                };
                let line = match rng.below(12) {
                    0 => format!("{}\n", rng.pick(&dates)),
                    1 => format!("// BusMapping: CAN {} = {}\n", rng.pick(&["1", "2", "255", "256", "x"]), word(rng, true)),
                    2 => format!("//BusMapping: CANFD{}{} ={}\n", ws(rng), rng.pick(&["1", "7"]), word(rng, true)),
                    3 => format!("{}{}CANFD{}{}{}Rx{}{}{}1{}0{}d{}{}{}{} 103 0 0 0 0 0\n", t, ws(rng), ws(rng), ch, ws(rng), ws(rng), id, ws(rng), ws(rng), ws(rng), ws(rng), dl, ws(rng), data),
                    4 => format!("{}{}CANFD{}{}{}Tx{}ErrorFrame {}\n", t, ws(rng), ws(rng), ch, ws(rng), ws(rng), word(rng, false)),
                    5 => format!("{}{}{}{}ErrorFrame ECC: {}\n", t, ws(rng), ch, ws(rng), word(rng, false)),
                    _ => format!("{}{}{}{}{}{}{}{}d{}{}{}{}\n", t, ws(rng), ch, ws(rng), id, ws(rng), rng.pick(&["Rx", "Tx"]), ws(rng), ws(rng), dl, ws(rng), data),
                };
                s.push_str(&line);
            }
        }
        "txt" => {
            for _ in 0..n {
                let tag = word(rng, true);
                let line = match rng.below(8) {
                    0 | 1 | 2 => format!(
                        "{}{}{}{}{} {} {}: msg {}\n",
                        rng.pick(&["1.000", "    18.062", "18446744073709551615.999999", "99999999999999999999.9", "0.0", "4294967296.000000001", "1.99999999999999999999"]),
                        ws(rng),
                        rng.pick(&["1", "0", "4294967296", "99999999999999999999"]),
                        ws(rng),
                        rng.pick(&["2", "65536", "99999999999999999999"]),
                        rng.pick(&["I", "E", "V", "x", "Z"]),
                        tag,
                        word(rng, true)
                    ),
                    3 | 4 | 5 => format!(
                        "{}-{} {}:{}:{}.{}{}{}{}{} {} {}: text {}\n",
                        rng.pick(&["01", "06", "12", "13", "00", "02"]),
                        rng.pick(&["01", "13", "29", "31", "00"]),
                        rng.pick(&["00", "12", "23", "24"]),
                        rng.pick(&["00", "59", "60"]),
                        rng.pick(&["00", "59", "60", "61"]),
                        rng.pick(&["000", "999", "1", "123456", "123456789", "99999999999999999999"]),
                        ws(rng),
                        rng.pick(&["1", "0", "4294967296"]),
                        ws(rng),
                        rng.pick(&["2", "99999999999999999999"]),
                        rng.pick(&["V", "D", "I", "W", "E", "F", "S", "\u{e9}"]),
                        tag,
                        word(rng, false)
                    ),
                    6 => "--------- beginning of main\n".to_string(),
                    _ => format!("{}\n", word(rng, true)),
                };
                s.push_str(&line);
            }
        }
        _ => {
            // now and then: tags that use up the 4 character abbreviations one after the other
            let collide = rng.chance(6);
            for i in 0..n {
                let tag = if collide {
                    match i % 5 {
                        0 => "abcd".to_string(),
                        1 => format!("abc{}", i % 10),
                        2 => "abcde".to_string(),
                        3 => "abcdf".to_string(),
                        _ => format!("ab{}", 10 + i % 90),
                    }
                } else {
                    word(rng, true)
                };
                let line = match rng.below(8) {
                    0 => "-------------------------------- live log setup --------------------------------\n".to_string(),
                    1 => format!("[2024-03-09 23:01:31.627] [{}] [{}] {}\n", rng.pick(&["\u{e9}\u{e9}\u{e9}", "a\u{4e2d}b", "   ", "]]]", "\u{1f600}12"]), tag, word(rng, true)),
                    _ => format!(
                        "[{}-{}-{} {}:{}:{}.{}] [{}] [{}] message {}\n",
                        rng.pick(&["2024", "2000", "2999", "2038", "2106"]),
                        rng.pick(&["03", "13", "00", "02", "12"]),
                        rng.pick(&["09", "29", "31", "32", "00"]),
                        rng.pick(&["23", "24", "00"]),
                        rng.pick(&["01", "59", "60"]),
                        rng.pick(&["31", "60", "61"]),
                        rng.pick(&["627", "000", "999"]),
                        rng.pick(&["INF", "ERR", "WRN", "DBG", "XXX"]),
                        tag,
                        word(rng, false)
                    ),
                };
                s.push_str(&line);
            }
        }
    }
    s.into_bytes()
}

fn base_bytes(kind: &str, base: &str) -> Vec<u8> {
    if let Some(r) = base.strip_prefix('F') {
        let f: Vec<&str> = r.split(':').collect();
        let d = std::fs::read(format!("/repo/tests/{}", f[0])).unwrap_or_default();
        let off: usize = f.get(1).and_then(|x| x.parse().ok()).unwrap_or(0).min(d.len());
        let len: usize = f.get(2).and_then(|x| x.parse().ok()).unwrap_or(d.len());
        d[off..(off + len).min(d.len())].to_vec()
    } else if let Some(r) = base.strip_prefix('Y') {
        let f: Vec<&str> = r.split(':').collect();
        let seed: u64 = f[0].parse().unwrap_or(1);
        let n: usize = f.get(1).and_then(|x| x.parse().ok()).unwrap_or(10);
        if kind == "dlt" {
            synth(seed, n)
        } else {
            synth_text(kind, seed, n)
        }
    } else if let Some(r) = base.strip_prefix('N') {
        // n starts of segmented SOME/IP transfers (never continued), each announcing 999 chunks of 1000 bytes - just below
        // the plugin's sanity limit of 1 MB
        let n: u32 = r.parse().unwrap_or(1);
        let mut out = vec![];
        for i in 0..n {
            let h = Hdr { serial: false, ecu: 1, recv: 1_700_000_000_000_000 + i as u64 * 1000, ts: i * 10, be: false, mcnt: i as u8, vmm: (2 << 1) | (1 << 4) | 1, noar: 6, apid: id4("SOME"), ctid: id4("TC"), weid: true, wsid: false, wtms: true, ext: true };
            let payload = enc_args(
                false,
                &[(DLT_TYPE_INFO_STRG, b"NWST\0".to_vec()), (U32T, i.to_le_bytes().to_vec()), (DLT_TYPE_INFO_RAWD, vec![10, 0, 0, 1, 0x30, 0x39, 0, 1, 1, 2, 3, 4]), (U32T, 0u32.to_le_bytes().to_vec()), (U16T, 999u16.to_le_bytes().to_vec()), (U16T, 1000u16.to_le_bytes().to_vec())],
            );
            out.extend_from_slice(&enc_msg(&h, &payload));
        }
        out
    } else if let Some(r) = base.strip_prefix('L') {
        // n announcements of file transfers (never continued), each announcing 1000 packages of 2000 bytes
        let n: u32 = r.parse().unwrap_or(1);
        let mut out = vec![];
        for i in 0..n {
            let h = Hdr { serial: false, ecu: 1, recv: 1_700_000_000_000_000 + i as u64 * 1000, ts: i * 10, be: false, mcnt: i as u8, vmm: (4 << 4) | 1, noar: 8, apid: id4("SYS"), ctid: id4("FILE"), weid: true, wsid: false, wtms: true, ext: true };
            let payload = enc_args(
                false,
                &[(DLT_TYPE_INFO_STRG, b"FLST\0".to_vec()), (U32T, (i + 1).to_le_bytes().to_vec()), (DLT_TYPE_INFO_STRG, format!("f{}.bin\0", i).into_bytes()), (U32T, 2_000_000u32.to_le_bytes().to_vec()), (DLT_TYPE_INFO_STRG, b"date\0".to_vec()), (U32T, 1000u32.to_le_bytes().to_vec()), (U32T, 2000u32.to_le_bytes().to_vec()), (DLT_TYPE_INFO_STRG, b"FLST\0".to_vec())],
            );
            out.extend_from_slice(&enc_msg(&h, &payload));
        }
        out
    } else if let Some(r) = base.strip_prefix('Z') {
        let f: Vec<&str> = r.split(':').collect();
        let seed: u64 = f[0].parse().unwrap_or(1);
        let n: usize = f.get(1).and_then(|x| x.parse().ok()).unwrap_or(10);
        synth_text2(kind, seed, n)
    } else if let Some(r) = base.strip_prefix('T') {
        // the 10000 tags that occupy every 4 character abbreviation of `abcd`, then `n` more that abbreviate to it
        let n: usize = r.parse().unwrap_or(1);
        let mut tags: Vec<String> = vec!["abcd".to_string()];
        tags.extend((1..10).map(|i| format!("abc{}", i)));
        tags.extend((10..100).map(|i| format!("ab{}", i)));
        tags.extend((100..1000).map(|i| format!("a{}", i)));
        tags.extend((1000..10000).map(|i| format!("{}", i)));
        tags.extend((0..n).map(|i| format!("abcd{}", (b'e' + (i % 20) as u8) as char)));
        let mut t = String::new();
        for tag in &tags {
            if kind == "txt" {
                t.push_str(&format!("1.000 1 2 I {}: msg\n", tag));
            } else {
                t.push_str(&format!("[2024-01-01 10:00:00.000] [INF] [{}] msg\n", tag));
            }
        }
        t.into_bytes()
    } else if let Some(r) = base.strip_prefix('H') {
        unhex(r)
    } else {
        vec![]
    }
}

fn apply_ops(mut d: Vec<u8>, ops: &str) -> Vec<u8> {
    for op in ops.split(';').filter(|x| !x.is_empty()) {
        let (k, r) = op.split_at(1);
        let f: Vec<&str> = r.split(':').collect();
        let n = |i: usize| -> usize { f.get(i).and_then(|x| x.parse().ok()).unwrap_or(0) };
        match k {
            "x" => {
                let b = unhex(f.get(1).unwrap_or(&""));
                if !d.is_empty() {
                    let p = n(0) % d.len();
                    for (i, x) in b.iter().enumerate() {
                        if p + i < d.len() {
                            d[p + i] = *x;
                        }
                    }
                }
            }
            "t" => d.truncate(n(0)),
            "d" => {
                if !d.is_empty() {
                    let p = n(0) % d.len();
                    let e = (p + n(1)).min(d.len());
                    d.drain(p..e);
                }
            }
            "i" => {
                let p = if d.is_empty() { 0 } else { n(0) % (d.len() + 1) };
                let b = unhex(f.get(1).unwrap_or(&""));
                d.splice(p..p, b);
            }
            "c" => {
                if !d.is_empty() {
                    let p = n(0) % d.len();
                    let s = n(1) % d.len();
                    let k = n(2).min(d.len() - s).min(d.len() - p);
                    let tmp: Vec<u8> = d[s..s + k].to_vec();
                    d[p..p + k].copy_from_slice(&tmp);
                }
            }
            "b" => {
                if !d.is_empty() {
                    let p = n(0) % d.len();
                    d[p] ^= 1 << (n(1) % 8);
                }
            }
            _ => {}
        }
    }
    d
}

/// message start offsets of a (storage header) DLT byte string, for field-targeted corruption
fn msg_offsets(d: &[u8]) -> Vec<(usize, usize)> {
    let mut v = vec![];
    let mut off = 0;
    while off + 20 <= d.len() && v.len() < 4000 {
        match parse_dlt_with_storage_header(0, &d[off..]) {
            Ok((used, _)) => {
                v.push((off, used));
                off += used.max(1);
            }
            Err(_) => off += 1,
        }
    }
    v
}

// --------------------------------------------------------------------------------------------- the chain

fn filters() -> Vec<Filter> {
    [
        r#"{"type":0,"ecu":"ECU.","ecuIsRegex":true}"#,
        r#"{"type":0,"apid":"SYS","ctid":"FILE"}"#,
        r#"{"type":1,"payloadRegex":"^hello|\\d+$","ignoreCasePayload":true}"#,
        r#"{"type":0,"payload":"SW","logLevelMax":4}"#,
        r#"{"type":1,"verb_mstp_mtin":38,"lifecycles":[1,2]}"#,
        r#"{"type":3,"not":true,"logLevelMin":2,"ctid":"T.","ctidIsRegex":true}"#,
    ]
    .iter()
    .filter_map(|j| Filter::from_json(j).ok())
    .collect()
}

fn plugins() -> Vec<Box<dyn Plugin + Send>> {
    let mut v: Vec<Box<dyn Plugin + Send>> = vec![];
    let mut eac = EacStats::new();
    let cfgs = vec![
        json!({"name":"NonVerbose","fibexDir":"/repo/tests"}),
        json!({"name":"SomeIp","fibexDir":"/repo/tests"}),
        json!({"name":"CAN","fibexDir":"/repo/tests"}),
        json!({"name":"Muniic","jsonDir":"/repo/tests/muniic"}),
        std::fs::read_to_string("/repo/tests/rewrite.cfg").ok().and_then(|s| serde_json::from_str(&s).ok()).unwrap_or(json!({})),
        json!({"name":"FileTransfer","apid":"SYS","ctid":"FILE"}),
    ];
    for c in cfgs {
        if let Some(o) = c.as_object() {
            if let Some(p) = get_plugin(o, &mut eac) {
                v.push(p);
            }
        }
    }
    v.push(Box::new(AnonymizePlugin::new("anon")));
    v
}

fn chain(kind: &str, data: Vec<u8>) -> String {
    // the reference time for time stamps (the adlt binary passes the reception time of the first message of the first file): for every second input
    let first_reception_time_us = if data.len() % 2 == 0 { Some(1_700_000_000_000_000) } else { None };
    let reader = adlt::utils::LowMarkBufReader::new(std::io::Cursor::new(data), 512 * 1024, DLT_MIN_PARSE_BUFFER_SIZE);
    let it = adlt::utils::get_dlt_message_iterator(kind, 0, reader, adlt::utils::get_new_namespace(), first_reception_time_us, Some(1_700_000_000_000_000), None);
    let msgs: Vec<DltMessage> = it.take(100_000).collect();
    let n = msgs.len();
    let mut sink: Vec<u8> = Vec::with_capacity(1 << 16);
    let mut eac = EacStats::new();
    let fs = filters();
    let mut matched = 0usize;
    let mut nargs = 0usize;
    for m in &msgs {
        sink.clear();
        let _ = m.header_as_text_to_write(&mut sink);
        let _ = m.payload_as_text();
        let _ = m.to_write(&mut sink);
        eac.add_msg(m);
        for a in m {
            nargs += 1;
            let _ = (a.is_string(), a.scod(), a.payload_raw.len());
        }
        for f in &fs {
            if f.matches(m) {
                matched += 1;
            }
        }
        let _ = (m.mstp(), m.is_ctrl_request(), m.is_ctrl_response(), m.noar(), m.is_verbose());
    }
    let _ = eac.nr_msgs();
    // lifecycle detection + listing
    let (lcs_r, lcs_w) = evmap::Options::default().with_hasher(nohash_hasher::BuildNoHashHasher::<LifecycleId>::default()).construct::<LifecycleId, LifecycleItem>();
    let (tx, rx) = channel();
    for m in &msgs {
        let _ = tx.send(m.clone());
    }
    drop(tx);
    let (tx2, rx2) = channel();
    let _w = parse_lifecycles_buffered_from_stream(lcs_w, rx, &|m| tx2.send(m));
    drop(tx2);
    let with_lc: Vec<DltMessage> = rx2.iter().collect();
    let nlc = if let Some(a) = lcs_r.read() { get_sorted_lifecycles_as_vec(&a).len() } else { 0 };
    // plugins
    let (tx3, rx3) = channel();
    for m in &with_lc {
        let _ = tx3.send(m.clone());
    }
    drop(tx3);
    let (tx4, rx4) = channel();
    let _ = plugins_process_msgs(rx3, &|m| tx4.send(m), plugins());
    drop(tx4);
    let after: Vec<DltMessage> = rx4.iter().collect();
    for m in &after {
        let _ = m.payload_as_text();
        sink.clear();
        let _ = m.to_write(&mut sink);
    }
    // time sort
    let (tx5, rx5) = channel();
    for m in after {
        let _ = tx5.send(m);
    }
    drop(tx5);
    let (tx6, rx6) = channel();
    let _ = adlt::utils::buffer_sort_messages(rx5, &|m| tx6.send(m), &lcs_r, 3, 2 * adlt::utils::US_PER_SEC);
    drop(tx6);
    let sorted = rx6.iter().count();
    // stream filter
    let (tx7, rx7) = channel();
    for m in with_lc {
        let _ = tx7.send(m);
    }
    drop(tx7);
    let (tx8, rx8) = channel();
    let _ = adlt::filter::functions::filter_as_streams(&fs, &rx7, &|m| tx8.send(m));
    drop(tx8);
    let kept = rx8.iter().count();
    format!("ok n={} lcs={} args={} matched={} sorted={} kept={}", n, nlc, nargs, matched, sorted, kept)
}

fn case_bytes(case: &str) -> (String, Vec<u8>) {
    let parts: Vec<&str> = case.split(" | ").collect();
    let kind = parts.first().copied().unwrap_or("dlt").to_string();
    // (a case with no ops ends in " | "; the blank may have been trimmed away)
    let d = base_bytes(&kind, parts.get(1).copied().unwrap_or("").trim_end_matches(" |"));
    (kind, apply_ops(d, parts.get(2).copied().unwrap_or("")))
}

/// the worker: one case per line on stdin, one result line each
pub fn child_main() {
    static LOC: std::sync::Mutex<String> = std::sync::Mutex::new(String::new());
    std::panic::set_hook(Box::new(|info| {
        let l = info.location().map(|l| format!("{}:{}", l.file().rsplit("/src/").next().unwrap_or(""), l.line())).unwrap_or_default();
        let msg = if let Some(s) = info.payload().downcast_ref::<String>() {
            s.clone()
        } else if let Some(s) = info.payload().downcast_ref::<&str>() {
            s.to_string()
        } else {
            String::new()
        };
        let msg: String = msg.chars().filter(|c| !c.is_control()).take(60).collect();
        if let Ok(mut g) = LOC.lock() {
            if g.is_empty() {
                *g = format!("{} {}", l, msg);
            }
        }
    }));
    let stdin = std::io::stdin();
    let out = std::io::stdout();
    for line in stdin.lock().lines() {
        let line = match line {
            Ok(l) => l,
            Err(_) => break,
        };
        if let Ok(mut g) = LOC.lock() {
            g.clear();
        }
        let r = std::panic::catch_unwind(|| {
            let (kind, d) = case_bytes(&line);
            chain(&kind, d)
        });
        let res = match r {
            Ok(s) => s,
            Err(_) => format!("PANIC {}", LOC.lock().map(|g| g.clone()).unwrap_or_default()),
        };
        let mut o = out.lock();
        // (library code may print to stdout: result lines carry a marker)
        let _ = writeln!(o, "\n=R= {}", res.replace(['\t', '\n'], " "));
        let _ = o.flush();
    }
}

struct Worker {
    child: std::process::Child,
    stdin: std::process::ChildStdin,
    rx: std::sync::mpsc::Receiver<String>,
}

fn spawn_worker() -> Worker {
    let exe = std::env::current_exe().unwrap();
    // address-space limit: an allocation unrelated to the input size aborts the worker, not the harness
    let mut cmd = if std::path::Path::new("/usr/bin/prlimit").exists() {
        let mut c = std::process::Command::new("/usr/bin/prlimit");
        // 1.5 GiB: the pipeline itself reserves 0.5 - 1 GB (the message queue of the lifecycle stage, whatever the input)
        c.arg(format!("--as={}", std::env::var("VERIF_C03_AS").ok().and_then(|v| v.parse::<u64>().ok()).unwrap_or(1536 * 1024 * 1024))).arg(exe);
        c
    } else {
        std::process::Command::new(exe)
    };
    let mut child = cmd.arg("c03child").stdin(std::process::Stdio::piped()).stdout(std::process::Stdio::piped()).stderr(std::process::Stdio::null()).spawn().expect("worker starts");
    let stdin = child.stdin.take().unwrap();
    let stdout = child.stdout.take().unwrap();
    let (tx, rx) = channel();
    std::thread::spawn(move || {
        for l in std::io::BufReader::new(stdout).lines() {
            match l {
                Ok(l) => {
                    if let Some(r) = l.strip_prefix("=R= ") {
                        if tx.send(r.to_string()).is_err() {
                            break;
                        }
                    }
                }
                Err(_) => break,
            }
        }
    });
    Worker { child, stdin, rx }
}

thread_local! {
    static WORKER: std::cell::RefCell<Option<Worker>> = const { std::cell::RefCell::new(None) };
}

fn run_isolated(case: &str) -> String {
    WORKER.with(|w| {
        let mut w = w.borrow_mut();
        if w.is_none() {
            *w = Some(spawn_worker());
        }
        let wk = w.as_mut().unwrap();
        if writeln!(wk.stdin, "{}", case).is_err() || wk.stdin.flush().is_err() {
            let _ = wk.child.kill();
            let _ = wk.child.wait();
            *w = None;
            return "ABORT worker-gone".to_string();
        }
        match wk.rx.recv_timeout(std::time::Duration::from_secs(60)) {
            Ok(l) => l,
            Err(std::sync::mpsc::RecvTimeoutError::Timeout) => {
                let _ = wk.child.kill();
                let _ = wk.child.wait();
                *w = None;
                "TIMEOUT".to_string()
            }
            Err(_) => {
                let st = wk.child.wait().ok();
                *w = None;
                format!("ABORT {:?}", st.map(|s| s.to_string()))
            }
        }
    })
}

fn gen_ops(rng: &mut Rng, kind: &str, d: &[u8]) -> String {
    let mut ops: Vec<String> = vec![];
    let nops = rng.below(5);
    let offs = if kind == "dlt" && rng.chance(2) { msg_offsets(d) } else { vec![] };
    for _ in 0..nops {
        let len = d.len().max(1) as u64;
        if !offs.is_empty() && !rng.chance(4) {
            // field-targeted: storage header seconds / micros, htyp, len, timestamp, type byte, noar, first type info, service id, lengths
            let (o, used) = *rng.pick(&offs[..]);
            let field = *rng.pick(&[4usize, 8, 16, 17, 18, 19, 20, 24, 28, 30, 32, 36, 38, 40, 42, 44]);
            let p = o + field.min(used.saturating_sub(1));
            let val = match rng.below(6) {
                0 => "00".to_string(),
                1 => "ff".to_string(),
                2 => "ffff".to_string(),
                3 => "ffffffff".to_string(),
                4 => "00000000".to_string(),
                _ => hex(&[rng.below(256) as u8]),
            };
            ops.push(format!("x{}:{}", p, val));
        } else {
            ops.push(match rng.below(8) {
                0 => format!("t{}", rng.below(len + 1)),
                1 => format!("d{}:{}", rng.below(len), 1 + rng.below(40)),
                2 => format!("i{}:{}", rng.below(len + 1), hex(&(0..1 + rng.below(8)).map(|_| *rng.pick(&[0u8, 0xff, b'D', b'L', b'T', 1, b'\n', b' ', b'9'])).collect::<Vec<u8>>())),
                3 => format!("c{}:{}:{}", rng.below(len), rng.below(len), 1 + rng.below(64)),
                4 | 5 => format!("b{}:{}", rng.below(len), rng.below(8)),
                _ => format!("x{}:{}", rng.below(len), hex(&[rng.below(256) as u8])),
            });
        }
    }
    ops.join(";")
}

fn gen(rng: &mut Rng, tier: u32) -> String {
    let kind = *rng.pick(&["dlt", "dlt", "dlt", "dlt", "dlt", "asc", "txt", "log"]);
    let big = tier > 0;
    let base = match kind {
        "dlt" => match rng.below(10) {
            0..=5 => format!("Y{}:{}", rng.below(1 << 40), 1 + rng.below(if big { 120 } else { 40 })),
            _ => {
                let (f, sz) = *rng.pick(&[("lc_ex002.dlt", 444436u64), ("lc_ex003.dlt", 381008), ("lc_ex004.dlt", 2394606), ("lc_ex005.dlt", 1879121), ("lc_ex006.dlt", 758812), ("ex_1970_1_1.dlt", 35526), ("test_ascii_utf8_strings.dlt", 183)]);
                let len = 200 + rng.below(if big { 60000 } else { 8000 });
                format!("F{}:{}:{}", f, rng.below(sz.saturating_sub(len).max(1)), len)
            }
        },
        "asc" => {
            if rng.chance(3) {
                format!("F{}", rng.pick(&["can_example1.asc", "can_example1b.asc", "can_example1c.asc", "can_example2a.asc", "can_example2b.asc", "can_example3.asc"]))
            } else {
                format!("{}{}:{}", rng.pick(&["Y", "Z", "Z"]), rng.below(1 << 40), 1 + rng.below(if big { 80 } else { 25 }))
            }
        }
        "txt" => {
            if rng.chance(3) {
                format!("F{}", rng.pick(&["logcat_example1.txt", "logcat_example2.txt", "logcat_example3.txt", "logcat_example4.txt"]))
            } else {
                format!("{}{}:{}", rng.pick(&["Y", "Z", "Z"]), rng.below(1 << 40), 1 + rng.below(if big { 80 } else { 25 }))
            }
        }
        _ => {
            if rng.chance(3) {
                "Fgenlog_example1.log".to_string()
            } else {
                format!("{}{}:{}", rng.pick(&["Y", "Z", "Z"]), rng.below(1 << 40), 1 + rng.below(if big { 80 } else { 25 }))
            }
        }
    };
    let d = base_bytes(kind, &base);
    let ops = gen_ops(rng, kind, &d);
    format!("{} | {} | {}", kind, base, ops)
}

impl Area for C03 {
    fn gen(&self, rng: &mut Rng, tier: u32) -> String {
        gen(rng, tier)
    }
    fn run(&self, case: &str) -> String {
        run_isolated(case)
    }
}

// --------------------------------------------------------------------------------------------- function level

fn opt_text(s: &Option<String>, raw_has_nl: bool) -> String {
    match s {
        Some(t) => {
            if raw_has_nl {
                "S*".to_string()
            } else {
                format!("S{}", t.chars().count())
            }
        }
        None => "N".to_string(),
    }
}

fn run_f(case: &str) -> String {
    let f: Vec<&str> = case.split(',').collect();
    let be = f[1] == "1";
    let status: u8 = f[2].parse().unwrap_or(0);
    let p = unhex(f.get(3).copied().unwrap_or(""));
    let has_nl = p.iter().any(|b| *b == b'\n' || *b == b'\r');
    match f[0] {
        "sw" => opt_text(&parse_ctrl_sw_version_payload(be, &p), has_nl),
        "li" => {
            let apps = parse_ctrl_log_info_payload(status, be, &p);
            let v: Vec<String> = apps
                .iter()
                .map(|a| {
                    let cs: Vec<String> = a
                        .ctids
                        .iter()
                        .map(|c| {
                            format!(
                                "{}:{}:{}:{}",
                                hex(c.ctid.as_buf()),
                                c.log_level.map_or("-".to_string(), |x| (x as u8).to_string()),
                                c.trace_status.map_or("-".to_string(), |x| (x as u8).to_string()),
                                opt_text(&c.desc, has_nl)
                            )
                        })
                        .collect();
                    format!("{}[{}]{}", hex(a.apid.as_buf()), cs.join("+"), opt_text(&a.desc, has_nl))
                })
                .collect();
            format!("L{}", v.join(";"))
        }
        "un" => match parse_ctrl_unregister_context_payload(&p) {
            Some((a, c, m)) => format!("U{}:{}:{}", hex(a.as_buf()), hex(c.as_buf()), hex(m.as_buf())),
            None => "N".to_string(),
        },
        "ci" => match parse_ctrl_connection_info_payload(&p) {
            Some((s, c)) => format!("C{}:{}", s, hex(c.as_buf())),
            None => "N".to_string(),
        },
        "tz" => match parse_ctrl_timezone_payload(be, &p) {
            Some((g, d)) => format!("Z{}:{}", g as u32, d as u8),
            None => "N".to_string(),
        },
        "ai" | "nv" => {
            // the argument iterators on a message with this payload
            let verbose = f[0] == "ai";
            let h = Hdr { serial: false, ecu: 1, recv: 1_000_000, ts: 0, be, mcnt: 0, vmm: (4 << 4) | verbose as u8, noar: 1, apid: id4("APP"), ctid: id4("CTX"), weid: false, wsid: false, wtms: false, ext: true };
            let d = enc_msg(&h, &p);
            match parse_dlt_with_storage_header(0, &d) {
                Ok((_, m)) => {
                    let v: Vec<String> = (&m).into_iter().map(|a| format!("{}:{}", a.type_info, hex(a.payload_raw))).collect();
                    format!("A{}", v.join(";"))
                }
                Err(_) => "E".to_string(),
            }
        }
        _ => "?".to_string(),
    }
}

fn gen_f(rng: &mut Rng, tier: u32) -> String {
    let be = rng.chance(2);
    let f = *rng.pick(&["li", "li", "li", "li", "sw", "un", "ci", "tz", "ai", "ai", "nv"]);
    let mut status = 0u8;
    let p: Vec<u8> = match f {
        "li" => {
            status = *rng.pick(&[3u8, 4, 5, 6, 7, 7, 7, 7, 6, 4, 2, 8]);
            let mut v = log_info_body(rng, be, if status > 7 { 7 } else { status.max(3) });
            if rng.chance(4) && !v.is_empty() {
                let k = rng.below(v.len() as u64) as usize;
                v[k] = *rng.pick(&[0u8, 0xff, 1, 2]);
            }
            v
        }
        "sw" => {
            let s: Vec<u8> = (0..rng.below(12)).map(|_| *rng.pick(&[b'v', b'1', b'.', b'\n', 0xe4, b' '])).collect();
            let l = if rng.chance(3) { extreme_u32(rng) } else { s.len() as u32 };
            let mut v = if be { l.to_be_bytes().to_vec() } else { l.to_le_bytes().to_vec() };
            v.extend_from_slice(&s);
            if rng.chance(4) {
                v.truncate(rng.below(v.len() as u64 + 1) as usize);
            }
            v
        }
        "un" => (0..*rng.pick(&[12u64, 12, 11, 13, 0, 4])).map(|i| b'A' + i as u8).collect(),
        "ci" | "tz" => (0..*rng.pick(&[5u64, 5, 4, 6, 0, 1])).map(|_| rng.below(256) as u8).collect(),
        "ai" => {
            let na = rng.below(if tier > 0 { 8 } else { 5 }) as usize;
            let mut args = vec![];
            for _ in 0..na {
                let (ti, data): (u32, Vec<u8>) = match rng.below(10) {
                    0 => (DLT_TYPE_INFO_BOOL | rng.below(3) as u32, vec![1]),
                    1 => (DLT_TYPE_INFO_UINT | rng.below(7) as u32, vec![0xff; 1 << rng.below(5)]),
                    2 => (DLT_TYPE_INFO_SINT | rng.below(7) as u32, vec![0x80; 1 << rng.below(5)]),
                    3 => (DLT_TYPE_INFO_FLOA | rng.below(7) as u32, vec![0x7f; 1 << rng.below(5)]),
                    4 => (DLT_TYPE_INFO_STRG | DLT_SCOD_UTF8, b"hello\0".to_vec()),
                    5 => (DLT_TYPE_INFO_STRG, vec![]),
                    6 => (DLT_TYPE_INFO_RAWD, (0..rng.below(20)).map(|i| i as u8).collect()),
                    7 => (extreme_u32(rng), vec![1, 2, 3, 4]),
                    8 => (DLT_TYPE_INFO_STRG | DLT_TYPE_INFO_VARI, vec![2, 0, b'a', 0]),
                    _ => (DLT_TYPE_INFO_UINT | DLT_TYPE_INFO_FIXP | 3, vec![0; 4]),
                };
                args.push((ti, data));
            }
            let mut v = enc_args(be, &args);
            match rng.below(5) {
                0 => v.truncate(rng.below(v.len() as u64 + 1) as usize),
                1 if !v.is_empty() => {
                    let k = rng.below(v.len() as u64) as usize;
                    v[k] = *rng.pick(&[0u8, 0xff, 0x80, 2]);
                }
                _ => {}
            }
            v
        }
        _ => (0..rng.below(9)).map(|i| i as u8 * 17).collect(),
    };
    format!("{},{},{},{}", f, be as u8, status, hex(&p))
}

impl Area for C03f {
    fn gen(&self, rng: &mut Rng, tier: u32) -> String {
        gen_f(rng, tier)
    }
    fn run(&self, case: &str) -> String {
        run_f(case)
    }
}
