//! time sorting: `buffer_sort_messages` with a static lifecycle table (C10)
use crate::{Area, Rng};
use adlt::dlt::*;
use adlt::lifecycle::*;
use adlt::utils::buffer_sort_messages;
use std::sync::mpsc::channel;

pub struct Srt;

fn mk(ecu: u8, recv: u64, ts_dms: u32, ctrl: bool, pos: u32) -> DltMessage {
    let mut v = vec![b'D', b'L', b'T', 1];
    v.extend_from_slice(&((recv / 1_000_000) as u32).to_le_bytes());
    v.extend_from_slice(&((recv % 1_000_000) as u32).to_le_bytes());
    v.extend_from_slice(&[b'E', b'C', b'U', b'0' + ecu]);
    let mut htyp = 0x30u8;
    if ctrl {
        htyp |= 1;
    }
    let len = 8 + if ctrl { 14 } else { 4 };
    v.extend_from_slice(&[htyp, 0, 0, len as u8]);
    v.extend_from_slice(&ts_dms.to_be_bytes());
    if ctrl {
        v.extend_from_slice(&[(3 << 1) | (1 << 4), 1]);
        v.extend_from_slice(b"APIDCTID");
    }
    v.extend_from_slice(&pos.to_le_bytes()); // payload = position in the input (ctrl: service id field)
    parse_dlt_with_storage_header(0, &v).unwrap().1
}

struct Case {
    window: u8,
    min_delay: u64,
    table: Vec<(u32, u64)>,                    // abstract lc id -> start
    msgs: Vec<(u32, u64, u8, u32, u64, bool)>, // idx, recv, ecu, abstract lc, ts_us, ctrl
}

fn parse_case(s: &str) -> Case {
    let p: Vec<&str> = s.split('|').collect();
    let cfg: Vec<u64> = p[0].split_whitespace().map(|x| x.parse().unwrap()).collect();
    let table = p[1]
        .split_whitespace()
        .map(|e| {
            let mut it = e.split(':');
            (it.next().unwrap().parse().unwrap(), it.next().unwrap().parse().unwrap())
        })
        .collect();
    let msgs = p[2]
        .split(';')
        .filter(|x| !x.trim().is_empty())
        .map(|e| {
            let f: Vec<u64> = e.trim().split(',').map(|x| x.parse().unwrap()).collect();
            (f[0] as u32, f[1], f[2] as u8, f[3] as u32, f[4], f[5] == 1)
        })
        .collect();
    Case { window: cfg[0] as u8, min_delay: cfg[1], table, msgs }
}

fn fmt_case(c: &Case) -> String {
    format!(
        "{} {} | {} | {}",
        c.window,
        c.min_delay,
        c.table.iter().map(|(i, s)| format!("{}:{}", i, s)).collect::<Vec<_>>().join(" "),
        c.msgs.iter().map(|m| format!("{},{},{},{},{},{}", m.0, m.1, m.2, m.3, m.4, m.5 as u8)).collect::<Vec<_>>().join(";")
    )
}

const S0: u64 = 1_700_000_000_000_000;

fn gen_case(rng: &mut Rng, tier: u32) -> Case {
    let window = 1 + rng.below(5) as u8;
    let min_delay = [0u64, 100_000, 2_000_000, 20_000_000][rng.below(4) as usize];
    let nlc = 1 + rng.below(4) as usize;
    let mut starts = vec![];
    let mut table = vec![];
    for i in 0..nlc {
        let start = S0 - rng.below(100) * 1_000_000 + rng.below(3) * 5_000_000;
        starts.push(start);
        if !rng.chance(6) {
            table.push((i as u32 + 1, start));
        }
    }
    let in_bound = rng.chance(2); // half of the cases satisfy the hypothesis of the ordering part
    let n = 1 + rng.below(if tier > 0 { 80 } else { 30 }) as usize;
    let mut recv = S0 + 10_000_000;
    let mut msgs = vec![];
    let idx_mode = rng.below(8);
    for i in 0..n {
        recv += [0u64, 0, 100, 10_000, 300_000, 1_100_000, 4_000_000, 30_000_000][rng.below(8) as usize];
        let recv_m = if !in_bound && rng.chance(15) { recv - rng.below(2_000_000) } else { recv };
        let l = rng.below(nlc as u64) as usize;
        let ecu = (l % 3) as u8;
        let delay = if in_bound {
            rng.below(min_delay + 1)
        } else {
            [0u64, 1000, 50_000, 900_000, 3_000_000, 25_000_000, 100_000_000][rng.below(7) as usize]
        };
        let in_table = table.iter().any(|(id, _)| *id == l as u32 + 1);
        let base = if in_table { starts[l] } else { 0 };
        let target = recv_m.saturating_sub(delay).saturating_sub(base);
        // round the timestamp up to 0.1 ms so that the delay does not exceed the bound
        let ts_dms = if !in_bound && rng.chance(20) {
            0
        } else if !in_bound && rng.chance(25) {
            u32::MAX
        } else {
            ((target + 99) / 100).min(u32::MAX as u64) as u32
        };
        let ctrl = rng.chance(15);
        // the messages' own indices: usually increasing, but the sorter is not entitled to rely on that
        let idx = match idx_mode {
            0..=3 => i as u32,
            4 => i as u32 / 2,
            5 => 0,
            6 => (n - i) as u32,
            _ => (u32::MAX - 2).wrapping_add(i as u32),
        };
        msgs.push((idx, recv_m, ecu, l as u32 + 1, ts_dms as u64 * 100, ctrl));
    }
    Case { window, min_delay, table, msgs }
}

fn run(c: &Case) -> String {
    let (lcs_r, mut lcs_w) = evmap::Options::default()
        .with_hasher(nohash_hasher::BuildNoHashHasher::<LifecycleId>::default())
        .construct::<LifecycleId, LifecycleItem>();
    // real lifecycle objects for the abstract ids of the case
    let mut real: std::collections::HashMap<u32, u32> = std::collections::HashMap::new();
    let max_abs = c.msgs.iter().map(|m| m.3).chain(c.table.iter().map(|t| t.0)).max().unwrap_or(0);
    for a in 1..=max_abs {
        let mut dummy = mk(((a - 1) % 3) as u8, S0, 0, false, 0);
        let mut lc = Lifecycle::new(&mut dummy);
        real.insert(a, lc.id());
        if let Some((_, start)) = c.table.iter().find(|t| t.0 == a) {
            lc.start_time = *start;
            lcs_w.update(lc.id(), lc);
        }
    }
    lcs_w.refresh();
    let (tx, rx) = channel();
    for (pos, m) in c.msgs.iter().enumerate() {
        let mut d = mk(m.2, m.1, (m.4 / 100) as u32, m.5, pos as u32);
        d.index = m.0;
        d.lifecycle = real[&m.3];
        tx.send(d).unwrap();
    }
    drop(tx);
    let (tx2, rx2) = channel();
    buffer_sort_messages(rx, &|m| tx2.send(m), &lcs_r, c.window, c.min_delay).unwrap();
    drop(tx2);
    let out: Vec<String> = rx2
        .iter()
        .map(|m| {
            let p = &m.payload;
            let n = p.len();
            let pos = u32::from_le_bytes([p[n - 4], p[n - 3], p[n - 2], p[n - 1]]);
            // unchanged? (index, times, lifecycle must be what was sent)
            let o = &c.msgs[pos as usize];
            if m.index == o.0 && m.reception_time_us == o.1 && m.lifecycle == real[&o.3] && m.timestamp_dms as u64 * 100 == o.4 {
                pos.to_string()
            } else {
                "999999".to_string()
            }
        })
        .collect();
    out.join(" ")
}

impl Area for Srt {
    fn gen(&self, rng: &mut Rng, tier: u32) -> String {
        fmt_case(&gen_case(rng, tier))
    }
    fn run(&self, case: &str) -> String {
        run(&parse_case(case))
    }
}
