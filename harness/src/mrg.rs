//! `SortingMultiReaderIterator` / `SequentialMultiIterator` and their `new_or_single_it` variants (C09)
use crate::lc::{mk, M};
use crate::{Area, Rng};
use adlt::dlt::DltMessage;
use adlt::utils::sorting_multi_readeriterator::{SequentialMultiIterator, SortingMultiReaderIterator};

pub struct Mrg;

fn run(case: &str) -> String {
    let (hd, body) = case.split_once(" | ").unwrap();
    let h: Vec<&str> = hd.split_whitespace().collect();
    let mode = h[0];
    let i0: u32 = h[1].parse().unwrap();
    let mut its: Vec<Box<dyn Iterator<Item = DltMessage>>> = vec![];
    // `-*N` stands for N empty sources
    let expanded: Vec<String> = body
        .trim()
        .split(';')
        .filter(|x| !x.is_empty())
        .flat_map(|x| match x.trim().strip_prefix("-*").and_then(|n| n.parse::<usize>().ok()) {
            Some(n) => vec!["-".to_string(); n],
            None => vec![x.to_string()],
        })
        .collect();
    for (s, src) in expanded.iter().enumerate() {
        let mut v = vec![];
        if src.trim() != "-" {
            for (p, r) in src.split(',').filter(|x| !x.is_empty()).enumerate() {
                let mut m = mk(&M { ecu: (s % 10) as u8, recv: r.trim().parse().unwrap(), ts: (s * 1000 + p) as u32, has_ts: true, ctrl: false });
                m.index = (100 * s + p) as u32;
                v.push(m);
            }
        }
        its.push(Box::new(v.into_iter()));
    }
    let it: Box<dyn Iterator<Item = DltMessage>> = match mode {
        "m" => Box::new(SortingMultiReaderIterator::new(i0, its)),
        "M" => SortingMultiReaderIterator::new_or_single_it(i0, its),
        "c" => Box::new(SequentialMultiIterator::new(i0, its.into_iter())),
        _ => SequentialMultiIterator::new_or_single_it(i0, its.into_iter()),
    };
    it.map(|m| format!("{}:{}:{}", m.index, m.timestamp_dms / 1000, m.timestamp_dms % 1000)).collect::<Vec<_>>().join(" ")
}

impl Area for Mrg {
    fn gen(&self, rng: &mut Rng, tier: u32) -> String {
        let mode = ["m", "M", "c", "C"][rng.below(4) as usize];
        let k = match rng.below(8) {
            0 => 0,
            1 => 1,
            _ => 1 + rng.below(6),
        } as usize;
        let maxn = if tier > 0 { 40 } else { 12 };
        let mut srcs = vec![];
        for _ in 0..k {
            let n = if rng.chance(5) { 0 } else { rng.below(maxn + 1) as usize };
            if n == 0 {
                srcs.push("-".to_string());
                continue;
            }
            let kind = rng.below(4);
            let mut t = 1000 + rng.below(50);
            let v: Vec<String> = (0..n)
                .map(|_| {
                    match kind {
                        0 => {}                         // all equal
                        1 => t += rng.below(5),         // non-decreasing with ties
                        2 => t += 1 + rng.below(20),    // increasing
                        _ => t = 1000 + rng.below(60),  // unordered
                    }
                    t.to_string()
                })
                .collect();
            srcs.push(v.join(","));
        }
        // sometimes a long run of empty sources (a glob that matches thousands of empty files)
        if rng.chance(40) && k > 0 {
            let at = rng.below(srcs.len() as u64 + 1) as usize;
            srcs.insert(at, format!("-*{}", 20_000 + rng.below(30_000)));
        }
        // any start index: small ones, and the largest ones that still number all messages within u32
        let total: u64 = srcs.iter().filter(|x| !x.starts_with('-')).map(|x| x.split(',').count() as u64).sum();
        let i0 = if rng.chance(8) { (1u64 << 32) - total - rng.below(3).min(if total == 0 { 1 } else { 3 }) } else { rng.below(2000) };
        format!("{} {} | {}", mode, i0.min(u32::MAX as u64), srcs.join(";"))
    }
    fn run(&self, case: &str) -> String {
        run(case)
    }
}
