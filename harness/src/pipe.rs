//! pipelines of adlt's stages connected by bounded channels of every capacity, with producer / consumer pacing and
//! early consumer loss, against the same pipeline with unbounded channels (C13)
use crate::lc::{mk, parse_case, M};
use crate::{Area, Rng};
use adlt::dlt::DltMessage;
use adlt::filter::{Filter, FilterKind};
use adlt::lifecycle::*;
use adlt::utils::sync_sender_send_delay_if_full;
use std::sync::mpsc::{channel, sync_channel, Receiver};
use std::time::Duration;

pub struct Pipe;

struct Cfg {
    caps: Vec<usize>,             // 5 channel capacities
    ppace: Vec<(usize, u64)>,     // producer: before message i sleep ms
    cpace: Vec<(usize, u64)>,     // consumer: before taking message i sleep ms
    drop_after: Option<usize>,    // consumer disappears after that many messages
    sort: bool,
    filter_ecu: Option<u8>,
    tail: usize,                  // live tail: messages the producer keeps sending (1 s apart) once the consumer is gone
    restarting: bool,             // ... in which the ECU restarts every 30 s (a lifecycle is always under observation)
    msgs: Vec<M>,
}

fn parse_pace(s: &str) -> Vec<(usize, u64)> {
    s.split_whitespace()
        .map(|x| {
            let (a, b) = x.split_once(':').unwrap();
            (a.parse().unwrap(), b.parse().unwrap())
        })
        .collect()
}

fn parse(case: &str) -> Cfg {
    let p: Vec<&str> = case.split('|').collect();
    let caps = p[0].split_whitespace().map(|x| x.parse().unwrap()).collect();
    let opts: Vec<i64> = p[3].split_whitespace().map(|x| x.parse().unwrap()).collect();
    Cfg {
        caps,
        ppace: parse_pace(p[1]),
        cpace: parse_pace(p[2]),
        drop_after: if opts[0] < 0 { None } else { Some(opts[0] as usize) },
        sort: opts[1] == 1,
        filter_ecu: if opts[2] < 0 { None } else { Some(opts[2] as u8) },
        tail: opts.get(3).copied().unwrap_or(0).max(0) as usize,
        restarting: opts.get(4).copied().unwrap_or(0) == 1,
        msgs: parse_case(p[4].trim()),
    }
}

fn filters(c: &Cfg) -> Vec<Filter> {
    match c.filter_ecu {
        None => vec![],
        Some(e) => {
            let mut f = Filter::new(FilterKind::Positive);
            f.ecu = Some(adlt::filter::Char4OrRegex::DltChar4(adlt::dlt::DltChar4::from_buf(&[b'E', b'C', b'U', b'0' + e])));
            vec![f]
        }
    }
}

fn render(out: &[DltMessage], lcs_r: &evmap::ReadHandle<LifecycleId, LifecycleItem, (), nohash_hasher::BuildNoHashHasher<LifecycleId>>, sort: bool) -> String {
    let mut ids: Vec<u32> = vec![];
    // canonical ids by first appearance in index order (so that sorted and unsorted runs agree)
    let mut by_index: Vec<&DltMessage> = out.iter().collect();
    by_index.sort_by_key(|m| m.index);
    for m in &by_index {
        if !ids.contains(&m.lifecycle) {
            ids.push(m.lifecycle);
        }
    }
    let canon = |k: &u32| ids.iter().position(|x| x == k).map_or(0, |p| p + 1);
    let seq: Vec<String> = if sort { by_index.iter().map(|m| format!("{}:{}", m.index, canon(&m.lifecycle))).collect() } else { out.iter().map(|m| format!("{}:{}", m.index, canon(&m.lifecycle))).collect() };
    let r = lcs_r.read().unwrap();
    let mut t: Vec<String> = r
        .iter()
        .map(|(k, v)| {
            let l = v.get_one().unwrap();
            format!("{},{},{},{}", canon(k), l.nr_msgs, l.start_time, l.end_time())
        })
        .collect();
    t.sort();
    format!("{} | {}", seq.join(" "), t.join(" "))
}

/// the reference: the same stages with unbounded channels, no pacing
fn run_unbounded(c: &Cfg) -> String {
    let (tx0, rx0) = channel();
    for (i, m) in c.msgs.iter().enumerate() {
        let mut d = mk(m);
        d.index = i as u32;
        tx0.send(d).unwrap();
    }
    drop(tx0);
    let (lcs_r, lcs_w) = evmap::Options::default().with_hasher(nohash_hasher::BuildNoHashHasher::<LifecycleId>::default()).construct::<LifecycleId, LifecycleItem>();
    let (tx1, rx1) = channel();
    let _w = parse_lifecycles_buffered_from_stream(lcs_w, rx0, &|m| tx1.send(m));
    drop(tx1);
    let (tx2, rx2) = channel();
    adlt::plugins::plugins_process_msgs(rx1, &|m| tx2.send(m), vec![]).unwrap();
    drop(tx2);
    let rx3: Receiver<DltMessage> = if c.sort {
        let (tx3, rx3) = channel();
        adlt::utils::buffer_sort_messages(rx2, &|m| tx3.send(m), &lcs_r, 3, 2_000_000).unwrap();
        rx3
    } else {
        rx2
    };
    let (tx4, rx4) = channel();
    adlt::filter::functions::filter_as_streams(&filters(c), &rx3, &|m| tx4.send(m)).unwrap();
    drop(tx4);
    let out: Vec<DltMessage> = rx4.iter().collect();
    render(&out, &lcs_r, c.sort)
}

fn run_bounded(c: &Cfg) -> (String, bool, Option<bool>) {
    let (tx0, rx0) = sync_channel(c.caps[0]);
    let (tx1, rx1) = sync_channel(c.caps[1]);
    let (tx2, rx2) = sync_channel(c.caps[2]);
    let (tx3, rx3) = sync_channel(c.caps[3]);
    let (tx4, rx4) = sync_channel(c.caps[4]);
    let (lcs_r, lcs_w) = evmap::Options::default().with_hasher(nohash_hasher::BuildNoHashHasher::<LifecycleId>::default()).construct::<LifecycleId, LifecycleItem>();
    let (done_tx, done_rx) = channel::<u8>();
    let msgs = c.msgs.clone();
    let ppace = c.ppace.clone();
    let d0 = done_tx.clone();
    let tail = c.tail;
    let sort_p = c.sort;
    let restarting = c.restarting;
    let gone = std::sync::Arc::new(std::sync::atomic::AtomicBool::new(false));
    let gone_p = gone.clone();
    let perr = std::sync::Arc::new(std::sync::atomic::AtomicBool::new(false));
    let perr_p = perr.clone();
    let t0 = std::thread::spawn(move || {
        let mut failed = false;
        for (i, m) in msgs.iter().enumerate() {
            if let Some((_, ms)) = ppace.iter().find(|(k, _)| *k == i) {
                std::thread::sleep(Duration::from_millis(*ms));
            }
            let mut d = mk(m);
            d.index = i as u32;
            if sync_sender_send_delay_if_full(d, &tx0).is_err() {
                failed = true;
                break;
            }
        }
        if tail > 0 && !failed {
            // a live source: it keeps producing after the consumer has gone, until it is told to stop (send error)
            let t_wait = std::time::Instant::now();
            while !gone_p.load(std::sync::atomic::Ordering::SeqCst) && t_wait.elapsed() < Duration::from_secs(30) {
                std::thread::sleep(Duration::from_millis(1));
            }
            let last = msgs.iter().filter(|m| m.ecu == 0).last().copied().unwrap_or(M { ecu: 0, recv: 1_700_000_000_000_000, ts: 0, has_ts: true, ctrl: false });
            let base_recv = msgs.iter().map(|m| m.recv).max().unwrap_or(last.recv);
            // (paced: the failure has to travel upstream through every stage thread, which takes a few scheduler wake-ups;
            //  a source that dumps its whole tail into the channels within microseconds would not be a live one)
            // the source is live: it goes on (one message per simulated second) until a send fails - or, when nothing ever tells
            // it to stop, for 6 s of real time. (A finite tail would not do: through channels of capacity 0 or 1 the send helper
            // passes about 100 messages per second, a failure needs one message per stage to travel upstream, and a producer
            // that is done with its tail before that has not been stopped by anybody.)
            let t_tail = std::time::Instant::now();
            let _ = sort_p;
            for k in 0..usize::MAX {
                if t_tail.elapsed() > Duration::from_secs(6) {
                    break;
                }
                // (restarting: a boot of 25 s - one message per second, time stamps from 0 - every 30 s)
                let ts = if restarting { (k as u32 % 30).min(25) * 10_000 } else { last.ts.saturating_add((k as u32 + 1).saturating_mul(10_000)) };
                if restarting && k % 30 > 25 {
                    continue;
                }
                let m = M { ecu: 0, recv: base_recv + (k as u64 + 1) * 1_000_000, ts, has_ts: true, ctrl: false };
                let mut d = mk(&m);
                d.index = (msgs.len() + k) as u32;
                if sync_sender_send_delay_if_full(d, &tx0).is_err() {
                    failed = true;
                    break;
                }
                if k >= 50 {
                    std::thread::sleep(Duration::from_micros(500));
                }
            }
        }
        perr_p.store(failed, std::sync::atomic::Ordering::SeqCst);
        drop(tx0);
        let _ = d0.send(0);
    });
    let d1 = done_tx.clone();
    let t1 = std::thread::spawn(move || {
        let dbg = std::env::var("VERIF_PIPE_DEBUG").is_ok();
        let w = parse_lifecycles_buffered_from_stream(lcs_w, rx0, &|m| {
            if dbg && m.index % 25 == 0 {
                eprintln!("lifecycle stage sends index {} lc {}", m.index, m.lifecycle);
            }
            sync_sender_send_delay_if_full(m, &tx1)
        });
        drop(tx1);
        let _ = d1.send(1);
        w
    });
    let d2 = done_tx.clone();
    let t2 = std::thread::spawn(move || {
        let _ = adlt::plugins::plugins_process_msgs(rx1, &|m| sync_sender_send_delay_if_full(m, &tx2), vec![]);
        drop(tx2);
        let _ = d2.send(2);
    });
    let d3 = done_tx.clone();
    let sort = c.sort;
    let lr = lcs_r.clone();
    let t3 = std::thread::spawn(move || {
        if sort {
            let dbg = std::env::var("VERIF_PIPE_DEBUG").is_ok();
            let r = adlt::utils::buffer_sort_messages(
                rx2,
                &|m| {
                    if dbg {
                        eprintln!("sort stage releases index {} recv {} at {:?}", m.index, m.reception_time_us, std::time::SystemTime::now().duration_since(std::time::UNIX_EPOCH).unwrap().as_millis() % 100000);
                    }
                    sync_sender_send_delay_if_full(m, &tx3)
                },
                &lr,
                3,
                2_000_000,
            );
            if dbg {
                eprintln!("sort stage ended: {:?}", r.is_ok());
            }
        } else {
            for m in rx2 {
                if sync_sender_send_delay_if_full(m, &tx3).is_err() {
                    break;
                }
            }
        }
        drop(tx3);
        let _ = d3.send(3);
    });
    let d4 = done_tx.clone();
    let fs = filters(c);
    let t4 = std::thread::spawn(move || {
        let _ = adlt::filter::functions::filter_as_streams(&fs, &rx3, &|m| sync_sender_send_delay_if_full(m, &tx4));
        drop(tx4);
        let _ = d4.send(4);
    });
    drop(done_tx);
    // consumer
    let mut out = vec![];
    loop {
        if let Some(k) = c.drop_after {
            if out.len() >= k {
                break;
            }
        }
        if let Some((_, ms)) = c.cpace.iter().find(|(k, _)| *k == out.len()) {
            std::thread::sleep(Duration::from_millis(*ms));
        }
        // (with a live tail the producer does not close its channel: the consumer also leaves after 300 ms of silence)
        match rx4.recv_timeout(if c.tail > 0 { Duration::from_millis(300) } else { Duration::from_secs(20) }) {
            Ok(m) => out.push(m),
            Err(_) => break,
        }
    }
    drop(rx4); // the consumer disappears (or everything was delivered)
    gone.store(true, std::sync::atomic::Ordering::SeqCst);
    // every stage has to terminate
    let mut finished = 0;
    let deadline = std::time::Instant::now() + Duration::from_secs(20);
    let mut done_ids = vec![];
    while finished < 5 {
        match done_rx.recv_timeout(deadline.saturating_duration_since(std::time::Instant::now())) {
            Ok(k) => {
                finished += 1;
                done_ids.push(k);
            }
            Err(_) => break,
        }
    }
    if finished < 5 && std::env::var("VERIF_PIPE_DEBUG").is_ok() {
        eprintln!("stages that terminated: {:?}", done_ids);
    }
    let terminated = finished == 5;
    if terminated {
        let _ = t0.join();
        let _w = t1.join();
        let _ = t2.join();
        let _ = t3.join();
        let _ = t4.join();
        (render(&out, &lcs_r, c.sort), true, if c.tail > 0 { Some(perr.load(std::sync::atomic::Ordering::SeqCst)) } else { None })
    } else {
        // leak the stuck threads; report
        (render(&out, &lcs_r, c.sort), false, None)
    }
}

fn run(case: &str) -> String {
    let c = parse(case);
    let u = run_unbounded(&c);
    let (b, term, perr) = run_bounded(&c);
    format!("B {} # U {} # term={} # perr={}", b, u, term as u8, match perr {
        Some(true) => "1",
        Some(false) => "0",
        None => "-",
    })
}

fn gen(rng: &mut Rng, tier: u32) -> String {
    let capset = [0usize, 1, 1, 2, 2, 3, 7, 1000];
    let caps: Vec<String> = (0..5).map(|_| capset[rng.below(capset.len() as u64) as usize].to_string()).collect();
    let n = 1 + rng.below(if tier > 0 { 24 } else { 12 }) as usize;
    // a short lifecycle stream (same generator family as the lc area, fewer messages)
    let lcs = crate::lc::gen_stream(rng, n as u64);
    let nm = lcs.split(';').count();
    let pace = |rng: &mut Rng| -> String {
        (0..rng.below(3)).map(|_| format!("{}:{}", rng.below(nm as u64 + 1), 1 + rng.below(12))).collect::<Vec<_>>().join(" ")
    };
    let pp = pace(rng);
    let cp = pace(rng);
    let drop = if rng.chance(4) { rng.below(nm as u64 + 1) as i64 } else { -1 };
    let mut sort = rng.chance(4);
    let mut fe = if rng.chance(3) { rng.below(3) as i64 } else { -1 };
    // a live source behind a small first channel: once the consumer is gone the producer has to be stopped by a send error
    let mut caps = caps;
    let mut tail = 0;
    if drop >= 0 && rng.chance(2) {
        tail = 300;
        // (a live source in front of the sorted pipeline as well: the sort stage has to notice the loss of the consumer
        //  when it releases a message)
        sort = rng.chance(3);
        if fe > 0 {
            fe = 0;
        }
        if caps[0] == "1000" {
            caps[0] = "2".to_string();
        }
    }
    // half of the live sources restart every 30 s: the detector then always has a lifecycle under observation, never forwards
    // directly, and meets the closed channel only when a confirmation releases queued messages
    let restarting = tail > 0 && !sort && rng.chance(2);
    if tail > 0 && sort {
        // the sort stage may hold everything back for a long (simulated) time, then the whole tail flows through the pipeline:
        // a rendezvous channel costs 10 ms per message (the send helper sleeps when the receiver is not waiting already)
        for c in caps.iter_mut() {
            if c == "0" {
                *c = "1".to_string();
            }
        }
    }
    if restarting {
        for c in caps.iter_mut() {
            if c == "1000" {
                *c = "3".to_string();
            }
        }
    }
    format!("{} | {} | {} | {} {} {} {} {} | {}", caps.join(" "), pp, cp, drop, sort as u8, fe, tail, restarting as u8, lcs)
}

impl Area for Pipe {
    fn gen(&self, rng: &mut Rng, tier: u32) -> String {
        gen(rng, tier)
    }
    fn run(&self, case: &str) -> String {
        run(case)
    }
}
