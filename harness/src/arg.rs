//! verbose payload arguments: encoders (`payload_from_args`, the serde serializer), `DltMessageArgIterator`, text rendering (C18)
use crate::dp::{hex, unhex};
use crate::{Area, Rng};
use adlt::dlt::*;
use adlt::utils::payload_from_args;

pub struct Arg;

#[derive(Clone, Debug)]
enum V {
    B(bool),
    U(u8, Vec<u8>),
    I(u8, Vec<u8>),
    F(u8, Vec<u8>),
    S(Vec<u8>),
    A(Vec<u8>),
    R(Vec<u8>),
}

fn ti(v: &V) -> u32 {
    match v {
        V::B(_) => DLT_TYPE_INFO_BOOL | 1,
        V::U(t, _) => DLT_TYPE_INFO_UINT | *t as u32,
        V::I(t, _) => DLT_TYPE_INFO_SINT | *t as u32,
        V::F(t, _) => DLT_TYPE_INFO_FLOA | *t as u32,
        V::S(_) => DLT_TYPE_INFO_STRG | DLT_SCOD_UTF8,
        V::A(_) => DLT_TYPE_INFO_STRG | DLT_SCOD_ASCII,
        V::R(_) => DLT_TYPE_INFO_RAWD,
    }
}
fn bytes(v: &V) -> Vec<u8> {
    match v {
        V::B(b) => vec![*b as u8],
        V::U(_, r) | V::I(_, r) | V::F(_, r) | V::S(r) | V::A(r) | V::R(r) => r.clone(),
    }
}

fn float_text(t: u8, raw: &[u8], be: bool) -> String {
    if t == 3 {
        let a: [u8; 4] = raw.try_into().unwrap();
        format!("{}", if be { f32::from_be_bytes(a) } else { f32::from_le_bytes(a) })
    } else {
        let a: [u8; 8] = raw.try_into().unwrap();
        format!("{}", if be { f64::from_be_bytes(a) } else { f64::from_le_bytes(a) })
    }
}

fn parse_vals(body: &str) -> Vec<V> {
    body.split(';')
        .filter(|x| !x.is_empty())
        .map(|s| {
            let f: Vec<&str> = s.split(':').collect();
            match f[0] {
                "b" => V::B(f[1] == "1"),
                "u" => V::U(f[1].parse().unwrap(), unhex(f[2])),
                "i" => V::I(f[1].parse().unwrap(), unhex(f[2])),
                "f" => V::F(f[1].parse().unwrap(), unhex(f[2])),
                "s" => V::S(unhex(f[1])),
                "a" => V::A(unhex(f[1])),
                _ => V::R(unhex(f[1])),
            }
        })
        .collect()
}

fn encode_serde(vals: &[V]) -> Option<Vec<u8>> {
    use adlt::serde_verb_payload::{add_to_serializer, Serializer};
    let mut s = Serializer { output: vec![] };
    for v in vals {
        let r = match v {
            V::B(b) => add_to_serializer(&mut s, b),
            V::U(1, r) => add_to_serializer(&mut s, &r[0]),
            V::U(2, r) => add_to_serializer(&mut s, &u16::from_le_bytes(r[..].try_into().unwrap())),
            V::U(3, r) => add_to_serializer(&mut s, &u32::from_le_bytes(r[..].try_into().unwrap())),
            V::U(_, r) => add_to_serializer(&mut s, &u64::from_le_bytes(r[..].try_into().unwrap())),
            V::I(1, r) => add_to_serializer(&mut s, &(r[0] as i8)),
            V::I(2, r) => add_to_serializer(&mut s, &i16::from_le_bytes(r[..].try_into().unwrap())),
            V::I(3, r) => add_to_serializer(&mut s, &i32::from_le_bytes(r[..].try_into().unwrap())),
            V::I(_, r) => add_to_serializer(&mut s, &i64::from_le_bytes(r[..].try_into().unwrap())),
            V::F(3, r) => add_to_serializer(&mut s, &f32::from_le_bytes(r[..].try_into().unwrap())),
            V::F(_, r) => add_to_serializer(&mut s, &f64::from_le_bytes(r[..].try_into().unwrap())),
            // the serializer appends the terminating NUL itself
            V::S(r) => add_to_serializer(&mut s, &std::str::from_utf8(&r[..r.len() - 1]).ok()?),
            V::A(_) => return None,
            V::R(r) => add_to_serializer(&mut s, &serde_bytes::Bytes::new(r)),
        };
        r.ok()?;
    }
    Some(s.output)
}

fn run(case: &str) -> String {
    let (hd, body) = case.split_once(" | ").unwrap_or((case, ""));
    let h: Vec<&str> = hd.split_whitespace().collect();
    let be = h[0] == "1";
    let vals = parse_vals(body);
    let raws: Vec<Vec<u8>> = vals.iter().map(bytes).collect();
    let full = if h[1] == "s" {
        match encode_serde(&vals) {
            Some(p) => p,
            None => return "UNSUPPORTED".to_string(),
        }
    } else {
        let args: Vec<DltArg> = vals.iter().zip(raws.iter()).map(|(v, r)| DltArg { type_info: ti(v), is_big_endian: be, payload_raw: r }).collect();
        payload_from_args(&args)
    };
    let mut p = full.clone();
    if h[2] != "-" {
        p.truncate(h[2].parse().unwrap());
    }
    if h[3] != "-" {
        let (a, b) = h[3].split_once(':').unwrap();
        let pos: usize = a.parse().unwrap();
        if pos < p.len() {
            p[pos] = b.parse::<u32>().unwrap() as u8;
        }
    }
    let m = DltMessage::get_testmsg_with_payload(be, vals.len().min(255) as u8, &p);
    let args: Vec<String> = m.into_iter().map(|a| format!("{}:{}", a.type_info, hex(a.payload_raw))).collect();
    let text = m.payload_as_text().map(|c| c.to_string()).unwrap_or_else(|_| "<fmt error>".to_string());
    format!("{} | {} | {}", hex(&full), args.join(" "), hex(text.as_bytes()))
}

fn gen_val(rng: &mut Rng, serde_only: bool) -> V {
    let extreme = |rng: &mut Rng, n: usize| -> Vec<u8> {
        match rng.below(5) {
            0 => vec![0; n],
            1 => vec![0xff; n],
            2 => {
                let mut v = vec![0xff; n];
                v[n - 1] = 0x7f;
                v
            }
            3 => {
                let mut v = vec![0; n];
                v[n - 1] = 0x80;
                v
            }
            _ => (0..n).map(|_| rng.below(256) as u8).collect(),
        }
    };
    let strings: [&[u8]; 9] = [b"hello\0", b"\0", b"", b"line1\nline2\0", b"tab\there\r\0", b"no term", b"caf\xc3\xa9\0", b"bad \xff\xfe utf8\0", b"a\0\0"];
    match rng.below(10) {
        0 => V::B(rng.chance(2)),
        1 | 2 => {
            let t = 1 + rng.below(4) as u8;
            V::U(t, extreme(rng, [1, 2, 4, 8][t as usize - 1]))
        }
        3 | 4 => {
            let t = 1 + rng.below(4) as u8;
            V::I(t, extreme(rng, [1, 2, 4, 8][t as usize - 1]))
        }
        5 => {
            let t = 3 + rng.below(2) as u8;
            let specials32: [u32; 6] = [0x7fc00000, 0x7f800000, 0xff800000, 0, 0x80000000, 0x3f800000];
            if t == 3 {
                V::F(3, if rng.chance(2) { specials32[rng.below(6) as usize].to_le_bytes().to_vec() } else { (rng.below(1000) as f32 / 8.0).to_le_bytes().to_vec() })
            } else {
                V::F(4, if rng.chance(3) { f64::NAN.to_le_bytes().to_vec() } else { (rng.below(100000) as f64 / 64.0 - 300.0).to_le_bytes().to_vec() })
            }
        }
        6 | 7 => {
            let mut s = strings[rng.below(strings.len() as u64) as usize].to_vec();
            if serde_only {
                // must be valid utf-8 + exactly one terminating NUL for the serde path
                s = [&b"hello\0"[..], b"\0", b"line1\nline2\0", b"caf\xc3\xa9\0"][rng.below(4) as usize].to_vec();
            } else if rng.chance(30) {
                s = vec![b'x'; 65535];
            }
            V::S(s)
        }
        8 if !serde_only => V::A(strings[rng.below(strings.len() as u64) as usize].to_vec()),
        _ => V::R((0..rng.below(6)).map(|_| rng.below(256) as u8).collect()),
    }
}

fn fmt_val(v: &V, be: bool) -> String {
    let dec = |utf8: bool, r: &[u8]| -> String {
        let b = if r.last() == Some(&0) { &r[..r.len() - 1] } else { r };
        if b.iter().all(|x| *x < 128) {
            String::new()
        } else if utf8 {
            format!(":{}", hex(String::from_utf8_lossy(b).as_bytes()))
        } else {
            format!(":{}", hex(encoding_rs_decode(b).as_bytes()))
        }
    };
    match v {
        V::B(b) => format!("b:{}", *b as u8),
        V::U(t, r) => format!("u:{}:{}", t, hex(r)),
        V::I(t, r) => format!("i:{}:{}", t, hex(r)),
        V::F(t, r) => format!("f:{}:{}:{}", t, hex(r), hex(float_text(*t, r, be).as_bytes())),
        V::S(r) => format!("s:{}{}", hex(r), dec(true, r)),
        V::A(r) => format!("a:{}{}", hex(r), dec(false, r)),
        V::R(r) => format!("r:{}", hex(r)),
    }
}

/// WINDOWS-1252 decoding of bytes >= 0x80 as the `encoding_rs` crate does it (table of the 0x80..0x9f block; the rest is Latin-1)
fn encoding_rs_decode(b: &[u8]) -> String {
    const HI: [u32; 32] = [
        0x20AC, 0x81, 0x201A, 0x0192, 0x201E, 0x2026, 0x2020, 0x2021, 0x02C6, 0x2030, 0x0160, 0x2039, 0x0152, 0x8D, 0x017D, 0x8F, 0x90, 0x2018, 0x2019, 0x201C, 0x201D, 0x2022, 0x2013, 0x2014, 0x02DC,
        0x2122, 0x0161, 0x203A, 0x0153, 0x9D, 0x017E, 0x0178,
    ];
    b.iter().map(|x| if *x >= 0x80 && *x < 0xa0 { char::from_u32(HI[(*x - 0x80) as usize]).unwrap() } else { *x as char }).collect()
}

impl Area for Arg {
    fn gen(&self, rng: &mut Rng, tier: u32) -> String {
        let serde_enc = rng.chance(4);
        let be = if serde_enc { false } else { rng.chance(2) };
        let n = rng.below(if tier > 0 { 12 } else { 6 }) as usize;
        let vals: Vec<V> = (0..n).map(|_| gen_val(rng, serde_enc)).collect();
        // encoded length (for truncation / corruption points)
        let len: usize = vals.iter().map(|v| 4 + bytes(v).len() + if matches!(v, V::S(_) | V::A(_) | V::R(_)) { 2 } else { 0 }).sum();
        let trunc = if rng.chance(3) && len > 0 { rng.below(len as u64).to_string() } else { "-".to_string() };
        let elen = |v: &V| 4 + bytes(v).len() + if matches!(v, V::S(_) | V::A(_) | V::R(_)) { 2 } else { 0 };
        let corrupt = if trunc == "-" && rng.chance(4) && len > 0 && len < 1000 {
            if rng.chance(2) {
                // single-field corruption of a type info: one bit flipped, or another length code
                let j = rng.below(n as u64) as usize;
                let off: usize = vals[..j].iter().map(elen).sum();
                let t = ti(&vals[j]);
                let bits = if rng.chance(4) { 32 } else { 16 };
                let t2 = if rng.chance(3) { (t & !0xf) | rng.below(16) as u32 } else { t ^ (1u32 << rng.below(bits)) };
                let (o, n2) = if be { (t.to_be_bytes(), t2.to_be_bytes()) } else { (t.to_le_bytes(), t2.to_le_bytes()) };
                match (0..4).find(|k| o[*k] != n2[*k]) {
                    Some(k) => format!("{}:{}", off + k, n2[k]),
                    None => format!("{}:{}", rng.below(len as u64), rng.below(256)),
                }
            } else {
                format!("{}:{}", rng.below(len as u64), rng.below(256))
            }
        } else {
            "-".to_string()
        };
        format!("{} {} {} {} | {}", be as u8, if serde_enc { "s" } else { "p" }, trunc, corrupt, vals.iter().map(|v| fmt_val(v, be)).collect::<Vec<_>>().join(";"))
    }
    fn run(&self, case: &str) -> String {
        run(case)
    }
}
