//! file transfer plugin: reassembly state machine through the real plugin (C17)
use crate::{Area, Rng};
use adlt::dlt::*;
use adlt::plugins::file_transfer::FileTransferPlugin;
use adlt::plugins::plugin::Plugin;
use serde_json::json;

pub struct Ft;

/// the harness' own encoder of a verbose payload (little endian): type info + (16 bit length for strings / raw) + data
fn enc_args(args: &[(u32, Vec<u8>)]) -> Vec<u8> {
    let mut v = vec![];
    for (ti, data) in args {
        v.extend_from_slice(&ti.to_le_bytes());
        if ti & (DLT_TYPE_INFO_STRG | DLT_TYPE_INFO_RAWD) != 0 {
            v.extend_from_slice(&(data.len() as u16).to_le_bytes());
        }
        v.extend_from_slice(data);
    }
    v
}
fn msg(noar: u8, args: &[(u32, Vec<u8>)]) -> DltMessage {
    DltMessage::get_testmsg_with_payload(false, noar, &enc_args(args))
}
const U32: u32 = DLT_TYPE_INFO_UINT | 3;

#[derive(Clone, Debug)]
enum Ev {
    S(u32, u32, u32, u32),
    D(u32, u32, usize, u8),
    F(u32),
    O,
}

fn to_msg(e: &Ev) -> DltMessage {
    let s = |x: &[u8]| x.to_vec();
    match e {
        Ev::S(serial, size, nr, buf) => msg(
            8,
            &[
                (DLT_TYPE_INFO_STRG, s(b"FLST\0")),
                (U32, serial.to_le_bytes().to_vec()),
                (DLT_TYPE_INFO_STRG, format!("{}\0", name_of(*serial)).into_bytes()), // names sort opposite to the serials
                (U32, size.to_le_bytes().to_vec()),
                (DLT_TYPE_INFO_STRG, s(b"date\0")),
                (U32, nr.to_le_bytes().to_vec()),
                (U32, buf.to_le_bytes().to_vec()),
                (DLT_TYPE_INFO_STRG, s(b"FLST\0")),
            ],
        ),
        Ev::D(serial, nr, len, fill) => msg(
            5,
            &[
                (DLT_TYPE_INFO_STRG, s(b"FLDA\0")),
                (U32, serial.to_le_bytes().to_vec()),
                (U32, nr.to_le_bytes().to_vec()),
                (DLT_TYPE_INFO_RAWD, vec![*fill; *len]),
                (DLT_TYPE_INFO_STRG, s(b"FLDA\0")),
            ],
        ),
        Ev::F(serial) => msg(3, &[(DLT_TYPE_INFO_STRG, s(b"FLFI\0")), (U32, serial.to_le_bytes().to_vec()), (DLT_TYPE_INFO_STRG, s(b"FLFI\0"))]),
        Ev::O => msg(2, &[(DLT_TYPE_INFO_STRG, s(b"some other log\0")), (U32, 7u32.to_le_bytes().to_vec())]),
    }
}

/// the announced file name of a transfer: with directory parts, absolute, leading outside, ending in `..`, colliding base names
pub fn name_of(serial: u32) -> String {
    let n = 99 - (serial % 100);
    match serial % 8 {
        0 => format!("/abs/g{}.bin", n),
        1 => format!("../up{}.bin", n),
        2 => format!("dir/f{}.bin", n),
        3 => "plain.bin".to_string(),
        4 => format!("a/../../b{}.txt", n),
        5 => "dir/..".to_string(),
        6 => "x/same.bin".to_string(),
        _ => "y/z/same.bin".to_string(),
    }
}

fn fmt_ev(e: &Ev) -> String {
    match e {
        Ev::S(a, b, c, d) => format!("S {} {} {} {}", a, b, c, d),
        Ev::D(a, b, c, d) => format!("D {} {} {} {}", a, b, c, d),
        Ev::F(a) => format!("F {}", a),
        Ev::O => "O".to_string(),
    }
}
fn parse_ev(s: &str) -> Ev {
    let f: Vec<&str> = s.trim().split(' ').collect();
    let n = |i: usize| f[i].parse::<u64>().unwrap();
    match f[0] {
        "S" => Ev::S(n(1) as u32, n(2) as u32, n(3) as u32, n(4) as u32),
        "D" => Ev::D(n(1) as u32, n(2) as u32, n(3) as usize, n(4) as u8),
        "F" => Ev::F(n(1) as u32),
        _ => Ev::O,
    }
}

fn hash(b: &[u8]) -> u64 {
    b.iter().fold(7u64, |h, x| (h * 31 + *x as u64 + 1) % 4294967291)
}

/// second run with automatic saving: what ends up in the configured directory, and what outside of it
fn run_auto_save(evs: &[Ev], glob: &str) -> String {
    let sb = tempfile::tempdir().unwrap();
    let save = sb.path().join("save");
    std::fs::create_dir_all(&save).unwrap();
    std::fs::write(save.join("plain.bin"), b"old").unwrap(); // an existing file must never be overwritten
    let cfg = json!({"name": "f", "allowSave": true, "keepFLDA": true, "autoSavePath": save.to_str().unwrap(), "autoSaveGlob": glob});
    let mut p = match FileTransferPlugin::from_json(cfg.as_object().unwrap()) {
        Ok(p) => p,
        Err(_) => return "A:E".to_string(),
    };
    for e in evs {
        let mut m = to_msg(e);
        p.process_msg(&mut m);
    }
    let mut inside = vec![];
    let mut outside = 0;
    fn walk(d: &std::path::Path, f: &mut dyn FnMut(&std::path::Path)) {
        if let Ok(rd) = std::fs::read_dir(d) {
            for e in rd.flatten() {
                let p = e.path();
                if p.is_dir() {
                    walk(&p, f);
                } else {
                    f(&p);
                }
            }
        }
    }
    walk(sb.path(), &mut |p| match p.strip_prefix(&save) {
        Ok(rel) if rel.components().count() == 1 => {
            let d = std::fs::read(p).unwrap_or_default();
            inside.push(format!("{}:{}:{}", crate::dp::hex(rel.to_string_lossy().as_bytes()), d.len(), hash(&d)));
        }
        _ => outside += 1,
    });
    inside.sort();
    format!("A:{} X:{}", inside.join("+"), outside)
}

fn run(case: &str) -> String {
    let evs: Vec<Ev> = case.split(" | ").nth(1).unwrap_or("").split(';').filter(|x| !x.trim().is_empty()).map(parse_ev).collect();
    let auto = case.split(" | ").nth(2).map(|g| run_auto_save(&evs, g.trim()));
    let cfg = json!({"name": "f", "allowSave": true, "keepFLDA": true});
    let mut p = FileTransferPlugin::from_json(cfg.as_object().unwrap()).unwrap();
    for e in &evs {
        let mut m = to_msg(e);
        p.process_msg(&mut m);
    }
    let dir = tempfile::tempdir().unwrap();
    let st = p.state();
    let st = st.read().unwrap();
    let all_items = st.value["treeItems"].as_array().unwrap();
    let items: Vec<serde_json::Value> = all_items.iter().skip(1).cloned().collect();
    // the children of the first node list the same transfers sorted by name
    let sorted: Vec<serde_json::Value> = all_items.first().and_then(|n| n["children"].as_array().cloned()).unwrap_or_default();
    let save_via = |it: &serde_json::Value, tag: &str| -> Option<Vec<u8>> {
        // save exactly like the UI does: with the command context the item itself carries
        let ctx = it["cmdCtx"].as_object()?;
        let path = dir.path().join(tag);
        let _ = std::fs::remove_file(&path);
        let ok = (st.apply_command.unwrap())(&st.internal_data, "save", Some(json!({"saveAs": path.to_str().unwrap()}).as_object().unwrap()), Some(ctx));
        if ok {
            std::fs::read(&path).ok()
        } else {
            None
        }
    };
    let mut outs = vec![];
    for (i, it) in items.iter().enumerate() {
        let label = it["label"].as_str().unwrap_or("");
        let tip = it["tooltip"].as_str().unwrap_or("");
        let serial: u32 = tip.split("serial #").nth(1).and_then(|x| x.split(',').next()).and_then(|x| x.parse().ok()).unwrap_or(0);
        let mut stc = if label.starts_with("Incomplete file transfer '") {
            "S"
        } else if label.starts_with('\'') {
            "C"
        } else if label.contains("Missing FLST") {
            "M"
        } else {
            "I"
        }
        .to_string();
        let (len, h) = if stc == "C" {
            let saved = save_via(it, &format!("f{}", i));
            if saved.is_none() {
                stc = "C?cannot-be-saved".to_string();
            }
            let d = saved.unwrap_or_default();
            // the same transfer saved through its entry in the sorted-by-name list must give the same bytes
            for (j, c) in sorted.iter().enumerate() {
                if c["tooltip"] == it["tooltip"] && c["label"] == it["label"] {
                    let d2 = save_via(c, &format!("s{}", j)).unwrap_or_default();
                    if d2 != d && sorted.iter().filter(|x| x["tooltip"] == it["tooltip"] && x["label"] == it["label"]).count() == 1 {
                        stc = "C!sorted-entry-saves-other-content".to_string();
                    }
                }
            }
            if d.is_empty() {
                (0, 0)
            } else {
                (d.len(), hash(&d))
            }
        } else {
            (0, 0)
        };
        outs.push(format!("{}:{}:{}:{}", serial, stc, len, h));
    }
    match auto {
        Some(a) => format!("{} # {}", outs.join(" "), a),
        None => outs.join(" "),
    }
}

fn gen(rng: &mut Rng, tier: u32) -> String {
    let nt = 1 + rng.below(3) as u32;
    let mut streams: Vec<Vec<Ev>> = vec![];
    let mut metas = vec![];
    for t in 0..nt {
        let serial = 10 + if rng.chance(8) { 0 } else { t };
        let buf = 1 + rng.below(if tier > 0 { 40 } else { 6 }) as usize;
        let nr = 1 + rng.below(if tier > 0 { 12 } else { 5 }) as u32;
        // an empty file is announced with one package that carries no data
        let (nr, last) = if rng.chance(10) { (1u32, 0usize) } else { (nr, if rng.chance(2) { buf } else { 1 + rng.below(buf as u64) as usize }) };
        let size = (buf * (nr as usize - 1) + last) as u32;
        let mut evs = vec![Ev::S(serial, if rng.chance(8) { 0 } else { size }, nr, buf as u32)];
        for p in 1..=nr {
            evs.push(Ev::D(serial, p, if p == nr { last } else { buf }, ((serial * 16 + p) & 0xff) as u8));
        }
        evs.push(Ev::F(serial));
        // label: 0 clean, 1 duplicates only, 2 damaging fault, 3 other
        let mut label = 0;
        for _ in 0..rng.below(3) {
            let k = rng.below(evs.len() as u64) as usize;
            let is_d = matches!(evs[k], Ev::D(..));
            match rng.below(6) {
                0 => {
                    label = label.max(if is_d { 2 } else { 3 });
                    evs.remove(k);
                }
                1 => {
                    // duplicate; a duplicated announcement starts a new transfer: other
                    label = label.max(if matches!(evs[k], Ev::S(..)) { 3 } else { 1 });
                    let e = evs[k].clone();
                    // insert the copy at the same place or later
                    let at = k + rng.below((evs.len() - k) as u64 + 1) as usize;
                    evs.insert(at.max(k), e);
                }
                2 => {
                    if k + 1 < evs.len() {
                        let both_d = is_d && matches!(evs[k + 1], Ev::D(..));
                        let differ = format!("{:?}", evs[k]) != format!("{:?}", evs[k + 1]);
                        label = label.max(if both_d && differ { 2 } else if differ { 3 } else { label });
                        evs.swap(k, k + 1);
                    }
                }
                3 => {
                    if let Ev::D(s, p, l, f) = evs[k].clone() {
                        label = label.max(3); // resizing may or may not be harmless (duplicates!): soundness only
                        evs[k] = Ev::D(s, p, if rng.chance(2) { l + 1 } else { l.saturating_sub(1) }, f);
                    }
                }
                4 => {
                    if let Ev::D(s, p, l, f) = evs[k].clone() {
                        label = label.max(3);
                        evs[k] = Ev::D(s, p + 1 + rng.below(2) as u32, l, f);
                    }
                }
                _ => {
                    if let Ev::S(s, sz, n, b) = evs[k].clone() {
                        label = label.max(3);
                        evs[k] = Ev::S(s, sz, if rng.chance(2) { n + 1 } else { n.saturating_sub(1) }, if rng.chance(3) { 0 } else { b });
                    }
                }
            }
            if evs.is_empty() {
                break;
            }
        }
        // the label is computed from the final event sequence (faults may cancel each other):
        // 0/1: announcement intact, data packages = 1..nr with their original sizes, in order, possibly with exact repeats
        //      of packages that were already seen; 2: announcement intact, only original packages, but one is missing
        //      or they are out of order; 3: anything else (resized / renumbered packages, changed or missing or repeated announcement)
        let _ = label;
        let orig_len = |p: u32| if p == nr { last } else { buf };
        let n_s = evs.iter().filter(|e| matches!(e, Ev::S(..))).count();
        let s_ok = n_s == 1
            && matches!(evs.iter().find(|e| !matches!(e, Ev::F(..))), Some(Ev::S(_, _, n, b)) if *n == nr && *b == buf as u32);
        // the announced size is part of the announcement: a wrong one (here: 0 for a file that has content) is an inconsistent size
        let size_ok = matches!(evs.iter().find(|e| matches!(e, Ev::S(..))), Some(Ev::S(_, sz, _, _)) if *sz == size);
        let ds: Vec<(u32, usize)> = evs.iter().filter_map(|e| if let Ev::D(_, p, l, _) = e { Some((*p, *l)) } else { None }).collect();
        let all_orig = evs.iter().all(|e| match e {
            Ev::D(sr, p, l, f) => *p >= 1 && *p <= nr && *l == orig_len(*p) && *f == ((sr * 16 + p) & 0xff) as u8,
            _ => true,
        });
        let label = if !s_ok || !all_orig {
            3
        } else {
            // drop repeats of packages already seen
            let mut seen: Vec<u32> = vec![];
            let mut had_dup = false;
            for (p, _) in &ds {
                if seen.contains(p) {
                    had_dup = true;
                } else {
                    seen.push(*p);
                }
            }
            let in_order = seen.iter().copied().eq(1..=nr);
            // a repeat must not come before... (a repeat of an already seen number is always harmless for an in-order stream)
            if in_order {
                if !size_ok { 4 } else if had_dup { 1 } else { 0 }
            } else if !had_dup {
                2
            } else {
                3
            }
        };
        metas.push(format!("{},{},{},{},{}", serial, nr, buf, last, label));
        streams.push(evs);
    }
    // interleave, with unrelated messages
    let mut seq = vec![];
    let mut ix = vec![0usize; streams.len()];
    loop {
        let avail: Vec<usize> = (0..streams.len()).filter(|i| ix[*i] < streams[*i].len()).collect();
        if avail.is_empty() {
            break;
        }
        if rng.chance(6) {
            seq.push(Ev::O);
        }
        let i = avail[rng.below(avail.len() as u64) as usize];
        seq.push(streams[i][ix[i]].clone());
        ix[i] += 1;
    }
    let glob = match rng.below(4) {
        0 => " | *",
        1 => " | *.bin",
        _ => "",
    };
    format!("{} | {}{}", metas.join(" "), seq.iter().map(fmt_ev).collect::<Vec<_>>().join(";"), glob)
}

impl Area for Ft {
    fn gen(&self, rng: &mut Rng, tier: u32) -> String {
        gen(rng, tier)
    }
    fn run(&self, case: &str) -> String {
        run(case)
    }
}
