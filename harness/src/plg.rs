//! plugins: decoding plugins keep the stream intact (order, count, identity fields); anonymisation keeps the id structure
//! and the lifecycles (C19)
use crate::dp::{hex, unhex};
use crate::{Area, Rng};
use adlt::dlt::*;
use adlt::lifecycle::*;
use adlt::plugins::plugin::Plugin;
use adlt::plugins::{anonymize::AnonymizePlugin, factory::get_plugin, plugins_process_msgs};
use adlt::utils::eac_stats::EacStats;
use serde_json::json;
use std::sync::mpsc::channel;
use std::sync::OnceLock;

pub struct Plg;

fn hash(b: &[u8]) -> u64 {
    b.iter().fold(7u64, |h, x| (h * 31 + *x as u64 + 1) % 4294967291)
}

/// messages of the repository's example files (DLT files as they are, CAN traces through the asc converter), as storage-format bytes
fn pool() -> &'static Vec<Vec<u8>> {
    static POOL: OnceLock<Vec<Vec<u8>>> = OnceLock::new();
    POOL.get_or_init(|| {
        let mut v = vec![];
        for (f, ext) in [("lc_ex002.dlt", "dlt"), ("lc_ex004.dlt", "dlt"), ("lc_ex006.dlt", "dlt"), ("ex_1970_1_1.dlt", "dlt"), ("can_example1.asc", "asc"), ("can_example2a.asc", "asc")] {
            if let Ok(fi) = std::fs::File::open(format!("/repo/tests/{}", f)) {
                let r = adlt::utils::LowMarkBufReader::new(fi, 512 * 1024, DLT_MIN_PARSE_BUFFER_SIZE);
                let it = adlt::utils::get_dlt_message_iterator(ext, 0, r, adlt::utils::get_new_namespace(), None, None, None);
                for (i, m) in it.enumerate() {
                    if i % 7 != 0 && i > 200 {
                        continue; // thin out the long files
                    }
                    if m.payload.len() > 400 {
                        continue;
                    }
                    let mut w = vec![];
                    if m.to_write(&mut w).is_ok() {
                        v.push(w);
                    }
                    if v.len() > 6000 {
                        break;
                    }
                }
            }
        }
        v
    })
}

fn parse_msgs(s: &str) -> Vec<DltMessage> {
    s.split(';')
        .filter(|x| !x.is_empty())
        .enumerate()
        .filter_map(|(i, h)| parse_dlt_with_storage_header(i as u32, &unhex(h)).ok().map(|x| x.1))
        .collect()
}

fn ext_hex(m: &DltMessage) -> String {
    m.extended_header.as_ref().map_or("-".to_string(), |e| {
        let mut v = vec![e.verb_mstp_mtin, e.noar];
        v.extend_from_slice(e.apid.as_buf());
        v.extend_from_slice(e.ctid.as_buf());
        hex(&v)
    })
}

fn mk_plugin(letter: &str) -> Option<Box<dyn Plugin + Send>> {
    let mut eac = EacStats::new();
    let cfg = match letter {
        "N" => json!({"name":"NonVerbose","fibexDir":"/repo/tests"}),
        "S" => json!({"name":"SomeIp","fibexDir":"/repo/tests"}),
        "C" => json!({"name":"CAN","fibexDir":"/repo/tests"}),
        "M" => json!({"name":"Muniic","jsonDir":"/repo/tests/muniic"}),
        "R" => serde_json::from_str(&std::fs::read_to_string("/repo/tests/rewrite.cfg").ok()?).ok()?,
        "F" => json!({"name":"FileTransfer"}),
        _ => return None,
    };
    get_plugin(cfg.as_object()?, &mut eac)
}

fn run_plugins(order: &str, msgs: Vec<DltMessage>) -> String {
    let plugins: Vec<Box<dyn Plugin + Send>> = order.split(',').filter(|x| !x.is_empty()).filter_map(mk_plugin).collect();
    let loaded = plugins.len();
    let (tx, rx) = channel();
    for (i, mut m) in msgs.into_iter().enumerate() {
        m.index = i as u32;
        m.lifecycle = (i % 3) as u32 + 1;
        tx.send(m).unwrap();
    }
    drop(tx);
    let (tx2, rx2) = channel();
    let _ = plugins_process_msgs(rx, &|m| tx2.send(m), plugins);
    drop(tx2);
    let out: Vec<String> = rx2
        .iter()
        .map(|m| {
            let t = m.payload_as_text().map(|c| c.to_string()).unwrap_or_default();
            format!("{},{},{},{},{},{},{},{}", m.index, m.reception_time_us, hex(m.ecu.as_buf()), m.timestamp_dms, m.lifecycle, ext_hex(&m), hash(&m.payload), hash(t.as_bytes()))
        })
        .collect();
    format!("{} | {}", loaded, out.join(" "))
}

fn lifecycles(msgs: &[DltMessage]) -> String {
    let (tx, rx) = channel();
    for m in msgs {
        tx.send(m.clone()).unwrap();
    }
    drop(tx);
    let (tx2, rx2) = channel();
    let (lcs_r, lcs_w) = evmap::Options::default().with_hasher(nohash_hasher::BuildNoHashHasher::<LifecycleId>::default()).construct::<LifecycleId, LifecycleItem>();
    let _w = parse_lifecycles_buffered_from_stream(lcs_w, rx, &|m| tx2.send(m));
    drop(tx2);
    let _: Vec<DltMessage> = rx2.iter().collect();
    let r = lcs_r.read().unwrap();
    let mut t: Vec<(u64, u64, u32)> = r.iter().map(|(_, v)| v.get_one().unwrap()).map(|l| (l.start_time, l.end_time(), l.nr_msgs)).collect();
    t.sort();
    t.iter().map(|(s, e, n)| format!("{},{},{}", n, s, e)).collect::<Vec<_>>().join(";")
}

fn run_anon(msgs: Vec<DltMessage>) -> String {
    let orig_lcs = lifecycles(&msgs);
    let mut p = AnonymizePlugin::new("anon");
    let mut out = vec![];
    let mut strs = vec![];
    for (i, mut m) in msgs.into_iter().enumerate() {
        m.index = i as u32;
        let keep = p.process_msg(&mut m);
        strs.push(format!(
            "{},{},{},{},{},{}",
            hex(m.ecu.as_buf()),
            m.apid().map_or("-".to_string(), |a| hex(a.as_buf())),
            m.ctid().map_or("-".to_string(), |a| hex(a.as_buf())),
            m.reception_time_us,
            m.timestamp_dms,
            keep as u8
        ));
        out.push(m);
    }
    let anon_lcs = lifecycles(&out);
    format!("{} # {} # {}", strs.join(" "), orig_lcs, anon_lcs)
}

fn run(case: &str) -> String {
    let (hd, body) = case.split_once(" | ").unwrap_or((case, ""));
    let msgs = parse_msgs(body);
    let h: Vec<&str> = hd.split_whitespace().collect();
    if h[0] == "A" {
        run_anon(msgs)
    } else {
        run_plugins(h.get(1).copied().unwrap_or(""), msgs)
    }
}

/// frame ids described in the repository's FIBEX files (read from the files of the working tree)
fn fibex_frame_ids() -> &'static Vec<u32> {
    static IDS: OnceLock<Vec<u32>> = OnceLock::new();
    IDS.get_or_init(|| {
        let mut v = vec![];
        if let Ok(rd) = std::fs::read_dir("/repo/tests") {
            for e in rd.flatten() {
                if e.path().extension().map_or(false, |x| x == "xml") {
                    if let Ok(t) = std::fs::read_to_string(e.path()) {
                        for part in t.split("FRAME ID=\"ID_").skip(1) {
                            if let Some(n) = part.split('"').next().and_then(|x| x.parse::<u32>().ok()) {
                                if !v.contains(&n) {
                                    v.push(n);
                                }
                            }
                        }
                    }
                }
            }
        }
        v.sort();
        v
    })
}

/// a synthetic non-verbose message: described / undescribed frame id, with or without an extended header of its own
/// (same or other APID/CTID, level and argument count than the description), described / undescribed ECU
fn synth_non_verbose(rng: &mut Rng) -> Vec<u8> {
    let ids = fibex_frame_ids();
    let id = if !ids.is_empty() && !rng.chance(4) { ids[rng.below(ids.len() as u64) as usize] } else { rng.below(1 << 31) as u32 };
    let ecu: &[u8; 4] = if rng.chance(4) { b"Ecu9" } else { b"Ecu1" };
    let ext = if rng.chance(3) {
        None
    } else {
        let ids4: [&[u8; 4]; 5] = [b"HLD\0", b"MAIN", b"APP2", b"CTX2", b"SYS\0"];
        Some(DltExtendedHeader {
            verb_mstp_mtin: ((rng.below(7) as u8) << 4) | ((rng.below(4) as u8) << 1),
            noar: rng.below(3) as u8,
            apid: DltChar4::from_buf(ids4[rng.below(5) as usize]),
            ctid: DltChar4::from_buf(ids4[rng.below(5) as usize]),
        })
    };
    let mut payload: Vec<u8> = if rng.chance(8) { id.to_be_bytes().into() } else { id.to_le_bytes().into() };
    for _ in 0..rng.below(12) {
        payload.push(rng.below(256) as u8);
    }
    let m = DltMessage {
        index: 0,
        reception_time_us: 1_640_995_200_000_000 + rng.below(1_000_000),
        ecu: DltChar4::from_buf(ecu),
        timestamp_dms: rng.below(100_000) as u32,
        standard_header: DltStandardHeader { htyp: (1 << 5) | (1 << 4) | if ext.is_some() { 1 } else { 0 } | if rng.chance(8) { 2 } else { 0 }, mcnt: rng.below(256) as u8, len: 0 },
        extended_header: ext,
        payload,
        payload_text: None,
        lifecycle: 0,
    };
    let mut w = vec![];
    let _ = m.to_write(&mut w);
    w
}

fn varg(ti: u32, data: &[u8], with_len: bool) -> Vec<u8> {
    let mut v = ti.to_le_bytes().to_vec();
    if with_len {
        v.extend((data.len() as u16).to_le_bytes());
    }
    v.extend(data);
    v
}

/// a verbose NW_TRACE / IPC message with context id TC, as the SOME/IP plugin looks at it
fn nw_msg(rng: &mut Rng, ts: u32, args: &[Vec<u8>]) -> Vec<u8> {
    let payload: Vec<u8> = args.iter().flatten().copied().collect();
    let m = DltMessage {
        index: 0,
        reception_time_us: 1_640_995_200_000_000 + rng.below(1_000_000),
        ecu: DltChar4::from_buf(b"ECU1"),
        timestamp_dms: ts,
        standard_header: DltStandardHeader { htyp: (1 << 5) | (1 << 4) | 1, mcnt: rng.below(256) as u8, len: 0 },
        extended_header: Some(DltExtendedHeader { verb_mstp_mtin: 0x01 | (2 << 1) | (1 << 4), noar: args.len() as u8, apid: DltChar4::from_buf(b"SOIP"), ctid: DltChar4::from_buf(if rng.chance(10) { b"TX\0\0" } else { b"TC\0\0" }) }),
        payload,
        payload_text: None,
        lifecycle: 0,
    };
    let mut w = vec![];
    let _ = m.to_write(&mut w);
    w
}

/// segmented SOME/IP transfers (NWST, NWCH..., NWEN): complete, incomplete, interleaved, ends without start; and unsegmented ones
fn synth_someip(rng: &mut Rng) -> Vec<Vec<u8>> {
    const STRG: u32 = 0x200;
    const RAWD: u32 = 0x400;
    const U16: u32 = 0x42;
    const U32: u32 = 0x43;
    let hdr: [u8; 16] = [0x12, 0x34, 0x80, 0x01, 0, 0, 0, 16, 0, 1, 0, 2, 1, 1, 2, 0];
    let pay: [u8; 8] = [1, 2, 3, 4, 5, 6, 7, 8];
    let addr = [10u8, 0, 0, 1, 10, 0, 0, 2, 0, 0, 0, 1];
    let mut ts = 10_000 + rng.below(1000) as u32;
    let mut out = vec![];
    let ntr = 1 + rng.below(2);
    let mut pending: Vec<Vec<Vec<Vec<u8>>>> = vec![];
    for t in 0..ntr {
        let seg = 5 + t as u32 + rng.below(2) as u32 * 10;
        let mut seq = vec![];
        let complete = !rng.chance(3);
        seq.push(vec![varg(STRG, b"NWST\0", true), varg(U32, &seg.to_le_bytes(), false), varg(RAWD, &addr, true), varg(U32, &0u32.to_le_bytes(), false), varg(U16, &2u16.to_le_bytes(), false), varg(U16, &16u16.to_le_bytes(), false)]);
        seq.push(vec![varg(STRG, b"NWCH\0", true), varg(U32, &seg.to_le_bytes(), false), varg(U16, &0u16.to_le_bytes(), false), varg(RAWD, &hdr, true)]);
        if complete {
            seq.push(vec![varg(STRG, b"NWCH\0", true), varg(U32, &seg.to_le_bytes(), false), varg(U16, &1u16.to_le_bytes(), false), varg(RAWD, &pay, true)]);
        }
        seq.push(vec![varg(STRG, b"NWEN\0", true), varg(U32, &seg.to_le_bytes(), false)]);
        if rng.chance(4) {
            seq.push(vec![varg(STRG, b"NWEN\0", true), varg(U32, &seg.to_le_bytes(), false)]); // a repeated end
        }
        pending.push(seq);
    }
    if rng.chance(3) {
        out.push(nw_msg(rng, ts, &[varg(RAWD, &[10, 0, 0, 1, 10, 0, 0, 2, 1], true), varg(RAWD, &[hdr.as_slice(), pay.as_slice()].concat(), true)]));
        ts += 100;
    }
    if rng.chance(4) {
        out.push(nw_msg(rng, ts, &[varg(STRG, b"NWEN\0", true), varg(U32, &99u32.to_le_bytes(), false)])); // an end without start
        ts += 100;
    }
    // interleave the transfers, each in its own order
    while pending.iter().any(|s| !s.is_empty()) {
        let k = rng.below(pending.len() as u64) as usize;
        if pending[k].is_empty() {
            continue;
        }
        let a = pending[k].remove(0);
        out.push(nw_msg(rng, ts, &a));
        ts += 50 + rng.below(200) as u32;
    }
    out
}

fn gen(rng: &mut Rng, tier: u32) -> String {
    let pool = pool();
    let n = 1 + rng.below(if tier > 0 { 40 } else { 15 }) as usize;
    let mut msgs: Vec<Vec<u8>> = vec![];
    // runs of consecutive example messages, from random places
    let synth = rng.chance(3);
    if rng.chance(5) {
        msgs.extend(synth_someip(rng));
    }
    while msgs.len() < n && !pool.is_empty() {
        if synth && rng.chance(2) {
            let m = synth_non_verbose(rng);
            if !m.is_empty() {
                msgs.push(m);
            }
            continue;
        }
        let start = rng.below(pool.len() as u64) as usize;
        let run = 1 + rng.below(6) as usize;
        for k in 0..run {
            if let Some(m) = pool.get(start + k) {
                let mut m = m.clone();
                // sometimes turn the message into one the rewrite plugin looks at (SYS / JOUR ids)
                if rng.chance(12) && m.len() > 16 + 4 + 10 && m[16] & 1 == 1 {
                    let off = 16 + 4 + if m[16] & 4 != 0 { 4 } else { 0 } + if m[16] & 8 != 0 { 4 } else { 0 } + if m[16] & 16 != 0 { 4 } else { 0 };
                    if m.len() >= off + 10 {
                        m[off + 2..off + 6].copy_from_slice(b"SYS\0");
                        m[off + 6..off + 10].copy_from_slice(b"JOUR");
                    }
                }
                // sometimes another ECU id (storage header) to have several ECUs
                if rng.chance(5) {
                    let e = [b"ECUA", b"ECUB", b"E\0\0\0"][rng.below(3) as usize];
                    m[12..16].copy_from_slice(e);
                }
                msgs.push(m);
            }
        }
    }
    msgs.truncate(n.max(12));
    let body = msgs.iter().map(|m| hex(m)).collect::<Vec<_>>().join(";");
    if rng.chance(3) {
        format!("A | {}", body)
    } else {
        let all = ["N", "S", "C", "M", "R", "F"];
        let mut order: Vec<&str> = all.iter().copied().filter(|_| rng.chance(2)).collect();
        for i in (1..order.len()).rev() {
            let j = rng.below(i as u64 + 1) as usize;
            order.swap(i, j);
        }
        format!("P {} | {}", order.join(","), body)
    }
}

impl Area for Plg {
    fn gen(&self, rng: &mut Rng, tier: u32) -> String {
        gen(rng, tier)
    }
    fn run(&self, case: &str) -> String {
        run(case)
    }
}
