//! lifecycle detection: `parse_lifecycles_buffered_from_stream` (C05, C06, C07, C08)
use crate::{Area, Rng};
use adlt::dlt::*;
use adlt::lifecycle::*;
use std::sync::mpsc::channel;

pub struct Lc;

#[derive(Clone, Copy)]
pub struct M {
    pub ecu: u8,
    pub recv: u64,
    pub ts: u32,
    pub has_ts: bool,
    pub ctrl: bool,
}

pub fn mk(m: &M) -> DltMessage {
    let mut v = vec![b'D', b'L', b'T', 1];
    v.extend_from_slice(&((m.recv / 1_000_000) as u32).to_le_bytes());
    v.extend_from_slice(&((m.recv % 1_000_000) as u32).to_le_bytes());
    v.extend_from_slice(&[b'E', b'C', b'U', b'0' + m.ecu]);
    let mut htyp = 0x20u8;
    if m.has_ts {
        htyp |= 0x10;
    }
    if m.ctrl {
        htyp |= 1;
    }
    let len = 4 + if m.has_ts { 4 } else { 0 } + if m.ctrl { 10 + 4 } else { 0 };
    v.extend_from_slice(&[htyp, 0, 0, len as u8]);
    if m.has_ts {
        v.extend_from_slice(&m.ts.to_be_bytes());
    }
    if m.ctrl {
        v.extend_from_slice(&[(3 << 1) | (1 << 4), 1]);
        v.extend_from_slice(b"APIDCTID");
        v.extend_from_slice(&[1, 0, 0, 0]);
    }
    let mut msg = parse_dlt_with_storage_header(0, &v).unwrap().1;
    if !m.has_ts {
        msg.timestamp_dms = m.ts; // the field may still be set by converters
    }
    msg
}

pub fn parse_case(case: &str) -> Vec<M> {
    case.split(';')
        .filter(|s| !s.is_empty())
        .map(|s| {
            // (a 6th field, the boot number of clean traces, is ground truth for the oracle only)
            let f: Vec<u64> = s.split(',').map(|x| x.trim().parse().unwrap()).collect();
            M { ecu: f[0] as u8, recv: f[1], ts: f[2] as u32, has_ts: f[3] == 1, ctrl: f[4] == 1 }
        })
        .collect()
}

pub fn fmt_case(msgs: &[M]) -> String {
    msgs.iter()
        .map(|m| format!("{},{},{},{},{}", m.ecu, m.recv, m.ts, m.has_ts as u8, m.ctrl as u8))
        .collect::<Vec<_>>()
        .join(";")
}

fn same_but_lc(a: &DltMessage, b: &DltMessage) -> bool {
    a.index == b.index
        && a.reception_time_us == b.reception_time_us
        && a.ecu == b.ecu
        && a.timestamp_dms == b.timestamp_dms
        && a.standard_header.htyp == b.standard_header.htyp
        && a.standard_header.mcnt == b.standard_header.mcnt
        && a.standard_header.len == b.standard_header.len
        && a.extended_header.is_some() == b.extended_header.is_some()
        && a.payload == b.payload
}

pub fn run_msgs(msgs: &[M]) -> String {
    let (tx, rx) = channel();
    let mut sent = vec![];
    for (i, m) in msgs.iter().enumerate() {
        let mut d = mk(m);
        d.index = i as u32;
        sent.push(mk(m));
        sent[i].index = i as u32;
        tx.send(d).unwrap();
    }
    drop(tx);
    let (tx2, rx2) = channel();
    let (lcs_r, lcs_w) = evmap::Options::default()
        .with_hasher(nohash_hasher::BuildNoHashHasher::<LifecycleId>::default())
        .construct::<LifecycleId, LifecycleItem>();
    let lr = lcs_r.clone();
    let _w = parse_lifecycles_buffered_from_stream(lcs_w, rx, &|m| {
        // what any reader of the shared table sees at the moment of delivery
        let vis = lr.get_one(&m.lifecycle).map_or(false, |l| l.ecu == m.ecu);
        tx2.send((m, vis)).map_err(|e| std::sync::mpsc::SendError(e.0 .0))
    });
    let mut ids: Vec<u32> = vec![];
    let mut strs = vec![];
    for (m, vis) in rx2.try_iter() {
        let k = if m.lifecycle == 0 {
            0
        } else {
            match ids.iter().position(|x| *x == m.lifecycle) {
                Some(k) => k + 1,
                None => {
                    ids.push(m.lifecycle);
                    ids.len()
                }
            }
        };
        let same = sent.get(m.index as usize).map_or(false, |o| same_but_lc(o, &m));
        strs.push(format!("{}:{}:{}:{}", m.index, k, vis as u8, same as u8));
    }
    let r = lcs_r.read().unwrap();
    let canon = |k: &u32| ids.iter().position(|x| x == k).map_or(0, |p| p + 1);
    let mut t: Vec<String> = r
        .iter()
        .map(|(k, v)| {
            let l = v.get_one().unwrap();
            let e = l.ecu.as_u32le().to_le_bytes()[3].wrapping_sub(b'0');
            format!("{},{},{},{},{},{},{}", canon(k), e, l.nr_msgs, l.start_time, l.end_time(), l.is_resume() as u8, l.resume_start_time())
        })
        .collect();
    t.sort();
    // the listing shown to users (C07): canonical id, start, relative raw id of the lifecycle it resumes, own relative raw id
    // (relative raw ids keep the order of the real ids, which the sort key uses)
    let min_id = r.iter().map(|(k, _)| *k).min().unwrap_or(1);
    let listing = match std::panic::catch_unwind(std::panic::AssertUnwindSafe(|| {
        get_sorted_lifecycles_as_vec(&r)
            .iter()
            .map(|l| {
                #[cfg(adlt_verif)]
                let res = l.resume_lc_id().map_or(0, |i| if i >= min_id { i - min_id + 1 } else { 999_999 });
                #[cfg(not(adlt_verif))]
                let res = 0;
                format!("{},{},{},{},{}", canon(&l.id()), l.start_time, res, l.id() - min_id + 1, l.resume_start_time())
            })
            .collect::<Vec<_>>()
            .join(" ")
    })) {
        Ok(s) => s,
        Err(_) => "PANIC".to_string(),
    };
    format!("{} | {} | {}", strs.join(" "), t.join(" "), listing)
}

const S: u64 = 1_700_000_000_000_000;

fn gen_random(rng: &mut Rng, maxn: u64) -> Vec<M> {
    let n = 1 + rng.below(maxn) as usize;
    let necu = 1 + rng.below(3) as u8;
    let mut recv = S;
    let mut msgs = vec![];
    let mut base: [u64; 3] = [S, S, S];
    for _ in 0..n {
        let e = rng.below(necu as u64) as u8;
        recv += match rng.below(7) {
            0 => 0,
            1 => 1000,
            2 => 1_000_000,
            3 => 20_000_000,
            4 => 70_000_000,
            5 => 130_000_000,
            _ => 500_000,
        };
        let recv_m = if rng.below(12) == 0 { recv.saturating_sub(rng.below(5_000_000)) } else { recv };
        if rng.below(5) == 0 {
            base[e as usize] = recv - rng.below(3) * 30_000_000;
        }
        let ts_us = match rng.below(9) {
            0 => 0,
            1 => recv.saturating_sub(base[e as usize]) + 50_000_000,
            2 => recv_m.saturating_sub(S) + 1_800_000_000_000_000,
            _ => recv.saturating_sub(base[e as usize]).saturating_sub(rng.below(3) * 40_000_000),
        };
        msgs.push(M {
            ecu: e,
            recv: recv_m,
            ts: (ts_us / 100).min(u32::MAX as u64) as u32,
            has_ts: rng.below(10) != 0,
            ctrl: rng.below(12) == 0,
        });
    }
    msgs
}

/// a generated stream as case text (used by other areas)
pub fn gen_stream(rng: &mut Rng, maxn: u64) -> String {
    fmt_case(&gen_random(rng, maxn))
}

impl Area for Lc {
    fn gen(&self, rng: &mut Rng, tier: u32) -> String {
        let maxn = if tier == 0 { 16 } else { 40 };
        fmt_case(&gen_random(rng, maxn))
    }
    fn run(&self, case: &str) -> String {
        run_msgs(&parse_case(case))
    }
}

// ---------------------------------------------------------------------------------------------
/// C08: cleanly separated power cycles with ground truth (`ecu,recv,ts,1,0,boot`)
pub struct Lc8;

fn gen_clean(rng: &mut Rng, tier: u32) -> String {
    let necu = 1 + rng.below(if tier > 0 { 4 } else { 3 }) as usize;
    let mut streams: Vec<Vec<(usize, usize, u64, u64)>> = vec![]; // ecu, boot, recv, ts_dms
    for e in 0..necu {
        let mut st = vec![];
        let t = S + rng.below(51) * 1_000_000;
        let mut prev: Option<(u64, u64, u64)> = None; // S, E, last recv
        let nboots = 1 + rng.below(if tier > 0 { 6 } else { 4 });
        for b in 0..nboots {
            let n = *rng.pick(&[1usize, 2, 3, 5, 8]);
            let first = match rng.below(4) {
                0 | 1 => 0,
                2 => 1 + rng.below(300_000),
                _ => 1 + rng.below(50_000),
            };
            let mut ts: Vec<u64> = vec![first];
            for _ in 1..n {
                let span = *rng.pick(&[1000u64, 100_000, 3_000_000]);
                ts.push(first + rng.below(span + 1));
            }
            ts.sort();
            ts.dedup();
            let maxts = ts.iter().max().unwrap() * 100;
            let mints = ts.iter().min().unwrap() * 100;
            let mut s_b;
            let mut tries = 0;
            loop {
                s_b = match prev {
                    None => t,
                    Some((_, pe, _)) => match rng.below(10) {
                        0..=5 => {
                            let d = *rng.pick(&[1u64, 1000, 1_000_000, 15_000_000, 200_000_000]);
                            pe + d
                        }
                        6 | 7 => pe.saturating_sub(rng.below(30_000_001)),
                        _ => pe.saturating_sub(rng.below(2_000_000)),
                    },
                };
                tries += 1;
                // clean: every message of this boot is received after every message of the previous boot (off-time >= 1 ms)
                let ok = match prev {
                    None => true,
                    Some((_, _, plast)) => s_b + mints > plast + 1000,
                };
                if ok || tries > 50 {
                    if !ok {
                        s_b = prev.unwrap().2 + 1001;
                    }
                    break;
                }
            }
            let mut msgs: Vec<(usize, usize, u64, u64)> = ts.iter().map(|x| (e, b as usize, s_b + x * 100, *x)).collect();
            // any order inside the boot
            for i in (1..msgs.len()).rev() {
                let j = rng.below(i as u64 + 1) as usize;
                msgs.swap(i, j);
            }
            st.extend(msgs);
            prev = Some((s_b, s_b + maxts, s_b + maxts));
        }
        streams.push(st);
    }
    let mut out = vec![];
    let mut ix = vec![0usize; necu];
    loop {
        let avail: Vec<usize> = (0..necu).filter(|e| ix[*e] < streams[*e].len()).collect();
        if avail.is_empty() {
            break;
        }
        let e = avail[rng.below(avail.len() as u64) as usize];
        let m = streams[e][ix[e]];
        out.push(format!("{},{},{},1,0,{}", m.0, m.2, m.3, m.1));
        ix[e] += 1;
    }
    out.join(";")
}

impl Area for Lc8 {
    fn gen(&self, rng: &mut Rng, tier: u32) -> String {
        gen_clean(rng, tier)
    }
    fn run(&self, case: &str) -> String {
        run_msgs(&parse_case(case))
    }
}
