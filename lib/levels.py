"""Per-property level texts for MANIFEST.json (data only)."""
NOT_APPLICABLE = {}
LEVELS = {
 'C05': {
  'text': 'Proof: for every message list the model of parse_lifecycles_buffered_from_stream delivers each message exactly once, in input order, unchanged except for the lifecycle field (C05_once_in_order), and each delivered id is, at delivery, in the shared table with the message\'s ECU (C05_assigned_own_ecu). The model is tied to the working tree by a differential run (thousands of generated streams + corpus) and the same executable statement is evaluated on the implementation\'s output.',
  'note': 'Trusted: Lean kernel; hand-written model (tied by correspondence only on the generated cases); evmap semantics (update invisible until refresh); HashMap iteration order modelled as insertion order; 100k-message periodic refresh not in the model (harness indices stay below it); non-zero id clause is checked by the oracle on the implementation output, the theorem for it is pending.',
 },
 'C06': {
  'text': 'Proof: for every message list and every delivery point, the lifecycle id of the delivered message is already in the reader-visible table with the message\'s ECU (C06_published_first, no side condition), via an inductive invariant over all detector states (C06_invariant). Correspondence: the harness looks the id up through a cloned evmap ReadHandle inside the outflow closure at each delivery.',
  'note': 'Trusted: Lean kernel; model tied by correspondence; evmap cross-thread visibility after refresh is evmap\'s contract; consumer pacing is irrelevant because publication happens-before the outflow call in the same thread (modelled as sequential).',
 },
 'C07': {
  'text': 'Proof (listing): for every table the model of get_sorted_lifecycles_as_vec is a permutation of the table (each lifecycle once), can always be produced (total sort key), is ordered by start time when no resume exists, and never lists a resumed lifecycle before its origin (C07_listing_*). Table-vs-messages part: the executable statement Spec.C07 (ids listed once, every delivered id listed with its ECU, exact counts, no unreferenced entry, counts sum to the number of messages) is evaluated on the implementation\'s output of every generated stream, and model==impl is checked on the table; its Lean proof over the detector model is work in progress (see DESIGN.md).',
  'note': 'Trusted: Lean kernel; model tied by correspondence; Rust slice::sort_by_cached_key as a stable sort by a totally ordered key; evmap; the theorem C07_listing_resume assumes the origin has the smaller id (checked by the oracle on every implementation table).',
 },
 'C01': {
  'text': 'Proof (per message / per garbage byte): for every well-formed message (all header-flag combinations, both byte orders, any payload up to the 16-bit limit, any id/counter bytes) followed by any bytes on which the corruption heuristic does not fire, the model of parse_dlt_with_storage_header / _serial_header returns exactly that message (every header field, every payload byte) and consumes exactly its length; at any non-marker offset the parsers answer invalid (one byte skipped). The whole-stream statement (exact message list, consecutive indices, skipped = garbage, processed <= input) is the executable Spec.C01, evaluated on the implementation output for every generated in-range stream; its inductive proof over the iterator model is being added.',
  'note': 'Trusted: Lean kernel; model tied to DltMessageIterator over a Cursor by the differential run (0 disagreements required); header-size constants regenerated from the Rust sources (C01_consts).',
 },
 'C02': {
  'text': 'Proof of the re-parse step (a written well-formed message parses back consuming exactly its bytes, from the C01 lemma) plus evaluation of the full executable round-trip statement Spec.C02one (fields preserved, bytes consumed = bytes written, second write byte-identical) on the bytes DltMessage::to_write really produced, for every message of every generated stream; model toWrite == implementation bytes is part of the correspondence.',
  'note': 'Trusted: Lean kernel; model tied by the differential run; the theorem relating toWrite to a well-formed raw message (normal form) is being added; messages outside the property range (storage micros >= 10^6) are generated but skipped by the oracle.',
 },
 'C10': {
  'text': 'Proof, full statement: for every stream, lifecycle table, window size and minimum delay the model of buffer_sort_messages outputs a permutation of its input (C10_perm); and whenever reception times are non-decreasing, indices increase and every message is delayed by at most the minimum buffering delay, the output is ordered by (calculated time, index) (C10_sorted, invariant over heap + emitted prefix, using only threshold >= minimum). Model tied to the real function by a differential run over thousands of generated streams incl. the sliding-window bookkeeping (compared up to the unspecified order of BinaryHeap ties).',
  'note': 'Trusted: Lean kernel; model tied by correspondence; BinaryHeap as a priority multiset; evmap read of a static table; mpsc channel as FIFO. windows_size_secs >= 1 (0 underflows in the code; outside the property range).',
 },
 'C20': {
  'text': 'Proof (chain half, full statement): for every split of a byte string into volumes (empty ones anywhere) and every finite sequence of read(n)/seek(Start|Current|End), the answers of the SeekableChain model are legal answers of one Read+Seek object holding the concatenation (C20_chain_refines, simulation invariant over chain position and every underlying reader position; short reads legal, no early end-of-data). The model is compared value-for-value with SeekableChain over Cursors, and the contract is evaluated on the implementation answers. Extraction half (zip members, glob, confinement): see DESIGN.md - decided by the same check once its model is registered; until then only the chain half is claimed here.',
  'note': 'Trusted: Lean kernel; model tied by the differential run; underlying readers modelled as Cursors (seek to any position, read returns the available bytes); u64 overflow of positions not modelled; zip crate, enclosed_name, glob and the file system for the extraction half.',
 },
}
