"""Registry of properties -> area, theorems, case budgets.  (Data only.)"""

AREAS = {
    'lc': {
        'shrink_sep': ';',
        'rule': 'random streams of 1-16 (thorough: 1-40) messages over 1-3 ECUs: reception jumps 0..130 s, '
                'non-monotonic reception, timestamps 0 / plausible / beyond reception / u32::MAX, missing-timestamp flag, '
                'control requests; a case is non-trivial when the model run takes at least one of the tagged branches '
                '(second lifecycle for an ECU, resume, control request, missing timestamp, several ECUs, merge); distinct = distinct case text',
    },
    'srt': {
        'shrink_sep': ';', 'head_sep': '| ',
        'rule': 'streams of 1-30 (thorough: 1-80) messages over 1-4 lifecycles / 1-3 ECUs with a static lifecycle table (some lifecycles missing), '
                'window 1-5 s, minimum delay 0 / 0.1 / 2 / 20 s; half of the cases satisfy the ordering hypothesis (monotone reception, '
                'increasing indices, delay within the bound), the other half violate it (delays up to 100 s, non-monotone reception, '
                'duplicate indices, timestamps 0 / u32::MAX); non-trivial = tagged branch (reordered, ctrl, missing lifecycle, several ECUs...)',
    },
    'chn': {
        'shrink_sep': ' ', 'head_sep': '| ',
        'rule': 'chains of 1-5 (thorough: 1-8) Cursor volumes of length 0/1/0-11 (empty volumes in a third of the positions) under scripts of '
                '1-14 (thorough: 1-40) operations read(0..8) / seek(Start 0..total+3) / seek(Current -total-3..total+2) / seek(End -total-2..+3); '
                'non-trivial = tagged (empty volume, several volumes, seek past the end, negative target, data returned)',
    },
    'dp': {
        'shrink_sep': ';', 'head_sep': None,
        'rule': 'byte streams built from items: well-formed messages (all 32 combinations of the optional header parts, both byte orders, '
                'payload 0..300 bytes, thorough: up to the 16-bit maximum) and garbage runs (0..70 bytes, thorough: up to 3 KiB); two thirds of '
                'the cases are in the range of C01 (marker-free bytes incl. near-marker bytes D L T S, one framing), one third malformed '
                '(markers inside payloads, wrong lengths, mixed framing, truncation); non-trivial = the model run tags at least one branch '
                '(message recognised, bytes skipped, header-part flags, payload classes)',
    },
}

def _lc_project(s):
    # the listing section (3rd) is produced by the implementation only; it is judged by the oracle, not compared
    return ' | '.join(s.split(' | ')[:2])


PROPS = {
    'C01': {
        'id': 'C01', 'area': 'dp',
        'theorems': ['Props.C01_consts', 'Props.C01_storage_at_msg', 'Props.C01_serial_at_msg', 'Props.C01_at_garbage'],
        'n_quick': 3000, 'n_thorough': 30000,
    },
    'C02': {
        'id': 'C02', 'area': 'dp',
        'theorems': ['Props.C02_written_parses'],
        'n_quick': 3000, 'n_thorough': 30000,
    },
    'C10': {
        'id': 'C10', 'area': 'srt',
        'theorems': ['Props.C10_perm', 'Props.C10_sorted', 'Props.C10_threshold_ge_min'],
        'n_quick': 4000, 'n_thorough': 150000,
    },
    'C20': {
        'id': 'C20', 'area': 'chn',
        'theorems': ['Props.C20_chain_refines', 'Props.C20_read_progress'],
        'n_quick': 5000, 'n_thorough': 200000,
    },
    'C05': {
        'id': 'C05', 'area': 'lc',
        'theorems': ['Props.C05_once_in_order', 'Props.C05_assigned_own_ecu'],
        'n_quick': 4000, 'n_thorough': 120000, 'project': _lc_project,
    },
    'C06': {
        'id': 'C06', 'area': 'lc',
        'theorems': ['Props.C06_published_first', 'Props.C06_invariant'],
        'n_quick': 4000, 'n_thorough': 120000, 'project': _lc_project,
    },
    'C07': {
        'id': 'C07', 'area': 'lc',
        'theorems': ['Props.C07_listing_perm', 'Props.C07_listing_sorted', 'Props.C07_listing_noresume',
                     'Props.C07_listing_resume'],
        'n_quick': 4000, 'n_thorough': 120000, 'project': _lc_project,
    },
}
