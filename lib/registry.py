"""Registry of properties -> area, theorems, case budgets.  (Data only.)"""

AREAS = {
    'lc': {
        'shrink_sep': ';',
        'rule': 'random streams of 1-16 (thorough: 1-40) messages over 1-3 ECUs: reception jumps 0..130 s, '
                'non-monotonic reception, timestamps 0 / plausible / beyond reception / u32::MAX, missing-timestamp flag, '
                'control requests; a case is non-trivial when the model run takes at least one of the tagged branches '
                '(second lifecycle for an ECU, resume, control request, missing timestamp, several ECUs, merge); distinct = distinct case text',
    },
}

def _lc_project(s):
    # the listing section (3rd) is produced by the implementation only; it is judged by the oracle, not compared
    return ' | '.join(s.split(' | ')[:2])


PROPS = {
    'C05': {
        'id': 'C05', 'area': 'lc',
        'theorems': ['Props.C05_once_in_order', 'Props.C05_assigned_own_ecu'],
        'n_quick': 4000, 'n_thorough': 120000, 'project': _lc_project,
    },
    'C06': {
        'id': 'C06', 'area': 'lc',
        'theorems': ['Props.C06_published_first', 'Props.C06_invariant'],
        'n_quick': 4000, 'n_thorough': 120000, 'project': _lc_project,
    },
    'C07': {
        'id': 'C07', 'area': 'lc',
        'theorems': ['Props.C07_listing_perm', 'Props.C07_listing_sorted', 'Props.C07_listing_noresume',
                     'Props.C07_listing_resume'],
        'n_quick': 4000, 'n_thorough': 120000, 'project': _lc_project,
    },
}
