"""Registry of properties -> area, theorems, case budgets.  (Data only.)"""

AREAS = {
    'lc': {
        'shrink_sep': ';',
        'rule': 'random streams of 1-16 (thorough: 1-40) messages over 1-3 ECUs: reception jumps 0..130 s, '
                'non-monotonic reception, timestamps 0 / plausible / beyond reception / u32::MAX, missing-timestamp flag, '
                'control requests; a case is non-trivial when the model run takes at least one of the tagged branches '
                '(second lifecycle for an ECU, resume, control request, missing timestamp, several ECUs, merge); distinct = distinct case text',
    },
    'dp': {
        'shrink_sep': ';', 'head_sep': None,
        'rule': 'byte streams built from items: well-formed messages (all 32 combinations of the optional header parts, both byte orders, '
                'payload 0..300 bytes, thorough: up to the 16-bit maximum) and garbage runs (0..70 bytes, thorough: up to 3 KiB); two thirds of '
                'the cases are in the range of C01 (marker-free bytes incl. near-marker bytes D L T S, one framing), one third malformed '
                '(markers inside payloads, wrong lengths, mixed framing, truncation); non-trivial = the model run tags at least one branch '
                '(message recognised, bytes skipped, header-part flags, payload classes)',
    },
}

def _lc_project(s):
    # the listing section (3rd) is produced by the implementation only; it is judged by the oracle, not compared
    return ' | '.join(s.split(' | ')[:2])


PROPS = {
    'C01': {
        'id': 'C01', 'area': 'dp',
        'theorems': ['Props.C01_consts', 'Props.C01_storage_at_msg', 'Props.C01_serial_at_msg', 'Props.C01_at_garbage'],
        'n_quick': 3000, 'n_thorough': 30000,
    },
    'C02': {
        'id': 'C02', 'area': 'dp',
        'theorems': ['Props.C02_written_parses'],
        'n_quick': 3000, 'n_thorough': 30000,
    },
    'C05': {
        'id': 'C05', 'area': 'lc',
        'theorems': ['Props.C05_once_in_order', 'Props.C05_assigned_own_ecu'],
        'n_quick': 4000, 'n_thorough': 120000, 'project': _lc_project,
    },
    'C06': {
        'id': 'C06', 'area': 'lc',
        'theorems': ['Props.C06_published_first', 'Props.C06_invariant'],
        'n_quick': 4000, 'n_thorough': 120000, 'project': _lc_project,
    },
    'C07': {
        'id': 'C07', 'area': 'lc',
        'theorems': ['Props.C07_listing_perm', 'Props.C07_listing_sorted', 'Props.C07_listing_noresume',
                     'Props.C07_listing_resume'],
        'n_quick': 4000, 'n_thorough': 120000, 'project': _lc_project,
    },
}
