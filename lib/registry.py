"""Registry of properties -> area, theorems, case budgets.  (Data only.)"""

AREAS = {
    'lc': {
        'shrink_sep': ';',
        'rule': 'random streams of 1-16 (thorough: 1-40) messages over 1-3 ECUs: reception jumps 0..130 s, '
                'non-monotonic reception, timestamps 0 / plausible / beyond reception / u32::MAX, missing-timestamp flag, '
                'control requests; a case is non-trivial when the model run takes at least one of the tagged branches '
                '(second lifecycle for an ECU, resume, control request, missing timestamp, several ECUs, merge); distinct = distinct case text',
    },
    'srt': {
        'shrink_sep': ';', 'head_sep': '| ',
        'rule': 'streams of 1-30 (thorough: 1-80) messages over 1-4 lifecycles / 1-3 ECUs with a static lifecycle table (some lifecycles missing), '
                'window 1-5 s, minimum delay 0 / 0.1 / 2 / 20 s; half of the cases satisfy the ordering hypothesis (monotone reception, '
                'increasing indices, delay within the bound), the other half violate it (delays up to 100 s, non-monotone reception, '
                'duplicate indices, timestamps 0 / u32::MAX); non-trivial = tagged branch (reordered, ctrl, missing lifecycle, several ECUs...)',
    },
    'chn': {
        'shrink_sep': ' ', 'head_sep': '| ',
        'rule': 'chains of 1-5 (thorough: 1-8) Cursor volumes of length 0/1/0-11 (empty volumes in a third of the positions) under scripts of '
                '1-14 (thorough: 1-40) operations read(0..8) / seek(Start 0..total+3) / seek(Current -total-3..total+2) / seek(End -total-2..+3); '
                'non-trivial = tagged (empty volume, several volumes, seek past the end, negative target, data returned)',
    },
    'lm': {
        'shrink_sep': ' ', 'head_sep': None,
        'rule': 'LowMarkBufReader over a scripted short-read source: low mark 1..6000, capacity = low mark + 4096 + 0..5000, source 0..30000 bytes, '
                '0-40 scripted read sizes (1, 1-10, 4096, 1-5000, 1-300; then unlimited), 1-40 (thorough 1-80) operations '
                'fill / consume 0-5000 / read 0-3000 / seek(Start) around the position / seek(Current -4000..2000)',
    },
    'lw': {
        'shrink_sep': None,
        'rule': 'DltMessageIterator over LowMarkBufReader(production low mark, capacity low+4096 / +0..5000 / 512 KiB) over a scripted short-read source '
                '(read sizes 1, 1-10, 4096, 65551, 65555, 1-70000, 1-300) vs the model parse of the whole byte string: streams of 2 KB-220 KB '
                '(thorough -470 KB) with small, medium and maximum-size messages, short garbage, and in a third of the cases maximum-size messages '
                'with an embedded marker followed by non-marker bytes, half of them with a first read that ends exactly at the message end (+0..3)',
    },
    'pos': {
        'shrink_sep': ';', 'head_sep': ' ',
        'rule': 'a suffix S (up to 4 items of the dp generator - messages and garbage, clean or malformed, cut to 300 bytes each - and in 5 of 8 cases a '
                'directed front: a truncated message that embeds a complete message of either framing, a message the corrupt-message heuristic rejects '
                'that embeds complete messages of both framings, garbage followed by a frame of the other framing) read by DltMessageIterator '
                '(A) alone, (B) behind k1 and (C) behind k2 complete marker-free messages of its framing, 1 <= k1 < k2 <= 6, start index chosen so that '
                'the messages of S are numbered alike; B = C is demanded (theorem C04_position_independent_partial), A = B is the clause of the known finding',
    },
    'ft': {
        'shrink_sep': ';', 'head_sep': ' | ',
        'rule': '1-3 concurrent transfers (package size 1-6 / thorough 1-40, 1-5 / 1-12 packages, last package full or shorter, in one of ten an empty file (one package without data), announced size true or - as a fault that must prevent completion - 0, '
                'serials occasionally colliding) each with 0-2 faults (drop, duplicate-and-move, swap, resize, renumber, corrupt announcement) interleaved at '
                'random with each other and with unrelated messages; every transfer is labelled from its final event sequence (in order / in order with '
                'repeats / package missing or out of order / other); announced file names by serial: absolute, leading outside (../), with directory parts, `plain.bin` (exists already in the save directory), ending in `..`, colliding base names; in half of the cases a second plugin instance runs with automatic saving (glob * or *.bin) into a fresh directory: every file found there and the number of files created elsewhere are compared; non-trivial = tagged (complete, incomplete, missing FLST, duplicates, damaging fault, concurrent, auto-saved)',
    },
    'pipe': {
        'shrink_sep': ';', 'head_sep': '| ',
        'rule': 'real threads: producer -> lifecycle detection -> plugin stage -> [time sort] -> stream filter -> consumer, connected by sync_channel of '
                'capacity 0 (rendezvous) / 1 / 2 / 3 / 7 / 1000 chosen per channel, sends through sync_sender_send_delay_if_full, 0-2 producer and consumer '
                'stalls of 1-12 ms at random points, consumer loss after k messages in a quarter of the cases, sorted in a quarter, ECU filter in a third; '
                'streams of 1-12 (thorough 1-24) messages from the lifecycle generator; each case also runs the same stages with unbounded channels',
    },
    'mrg': {
        'shrink_sep': ';', 'head_sep': ' | ',
        'rule': 'families of 0-6 sources with 0-12 (thorough 0-40) messages each (a fifth of the sources empty; in one of forty families a run of 20 000-50 000 empty sources), reception times all equal / '
                'non-decreasing with ties / increasing / unordered, start index 0-1999, through SortingMultiReaderIterator::new, '
                'SequentialMultiIterator::new and both new_or_single_it variants; non-trivial = tagged (ties, empty source, unordered source, single, multi)',
    },
    'flt': {
        'shrink_sep': ';', 'head_sep': None,
        'rule': '1-4 (thorough 1-6) abstract filters (kind, enabled, negated, ECU/APID/CTID as literal / regex / flag omitted (auto-detection) / over-long / '
                'non-compiling, type value via verb_mstp_mtin or mstp, level bounds, payload literal or regex with/without ignore-case, lifecycle list) rendered to '
                'JSON, (when expressible) to a dlt-viewer DLF file - in one line and formatted with one element per line - and to an entry of a dlt-convert APID/CTID list (alone and behind the other expressible entries), loaded by the real constructors, serialised and re-loaded; 1-8 (thorough 1-16) messages over a small id '
                'universe (short and full ids), with/without extended header, all 256 type bytes, lifecycles 0-3, payload texts differing in case (text as '
                'computed by Rust); regex verdicts observed with the same crates on exactly the pattern/haystack pairs of the case',
    },
    'arg': {
        'shrink_sep': ';', 'head_sep': ' | ',
        'rule': '0-5 (thorough 0-11) typed values per payload: bool, u/i 8-64 with extreme values, f32/f64 incl. NaN/inf/-0, UTF-8 and ASCII strings '
                '(empty, NUL only, no terminator, CR/LF/TAB, non-UTF-8 / non-ASCII bytes, 65535 bytes), raw data 0-5 bytes; both byte orders via '
                'payload_from_args, host order via the serde serializer; a third of the cases truncated at a random byte, a sixth with one corrupted byte',
    },
    'rlc': {
        'shrink_sep': ';', 'needs_bin': True,
        'rule': 'the lifecycle table a client of the adlt remote binary ends up with: the messages are written to a file, the real binary is started and '
                'told to open it, every Lifecycles update is applied (keyed by id, an entry with 0 messages removes the id) until the whole file is '
                'announced and the server is quiet; the table, listed by the start time sent (the order the server uses), against the final table of '
                'the library for the same messages: half of the cases resume chains whose start estimates cross (2-4 lifecycles, later messages move '
                'the start back by 10-50 s), half random streams of the lc generator; one corpus case with 1.5 million messages (more than the '
                'channels between the lifecycle thread and the connection hold) between the confirmation of a lifecycle and its merge',
    },
    'lc8': {
        'shrink_sep': ';',
        'rule': 'clean traces with ground truth: 1-3 (thorough 1-4) ECUs interleaved arbitrarily, 1-4 (1-6) boots each of 1/2/3/5/8 messages in arbitrary '
                'order inside the boot, first timestamp 0 in half of the boots, boot start (= boot time + delay) after / up to 30 s before / up to 2 s before '
                'the end of the previous boot subject to cleanness (every message received > 1 ms after every message of the previous boot); '
                'non-trivial = tagged (several boots, several ECUs, resume flagged, inside / outside the claimed region)',
    },
    'plg': {
        'shrink_sep': ';', 'head_sep': ' | ',
        'rule': '1-15 (thorough 1-40) messages taken in short runs from the repository example files (lc_ex002/004/006.dlt, ex_1970_1_1.dlt, the CAN traces '
                'through the asc converter), some re-labelled to the ids the rewrite plugin looks at, some moved to other ECUs; two thirds of the cases run a '
                'random subset of the real plugins NonVerbose / SomeIp / CAN / Muniic / Rewrite / FileTransfer (configured from /repo/tests) in a random order '
                'through plugins_process_msgs, one third runs AnonymizePlugin and lifecycle detection on the original and on the anonymised trace',
    },
    'rem': {
        'shrink_sep': ' ;; ', 'head_sep': ' | ', 'needs_bin': True,
        'rule': 'a DLT file of 0-25 (thorough 0-60) verbose messages over 1-2 ECUs / 3 APIDs / 2 CTIDs / 6 payload texts with equal or increasing times, '
                'and a command history of 2-11 (thorough 2-16) commands sent over a websocket to `adlt remote` (binary built from the working tree): '
                'open (also with sort - also over equal calculated times -, of a missing file, twice, with Export / Muniic plugin configurations holding extreme values or unreadable files), close, pause/resume, stream / query with 0-2 positive/negative filters and windows '
                '(empty, beyond the end), stop, stream_change_window, stream_search (all start positions, page sizes 0-4 and 2^32-1 / 2^40 / 2^53), stream_binary_search by index and by time (also far beyond every message), '
                'each also with ids never announced / already stopped / of finished queries, without id, with a malformed or missing body, unknown commands, '
                'fs requests (12 kinds: not JSON, not an object, missing fields, unknown cmd, stat / readDirectory of a directory, a file, a missing path, a corrupt and a real archive) '
                'and plugin_cmd requests; one session in six uses the collect modes one_pass_streams / none / an invalid value with one-pass streams and resume (only reply presence and liveness compared); '
                'the client lets the server catch up before commands whose answer depends on the parsing progress',
    },
    'rsn': {
        'shrink_sep': ';', 'head_sep': ' | ',
        'rule': 'library level: a StreamContext built by StreamContext::from (stream or query, 0-2 positive/negative filters, any window) over 1-80 '
                '(thorough 1-160) messages - one case in 60 (thorough 12) over 140 000-160 000 messages, beyond the part chunk size of the query loop - driven by '
                '2-11 (thorough 2-16) events: n more messages arrive, one server round = process_stream_new_msgs(offset = progress mark, everything new, '
                'max_chunk_size in {0,1,2, small, 64, 65535-65537, 3 000 000, window sized}), window change; three quarters of the cases end with everything '
                'arrived and three full rounds; one case in five models collect mode one_pass_streams: the stream is created after d messages were parsed and '
                'dropped, every round starts at max(min(progress mark, available), d)',
    },
    'c03': {
        'shrink_sep': ';', 'head_sep': ' | ', 'head_last': True,
        'rule': 'whole chain in an isolated worker process (4 GiB address-space limit, 60 s limit): read (DltMessageIterator over LowMarkBufReader / asc / '
                'logcat / generic-log converter by kind) -> header and payload text -> to_write -> EAC statistics -> argument iteration -> 6 filters -> '
                'lifecycle detection -> listing -> all built-in plugins (NonVerbose, SomeIp, CAN, Muniic, Rewrite, FileTransfer, Anonymize; FIBEX/JSON from '
                '/repo/tests) -> time sort -> stream filter. Inputs: slices of the repository example files and synthetic streams (verbose logs with all '
                'argument types, GET_LOG_INFO / sw-version / unregister / connection / timezone responses with extreme counts and lengths, verbose control '
                'messages, non-verbose, file-transfer announcements and packages with extreme sizes, SOME/IP plain and segmented, CAN-like frames; serial '
                'framing; timestamps 0 / u32::MAX / beyond reception; grammar-based lines for .asc / logcat / generic log incl. non-ASCII digits and huge '
                'numbers) under 0-4 corruptions: field-targeted overwrite at header / length / type-info / service-id offsets, truncation, deletion, '
                'insertion, splicing, bit flips; non-trivial = at least one message was read',
    },
    'c03f': {
        'shrink_sep': None,
        'rule': 'function level: parse_ctrl_log_info_payload (status 2-8, structured bodies with 0-3 applications x 0-3 contexts, descriptions, extreme '
                'counts / lengths, truncation, one corrupted byte), parse_ctrl_sw_version / unregister_context / connection_info / timezone payloads of '
                'all lengths around the expected one, the verbose argument iterator on 0-5 (thorough 0-8) arguments of every type incl. VARI / FIXP / '
                'unknown type infos with truncation and corruption, the non-verbose iterator on 0-8 bytes; both byte orders; result of the real function '
                '(or PANIC) vs the checked Lean model',
    },
    'zip': {
        'shrink_sep': None,
        'rule': 'extract_archives on generated zip archives of 0-5 (thorough 0-8) members of 0-9000 bytes (sizes that put the archive across the 2/4/8 KiB marks), a fifth of the multi-entry archives stored in 1-3 volumes and named absolutely / with ./ / by the bare file name: plain, nested, upper-case, hidden, with spaces / brackets / '
                'non-ASCII, empty, and hostile names (../x, /etc/hostname, dir/../../out, .., x/../../y, drive and backslash forms), names that stay inside but do not denote a file (dir/sub/.., b/.), other spellings of listed names (./a.dlt, dir/../a.dlt), directory members, '
                'the single-entry `data` case; patterns: none, **/*, *.dlt, **/*.dlt, dir/*, literal names, [ab]*, ../*, ?, an invalid one, in the '
                '`archive/pattern` and `archive!/pattern` forms; a file exists next to the temporary directory (<tmp>/../evil.dlt). Observed: the reported '
                'paths (canonicalised, relative to the temporary directory), every file found inside it (path, length, content hash) and the number of files '
                'created or reported outside it; glob and enclosed_name verdicts are observed from the crates and handed to the model',
    },
    'cvt': {
        'shrink_sep': ';', 'head_sep': None, 'needs_bin': True,
        'rule': 'the `adlt convert` binary built from the working tree on 1-3 (thorough 1-4) generated DLT files (1-24 / 1-60 messages in total over '
                '2 ECUs, files recorded by ECU 0, ECU 1 or both, one after the other or interleaved, reboots and late timestamps so that several '
                'lifecycles incl. merged ones arise, marker-free garbage between messages, empty and garbage-only files, unique reception times) with a '
                'random option set: -b / -e (also empty and out-of-range windows), --lcs with 1-3 ids, --eac with 1-2 ECU:APID:CTID expressions '
                '(literals, empty parts, regexes), -f with a dlt-viewer DLF document of 1-3 generated filters or a dlt-convert APID/CTID list of 1-3 '
                'entries (ids shorter than 4), --sort, -a / -x / -s / none, -o, the file arguments permuted (sometimes one named twice); every case runs '
                'the binary three times: unfiltered (lifecycle listing), with the options, with the options and the file arguments in another order',
    },
    'dp': {
        'shrink_sep': ';', 'head_sep': None,
        'rule': 'byte streams built from items: well-formed messages (all 32 combinations of the optional header parts, both byte orders, '
                'payload 0..300 bytes, thorough: up to the 16-bit maximum) and garbage runs (0..70 bytes, thorough: up to 3 KiB); two thirds of '
                'the cases are in the range of C01 (marker-free bytes incl. near-marker bytes D L T S, one framing), one third malformed '
                '(markers inside payloads, wrong lengths, mixed framing, truncation); non-trivial = the model run tags at least one branch '
                '(message recognised, bytes skipped, header-part flags, payload classes)',
    },
}

def _lc_project(s):
    # the listing section (3rd) is produced by the implementation only; it is judged by the oracle, not compared
    return ' | '.join(s.split(' | ')[:2])


PROPS = {
    'C01': {
        'id': 'C01', 'area': 'dp',
        'theorems': ['Props.C01_storage_stream', 'Props.C01_serial_stream', 'Props.C01_oracle_hypothesis', 'Props.C01_consts', 'Props.C01_storage_at_msg', 'Props.C01_serial_at_msg', 'Props.C01_at_garbage'],
        'n_quick': 3000, 'n_thorough': 30000,
    },
    'C02': {
        'id': 'C02', 'area': 'dp',
        'theorems': ['Props.C02_roundtrip', 'Props.C02_roundtrip_alone', 'Props.C02_parsed_in_range', 'Props.C02_written_parses'],
        'n_quick': 3000, 'n_thorough': 30000,
    },
    'C10': {
        'id': 'C10', 'area': 'srt',
        'theorems': ['Props.C10_perm', 'Props.C10_sorted', 'Props.C10_threshold_ge_min'],
        'n_quick': 4000, 'n_thorough': 150000,
    },
    'C20': {
        'id': 'C20', 'area': ['chn', 'zip'],
        'theorems': ['Props.C20_chain_refines', 'Props.C20_read_progress', 'Props.C20_extract_confined', 'Props.C20_extract_sound', 'Props.C20_extract_exact',
                     'Props.C20_land_faithful', 'Props.C20_land_all'],
        'n_quick': [5000, 1500], 'n_thorough': [200000, 60000],
    },
    'C04': {
        'id': 'C04', 'area': ['lm', 'lw', 'pos'],
        'theorems': ['Props.C04_reader_invariant', 'Props.C04_fill_hands_out_source', 'Props.C04_read_in_order',
                     'Props.C04_seek_within_buffer', 'Props.C04_parse_window', 'Props.C04_min_buffer_suffices', 'Props.C04_ready_invariant', 'Props.C04_low_mark_kept',
                     'Props.C04_read_not_early', 'Props.C04_chunking_independent', 'Props.C04_chunking_independent_from',
                     'Props.C04_position_independent_partial', 'Props.C04_position_unlatched_witness', 'Props.C04_consts'],
        'n_quick': [1500, 60, 1500], 'n_thorough': [40000, 1500, 60000],
    },
    'C17': {
        'id': 'C17', 'area': 'ft',
        'theorems': ['Props.C17_complete_sound', 'Props.C17_inorder_complete', 'Props.C17_save_confined', 'Props.C17_save_never_overwrites'],
        'n_quick': 5000, 'n_thorough': 200000,
    },
    'C13': {
        'id': 'C13', 'area': 'pipe',
        'theorems': ['Props.C13_safety', 'Props.C13_complete', 'Props.C13_no_deadlock', 'Props.C13_terminates',
                     'Props.C13_loss_never_blocks', 'Props.C13_loss_terminates'],
        'n_quick': 600, 'n_thorough': 20000,
    },
    'C09': {
        'id': 'C09', 'area': 'mrg',
        'theorems': ['Props.C09_perm', 'Props.C09_source_order', 'Props.C09_sorted', 'Props.C09_chain', 'Props.C09_index', 'Props.C09_or_single_multi', 'Props.C09_or_single_numbering_partial', 'Props.C09_single_source_witness'],
        'n_quick': 5000, 'n_thorough': 200000,
    },
    'C11': {
        'id': 'C11', 'area': 'flt',
        'theorems': ['Props.C11_matches', 'Props.C11_noext', 'Props.C11_frontends_agree', 'Props.C11_list_agrees', 'Props.C11_json_roundtrip'],
        'n_quick': 3000, 'n_thorough': 100000,
    },
    'C12': {
        'id': 'C12', 'area': 'flt',
        'theorems': ['Props.C12_stream', 'Props.C12_set', 'Props.C12_agree'],
        'n_quick': 3000, 'n_thorough': 100000,
    },
    'C18': {
        'id': 'C18', 'area': 'arg',
        'theorems': ['Props.C18_roundtrip', 'Props.C18_prefix', 'Props.C18_text', 'Props.C18_decoded_supported', 'Props.C18_corruption_keeps_prefix', 'Props.C18_consts'],
        'n_quick': 5000, 'n_thorough': 200000,
    },
    'C08': {
        'id': 'C08', 'area': 'lc8',
        'theorems': ['Props.C08_same_boot_belongs', 'Props.C08_absorb_same_boot', 'Props.C08_next_boot_fresh', 'Props.C08_clean_trace_exact', 'Props.C08_clean_trace_table', 'Props.C08_excluded_witness'],
        'n_quick': 4000, 'n_thorough': 150000, 'project': _lc_project,
    },
    'C19': {
        'id': 'C19', 'area': 'plg',
        'theorems': ['Props.C19_anon_table_injective', 'Props.C19_anon_format_injective', 'Props.C19_anon_capacity_sharp', 'Props.C19_decoders_conservative', 'Props.C19_decoders_keep_timestamp',
                     'Props.C19_anon_stream_ecu', 'Props.C19_anon_stream_apid', 'Props.C19_anon_stream_ctid', 'Props.C19_anon_stream_bound',
                     'Props.C19_detector_commutes_with_renaming', 'Props.C19_lifecycles_of_renamed_trace'],
        'n_quick': 1500, 'n_thorough': 40000,
    },
    'C15': {
        'id': 'C15', 'area': 'rem',
        'theorems': ['Props.C15_one_reply_each', 'Props.C15_file_open_iff', 'Props.C15_close_then_open', 'Props.C15_id_usable_from_creation',
                     'Props.C15_id_usable_until_ended', 'Props.C15_id_unusable_after_stop_close', 'Props.C15_ids_fresh', 'Props.C15_stop_accepted_iff'],
        'n_quick': 250, 'n_thorough': 4000, 'env': {'VERIF_JOBS': '16'},
    },
    'C16': {
        'id': 'C16', 'area': ['rem', 'rsn'],
        'theorems': ['Props.C16_window_exact', 'Props.C16_sequence_is_filtered_log', 'Props.C16_stream_delivers_window', 'Props.C16_search_paging',
                     'Props.C16_lookup_first_not_before', 'Props.C16_time_lookup', 'Props.C16_any_schedule_invariant', 'Props.C16_settled_is_window',
                     'Props.C16_eventually_settles', 'Props.C16_late_stream_rounds', 'Props.C16_consts'],
        'n_quick': [250, 3000], 'n_thorough': [4000, 150000], 'env': {'VERIF_JOBS': '16'},
    },
    'C03': {
        'id': 'C03', 'area': ['c03', 'c03f'], 'inventory': True,
        'theorems': ['Props.C03_ctrl_parsers_never_panic', 'Props.C03_arg_iteration_never_panics', 'Props.C03_nonverbose_first_arg_is_4_bytes',
                     'Props.C03_lifecycle_never_stops'],
        'n_quick': [4000, 6000], 'n_thorough': [400000, 300000], 'env': {'VERIF_JOBS': '16'},
    },
    'C14': {
        'id': 'C14', 'area': 'cvt',
        'theorems': ['Props.C14_input_numbered', 'Props.C14_select', 'Props.C14_select_sorted', 'Props.C14_each_once',
                     'Props.C14_file_order', 'Props.C14_files_of_a_group_order_free', 'Props.C14_streams_order_free'],
        'n_quick': 400, 'n_thorough': 12000, 'env': {'VERIF_JOBS': '16'},
    },
    'C05': {
        'id': 'C05', 'area': 'lc',
        'theorems': ['Props.C05_once_in_order', 'Props.C05_assigned_own_ecu', 'Props.C05_nonzero_id', 'Props.C05_full', 'Props.C05_never_stops'],
        'n_quick': 4000, 'n_thorough': 120000, 'project': _lc_project,
    },
    'C06': {
        'id': 'C06', 'area': 'lc',
        'theorems': ['Props.C06_published_first', 'Props.C06_invariant'],
        'n_quick': 4000, 'n_thorough': 120000, 'project': _lc_project,
    },
    'C07': {
        'id': 'C07', 'area': ['lc', 'rlc'],
        'theorems': ['Props.C07_listing_perm', 'Props.C07_listing_sorted', 'Props.C07_listing_noresume',
                     'Props.C07_listing_resume', 'Props.C07_listed_once', 'Props.C07_listed_are_live',
                     'Props.C07_live_are_listed', 'Props.C07_counts_sum', 'Props.C07_count_exact',
                     'Props.C07_delivered_listed', 'Props.C07_spec', 'Props.C07_remote_key_ordered'],
        'n_quick': [4000, 60], 'n_thorough': [120000, 2500], 'project': _lc_project, 'env': {'VERIF_JOBS': '16'},
    },
}
