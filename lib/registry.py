"""Registry of properties -> area, theorems, case budgets.  (Data only.)"""

AREAS = {
    'lc': {
        'shrink_sep': ';',
        'rule': 'random streams of 1-16 (thorough: 1-40) messages over 1-3 ECUs: reception jumps 0..130 s, '
                'non-monotonic reception, timestamps 0 / plausible / beyond reception / u32::MAX, missing-timestamp flag, '
                'control requests; a case is non-trivial when the model run takes at least one of the tagged branches '
                '(second lifecycle for an ECU, resume, control request, missing timestamp, several ECUs, merge); distinct = distinct case text',
    },
}

PROPS = {
    'C05': {
        'id': 'C05', 'area': 'lc',
        'theorems': ['Props.C05_once_in_order', 'Props.C05_assigned_own_ecu'],
        'n_quick': 4000, 'n_thorough': 120000,
    },
    'C06': {
        'id': 'C06', 'area': 'lc',
        'theorems': ['Props.C06_published_first', 'Props.C06_invariant'],
        'n_quick': 4000, 'n_thorough': 120000,
    },
}
