import Adlt.Lc.Drv
import Adlt.Dlt.Drv
import Adlt.Sort.Drv
import Adlt.Chain.Drv
import Adlt.Buf.Drv
import Adlt.Ft.Drv
import Adlt.Net.Drv
import Adlt.Merge.Drv
import Adlt.Filter.Drv
import Adlt.Args.Drv
import Adlt.Plugins.Drv
import Adlt.Remote.Drv
import Adlt.Remote.IncrDrv
import Adlt.Convert.Drv
import Adlt.Safe.Drv
import Adlt.Zip.Drv
/-! `driver <area>`: reads `case \t implobs` lines on stdin, prints one result line each. -/
def main (args : List String) : IO UInt32 := do
  let stdin ← IO.getStdin
  match args with
  | ["lc"] => Util.loop stdin Lcm.doLine; return 0
  | ["lc8"] => Util.loop stdin Lcm.doLine8; return 0
  | ["rlc"] => Util.loop stdin Lcm.doLineRlc; return 0
  | ["dp"] => Util.loop stdin Dp.doLine; return 0
  | ["srt"] => Util.loop stdin Srt.doLine; return 0
  | ["chn"] => Util.loop stdin Chn.doLine; return 0
  | ["lm"] => Util.loop stdin Lmk.doLine; return 0
  | ["lw"] => Util.loop stdin Dp.doLineLw; return 0
  | ["pos"] => Util.loop stdin Dp.doLinePos; return 0
  | ["ft"] => Util.loop stdin Ftm.doLine; return 0
  | ["pipe"] => Util.loop stdin Net.doLine; return 0
  | ["mrg"] => Util.loop stdin Mrg.doLine; return 0
  | ["flt"] => Util.loop stdin Flt.doLine; return 0
  | ["arg"] => Util.loop stdin Arg.doLine; return 0
  | ["plg"] => Util.loop stdin Plg.doLine; return 0
  | ["rem"] => Util.loop stdin Rem.doLine; return 0
  | ["rsn"] => Util.loop stdin Inc.doLine; return 0
  | ["cvt"] => Util.loop stdin Cvt.doLine; return 0
  | ["c03"] => Util.loop stdin Safe.doLine; return 0
  | ["c03f"] => Util.loop stdin Safe.doLineF; return 0
  | ["zip"] => Util.loop stdin Zipm.doLine; return 0
  | _ => IO.eprintln "usage: driver <area>"; return 2
