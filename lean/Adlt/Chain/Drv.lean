import Adlt.Chain.Model
import Adlt.Util.Parse
/-! glue. case: `len1 len2 … | ops`  (byte j of the concatenation = (j*5+1)%253; ops `r:k S:n C:d E:d`)
    obs: `r<hexbytes>` / `S<pos>` / `C<pos>` / `E<pos>` / `X` (error) per op -/
namespace Chn
open Util

def mkVols (lens : List Nat) : List (List Nat) :=
  (lens.foldl (fun (acc : Nat × List (List Nat)) n =>
    (acc.1 + n, acc.2 ++ [(List.range n).map fun i => ((acc.1 + i) * 5 + 1) % 253])) (0, [])).2

def parseOp (s : String) : Option Op :=
  match s.splitOn ":" with
  | ["r", n] => some (.read (nat! n))
  | ["S", n] => some (.seekStart (nat! n))
  | ["C", d] => some (.seekCur (int! d))
  | ["E", d] => some (.seekEnd (int! d))
  | _ => none

def showRes : Res → String
  | .data bs => "r" ++ hexOf (bs.map UInt8.ofNat)
  | .pos p => s!"p{p}"
  | .err => "X"

def parseRes (s : String) : Res :=
  if s.startsWith "r" then .data ((hexBytes (s.drop 1).toString).map (·.toNat))
  else if s.startsWith "p" then .pos (nat! (s.drop 1).toString)
  else .err

def doLine (line : String) : String :=
  let (cs, impl) := match line.splitOn "\t" with
    | [c, i] => (c, i)
    | [c] => (c, "")
    | _ => ("", "")
  match (cs.splitOn "|") with
  | [lens, ops] =>
    let vols := mkVols (nats lens " ")
    let ops := (fields ops " ").filterMap parseOp
    let rs := (Chain.new vols).run ops
    let mobs := " ".intercalate (rs.map showRes)
    let orc (obs : String) : String :=
      if obs == "PANIC" then "C20=FAIL:panic" else
      let rs := (fields obs " ").map parseRes
      if rs.length != ops.length then "C20=FAIL:result-count"
      else if contractOk vols.flatten 0 ops rs then "C20=ok" else "C20=FAIL:read-seek-contract"
    let tags : List String :=
      (if vols.any (·.isEmpty) then ["empty-volume"] else []) ++ (if vols.length > 1 then ["multi-volume"] else []) ++
      (if ops.any (fun | .seekEnd d => d > 0 | _ => false) then ["seek-past-end"] else []) ++
      (if rs.any (· == .err) then ["seek-negative"] else []) ++
      (if rs.any (fun | .data (_ :: _) => true | _ => false) then ["data"] else []) ++
      (if ops.any (fun | .seekStart _ => true | .seekCur _ => true | _ => false) then ["seek"] else [])
    s!"{mobs}\t{if impl == "" then "-" else orc impl}\t{orc mobs}\t{",".intercalate tags}"
  | _ => "bad\tC20=FAIL:unparsable\tC20=FAIL:unparsable\t"

end Chn
