/-! Model of `SeekableChain` (src/utils/seekablechain.rs) over volumes that behave like `Cursor`s:
    every underlying reader has its own position; the chain tracks (abs_pos, cur_idx, rel_pos). -/
namespace Chn

structure Chain where
  vols : List (List Nat)
  rpos : List Nat            -- position of each underlying reader
  absPos : Nat := 0
  curIdx : Nat := 0
  relPos : Nat := 0
deriving Repr

def total (vols : List (List Nat)) : Nat := (vols.map List.length).sum

def Chain.maxPos (c : Chain) : Nat := total c.vols

def Chain.new (vols : List (List Nat)) : Chain := { vols, rpos := vols.map fun _ => 0 }

/-- the `for (size, reader) in &mut self.chain` walk of `seek_abs` for a target `pos < max_pos` -/
def seekWalk : List (List Nat) → (idx pos abs : Nat) → List Nat → (Nat × Nat × Nat × List Nat)
  | [], idx, _, abs, rp => (idx, 0, abs, rp)
  | v :: t, idx, pos, abs, rp =>
    if pos < v.length then (idx, pos, abs + pos, rp.set idx pos)
    else seekWalk t (idx + 1) (pos - v.length) (abs + v.length) rp

def Chain.seekAbs (c : Chain) (pos : Nat) : Nat × Chain :=
  if c.absPos == pos then (pos, c)
  else if pos ≥ c.maxPos then (pos, { c with absPos := pos, curIdx := c.vols.length, relPos := 0 })
  else
    let r := seekWalk c.vols 0 pos 0 c.rpos
    (r.2.2.1, { c with absPos := r.2.2.1, curIdx := r.1, relPos := r.2.1, rpos := r.2.2.2 })

/-- one pass of the `while` loop of `read` at a valid `cur_idx` with `rel_pos < size` -/
def Chain.readHere (c : Chain) (v : List Nat) (k : Nat) : List Nat × Chain :=
  let rp := if c.relPos == 0 then c.rpos.set c.curIdx 0 else c.rpos
  let p := rp.getD c.curIdx 0
  let maxRead := min (v.length - c.relPos) k
  let data := (v.drop p).take maxRead
  let n := data.length
  let rp := rp.set c.curIdx (p + n)
  let rel := c.relPos + n
  if rel ≥ v.length then (data, { c with rpos := rp, absPos := c.absPos + n, curIdx := c.curIdx + 1, relPos := 0 })
  else (data, { c with rpos := rp, absPos := c.absPos + n, relPos := rel })

/-- `read`: skip exhausted / empty volumes, then read from the current one (fuel = number of volumes + 1) -/
def Chain.readFuel : Nat → Chain → Nat → List Nat × Chain
  | 0, c, _ => ([], c)
  | fuel + 1, c, k =>
    match c.vols[c.curIdx]? with
    | none => ([], c)
    | some v =>
      if c.relPos ≥ v.length then Chain.readFuel fuel { c with curIdx := c.curIdx + 1, relPos := 0 } k
      else c.readHere v k

def Chain.read (c : Chain) (k : Nat) : List Nat × Chain := Chain.readFuel (c.vols.length + 1) c k

/-- `None` = `Err(InvalidInput)`: negative target -/
def Chain.seekRel (c : Chain) (base : Nat) (d : Int) : Option Nat × Chain :=
  let np : Int := (base : Int) + d
  if np < 0 then (none, c) else
    let r := c.seekAbs np.toNat
    (some r.1, r.2)

def Chain.seekCur (c : Chain) (d : Int) : Option Nat × Chain := c.seekRel c.absPos d
def Chain.seekEnd (c : Chain) (d : Int) : Option Nat × Chain := c.seekRel c.maxPos d

inductive Op where
  | read (k : Nat) | seekStart (n : Nat) | seekCur (d : Int) | seekEnd (d : Int)
deriving Repr

inductive Res where
  | data (bs : List Nat) | pos (p : Nat) | err
deriving Repr, DecidableEq

def Chain.step (c : Chain) : Op → Res × Chain
  | .read k => let r := c.read k; (.data r.1, r.2)
  | .seekStart n => let r := c.seekAbs n; (.pos r.1, r.2)
  | .seekCur d => match c.seekCur d with | (some p, c') => (.pos p, c') | (none, c') => (.err, c')
  | .seekEnd d => match c.seekEnd d with | (some p, c') => (.pos p, c') | (none, c') => (.err, c')

def Chain.run (c : Chain) : List Op → List Res
  | [] => []
  | op :: t => let r := c.step op; r.1 :: Chain.run r.2 t

/-! ### the contract: one file holding the concatenation, one position -/

/-- is `res` a legal answer of a `Read + Seek` object over `flat` standing at position `p` to `op`,
    and where does it stand afterwards? (short reads are legal; a read returns no data only for an
    empty buffer or at/after the end) -/
def contractStep (flat : List Nat) (p : Nat) (op : Op) (res : Res) : Option Nat :=
  match op, res with
  | .read k, .data bs =>
    if bs.length ≤ k && bs == (flat.drop p).take bs.length && (bs.length != 0 || k == 0 || p ≥ flat.length)
    then some (p + bs.length) else none
  | .seekStart n, .pos q => if q == n then some n else none
  | .seekCur d, .pos q => if (p : Int) + d ≥ 0 && (q : Int) == (p : Int) + d then some q else none
  | .seekCur d, .err => if (p : Int) + d < 0 then some p else none
  | .seekEnd d, .pos q => if (flat.length : Int) + d ≥ 0 && (q : Int) == (flat.length : Int) + d then some q else none
  | .seekEnd d, .err => if (flat.length : Int) + d < 0 then some p else none
  | _, _ => none

/-- the whole history satisfies the contract -/
def contractOk (flat : List Nat) : Nat → List Op → List Res → Bool
  | _, [], [] => true
  | p, op :: ops, r :: rs =>
    match contractStep flat p op r with
    | some p' => contractOk flat p' ops rs
    | none => false
  | _, _, _ => false

end Chn
