import Adlt.Chain.Model
/-! C20 (chain): every history of reads and seeks on the chain satisfies the Read/Seek contract of one
    file holding the concatenated volumes — for every split (empty volumes anywhere). -/
namespace Chn

def prefixLen (vols : List (List Nat)) (i : Nat) : Nat := total (vols.take i)

theorem total_nil : total [] = 0 := rfl
theorem total_cons (v : List Nat) (t : List (List Nat)) : total (v :: t) = v.length + total t := by
  simp [total]
theorem total_eq_flatten (vols : List (List Nat)) : total vols = vols.flatten.length := by
  induction vols with
  | nil => rfl
  | cons v t ih => simp [total_cons, ih]

theorem prefixLen_succ (vols : List (List Nat)) (i : Nat) (v : List Nat) (h : vols[i]? = some v) :
    prefixLen vols (i + 1) = prefixLen vols i + v.length := by
  induction vols generalizing i with
  | nil => simp at h
  | cons w t ih =>
    cases i with
    | zero => simp at h; subst h; simp [prefixLen, total_cons, total_nil]
    | succ j =>
      simp only [List.getElem?_cons_succ] at h
      have := ih j h
      simp only [prefixLen, List.take_succ_cons, total_cons] at *
      omega

theorem prefixLen_ge (vols : List (List Nat)) (i : Nat) (h : vols.length ≤ i) : prefixLen vols i = total vols := by
  simp [prefixLen, List.take_of_length_le h]

theorem prefixLen_le (vols : List (List Nat)) (i : Nat) : prefixLen vols i ≤ total vols := by
  induction vols generalizing i with
  | nil => simp [prefixLen, total]
  | cons w t ih =>
    cases i with
    | zero => simp [prefixLen, total_nil]
    | succ j => have := ih j; simp only [prefixLen, List.take_succ_cons, total_cons] at *; omega

/-- dropping up to a position inside volume `i` leaves the rest of that volume followed by the later volumes -/
theorem flatten_drop (vols : List (List Nat)) (i j : Nat) (v : List Nat) (h : vols[i]? = some v) (hj : j ≤ v.length) :
    vols.flatten.drop (prefixLen vols i + j) = v.drop j ++ (vols.drop (i + 1)).flatten := by
  induction vols generalizing i with
  | nil => simp at h
  | cons w t ih =>
    cases i with
    | zero =>
      simp at h; subst h
      simp only [prefixLen, List.take_zero, total_nil, Nat.zero_add, List.flatten_cons, Nat.zero_add, List.drop_succ_cons, List.drop_zero]
      rw [List.drop_append_of_le_length hj]
    | succ k =>
      simp only [List.getElem?_cons_succ] at h
      have := ih k h
      simp only [prefixLen, List.take_succ_cons, total_cons, List.flatten_cons, List.drop_succ_cons] at *
      rw [Nat.add_assoc, List.drop_append]
      simp only [List.drop_of_length_le (Nat.le_add_right _ _), List.nil_append, Nat.add_sub_cancel_left]
      exact this

structure Inv (c : Chain) : Prop where
  rlen : c.rpos.length = c.vols.length
  pos : (c.curIdx < c.vols.length ∧ c.absPos = prefixLen c.vols c.curIdx + c.relPos) ∨
        (c.vols.length ≤ c.curIdx ∧ c.relPos = 0 ∧ total c.vols ≤ c.absPos)
  rel : 0 < c.relPos → ∃ v, c.vols[c.curIdx]? = some v ∧ c.relPos < v.length ∧ c.rpos[c.curIdx]? = some c.relPos

theorem new_inv (vols : List (List Nat)) : Inv (Chain.new vols) := by
  refine { rlen := by simp [Chain.new], pos := ?_, rel := by simp [Chain.new] }
  by_cases h : 0 < vols.length
  · left; exact ⟨h, by simp [Chain.new, prefixLen, total_nil]⟩
  · right
    have : vols = [] := List.eq_nil_of_length_eq_zero (by omega)
    subst this; simp [Chain.new, total_nil]

/-- what one `read` may answer and where it leaves the chain -/
structure ReadOk (c : Chain) (k : Nat) (r : List Nat × Chain) : Prop where
  data : r.1 = (c.vols.flatten.drop c.absPos).take r.1.length
  le : r.1.length ≤ k
  nonempty : r.1.length = 0 → k = 0 ∨ c.vols.flatten.length ≤ c.absPos
  abs : r.2.absPos = c.absPos + r.1.length
  vols : r.2.vols = c.vols
  inv : Inv r.2

theorem readHere_ok (c : Chain) (hi : Inv c) (v : List Nat) (k : Nat) (hv : c.vols[c.curIdx]? = some v)
    (hr : c.relPos < v.length) : ReadOk c k (c.readHere v k) := by
  have hidx : c.curIdx < c.vols.length := by
    rcases List.getElem?_eq_some_iff.mp hv with ⟨h, _⟩; exact h
  have habs : c.absPos = prefixLen c.vols c.curIdx + c.relPos := by
    rcases hi.pos with h | h
    · exact h.2
    · omega
  -- the underlying reader stands at rel_pos
  have hp : (if c.relPos == 0 then c.rpos.set c.curIdx 0 else c.rpos).getD c.curIdx 0 = c.relPos := by
    by_cases h0 : c.relPos = 0
    · simp [h0, hi.rlen, hidx]
    · have := hi.rel (by omega)
      obtain ⟨v', _, _, h3⟩ := this
      have : (c.relPos == 0) = false := by simp [h0]
      simp [this, List.getD, h3]
  have hdrop := flatten_drop c.vols c.curIdx c.relPos v hv (by omega)
  unfold Chain.readHere
  simp only [hp]
  have hn : ((v.drop c.relPos).take (min (v.length - c.relPos) k)).length = min (v.length - c.relPos) k := by
    simp
  have hdata : (v.drop c.relPos).take (min (v.length - c.relPos) k)
      = (c.vols.flatten.drop c.absPos).take (min (v.length - c.relPos) k) := by
    rw [habs, hdrop, List.take_append_of_le_length (by simp; omega)]
  have hlenset : ∀ (x : Nat), ((if c.relPos == 0 then c.rpos.set c.curIdx 0 else c.rpos).set c.curIdx x).length = c.vols.length := by
    intro x; split <;> simp [hi.rlen]
  split
  · rename_i hge
    rw [hn] at hge
    refine { data := ?_, le := ?_, nonempty := ?_, abs := ?_, vols := rfl, inv := ?_ }
    · simp only [hn]; exact hdata
    · simp only [hn]; omega
    · simp only [hn]; intro h; left; omega
    · simp only [hn]
    · refine { rlen := hlenset _, pos := ?_, rel := by simp }
      simp only [hn]
      have hs := prefixLen_succ c.vols c.curIdx v hv
      by_cases hl : c.curIdx + 1 < c.vols.length
      · left; exact ⟨hl, by omega⟩
      · right
        have := prefixLen_ge c.vols (c.curIdx + 1) (by omega)
        refine ⟨by omega, ?_, by omega⟩
        trivial
  · rename_i hlt
    rw [hn] at hlt
    refine { data := ?_, le := ?_, nonempty := ?_, abs := ?_, vols := rfl, inv := ?_ }
    · simp only [hn]; exact hdata
    · simp only [hn]; omega
    · simp only [hn]; intro h; left; omega
    · simp only [hn]
    · refine { rlen := hlenset _, pos := ?_, rel := ?_ }
      · left; simp only [hn]; exact ⟨hidx, by omega⟩
      · simp only [hn]
        intro _
        refine ⟨v, hv, by omega, ?_⟩
        rw [List.getElem?_set_self (by rw [show ((if c.relPos == 0 then c.rpos.set c.curIdx 0 else c.rpos)).length = c.vols.length from by split <;> simp [hi.rlen]]; exact hidx)]

theorem readFuel_ok (fuel : Nat) (c : Chain) (k : Nat) (hi : Inv c) (hf : c.vols.length + 1 ≤ fuel + c.curIdx) :
    ReadOk c k (Chain.readFuel fuel c k) := by
  induction fuel generalizing c with
  | zero =>
    -- cur_idx is past the end
    have hpast : c.vols.length ≤ c.curIdx := by omega
    rcases hi.pos with h | h
    · omega
    · simp only [Chain.readFuel]
      refine { data := by simp, le := by simp, nonempty := ?_, abs := by simp, vols := rfl, inv := hi }
      intro _; right; rw [← total_eq_flatten]; exact h.2.2
  | succ n ih =>
    simp only [Chain.readFuel]
    cases hv : c.vols[c.curIdx]? with
    | none =>
      have hpast : c.vols.length ≤ c.curIdx := by
        rcases List.getElem?_eq_none_iff.mp hv with h; exact h
      rcases hi.pos with h | h
      · omega
      · simp only []
        refine { data := by simp, le := by simp, nonempty := ?_, abs := by simp, vols := rfl, inv := hi }
        intro _; right; rw [← total_eq_flatten]; exact h.2.2
    | some v =>
      have hidx : c.curIdx < c.vols.length := by
        rcases List.getElem?_eq_some_iff.mp hv with ⟨h, _⟩; exact h
      simp only []
      split
      · rename_i hge
        -- exhausted / empty volume: step over it
        have hrel0 : c.relPos = 0 := by
          by_cases h0 : c.relPos = 0
          · exact h0
          · obtain ⟨v', h1, h2, _⟩ := hi.rel (by omega)
            rw [hv] at h1; cases h1; omega
        have hvlen : v.length = 0 := by omega
        have habs : c.absPos = prefixLen c.vols c.curIdx := by
          rcases hi.pos with h | h
          · omega
          · omega
        have hs := prefixLen_succ c.vols c.curIdx v hv
        have hi2 : Inv { c with curIdx := c.curIdx + 1, relPos := 0 } := by
          refine { rlen := hi.rlen, pos := ?_, rel := by simp }
          by_cases hl : c.curIdx + 1 < c.vols.length
          · left; exact ⟨hl, by simp only []; omega⟩
          · right
            have := prefixLen_ge c.vols (c.curIdx + 1) (by omega)
            exact ⟨by simp only []; omega, rfl, by simp only []; omega⟩
        have r := ih { c with curIdx := c.curIdx + 1, relPos := 0 } hi2 (by simp only []; omega)
        exact { data := r.data, le := r.le, nonempty := r.nonempty, abs := r.abs, vols := r.vols, inv := r.inv }
      · rename_i hlt
        exact readHere_ok c hi v k hv (by omega)

theorem read_ok (c : Chain) (k : Nat) (hi : Inv c) : ReadOk c k (c.read k) :=
  readFuel_ok _ c k hi (by omega)

/-! ### seeking -/

theorem seekWalk_spec (t : List (List Nat)) (idx0 pos abs0 : Nat) (rp : List Nat) (h : pos < total t) :
    ∃ j v, (seekWalk t idx0 pos abs0 rp).1 = idx0 + j ∧ t[j]? = some v ∧ (seekWalk t idx0 pos abs0 rp).2.1 < v.length
      ∧ pos = total (t.take j) + (seekWalk t idx0 pos abs0 rp).2.1
      ∧ (seekWalk t idx0 pos abs0 rp).2.2.1 = abs0 + pos
      ∧ (seekWalk t idx0 pos abs0 rp).2.2.2 = rp.set (idx0 + j) (seekWalk t idx0 pos abs0 rp).2.1 := by
  induction t generalizing idx0 pos abs0 with
  | nil => simp [total] at h
  | cons v t ih =>
    simp only [seekWalk]
    split
    · rename_i hlt
      exact ⟨0, v, by simp, by simp, hlt, by simp [total_nil], rfl, by simp⟩
    · rename_i hge
      rw [total_cons] at h
      obtain ⟨j, w, h1, h2, h3, h4, h5, h6⟩ := ih (idx0 + 1) (pos - v.length) (abs0 + v.length) (by omega)
      refine ⟨j + 1, w, by omega, by simpa using h2, h3, ?_, by omega, ?_⟩
      · simp only [List.take_succ_cons, total_cons]; omega
      · rw [h6]; congr 1; omega

structure SeekOk (c : Chain) (pos : Nat) (r : Nat × Chain) : Prop where
  ret : r.1 = pos
  abs : r.2.absPos = pos
  vols : r.2.vols = c.vols
  inv : Inv r.2

theorem seekAbs_ok (c : Chain) (pos : Nat) (hi : Inv c) : SeekOk c pos (c.seekAbs pos) := by
  unfold Chain.seekAbs
  split
  · rename_i h
    have : c.absPos = pos := by simpa using h
    exact { ret := rfl, abs := this, vols := rfl, inv := hi }
  · split
    · rename_i h
      refine { ret := rfl, abs := rfl, vols := rfl, inv := ?_ }
      exact { rlen := hi.rlen, pos := Or.inr ⟨Nat.le_refl _, rfl, h⟩, rel := by simp }
    · rename_i h
      have hlt : pos < total c.vols := by simp only [Chain.maxPos] at h; omega
      obtain ⟨j, v, h1, h2, h3, h4, h5, h6⟩ := seekWalk_spec c.vols 0 pos 0 c.rpos hlt
      simp only [Nat.zero_add] at h1 h5 h6
      have hj : j < c.vols.length := by
        rcases List.getElem?_eq_some_iff.mp h2 with ⟨h, _⟩; exact h
      refine { ret := h5, abs := h5, vols := rfl, inv := ?_ }
      refine { rlen := by simp only [h6]; simp [hi.rlen], pos := ?_, rel := ?_ }
      · left; simp only [h1, h5]; exact ⟨hj, h4⟩
      · simp only [h1, h6]
        intro _
        exact ⟨v, h2, h3, by rw [List.getElem?_set_self (by rw [hi.rlen]; exact hj)]⟩

/-! ### the refinement theorem -/

theorem step_contract (c : Chain) (hi : Inv c) (op : Op) :
    ∃ p', contractStep c.vols.flatten c.absPos op (c.step op).1 = some p' ∧ (c.step op).2.absPos = p'
      ∧ (c.step op).2.vols = c.vols ∧ Inv (c.step op).2 := by
  cases op with
  | read k =>
    have r := read_ok c k hi
    refine ⟨c.absPos + (c.read k).1.length, ?_, r.abs, r.vols, r.inv⟩
    simp only [Chain.step, contractStep]
    have h1 : ((c.read k).1.length ≤ k) := r.le
    have h2 := r.data
    have h3 := r.nonempty
    have hcond : (decide ((c.read k).1.length ≤ k) && (c.read k).1 == (c.vols.flatten.drop c.absPos).take (c.read k).1.length
        && ((c.read k).1.length != 0 || k == 0 || decide (c.absPos ≥ c.vols.flatten.length))) = true := by
      simp only [Bool.and_eq_true, decide_eq_true_eq, beq_iff_eq, Bool.or_eq_true, bne_iff_ne, ne_eq]
      refine ⟨⟨h1, h2⟩, ?_⟩
      by_cases h0 : (c.read k).1.length = 0
      · rcases h3 h0 with h | h
        · left; right; exact h
        · right; exact h
      · left; left; exact h0
    rw [if_pos hcond]
  | seekStart n =>
    have r := seekAbs_ok c n hi
    refine ⟨n, ?_, r.abs, r.vols, r.inv⟩
    simp [Chain.step, contractStep, r.ret]
  | seekCur d =>
    simp only [Chain.step, Chain.seekCur, Chain.seekRel]
    by_cases hneg : (c.absPos : Int) + d < 0
    · simp only [hneg, if_true]
      refine ⟨c.absPos, by simp [contractStep, hneg], ?_, ?_, hi⟩ <;> trivial
    · simp only [hneg, if_false]
      have r := seekAbs_ok c ((c.absPos : Int) + d).toNat hi
      refine ⟨((c.absPos : Int) + d).toNat, ?_, r.abs, r.vols, r.inv⟩
      have h1 : ((((c.absPos : Int) + d).toNat : Nat) : Int) = (c.absPos : Int) + d := by omega
      simp only [contractStep, r.ret]
      have hc : (decide ((c.absPos : Int) + d ≥ 0) && ((((c.absPos : Int) + d).toNat : Nat) : Int) == (c.absPos : Int) + d) = true := by
        simp only [Bool.and_eq_true, decide_eq_true_eq, beq_iff_eq]; exact ⟨by omega, h1⟩
      rw [if_pos hc]
  | seekEnd d =>
    have hm : c.maxPos = c.vols.flatten.length := by simp [Chain.maxPos, total_eq_flatten]
    simp only [Chain.step, Chain.seekEnd, Chain.seekRel, hm]
    by_cases hneg : (c.vols.flatten.length : Int) + d < 0
    · simp only [hneg, if_true]
      refine ⟨c.absPos, ?_, ?_, ?_, hi⟩
      · simp only [contractStep]; rw [if_pos hneg]
      · trivial
      · trivial
    · simp only [hneg, if_false]
      have r := seekAbs_ok c ((c.vols.flatten.length : Int) + d).toNat hi
      refine ⟨((c.vols.flatten.length : Int) + d).toNat, ?_, r.abs, r.vols, r.inv⟩
      have h1 : ((((c.vols.flatten.length : Int) + d).toNat : Nat) : Int) = (c.vols.flatten.length : Int) + d := by omega
      simp only [contractStep, r.ret]
      have hc : (decide ((c.vols.flatten.length : Int) + d ≥ 0) && ((((c.vols.flatten.length : Int) + d).toNat : Nat) : Int) == (c.vols.flatten.length : Int) + d) = true := by
        simp only [Bool.and_eq_true, decide_eq_true_eq, beq_iff_eq]; exact ⟨by omega, h1⟩
      rw [if_pos hc]

theorem run_contract (ops : List Op) (c : Chain) (hi : Inv c) :
    contractOk c.vols.flatten c.absPos ops (c.run ops) = true := by
  induction ops generalizing c with
  | nil => simp [Chain.run, contractOk]
  | cons op t ih =>
    obtain ⟨p', h1, h2, h3, h4⟩ := step_contract c hi op
    simp only [Chain.run, contractOk, h1]
    have := ih (c.step op).2 h4
    rw [h3, h2] at this
    exact this

end Chn
