import Adlt.Remote.Model
import Adlt.Remote.TimeLookup
/-! The command dispatcher as a state machine: one reply per command; which ids are usable when. -/
namespace Rem

inductive Cmd where
  | openOk | openBad | close | pause | resume
  | stream (isStream : Bool) (fs : FSpec) (start stop : Nat)
  | streamBad                                  -- stream / query with malformed JSON
  | stop (k : Nat)                             -- k = canonical id (0 = an id that was never announced)
  | changeWindow (k : Nat) (start stop : Nat)
  | changeWindowBad (k : Nat)
  | search (k : Nat) (fs : FSpec) (startIdx maxResults : Nat)
  | searchNoBody (k : Nat)
  | lookupIndex (k : Nat) (index : Nat)
  | lookupTime (k : Nat) (ms : Nat)
  | lookupBad (k : Nat)
  | noId (verb : Nat)                          -- stop / search / … without a parsable id
  | fs (k : Nat)                               -- file-system request number k of the harness table
  | pluginCmd (k : Nat)                        -- plugin command (no plugin is loaded: always refused)
  | junk
deriving Repr

inductive Reply where
  | ok (detail : String)
  | err
  | unknown
deriving Repr, DecidableEq

structure Srv where
  file : Option (List RMsg) := none    -- open file: its messages
  streams : List Stream := []          -- live streams (ids usable)
  nextK : Nat := 1                     -- next canonical id
  delivered : List (Nat × List Nat) := []   -- per announced id: the file positions the client eventually receives
  queries : List Nat := []             -- the announced ids that belong to queries (they get an end-of-query marker)
deriving Repr

def Srv.find (s : Srv) (k : Nat) : Option Stream := s.streams.find? (·.k == k)

def showList (l : List Nat) : String := "[" ++ ",".intercalate (l.map toString) ++ "]"

/-- the largest `stop` a query has ever had (its collected matches never shrink) is tracked in `Stream.stop` history:
    here simply the maximum of the stops announced so far for that stream -/
def Srv.step (s : Srv) (files : List RMsg) : Cmd → Srv × Reply
  | .openOk =>
    -- a file set without any DLT message is refused ("cannot open files or files contain no DLT messages")
    if s.file.isSome || files.isEmpty then (s, .err) else ({ s with file := some files, streams := [] }, .ok "open")
  | .openBad => (s, .err)
  | .close => if s.file.isSome then ({ s with file := none, streams := [] }, .ok "close") else (s, .err)
  | .pause => if s.file.isSome then (s, .ok "pause") else (s, .err)
  | .resume => if s.file.isSome then (s, .ok "resume") else (s, .err)
  | .streamBad => (s, .err)
  | .stream isStream fs start stop =>
    match s.file with
    | none => (s, .err)
    | some ms =>
      let st : Stream := { k := s.nextK, isStream := isStream, filters := fs, start := start, stop := stop }
      -- a query is finished (and its id gone) as soon as its window is delivered or everything is processed
      ({ s with streams := if isStream then s.streams ++ [st] else s.streams, nextK := s.nextK + 1,
                queries := if isStream then s.queries else s.queries ++ [s.nextK],
                delivered := s.delivered ++ [(s.nextK, window (st.seq ms stop) start stop)] },
       .ok s!"id{s.nextK}")
  | .stop k =>
    match s.file, s.find k with
    | some _, some _ => ({ s with streams := s.streams.filter (·.k != k) }, .ok "stop")
    | _, _ => (s, .err)
  | .changeWindow k start stop =>
    match s.file, s.find k with
    | some ms, some st =>
      let st' : Stream := { st with k := s.nextK, start := start, stop := max st.stop stop }
      -- the collected matches of a query never shrink: `stop` of the model stream keeps the maximum
      ({ s with streams := s.streams.map (fun x => if x.k == k then st' else x), nextK := s.nextK + 1,
                delivered := s.delivered ++ [(s.nextK, window (st'.seq ms st'.stop) start stop)] },
       .ok s!"id{s.nextK}")
    | _, _ => (s, .err)
  | .changeWindowBad _ => (s, .err)
  | .search k fs startIdx maxResults =>
    match s.file, s.find k with
    | some ms, some st =>
      let r := search (st.seq ms st.stop) ms fs startIdx maxResults
      (s, .ok s!"{showList r.1}->{match r.2 with | some n => toString n | none => "-"}")
    | _, _ => (s, .err)
  | .searchNoBody _ => (s, .err)
  | .lookupIndex k index =>
    match s.file, s.find k with
    | some ms, some st =>
      (match ms.findIdx? (·.index == index) with
       | some p => (s, .ok s!"pos{lowerBound (st.seq ms st.stop) p}")
       | none => (s, .err))
    | _, _ => (s, .err)
  | .lookupTime k t =>
    match s.file, s.find k with
    | some ms, some st =>
      -- first file position whose time (`RMsg.time`) is not before t
      let p := timePos ms (t * 1000)
      (s, .ok s!"pos{lowerBound (st.seq ms st.stop) p}")
    | _, _ => (s, .err)
  | .lookupBad _ => (s, .err)
  | .noId _ => (s, .err)
  -- requests 4,5,6,9 of the table name an existing directory / file / archive with a known command: answered `ok:`
  -- (also when the operation itself fails, e.g. readDirectory on a file); malformed or unknown requests: `err:`
  | .fs k => (s, if k == 4 || k == 5 || k == 6 || k == 9 then .ok "fs" else .err)
  | .pluginCmd _ => (s, .err)
  | .junk => (s, .unknown)

def Srv.run (files : List RMsg) : Srv → List Cmd → List Reply × Srv
  | s, [] => ([], s)
  | s, c :: t => let r := s.step files c; let rest := Srv.run files r.1 t; (r.2 :: rest.1, rest.2)

/-! ### C15: state consistent with the replies -/

/-- a file is open exactly between a successful open and the next successful close: the open flag changes only
    with an `ok:` reply to `open` (to true) or to `close` (to false) -/
theorem open_iff (s : Srv) (files : List RMsg) (c : Cmd) :
    ((s.step files c).1.file.isSome) =
      (match c, (s.step files c).2 with
       | .openOk, .ok _ => true
       | .close, .ok _ => false
       | _, _ => s.file.isSome) := by
  cases c <;> simp only [Srv.step] <;> (repeat' split) <;> simp_all

/-- `open` is answered `ok:` exactly when no file set is open (and the named files hold at least one message) -/
theorem open_ok_iff (s : Srv) (files : List RMsg) :
    (s.step files .openOk).2 = .ok "open" ↔ (s.file.isSome = false ∧ files ≠ []) := by
  cases hf : s.file <;> cases files <;> simp [Srv.step, hf]

/-- `close` is answered `ok:` exactly when a file set is open, and then no stream id stays usable -/
theorem close_ok_iff (s : Srv) (files : List RMsg) :
    ((s.step files .close).2 = .ok "close" ↔ s.file.isSome) ∧
    (s.file.isSome → (s.step files .close).1.streams = []) := by
  simp only [Srv.step]; split <;> simp_all

/-- ids are announced in increasing order and never reused -/
theorem nextK_mono (s : Srv) (files : List RMsg) (c : Cmd) : s.nextK ≤ (s.step files c).1.nextK := by
  cases c <;> simp only [Srv.step] <;> (repeat' split) <;> simp_all <;> omega

/-- after a successful close every open of a non-empty file set succeeds again -/
theorem open_after_close (s : Srv) (files : List RMsg) (h : s.file.isSome) (hf : files ≠ []) :
    ((s.step files .close).1.step files .openOk).2 = .ok "open" := by
  simp [Srv.step, h, hf]

end Rem
