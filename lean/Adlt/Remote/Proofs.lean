import Adlt.Remote.Srv
/-! Lemmas about windows, the filtered sequence, search paging and the lookups of the remote model. -/
namespace Rem

/-! ### windows -/

theorem window_eq (seq : List Nat) (a b : Nat) : window seq a b = (seq.drop a).take (b - a) := by
  simp [window, List.drop_take]

theorem window_getElem? (seq : List Nat) (a b i : Nat) :
    (window seq a b)[i]? = if a + i < b then seq[a + i]? else none := by
  simp only [window, List.getElem?_drop, List.getElem?_take]

theorem window_length (seq : List Nat) (a b : Nat) : (window seq a b).length = min b seq.length - a := by
  simp [window]

/-! ### the filtered sequence -/

/-- positions of the elements satisfying `p`, counted from `off` -/
def posFrom (p : α → Bool) : List α → Nat → List Nat
  | [], _ => []
  | x :: t, off => if p x then off :: posFrom p t (off + 1) else posFrom p t (off + 1)

theorem zipIdx_filter_eq (p : α → Bool) (l : List α) (off : Nat) :
    ((l.zipIdx off).filter fun (m, _) => p m).map (·.2) = posFrom p l off := by
  induction l generalizing off with
  | nil => rfl
  | cons x t ih =>
    simp only [List.zipIdx_cons, List.filter_cons, posFrom]
    split <;> simp [ih]

theorem mem_posFrom (p : α → Bool) (l : List α) (off q : Nat) :
    q ∈ posFrom p l off ↔ off ≤ q ∧ ∃ x, l[q - off]? = some x ∧ p x = true := by
  induction l generalizing off with
  | nil => simp [posFrom]
  | cons x t ih =>
    simp only [posFrom]
    split
    · rename_i hx
      simp only [List.mem_cons, ih]
      constructor
      · rintro (rfl | ⟨h1, y, h2, h3⟩)
        · exact ⟨Nat.le_refl _, x, by simp, hx⟩
        · refine ⟨by omega, y, ?_, h3⟩
          have : q - off = (q - (off + 1)) + 1 := by omega
          rw [this]; simpa using h2
      · rintro ⟨h1, y, h2, h3⟩
        by_cases hq : q = off
        · exact Or.inl hq
        · refine Or.inr ⟨by omega, y, ?_, h3⟩
          have : q - off = (q - (off + 1)) + 1 := by omega
          rw [this] at h2; simpa using h2
    · rename_i hx
      rw [ih]
      constructor
      · rintro ⟨h1, y, h2, h3⟩
        refine ⟨by omega, y, ?_, h3⟩
        have : q - off = (q - (off + 1)) + 1 := by omega
        rw [this]; simpa using h2
      · rintro ⟨h1, y, h2, h3⟩
        by_cases hq : q = off
        · subst hq; simp at h2; subst h2; exact absurd h3 hx
        · refine ⟨by omega, y, ?_, h3⟩
          have : q - off = (q - (off + 1)) + 1 := by omega
          rw [this] at h2; simpa using h2

theorem posFrom_lower (p : α → Bool) (l : List α) (off : Nat) : ∀ q ∈ posFrom p l off, off ≤ q := by
  intro q hq; exact ((mem_posFrom p l off q).1 hq).1

theorem posFrom_sorted (p : α → Bool) (l : List α) (off : Nat) : (posFrom p l off).Pairwise (· < ·) := by
  induction l generalizing off with
  | nil => simp [posFrom]
  | cons x t ih =>
    simp only [posFrom]
    split
    · refine List.pairwise_cons.2 ⟨?_, ih _⟩
      intro q hq; have := posFrom_lower p t (off + 1) q hq; omega
    · exact ih _

/-- the complete filtered sequence of a stream with filters: exactly the matching positions, ascending -/
theorem seq_stream_mem (s : Stream) (ms : List RMsg) (n q : Nat) (hf : s.filters.isEmpty = false) (hs : s.isStream = true) :
    q ∈ s.seq ms n ↔ ∃ m, ms[q]? = some m ∧ keeps s.filters m = true := by
  simp only [Stream.seq, hf, hs, Bool.false_eq_true, if_false, if_true]
  have := zipIdx_filter_eq (fun m => keeps s.filters m) ms 0
  simp only [List.zipIdx] at this
  rw [show (List.filter (fun x : RMsg × Nat => keeps s.filters x.1) ms.zipIdx) = List.filter (fun (m, _) => keeps s.filters m) (ms.zipIdx 0) from rfl, this, mem_posFrom]
  simp

theorem seq_sorted (s : Stream) (ms : List RMsg) (n : Nat) : (s.seq ms n).Pairwise (· < ·) := by
  simp only [Stream.seq]
  have h := zipIdx_filter_eq (fun m => keeps s.filters m) ms 0
  split
  · exact List.pairwise_lt_range
  · have hs := posFrom_sorted (fun m => keeps s.filters m) ms 0
    rw [← h] at hs
    split
    · exact hs
    · exact hs.sublist (List.take_sublist _ _)

/-- without filters the sequence is the whole file -/
theorem seq_unfiltered (s : Stream) (ms : List RMsg) (n : Nat) (hf : s.filters.isEmpty = true) :
    s.seq ms n = List.range ms.length := by
  simp [Stream.seq, hf]

/-! ### search paging -/

/-- stream positions `i, i+1, …` of the elements of `rest` that match -/
def hitsFrom (ms : List RMsg) (fs : FSpec) : Nat → List Nat → List Nat
  | _, [] => []
  | i, p :: t => if hitAt ms fs p then i :: hitsFrom ms fs (i + 1) t else hitsFrom ms fs (i + 1) t

theorem go_spec (ms : List RMsg) (fs : FSpec) (maxR : Nat) (rest : List Nat) (i : Nat) (acc : List Nat) :
    let r := search.go ms fs maxR i rest acc
    i ≤ r.2 ∧ r.2 ≤ i + rest.length ∧
    r.1 ++ hitsFrom ms fs r.2 (rest.drop (r.2 - i)) = acc.reverse ++ hitsFrom ms fs i rest ∧
    (r.2 < i + rest.length → maxR ≤ r.1.length) := by
  induction rest generalizing i acc with
  | nil => simp [search.go, hitsFrom]
  | cons p t ih =>
    simp only [search.go]
    split
    · rename_i hh
      split
      · rename_i hfull
        simp only [List.length_cons, hitsFrom, hh, if_true]
        refine ⟨by omega, by omega, ?_, ?_⟩
        · simp
        · intro _; simp; omega
      · have := ih (i + 1) (i :: acc)
        simp only at this
        obtain ⟨h1, h2, h3, h4⟩ := this
        refine ⟨by omega, by simp; omega, ?_, ?_⟩
        · simp only [hitsFrom, hh, if_true]
          have hd : (search.go ms fs maxR (i + 1) t (i :: acc)).2 - i = ((search.go ms fs maxR (i + 1) t (i :: acc)).2 - (i + 1)) + 1 := by omega
          rw [hd, List.drop_succ_cons, h3]; simp
        · intro hlt; apply h4; simp at hlt; omega
    · rename_i hh
      have hh : hitAt ms fs p = false := by simpa using hh
      have := ih (i + 1) acc
      simp only at this
      obtain ⟨h1, h2, h3, h4⟩ := this
      refine ⟨by omega, by simp; omega, ?_, ?_⟩
      · simp only [hitsFrom, hh, Bool.false_eq_true, if_false]
        have hd : (search.go ms fs maxR (i + 1) t acc).2 - i = ((search.go ms fs maxR (i + 1) t acc).2 - (i + 1)) + 1 := by omega
        rw [hd, List.drop_succ_cons, h3]
      · intro hlt; apply h4; simp at hlt; omega

/-- all matching stream positions from `i` on -/
def allHits (seq : List Nat) (ms : List RMsg) (fs : FSpec) (i : Nat) : List Nat := hitsFrom ms fs i (seq.drop i)

/-- one page plus everything from the continuation position is everything from the start position: no stream
    position is skipped and none is examined twice -/
theorem search_page (seq : List Nat) (ms : List RMsg) (fs : FSpec) (i maxR : Nat) (hi : i ≤ seq.length) :
    (search seq ms fs i maxR).1 ++
      (match (search seq ms fs i maxR).2 with
       | some n => allHits seq ms fs n
       | none => []) = allHits seq ms fs i ∧
    (∀ n, (search seq ms fs i maxR).2 = some n → i ≤ n ∧ n < seq.length ∧ maxR ≤ (search seq ms fs i maxR).1.length) := by
  have h := go_spec ms fs maxR (seq.drop i) i []
  simp only [List.length_drop, List.reverse_nil, List.nil_append] at h
  obtain ⟨h1, h2, h3, h4⟩ := h
  simp only [search]
  constructor
  · split
    · rename_i n hn
      split at hn
      · cases hn
        simp only [allHits]
        rw [← h3, List.drop_drop]
        congr 3; omega
      · cases hn
    · rename_i hn
      split at hn
      · cases hn
      · rename_i hge
        have : (search.go ms fs maxR i (seq.drop i) []).2 - i = (seq.drop i).length := by simp; omega
        simp only [allHits]
        rw [← h3, this, List.drop_length]; simp [hitsFrom]
  · intro n hn
    split at hn
    · cases hn
      rename_i hlt
      exact ⟨h1, hlt, h4 (by omega)⟩
    · cases hn

/-! ### lookups -/

theorem lowerBound_spec (seq : List Nat) (p : Nat) (hs : seq.Pairwise (· < ·)) :
    (∀ i, i < lowerBound seq p → ∃ q, seq[i]? = some q ∧ q < p) ∧
    (∀ i q, lowerBound seq p ≤ i → seq[i]? = some q → p ≤ q) := by
  induction seq with
  | nil => simp [lowerBound]
  | cons x t ih =>
    have ht := ih (List.pairwise_cons.1 hs).2
    have hx := (List.pairwise_cons.1 hs).1
    simp only [lowerBound, List.takeWhile_cons]
    split
    · rename_i hlt
      have hlt' : x < p := by simpa using hlt
      constructor
      · intro i hi
        cases i with
        | zero => exact ⟨x, by simp, hlt'⟩
        | succ j =>
          simp only [List.length_cons] at hi
          have := ht.1 j (by simpa [lowerBound] using (by omega : j < (t.takeWhile (· < p)).length))
          simpa using this
      · intro i q hi hq
        cases i with
        | zero => simp at hi
        | succ j =>
          simp only [List.length_cons] at hi
          exact ht.2 j q (by simp only [lowerBound]; omega) (by simpa using hq)
    · rename_i hge
      have hge' : p ≤ x := by simpa using hge
      constructor
      · intro i hi; simp at hi
      · intro i q _ hq
        cases i with
        | zero => simp at hq; omega
        | succ j =>
          have hq' : t[j]? = some q := by simpa using hq
          have : q ∈ t := List.mem_of_getElem? hq'
          have := hx q this; omega

end Rem

namespace Rem

/-! ### which ids are usable -/

/-- ids of live streams are below the next id to be announced -/
def Srv.Inv (s : Srv) : Prop := ∀ st ∈ s.streams, st.k < s.nextK

theorem find_filter_ne (l : List Stream) (k j : Nat) :
    (l.filter (·.k != k)).find? (·.k == j) = if j = k then none else l.find? (·.k == j) := by
  induction l with
  | nil => simp
  | cons x t ih =>
    by_cases hx : x.k = k
    · by_cases hj : j = k
      · simp [List.filter_cons, hx, hj, ih]
      · simp only [List.filter_cons, hx, bne_self_eq_false, Bool.false_eq_true, if_false, ih, hj, List.find?_cons]
        have : (k == j) = false := by simp; omega
        simp [this]
    · have hne : (x.k != k) = true := by simp [hx]
      by_cases hj : j = k
      · subst hj
        simp only [List.filter_cons, hne, if_true, List.find?_cons, ih]
        have : (x.k == j) = false := by simp [hx]
        simp [this]
      · simp only [List.filter_cons, hne, if_true, List.find?_cons, ih, hj, if_false]

theorem find_none_of_lt (l : List Stream) (n : Nat) (h : ∀ st ∈ l, st.k < n) : l.find? (·.k == n) = none := by
  rw [List.find?_eq_none]; intro st hst; have := h st hst; simp; omega

theorem find_append_fresh (l : List Stream) (st : Stream) (j : Nat) :
    (l ++ [st]).find? (·.k == j) = (l.find? (·.k == j)).or (if st.k == j then some st else none) := by
  rw [List.find?_append, List.find?_cons]
  cases h : (st.k == j) <;> simp

theorem find_map_replace (l : List Stream) (k j : Nat) (st' : Stream)
    (hj : j ≠ k) (hj' : j ≠ st'.k) :
    (l.map (fun x => if x.k == k then st' else x)).find? (·.k == j) = l.find? (·.k == j) := by
  induction l with
  | nil => rfl
  | cons x t ih =>
    rw [List.map_cons, List.find?_cons, List.find?_cons, ih]
    by_cases hx : x.k = k
    · have h0 : (x.k == k) = true := by simp [hx]
      have h1 : (st'.k == j) = false := by simp; omega
      have h2 : (x.k == j) = false := by simp; omega
      rw [h0, if_pos rfl, h1, h2]
    · have h0 : (x.k == k) = false := by simp [hx]
      rw [h0]; rfl

theorem find_map_replaced_gone (l : List Stream) (k : Nat) (st' : Stream) (hk : st'.k ≠ k) :
    (l.map (fun x => if x.k == k then st' else x)).find? (·.k == k) = none := by
  induction l with
  | nil => rfl
  | cons x t ih =>
    rw [List.map_cons, List.find?_cons, ih]
    by_cases hx : x.k = k
    · have h0 : (x.k == k) = true := by simp [hx]
      have h1 : (st'.k == k) = false := by simp [hk]
      rw [h0, if_pos rfl, h1]
    · have h0 : (x.k == k) = false := by simp [hx]
      rw [h0]; simp [h0]

theorem step_inv (s : Srv) (files : List RMsg) (c : Cmd) (h : s.Inv) : (s.step files c).1.Inv := by
  unfold Srv.Inv at *
  cases c <;> simp only [Srv.step] <;> (repeat' split) <;> try exact h
  · intro st hst; simp at hst
  · intro st hst; simp at hst
  · -- stream
    intro st hst
    simp only [List.mem_append, List.mem_singleton] at hst
    show st.k < s.nextK + 1
    rcases hst with hst | rfl
    · have := h st hst; omega
    · simp
  · -- query
    intro st hst
    show st.k < s.nextK + 1
    have := h st hst; omega
  · -- stop
    intro st hst
    simp only [List.mem_filter] at hst
    exact h st hst.1
  · -- change window
    intro st hst
    simp only [List.mem_map] at hst
    obtain ⟨x, hx, rfl⟩ := hst
    show (if (x.k == _) = true then _ else x).k < s.nextK + 1
    have := h x hx
    split
    · simp
    · omega

theorem run_inv (files : List RMsg) (s : Srv) (cs : List Cmd) (h : s.Inv) : (Srv.run files s cs).2.Inv := by
  induction cs generalizing s with
  | nil => exact h
  | cons c t ih => simp only [Srv.run]; exact ih _ (step_inv s files c h)

theorem run_length (files : List RMsg) (s : Srv) (cs : List Cmd) : (Srv.run files s cs).1.length = cs.length := by
  induction cs generalizing s with
  | nil => rfl
  | cons c t ih => simp [Srv.run, ih]

end Rem

namespace Rem

/-- without an open file there is no live stream -/
def Srv.Closed (s : Srv) : Prop := s.file = none → s.streams = []

theorem step_closed (s : Srv) (files : List RMsg) (c : Cmd) (h : s.Closed) : (s.step files c).1.Closed := by
  unfold Srv.Closed at *
  cases c <;> simp only [Srv.step] <;> (repeat' split) <;> try exact h
  all_goals (intro hf; simp_all)

theorem run_closed (files : List RMsg) (s : Srv) (cs : List Cmd) (h : s.Closed) : (Srv.run files s cs).2.Closed := by
  induction cs generalizing s with
  | nil => exact h
  | cons c t ih => simp only [Srv.run]; exact ih _ (step_closed s files c h)

/-- a command that does not end stream `k` (stop k, close, a successful open, change-window of k) leaves its usability as it is -/
theorem find_preserved (s : Srv) (files : List RMsg) (c : Cmd) (k : Nat) (h : s.Inv) (hk : k < s.nextK)
    (h1 : c ≠ .stop k) (h2 : c ≠ .close) (h3 : c ≠ .openOk) (h4 : ∀ a b, c ≠ .changeWindow k a b) :
    (s.step files c).1.find k = s.find k := by
  cases c <;> simp only [Srv.step] <;> (repeat' split) <;> try rfl
  · exact absurd rfl h3
  · exact absurd rfl h2
  · -- stream
    show List.find? _ (s.streams ++ [_]) = _
    rw [find_append_fresh]
    have : (s.nextK == k) = false := by simp; omega
    simp [this, Srv.find]
  · -- stop j
    rename_i j _ _ _ _ _ _
    show List.find? _ (List.filter _ s.streams) = _
    rw [find_filter_ne]
    have : k ≠ j := fun e => h1 (by rw [e])
    simp [this, Srv.find]
  · -- change window j
    rename_i j a b _ _ _ st _ _
    show List.find? _ (List.map _ s.streams) = _
    have hj : k ≠ j := fun e => h4 a b (by rw [e])
    exact find_map_replace s.streams j k _ hj (by show k ≠ s.nextK; omega)

end Rem
