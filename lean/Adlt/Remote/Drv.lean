import Adlt.Remote.Srv
import Adlt.Util.Parse
/-! glue for the remote server (C15, C16).
    case: `<ecu>,<recv>,<tsDms>,<apid>,<ctid>,<texthex>,<lcstart>;… | <cmd> ;; <cmd> …`
    obs:  `<reply> … | <k>:<idx+idx…>[:early][:diff] … [stray] | alive=<0|1> proc=<0|1>` -/
namespace Rem
open Util

def strOfHex (h : String) : String := String.ofList ((hexBytes h).map fun b => Char.ofNat b.toNat)

def parseOne (x : String) : Option RMsg :=
  match x.splitOn "," with
  | [e, r, t, a, c, tx, ls, cq] => some { index := 0, ecu := nat! e, recv := nat! r, tsDms := nat! t, apid := a, ctid := c, text := strOfHex tx, lcStart := nat! ls, ctrl := cq == "1" }
  | [e, r, t, a, c, tx, ls] => some { index := 0, ecu := nat! e, recv := nat! r, tsDms := nat! t, apid := a, ctid := c, text := strOfHex tx, lcStart := nat! ls }
  | [e, r, t, a, c, tx] => some { index := 0, ecu := nat! e, recv := nat! r, tsDms := nat! t, apid := a, ctid := c, text := strOfHex tx }
  | _ => none

/-- `*K` repeats everything before it to K copies in total; the index of a message is its position -/
def parseMsgs (s : String) : List RMsg :=
  let raw := (fields s ";").foldl (fun (acc : List RMsg) x =>
    if x.startsWith "*" then (List.replicate (max 1 (nat! (x.drop 1).toString)) acc).flatten
    else match parseOne x with | some m => acc ++ [m] | none => acc) []
  raw.zipIdx.map fun (m, i) => { m with index := i }

def parseFs (s : String) : FSpec :=
  if s == "-" then [] else
  (s.splitOn "+").filterMap fun it =>
    let neg := it.startsWith "!"
    let it := if neg then (it.drop 1).toString else it
    let v := (it.drop 1).toString
    match (it.take 1).toString with
    | "e" => some (neg, .ecu (nat! v))
    | "a" => some (neg, .apid v)
    | "c" => some (neg, .ctid v)
    | "t" => some (neg, .text (strOfHex v))
    | "r" => some (neg, .text (strOfHex v))   -- a regular expression: only such that match nothing of the generated texts are used
    | _ => none

def parseCmds (s : String) : List Cmd :=
  ((s.splitOn " ;; ").filter (fun c => c.trimAscii.toString != "")).flatMap fun c =>
    match fields (if c.trimAscii.toString.startsWith "!" then (c.trimAscii.toString.drop 1).toString else c) " " with
    | ["open"] => [.openOk]
    | ["opensort"] => [.openOk]       -- (generated only for traces whose calculated times are strictly increasing)
    | ["openbad"] => [.openBad]
    | ["close"] => [.close]
    | ["pause"] => [.pause]
    | ["resume"] => [.resume]
    | ["junk"] => [.junk]
    | ["stream", fs, a, b] => [.stream true (parseFs fs) (nat! a) (nat! b)]
    | ["query", fs, a, b] => [.stream false (parseFs fs) (nat! a) (nat! b)]
    | ["streambad"] => [.streamBad]
    | ["stop", k] => [.stop (nat! k)]
    | ["cw", k, a, b] => [.changeWindow (nat! k) (nat! a) (nat! b)]
    | ["cwbad", k] => [.changeWindowBad (nat! k)]
    | ["search", k, fs, a, b] => [.search (nat! k) (parseFs fs) (nat! a) (nat! b)]
    | ["searchnobody", k] => [.searchNoBody (nat! k)]
    | ["bsi", k, n] => [.lookupIndex (nat! k) (nat! n)]
    | ["bst", k, n] => [.lookupTime (nat! k) (nat! n)]
    | ["bsbad", k] => [.lookupBad (nat! k)]
    | ["noid", v] => [.noId (nat! v)]
    | ["fs", v] => [.fs (nat! v)]
    | ["sleep", _] => []
    | ["pcmd", v] => [.pluginCmd (nat! v)]
    | _ => [.junk]

def showReply : Reply → String
  | .ok d => "ok:" ++ d
  | .err => "err"
  | .unknown => "unknown"

def doLine (line : String) : String :=
  let (cs, impl) := match line.splitOn "\t" with
    | [c, i] => (c, i)
    | [c] => (c, "")
    | _ => ("", "")
  match cs.splitOn " | " with
  | [ms, sc] =>
    let msgs := parseMsgs ms
    let cmds := parseCmds sc
    let r := Srv.run msgs {} cmds
    let replies := r.1.map showReply
    let delOf := fun (kp : Nat × List Nat) => s!"{kp.1}:{"+".intercalate (kp.2.map toString)}{if r.2.queries.contains kp.1 then ":end" else ""}"
    let del := r.2.delivered.map delOf
    let wild := (sc.splitOn " ;; ").any fun c =>
      let t := c.trimAscii.toString
      t.startsWith "open1p" || t.startsWith "opennc" || t.startsWith "openxc" || t.startsWith "stream1p" || t.startsWith "openexp" || t.startsWith "openmun"
    -- sessions in the other collect modes (one-pass streams / no collection): only "exactly one reply per command, server and
    -- connection alive" is specified; replies are compared as `reply`, deliveries are not compared
    let nCmds := ((sc.splitOn " ;; ").filter fun c => c.trimAscii.toString != "" && !c.trimAscii.toString.startsWith "sleep").length
    let mobs := if wild then s!"{" ".intercalate (List.replicate nCmds "reply")} | - | alive=1 proc=1"
                else s!"{" ".intercalate replies} | {" ".intercalate del} | alive=1 proc=1"
    -- commands sent while the server is still parsing (`!`): a stream that is ended by a later stop / close / window change
    -- may have received only a prefix of its window
    let racing := (sc.splitOn " ;; ").any fun c => c.trimAscii.toString.startsWith "!"
    let announcedAt : List (Nat × Nat) := (r.1.zipIdx.filterMap fun (rp, i) =>
      match rp with
      | .ok d => if d.startsWith "id" then some (nat! (d.drop 2).toString, i) else none
      | _ => none)
    let cutIds : List Nat := announcedAt.filterMap fun (k, i) =>
      if ((cmds.zip r.1).zipIdx.any fun ((c, rp), j) =>
        j > i && (match rp with | .ok _ => true | _ => false) &&
        (match c with | .close => true | .stop k' => k' == k | .changeWindow k' _ _ => k' == k | _ => false)) then some k else none
    let parts0 := impl.splitOn " | "
    let idel0 := parts0.getD 1 ""
    let idel :=
      if !racing then idel0 else
      " ".intercalate ((fields idel0 " ").map fun e =>
        match e.splitOn ":" with
        | k :: idxs :: flags =>
          let kn := nat! k
          if cutIds.contains kn && !flags.contains "early" && !flags.contains "diff" then
            (match r.2.delivered.find? (·.1 == kn) with
             | some kp =>
               let got := (fields idxs "+").map fun x => nat! x
               if got.isPrefixOf kp.2 then delOf kp else e
             | none => e)
          else e
        | _ => e)
    let wildReplies := " ".intercalate ((fields (parts0.headD "") " ").map fun x =>
      if x.startsWith "ok" || x == "err" || x == "unknown" then "reply" else x)
    let canon := if wild then s!"{wildReplies} | - | {parts0.getD 2 ""}" else s!"{parts0.headD ""} | {idel} | {parts0.getD 2 ""}"
    let parts := canon.splitOn " | "
    let ireplies := fields (parts.headD "") " "
    let tail := parts.getD 2 ""
    let c15 :=
      if impl == "" then "-" else if impl == "PANIC" || impl == "NOCONNECT" then "FAIL:server-not-reachable"
      else if ireplies.any (· == "NOREPLY") then "FAIL:command-without-reply"
      else if ireplies.any (· == "DEAD") || tail != "alive=1 proc=1" then "FAIL:connection-or-server-died"
      else if wild then (if ireplies.length != nCmds then "FAIL:reply-count" else if ireplies.all (· == "reply") then "ok" else "FAIL:reply-neither-ok-nor-err")
      else if ireplies.length != replies.length then "FAIL:reply-count"
      else if ireplies.any (·.startsWith "OTHER") then "FAIL:reply-neither-ok-nor-err"
      else if (ireplies.map fun x => (x.take 2).toString) != (replies.map fun x => (x.take 2).toString) then "FAIL:reply-inconsistent-with-server-state"
      else "ok"
    let c16 :=
      if impl == "" then "-" else if c15 != "ok" then "skip:session-broken" else if wild then "skip:collect-mode-not-modelled" else
      if (idel.splitOn ":early").length > 1 then "FAIL:data-before-announcing-reply"
      else if (idel.splitOn "stray").length > 1 then "FAIL:data-under-unannounced-id"
      else if (idel.splitOn ":diff").length > 1 then "FAIL:message-content-differs-from-file"
      else if idel != " ".intercalate del then "FAIL:stream-window-content"
      else if ireplies != replies then "FAIL:search-or-lookup-result"
      else "ok"
    let tags : List String :=
      (if cmds.any (fun | .stream _ _ _ _ => true | _ => false) then ["stream"] else []) ++
      (if cmds.any (fun | .changeWindow _ _ _ => true | _ => false) then ["change-window"] else []) ++
      (if cmds.any (fun | .search _ _ _ _ => true | _ => false) then ["search"] else []) ++
      (if cmds.any (fun | .lookupIndex _ _ => true | .lookupTime _ _ => true | _ => false) then ["lookup"] else []) ++
      (if replies.any (· == "err") then ["err-reply"] else []) ++ (if replies.any (· == "unknown") then ["unknown-cmd"] else []) ++
      (if r.2.delivered.any (fun d => !d.2.isEmpty) then ["data-delivered"] else []) ++
      (if replies.any (· == "ok:close") then ["close"] else [])
    s!"{mobs}\tC15={c15};C16={c16}\tC15=ok;C16=ok\t{",".intercalate (tags ++ (if wild then ["other-collect-mode"] else []) ++ (if racing then ["racing"] else []) ++ (if (ms.splitOn "*").length > 1 then ["big-file"] else []))}{if (racing || wild) && impl != "" then "\t" ++ canon else ""}"
  | _ => "bad\tC15=FAIL:unparsable;C16=FAIL:unparsable\tC15=ok;C16=ok\t"

end Rem
