import Adlt.Remote.Incr
/-! Invariants of the incremental stream index and the window sender, for every schedule of arrivals, loop rounds (with any
    chunk size) and window changes. -/
namespace Inc

/-! ### matchRange -/

theorem matchRange_zero (keep : Nat → Bool) (a : Nat) : matchRange keep a 0 = [] := rfl

theorem matchRange_add (keep : Nat → Bool) (a n m : Nat) :
    matchRange keep a (n + m) = matchRange keep a n ++ matchRange keep (a + n) m := by
  simp only [matchRange, ← List.range'_append_1, List.filter_append]

theorem matchRange_succ (keep : Nat → Bool) (a n : Nat) :
    matchRange keep a (n + 1) = (if keep a then [a] else []) ++ matchRange keep (a + 1) n := by
  simp only [matchRange, List.range'_succ, List.filter_cons]
  split <;> simp

theorem mem_matchRange (keep : Nat → Bool) (a n q : Nat) :
    q ∈ matchRange keep a n ↔ a ≤ q ∧ q < a + n ∧ keep q = true := by
  simp [matchRange, List.mem_filter, List.mem_range'_1, and_assoc]

theorem matchRange_sorted (keep : Nat → Bool) (a n : Nat) : (matchRange keep a n).Pairwise (· < ·) :=
  (List.pairwise_lt_range' (s := a) (n := n)).sublist List.filter_sublist

theorem matchRange_length_le (keep : Nat → Bool) (a n : Nat) : (matchRange keep a n).length ≤ n := by
  have := List.length_filter_le keep (List.range' a n)
  simpa [matchRange] using this

/-- cutting the matches of `[a, a+n)` before the `k`-th one: exactly the matches of `[a, m[k])` -/
theorem matchRange_cut (keep : Nat → Bool) (n : Nat) : ∀ (a k : Nat) (hk : k < (matchRange keep a n).length),
    matchRange keep a ((matchRange keep a n)[k] - a) = (matchRange keep a n).take k ∧
    a ≤ (matchRange keep a n)[k] ∧ (matchRange keep a n)[k] < a + n := by
  induction n with
  | zero => intro a k hk; simp [matchRange] at hk
  | succ n ih =>
    intro a k hk
    have hmem : (matchRange keep a (n + 1))[k] ∈ matchRange keep a (n + 1) := List.getElem_mem hk
    have hb := (mem_matchRange keep a (n + 1) _).1 hmem
    refine ⟨?_, hb.1, hb.2.1⟩
    by_cases hka : keep a = true
    · have e : matchRange keep a (n + 1) = a :: matchRange keep (a + 1) n := by
        rw [matchRange_succ]; simp [hka]
      cases k with
      | zero =>
        have h0 : (matchRange keep a (n + 1))[0] = a := by simp [e]
        rw [h0]; simp [matchRange]
      | succ j =>
        have hj : j < (matchRange keep (a + 1) n).length := by
          have : j + 1 < (a :: matchRange keep (a + 1) n).length := by rw [← e]; exact hk
          simpa using this
        have hg : (matchRange keep a (n + 1))[j + 1] = (matchRange keep (a + 1) n)[j] := by
          simp [e]
        obtain ⟨h1, h2, _⟩ := ih (a + 1) j hj
        rw [hg]
        have : (matchRange keep (a + 1) n)[j] - a = ((matchRange keep (a + 1) n)[j] - (a + 1)) + 1 := by omega
        rw [this, matchRange_succ, h1, e]; simp [hka]
    · have hka' : keep a = false := by simpa using hka
      have e : matchRange keep a (n + 1) = matchRange keep (a + 1) n := by
        rw [matchRange_succ]; simp [hka']
      have hj : k < (matchRange keep (a + 1) n).length := by rw [← e]; exact hk
      have hg : (matchRange keep a (n + 1))[k] = (matchRange keep (a + 1) n)[k] := by simp [e]
      obtain ⟨h1, h2, _⟩ := ih (a + 1) k hj
      rw [hg]
      have : (matchRange keep (a + 1) n)[k] - a = ((matchRange keep (a + 1) n)[k] - (a + 1)) + 1 := by omega
      rw [this, matchRange_succ, h1, e]; simp [hka']

/-- the matches of `[0, p)` are a prefix of the matches of `[0, q)` for `p ≤ q` -/
theorem matchRange_prefix (keep : Nat → Bool) (p q : Nat) (h : p ≤ q) :
    matchRange keep 0 q = matchRange keep 0 p ++ matchRange keep p (q - p) := by
  have : q = p + (q - p) := by omega
  rw [this, matchRange_add]; simp

/-! ### the query loop -/

theorem queryLoop_spec (keep : Nat → Bool) (off maxIdx part stop : Nat) :
    ∀ (fuel startIdx : Nat) (filtered : List Nat) (processed : Nat),
      filtered = matchRange keep 0 processed →
      (processed = off + startIdx ∨ stop ≤ filtered.length) →
      startIdx ≤ maxIdx → processed ≤ off + maxIdx →
      let r := queryLoop keep off maxIdx part stop fuel startIdx filtered processed
      r.1 = matchRange keep 0 r.2 ∧ processed ≤ r.2 ∧ r.2 ≤ off + maxIdx ∧
      (∃ ext, r.1 = filtered ++ ext) := by
  intro fuel
  induction fuel with
  | zero => intro startIdx filtered processed h _ _ hp; simp only [queryLoop]; exact ⟨h, Nat.le_refl _, hp, [], by simp⟩
  | succ fuel ih =>
    intro startIdx filtered processed h hor hs hp
    simp only [queryLoop]
    split
    · rename_i hc
      have hproc : processed = off + startIdx := by
        rcases hor with h1 | h1
        · exact h1
        · omega
      subst hproc
      subst h
      split
      · rename_i hle
        -- all matches of this part are wanted
        have hf : matchRange keep 0 (off + startIdx) ++ matchRange keep (off + startIdx) (min maxIdx (startIdx + part) - startIdx)
            = matchRange keep 0 (off + min maxIdx (startIdx + part)) := by
          rw [matchRange_prefix keep (off + startIdx) (off + min maxIdx (startIdx + part)) (by omega)]
          congr 2; omega
        have := ih (min maxIdx (startIdx + part)) _ (off + min maxIdx (startIdx + part)) hf (Or.inl rfl) (by omega) (by omega)
        obtain ⟨r1, r2, r3, ext, r4⟩ := this
        exact ⟨r1, by omega, r3, matchRange keep (off + startIdx) (min maxIdx (startIdx + part) - startIdx) ++ ext, by rw [r4, List.append_assoc]⟩
      · rename_i hgt
        -- more matches than wanted: cut before the first unwanted one
        generalize hw : stop - (matchRange keep 0 (off + startIdx)).length = w at *
        have hk : w < (matchRange keep (off + startIdx) (min maxIdx (startIdx + part) - startIdx)).length := by omega
        obtain ⟨c1, c2, c3⟩ := matchRange_cut keep _ (off + startIdx) _ hk
        have hgd : (matchRange keep (off + startIdx) (min maxIdx (startIdx + part) - startIdx)).getD w 0
            = (matchRange keep (off + startIdx) (min maxIdx (startIdx + part) - startIdx))[w] := by
          simp [List.getD, List.getElem?_eq_getElem hk]
        rw [hgd]
        have hf : matchRange keep 0 (off + startIdx) ++ (matchRange keep (off + startIdx) (min maxIdx (startIdx + part) - startIdx)).take w
            = matchRange keep 0 ((matchRange keep (off + startIdx) (min maxIdx (startIdx + part) - startIdx))[w]) := by
          rw [matchRange_prefix keep (off + startIdx) _ c2, ← c1]
        have hlen : stop ≤ (matchRange keep 0 (off + startIdx) ++ (matchRange keep (off + startIdx) (min maxIdx (startIdx + part) - startIdx)).take w).length := by
          simp [List.length_take]; omega
        have := ih (min maxIdx (startIdx + part)) _ _ hf (Or.inr hlen) (by omega) (by omega)
        obtain ⟨r1, r2, r3, ext, r4⟩ := this
        exact ⟨r1, by omega, r3, (matchRange keep (off + startIdx) (min maxIdx (startIdx + part) - startIdx)).take w ++ ext, by rw [r4, List.append_assoc]⟩
    · exact ⟨h, Nat.le_refl _, hp, [], by simp⟩

/-! ### invariant -/

structure Inv (keep : Nat → Bool) (s : SC) : Prop where
  idx : s.filtersActive = true → s.filtered = matchRange keep 0 s.processed
  le : s.processed ≤ s.allLen
  sentLo : s.start ≤ s.sentEnd
  sentHi : s.sentEnd = s.start ∨ (s.sentEnd ≤ s.stop ∧ s.sentEnd ≤ s.seqNow.length)
  del : s.delivered = (s.seqNow.take s.sentEnd).drop s.start

theorem inv_new (keep : Nat → Bool) (isStream fa : Bool) (a b : Nat) : Inv keep (SC.new isStream fa a b) := by
  constructor <;> simp [SC.new, matchRange, SC.seqNow]

/-- `procNew` only appends to what the sender sees -/
theorem procNew_spec (keep : Nat → Bool) (pc : Nat) (s : SC) (c : Nat) (h : Inv keep s) :
    let s' := procNew keep pc s c
    (s'.filtersActive = true → s'.filtered = matchRange keep 0 s'.processed) ∧ s.processed ≤ s'.processed ∧
    s'.processed ≤ s'.allLen ∧ (∃ ext, s'.seqNow = s.seqNow ++ ext) ∧
    s'.start = s.start ∧ s'.stop = s.stop ∧ s'.sentEnd = s.sentEnd ∧ s'.delivered = s.delivered ∧ s'.allLen = s.allLen ∧
    s'.filtersActive = s.filtersActive ∧ s'.isStream = s.isStream := by
  have hle := h.le
  simp only [procNew]
  split
  · exact ⟨h.idx, Nat.le_refl _, h.le, ⟨[], by simp⟩, rfl, rfl, rfl, rfl, rfl, rfl, rfl⟩
  · split
    · rename_i hfa
      have hfa' : s.filtersActive = false := by simpa using hfa
      refine ⟨by simp [hfa'], by simp, by simp; omega, ⟨[], by simp [SC.seqNow, hfa']⟩, rfl, rfl, rfl, rfl, rfl, rfl, rfl⟩
    · rename_i hfa
      have hfa' : s.filtersActive = true := by simpa using hfa
      split
      · refine ⟨?_, by simp, by simp; omega, ⟨matchRange keep s.processed (min (s.allLen - s.processed) c), by simp only [SC.seqNow, hfa', if_true]⟩, rfl, rfl, rfl, rfl, rfl, rfl, rfl⟩
        intro _
        show s.filtered ++ _ = matchRange keep 0 (s.processed + _)
        rw [matchRange_add, ← h.idx hfa']; simp
      · have := queryLoop_spec keep s.processed (min (s.allLen - s.processed) c) (min c pc) s.stop
            (min (s.allLen - s.processed) c + 1) 0 s.filtered s.processed (h.idx hfa') (Or.inl rfl) (Nat.zero_le _) (by omega)
        obtain ⟨r1, r2, r3, ext, r4⟩ := this
        refine ⟨fun _ => r1, r2, ?_, ⟨ext, by simp only [SC.seqNow, hfa', if_true]; exact r4⟩, rfl, rfl, rfl, rfl, rfl, rfl, rfl⟩
        have hb : s.processed + min (s.allLen - s.processed) c ≤ s.allLen := by omega
        exact Nat.le_trans r3 hb

theorem take_drop_append_of_le {α} (l ext : List α) (a e : Nat) (h : e = a ∨ e ≤ l.length) :
    ((l ++ ext).take e).drop a = (l.take e).drop a := by
  rcases h with rfl | h
  · simp [List.drop_take]
  · rw [List.take_append_of_le_length h]

theorem inv_procNew (keep : Nat → Bool) (pc : Nat) (s : SC) (c : Nat) (h : Inv keep s) : Inv keep (procNew keep pc s c) := by
  obtain ⟨p1, p2, p3, ⟨ext, p4⟩, q1, q2, q3, q4, q5, q6, q7⟩ := procNew_spec keep pc s c h
  constructor
  · exact p1
  · exact p3
  · rw [q1, q3]; exact h.sentLo
  · rw [q1, q2, q3, p4]
    rcases h.sentHi with h1 | ⟨h1, h2⟩
    · exact Or.inl h1
    · exact Or.inr ⟨h1, by simp; omega⟩
  · rw [q4, q3, q1, p4, h.del]
    symm
    apply take_drop_append_of_le
    rcases h.sentHi with h1 | ⟨_, h2⟩
    · exact Or.inl h1
    · exact Or.inr h2

theorem inv_send (keep : Nat → Bool) (s : SC) (h : Inv keep s) : Inv keep (send s) := by
  simp only [send]
  split
  · rename_i hc
    have hseq : ({ s with delivered := s.delivered ++ (s.seqNow.take (min s.seqNow.length s.stop)).drop s.sentEnd,
                          sentEnd := min s.seqNow.length s.stop } : SC).seqNow = s.seqNow := rfl
    constructor
    · exact h.idx
    · exact h.le
    · show s.start ≤ min s.seqNow.length s.stop
      have := h.sentLo; omega
    · right
      show min s.seqNow.length s.stop ≤ s.stop ∧ min s.seqNow.length s.stop ≤ _
      rw [hseq]; omega
    · show s.delivered ++ _ = (List.take (min s.seqNow.length s.stop) _).drop s.start
      rw [hseq, h.del]
      -- take e, drop a ++ (take e', drop e) = take e', drop a   for a ≤ e ≤ e'
      have hlo := h.sentLo
      have e1 : List.take s.sentEnd s.seqNow = List.take s.sentEnd (List.take (min s.seqNow.length s.stop) s.seqNow) := by
        rw [List.take_take]; congr 1; omega
      rw [e1]
      generalize List.take (min s.seqNow.length s.stop) s.seqNow = L
      have : List.drop s.start L = List.drop s.start (List.take s.sentEnd L) ++ List.drop s.sentEnd L := by
        conv => lhs; rw [← List.take_append_drop s.sentEnd L]
        rw [List.drop_append]
        by_cases hl : s.sentEnd ≤ L.length
        · have : (List.take s.sentEnd L).length = s.sentEnd := by simp; omega
          rw [this]
          have : s.start - s.sentEnd = 0 := by omega
          rw [this]; rfl
        · have hl' : L.length < s.sentEnd := by omega
          rw [List.take_of_length_le (by omega), List.drop_of_length_le (by omega : L.length ≤ s.sentEnd)]
          simp
      exact this.symm
  · exact h

theorem inv_step (keep : Nat → Bool) (pc : Nat) (s : SC) (e : Ev) (h : Inv keep s) : Inv keep (stepEv keep pc s e) := by
  cases e with
  | arrive n =>
    simp only [stepEv]
    have hseq : ∃ ext, ({ s with allLen := s.allLen + n } : SC).seqNow = s.seqNow ++ ext := by
      simp only [SC.seqNow]
      split
      · exact ⟨[], by simp⟩
      · exact ⟨(List.range n).map (s.allLen + ·), List.range_add⟩
    obtain ⟨ext, he⟩ := hseq
    constructor
    · exact h.idx
    · show s.processed ≤ s.allLen + n
      have := h.le; omega
    · exact h.sentLo
    · rcases h.sentHi with h1 | ⟨h1, h2⟩
      · exact Or.inl h1
      · right; refine ⟨h1, ?_⟩; rw [he]; simp; omega
    · show s.delivered = _
      rw [he, h.del]
      symm
      apply take_drop_append_of_le
      rcases h.sentHi with h1 | ⟨_, h2⟩
      · exact Or.inl h1
      · exact Or.inr h2
  | tick c => exact inv_send keep _ (inv_procNew keep pc s c h)
  | cw a b =>
    simp only [stepEv]
    constructor
    · exact h.idx
    · exact h.le
    · exact Nat.le_refl _
    · exact Or.inl rfl
    · show [] = _
      simp [List.drop_take]

theorem inv_run (keep : Nat → Bool) (pc : Nat) (s : SC) (evs : List Ev) (h : Inv keep s) : Inv keep (runEv keep pc s evs) := by
  induction evs generalizing s with
  | nil => exact h
  | cons e t ih => simp only [runEv, List.foldl_cons]; exact ih _ (inv_step keep pc s e h)

/-! ### what has been delivered when the stream has settled -/

/-- the complete stream over a file of `n` messages -/
def fullSeq (keep : Nat → Bool) (filtersActive : Bool) (n : Nat) : List Nat :=
  if filtersActive then matchRange keep 0 n else List.range n

/-- nothing more to index (everything processed, or a query that has all it can use) and nothing more to send -/
def Settled (s : SC) : Prop :=
  (s.filtersActive = true → (s.processed = s.allLen ∨ (s.isStream = false ∧ s.stop ≤ s.filtered.length))) ∧
  ¬ (s.sentEnd < s.stop ∧ s.sentEnd < s.seqNow.length)

instance (s : SC) : Decidable (Settled s) := by unfold Settled; infer_instance

theorem settled_delivered (keep : Nat → Bool) (s : SC) (h : Inv keep s) (hs : Settled s) :
    s.delivered = ((fullSeq keep s.filtersActive s.allLen).take s.stop).drop s.start := by
  obtain ⟨hs1, hs2⟩ := hs
  -- the sender's view is a prefix of the full stream
  have hpre : ∃ ext, fullSeq keep s.filtersActive s.allLen = s.seqNow ++ ext := by
    simp only [fullSeq, SC.seqNow]
    cases hfa : s.filtersActive with
    | false => exact ⟨[], by simp⟩
    | true =>
      simp only [if_true]
      rw [h.idx hfa]
      exact ⟨_, matchRange_prefix keep s.processed s.allLen h.le⟩
  obtain ⟨ext, he⟩ := hpre
  rw [h.del, he]
  by_cases hstop : s.sentEnd < s.stop
  · -- then everything the sender sees has been sent, and it sees the whole stream (or enough of it)
    have hlen : s.seqNow.length ≤ s.sentEnd := by
      by_cases hl : s.sentEnd < s.seqNow.length
      · exact absurd ⟨hstop, hl⟩ hs2
      · omega
    have hext : ext = [] := by
      cases hfa : s.filtersActive with
      | false =>
        have : s.seqNow = List.range s.allLen := by simp [SC.seqNow, hfa]
        have h2 : fullSeq keep s.filtersActive s.allLen = List.range s.allLen := by simp [fullSeq, hfa]
        rw [h2, this] at he
        simpa using he
      | true =>
        rcases hs1 hfa with hp | ⟨_, hq⟩
        · have h1 : s.seqNow = matchRange keep 0 s.allLen := by
            simp only [SC.seqNow, hfa, if_true]; rw [h.idx hfa, hp]
          have h2 : fullSeq keep s.filtersActive s.allLen = matchRange keep 0 s.allLen := by simp [fullSeq, hfa]
          rw [h2, h1] at he
          simpa using he
        · have : s.seqNow.length = s.filtered.length := by simp [SC.seqNow, hfa]
          omega
    subst hext
    simp only [List.append_nil]
    rw [List.take_of_length_le hlen, List.take_of_length_le (by omega)]
  · -- the window end has been reached (or the window is empty)
    rcases h.sentHi with h1 | ⟨h1, h2⟩
    · rw [h1]
      have e1 : List.drop s.start (List.take s.start s.seqNow) = [] := by simp [List.drop_take]
      have e2 : List.drop s.start (List.take s.stop (s.seqNow ++ ext)) = [] := by
        rw [List.drop_eq_nil_iff]; simp; omega
      rw [e1, e2]
    · have : s.sentEnd = s.stop := by omega
      rw [this] at h2 ⊢
      rw [List.take_append_of_le_length h2]

end Inc

namespace Inc

/-! ### progress: with all messages there, rounds of the loop settle the stream -/

theorem queryLoop_full (keep : Nat → Bool) (off maxIdx part stop fuel startIdx : Nat) (filtered : List Nat) (processed : Nat)
    (h : stop ≤ filtered.length) : queryLoop keep off maxIdx part stop fuel startIdx filtered processed = (filtered, processed) := by
  cases fuel with
  | zero => rfl
  | succ f =>
    simp only [queryLoop]
    split
    · rename_i hc; omega
    · rfl

theorem queryLoop_progress (keep : Nat → Bool) (off maxIdx part stop fuel startIdx : Nat) (filtered : List Nat)
    (hf : filtered = matchRange keep 0 (off + startIdx)) (hc : filtered.length < stop ∧ startIdx < maxIdx) (hpart : 1 ≤ part) :
    off + startIdx < (queryLoop keep off maxIdx part stop (fuel + 1) startIdx filtered (off + startIdx)).2 := by
  subst hf
  simp only [queryLoop, hc, and_self, if_true]
  split
  · rename_i hle
    have hfm : matchRange keep 0 (off + startIdx) ++ matchRange keep (off + startIdx) (min maxIdx (startIdx + part) - startIdx)
        = matchRange keep 0 (off + min maxIdx (startIdx + part)) := by
      rw [matchRange_prefix keep (off + startIdx) (off + min maxIdx (startIdx + part)) (by omega)]
      congr 2; omega
    have := queryLoop_spec keep off maxIdx part stop fuel (min maxIdx (startIdx + part)) _ (off + min maxIdx (startIdx + part))
      hfm (Or.inl rfl) (by omega) (by omega)
    obtain ⟨_, r2, _, _⟩ := this
    omega
  · rename_i hgt
    generalize hw : stop - (matchRange keep 0 (off + startIdx)).length = w at *
    have hk : w < (matchRange keep (off + startIdx) (min maxIdx (startIdx + part) - startIdx)).length := by omega
    obtain ⟨c1, c2, c3⟩ := matchRange_cut keep _ (off + startIdx) _ hk
    have hgd : (matchRange keep (off + startIdx) (min maxIdx (startIdx + part) - startIdx)).getD w 0
        = (matchRange keep (off + startIdx) (min maxIdx (startIdx + part) - startIdx))[w] := by
      simp [List.getD, List.getElem?_eq_getElem hk]
    rw [hgd]
    -- the first unwanted match lies strictly behind the start of the part: `w ≥ 1` matches precede it
    have hpos : off + startIdx < (matchRange keep (off + startIdx) (min maxIdx (startIdx + part) - startIdx))[w] := by
      have hl := congrArg List.length c1
      rw [List.length_take] at hl
      have hle := matchRange_length_le keep (off + startIdx)
        ((matchRange keep (off + startIdx) (min maxIdx (startIdx + part) - startIdx))[w] - (off + startIdx))
      omega
    have hfm : matchRange keep 0 (off + startIdx) ++ (matchRange keep (off + startIdx) (min maxIdx (startIdx + part) - startIdx)).take w
        = matchRange keep 0 ((matchRange keep (off + startIdx) (min maxIdx (startIdx + part) - startIdx))[w]) := by
      rw [matchRange_prefix keep (off + startIdx) _ c2, ← c1]
    have hlen : stop ≤ (matchRange keep 0 (off + startIdx) ++ (matchRange keep (off + startIdx) (min maxIdx (startIdx + part) - startIdx)).take w).length := by
      simp [List.length_take]; omega
    rw [queryLoop_full keep off maxIdx part stop fuel _ _ _ hlen]
    exact hpos

/-- the index needs no more rounds -/
def IdxSettled (s : SC) : Prop :=
  s.filtersActive = true → (s.processed = s.allLen ∨ (s.isStream = false ∧ s.stop ≤ s.filtered.length))

theorem procNew_progress (keep : Nat → Bool) (pc : Nat) (s : SC) (c : Nat) (h : Inv keep s) (hc : 1 ≤ c) (hpc : 1 ≤ pc)
    (hn : ¬ IdxSettled s) : s.processed < (procNew keep pc s c).processed := by
  have hfa : s.filtersActive = true := by
    cases hfa : s.filtersActive with
    | true => rfl
    | false => exact absurd (fun h' => by rw [hfa] at h'; cases h') hn
  have hlt : s.processed < s.allLen := by
    have := h.le
    by_cases he : s.processed = s.allLen
    · exact absurd (fun _ => Or.inl he) hn
    · omega
  simp only [procNew]
  have h0 : ¬ (s.allLen - s.processed = 0) := by omega
  simp only [h0, if_false, hfa, Bool.not_true, Bool.false_eq_true]
  split
  · show s.processed < s.processed + _
    omega
  · rename_i hst
    have hst' : s.isStream = false := by simpa using hst
    have hnf : s.filtered.length < s.stop := by
      by_cases hx : s.stop ≤ s.filtered.length
      · exact absurd (fun _ => Or.inr ⟨hst', hx⟩) hn
      · omega
    have := queryLoop_progress keep s.processed (min (s.allLen - s.processed) c) (min c pc) s.stop
      (min (s.allLen - s.processed) c) 0 s.filtered (by simpa using h.idx hfa) ⟨hnf, by omega⟩ (by omega)
    simpa using this

theorem procNew_settled (keep : Nat → Bool) (pc : Nat) (s : SC) (c : Nat) (hs : IdxSettled s) :
    IdxSettled (procNew keep pc s c) := by
  cases hfa : s.filtersActive with
  | false =>
    intro hx
    have : (procNew keep pc s c).filtersActive = s.filtersActive := by
      simp only [procNew]; split
      · rfl
      · simp [hfa]
    rw [this, hfa] at hx; cases hx
  | true =>
    rcases hs hfa with hp | ⟨hq, hl⟩
    · have : procNew keep pc s c = s := by simp [procNew, hp]
      rw [this]; intro _; exact Or.inl hp
    · have : procNew keep pc s c = s := by
        simp only [procNew]
        split
        · rfl
        · simp only [hfa, Bool.not_true, Bool.false_eq_true, if_false, hq]
          rw [queryLoop_full keep _ _ _ _ _ _ _ _ hl]
          cases s; simp_all
      rw [this]; intro _; exact Or.inr ⟨hq, hl⟩

theorem send_not_pending (s : SC) : ¬ ((send s).sentEnd < (send s).stop ∧ (send s).sentEnd < (send s).seqNow.length) := by
  simp only [send]
  split
  · show ¬ (min s.seqNow.length s.stop < s.stop ∧ min s.seqNow.length s.stop < s.seqNow.length)
    omega
  · assumption

theorem send_idx (s : SC) : IdxSettled s → IdxSettled (send s) := by
  intro h; simp only [send]; split
  · exact h
  · exact h

def ticks (keep : Nat → Bool) (pc c : Nat) : Nat → SC → SC
  | 0, s => s
  | k + 1, s => ticks keep pc c k (stepEv keep pc s (.tick c))

theorem tick_frame (keep : Nat → Bool) (pc c : Nat) (s : SC) (h : Inv keep s) :
    (stepEv keep pc s (.tick c)).allLen = s.allLen ∧ (stepEv keep pc s (.tick c)).start = s.start ∧
    (stepEv keep pc s (.tick c)).stop = s.stop ∧ (stepEv keep pc s (.tick c)).filtersActive = s.filtersActive := by
  obtain ⟨_, _, _, _, q1, q2, _, _, q5, q6, _⟩ := procNew_spec keep pc s c h
  simp only [stepEv, send]
  split <;> exact ⟨q5, q1, q2, q6⟩

theorem ticks_settle (keep : Nat → Bool) (pc c : Nat) (hc : 1 ≤ c) (hpc : 1 ≤ pc) :
    ∀ (n : Nat) (s : SC), Inv keep s → s.allLen - s.processed ≤ n →
      ∃ k, Settled (ticks keep pc c k s) ∧ Inv keep (ticks keep pc c k s) ∧ (ticks keep pc c k s).allLen = s.allLen ∧
        (ticks keep pc c k s).start = s.start ∧ (ticks keep pc c k s).stop = s.stop ∧
        (ticks keep pc c k s).filtersActive = s.filtersActive := by
  intro n
  induction n with
  | zero =>
    intro s h hm
    have hsettled : IdxSettled s := fun _ => Or.inl (by have := h.le; omega)
    refine ⟨1, ⟨?_, ?_⟩, inv_step keep pc s (.tick c) h, (tick_frame keep pc c s h).1, (tick_frame keep pc c s h).2.1,
      (tick_frame keep pc c s h).2.2.1, (tick_frame keep pc c s h).2.2.2⟩
    · exact send_idx _ (procNew_settled keep pc s c hsettled)
    · exact send_not_pending _
  | succ n ih =>
    intro s h hm
    by_cases hsettled : IdxSettled s
    · refine ⟨1, ⟨?_, ?_⟩, inv_step keep pc s (.tick c) h, (tick_frame keep pc c s h).1, (tick_frame keep pc c s h).2.1,
        (tick_frame keep pc c s h).2.2.1, (tick_frame keep pc c s h).2.2.2⟩
      · exact send_idx _ (procNew_settled keep pc s c hsettled)
      · exact send_not_pending _
    · have hp := procNew_progress keep pc s c h hc hpc hsettled
      have hi := inv_step keep pc s (.tick c) h
      obtain ⟨f1, f2, f3, f4⟩ := tick_frame keep pc c s h
      have hproc : (stepEv keep pc s (.tick c)).processed = (procNew keep pc s c).processed := by
        simp only [stepEv, send]; split <;> rfl
      obtain ⟨k, k1, k2, k3, k4, k5, k6⟩ := ih (stepEv keep pc s (.tick c)) hi (by rw [f1, hproc]; omega)
      exact ⟨k + 1, k1, k2, by rw [← f1]; exact k3, by rw [← f2]; exact k4, by rw [← f3]; exact k5, by rw [← f4]; exact k6⟩

end Inc
