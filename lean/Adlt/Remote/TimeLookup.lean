import Adlt.Remote.Model
/-! C16, time lookup: the model answers with the first file position whose time is not before the wanted one
    (`takeWhile`); `binary_search_by_time_us` answers with `partition_point` of the same predicate. On a file that is ordered
    by that time - which a file opened with `sort` is, by the key of the time sort - the two coincide: any position that has
    only earlier messages in front and none from it on is the model's position. -/
namespace Rem

theorem takeWhile_spec {α} (p : α → Bool) (l : List α) :
    (∀ i x, i < (l.takeWhile p).length → l[i]? = some x → p x = true) ∧
    (∀ x, l[(l.takeWhile p).length]? = some x → p x = false) := by
  induction l with
  | nil => exact ⟨by intro i x hi; simp at hi, by intro x hx; simp at hx⟩
  | cons a t ih =>
    by_cases ha : p a = true
    · rw [List.takeWhile_cons_of_pos ha]
      refine ⟨?_, ?_⟩
      · intro i x hi hx
        cases i with
        | zero => simp at hx; rw [← hx]; exact ha
        | succ j =>
          simp only [List.length_cons] at hi
          exact ih.1 j x (by omega) (by simpa using hx)
      · intro x hx
        simp only [List.length_cons, List.getElem?_cons_succ] at hx
        exact ih.2 x hx
    · rw [List.takeWhile_cons_of_neg ha]
      refine ⟨by intro i x hi; simp at hi, ?_⟩
      intro x hx
      simp at hx
      rw [← hx]; simpa using ha

/-- the position the model answers a time lookup with -/
def timePos (ms : List RMsg) (t : Nat) : Nat := (ms.takeWhile fun m => decide (m.time < t)).length

theorem timePos_le (ms : List RMsg) (t : Nat) : timePos ms t ≤ ms.length := by
  unfold timePos
  exact (List.takeWhile_sublist _).length_le

/-- every message in front of the position is before the wanted time, the message at the position is not -/
theorem timePos_spec (ms : List RMsg) (t : Nat) :
    (∀ i m, i < timePos ms t → ms[i]? = some m → m.time < t) ∧ (∀ m, ms[timePos ms t]? = some m → t ≤ m.time) := by
  obtain ⟨h1, h2⟩ := takeWhile_spec (fun (m : RMsg) => decide (m.time < t)) ms
  refine ⟨?_, ?_⟩
  · intro i m hi hm
    have := h1 i m hi hm
    simpa using this
  · intro m hm
    have := h2 m hm
    simp only [decide_eq_false_iff_not] at this
    omega

/-- on a file ordered by time nothing from the position on is before the wanted time -/
theorem timePos_sorted (ms : List RMsg) (t : Nat) (hs : ms.Pairwise fun a b => a.time ≤ b.time) :
    ∀ i m, timePos ms t ≤ i → ms[i]? = some m → t ≤ m.time := by
  intro i m hi hm
  by_cases hlen : timePos ms t < ms.length
  · have hp : ms[timePos ms t]? = some ms[timePos ms t] := List.getElem?_eq_getElem hlen
    have h0 := (timePos_spec ms t).2 _ hp
    by_cases he : i = timePos ms t
    · subst he
      rw [hp] at hm
      have : ms[timePos ms t] = m := Option.some.inj hm
      rw [← this]; exact h0
    · have hlt : timePos ms t < i := by omega
      have hi' : i < ms.length := by
        rcases Nat.lt_or_ge i ms.length with h | h
        · exact h
        · rw [List.getElem?_eq_none h] at hm; cases hm
      have hm' : ms[i] = m := by
        rw [List.getElem?_eq_getElem hi'] at hm; exact Option.some.inj hm
      have := List.pairwise_iff_getElem.mp hs (timePos ms t) i hlen hi' hlt
      rw [hm'] at this
      omega
  · have : ms.length ≤ i := by omega
    rw [List.getElem?_eq_none this] at hm; cases hm

/-- ... so the position is the only one with that property: it is what `partition_point` returns on a time-sorted file -/
theorem timePos_unique (ms : List RMsg) (t : Nat) (p' : Nat) (hle : p' ≤ ms.length)
    (h1 : ∀ i m, i < p' → ms[i]? = some m → m.time < t) (h2 : ∀ i m, p' ≤ i → ms[i]? = some m → t ≤ m.time) :
    p' = timePos ms t := by
  obtain ⟨s1, s2⟩ := timePos_spec ms t
  have hple := timePos_le ms t
  rcases Nat.lt_trichotomy p' (timePos ms t) with h | h | h
  · -- the message at p' is in front of the model's position, hence before t - but p' says it is not
    have hlen : p' < ms.length := by omega
    have hp : ms[p']? = some ms[p'] := List.getElem?_eq_getElem hlen
    have a := s1 p' _ h hp
    have b := h2 p' _ (Nat.le_refl _) hp
    omega
  · exact h
  · have hlen : timePos ms t < ms.length := by omega
    have hp : ms[timePos ms t]? = some ms[timePos ms t] := List.getElem?_eq_getElem hlen
    have a := s2 _ hp
    have b := h1 (timePos ms t) _ h hp
    omega

end Rem
