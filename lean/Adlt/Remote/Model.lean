/-! Model of the remote server's command handling (`process_incoming_text_message`, src/bin/adlt/remote.rs), the
    stream bookkeeping (`StreamContext`, `process_stream_new_msgs`, src/utils/remote_utils.rs), the window sending of
    `process_file_context`, `stream_search`, and the index / time lookups — at the level of what a client can observe
    once parsing has caught up. -/
namespace Rem

structure RMsg where
  index : Nat
  ecu : Nat
  recv : Nat
  tsDms : Nat
  apid : String
  ctid : String
  text : String
  lc : Nat := 0            -- lifecycle (for the calculated time of time lookups); filled by the driver
  lcStart : Nat := 0
  ctrl : Bool := false     -- a control request: its time stamp is from the logger's clock
deriving Repr, DecidableEq

/-- the time of a message for the time sort and the time lookup: the reception time for a control request, otherwise
    lifecycle start + time stamp, but not later than the reception time -/
def RMsg.time (m : RMsg) : Nat := if m.ctrl then m.recv else min (m.lcStart + m.tsDms * 100) m.recv

inductive Crit where
  | ecu (d : Nat) | apid (s : String) | ctid (s : String) | text (s : String)
deriving Repr, DecidableEq

/-- (negative?, criterion): a positive or a negative filter with one criterion -/
abbrev FSpec := List (Bool × Crit)

def containsStr (hay needle : String) : Bool :=
  let h := hay.toList
  let n := needle.toList
  (List.range (h.length + 1)).any fun i => (h.drop i).take n.length == n

def critHolds (c : Crit) (m : RMsg) : Bool :=
  match c with
  | .ecu d => m.ecu == d
  | .apid s => m.apid == s
  | .ctid s => m.ctid == s
  | .text s => containsStr m.text s

/-- `match_filters` for positive / negative filters -/
def keeps (fs : FSpec) (m : RMsg) : Bool :=
  let pos := fs.filter (!·.1)
  let neg := fs.filter (·.1)
  (pos.isEmpty || pos.any (fun f => critHolds f.2 m)) && !(neg.any fun f => critHolds f.2 m)

structure Stream where
  k : Nat                -- canonical id (order of announcement)
  isStream : Bool
  filters : FSpec
  start : Nat
  stop : Nat
deriving Repr

/-- the filtered sequence of a stream as positions into the file's messages, once everything is processed:
    all positions without filters; all matching positions for a stream; the first `stop` matching positions for a query -/
def Stream.seq (s : Stream) (ms : List RMsg) (maxStop : Nat) : List Nat :=
  if s.filters.isEmpty then List.range ms.length
  else
    let all := (ms.zipIdx.filter fun (m, _) => keeps s.filters m).map (·.2)
    if s.isStream then all else all.take maxStop

/-- positions `[start, min stop |seq|)` of the filtered sequence: what the client eventually receives under the id -/
def window (seq : List Nat) (start stop : Nat) : List Nat := (seq.take stop).drop start

/-- does the message at file position `p` pass the search filters? -/
def hitAt (ms : List RMsg) (fs : FSpec) (p : Nat) : Bool :=
  match ms[p]? with | some m => keeps fs m | none => false

/-- `stream_search`: (result positions, next_search_idx) -/
def search (seq : List Nat) (ms : List RMsg) (fs : FSpec) (startIdx maxResults : Nat) : List Nat × Option Nat :=
  let rec go (i : Nat) (rest : List Nat) (acc : List Nat) : List Nat × Nat :=
    match rest with
    | [] => (acc.reverse, i)
    | p :: t =>
      if hitAt ms fs p then
        (if acc.length + 1 ≥ maxResults then ((i :: acc).reverse, i + 1) else go (i + 1) t (i :: acc))
      else go (i + 1) t acc
  let r := go startIdx (seq.drop startIdx) []
  (r.1, if r.2 < seq.length then some r.2 else none)

/-- first position of the filtered sequence whose file position is not before `p` -/
def lowerBound (seq : List Nat) (p : Nat) : Nat := (seq.takeWhile (· < p)).length

end Rem
