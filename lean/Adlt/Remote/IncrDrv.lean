import Adlt.Remote.Incr
import Adlt.Remote.Late
import Adlt.Remote.Drv
import Adlt.Gen.Consts
/-! glue for the incremental stream index at library level (C16).
    case: `<msgs> | <stream|query> <filters> <start> <stop> [d<n>] | <ev>;<ev>…`   (`d<n>`: collect mode one_pass_streams, the stream is
    created after n messages were parsed and drained)
    obs:  `<len>:<processed> …(one per round) | <a>+<n>,…(the final index, run-length) | fa=<0|1> p=<processed>` -/
namespace Inc
open Util

def parseEvs (s : String) : List Ev :=
  (fields s ";").filterMap fun e =>
    let v := (e.drop 1).toString
    match (e.take 1).toString with
    | "a" => some (.arrive (nat! v))
    | "t" => some (.tick (nat! v))
    | "w" => match v.splitOn "," with
      | [a, b] => some (.cw (nat! a) (nat! b))
      | _ => some (.cw 0 0)
    | _ => none

def runs (l : List Nat) : List (Nat × Nat) :=
  (l.foldl (fun (acc : List (Nat × Nat)) p =>
    match acc with
    | (a, n) :: t => if a + n == p then (a, n + 1) :: t else (p, 1) :: acc
    | [] => [(p, 1)]) []).reverse

def showRuns (l : List Nat) : String := ",".intercalate ((runs l).map fun (a, n) => s!"{a}+{n}")

def unRuns (s : String) : List Nat :=
  (fields s ",").flatMap fun r =>
    match r.splitOn "+" with
    | [a, n] => List.range' (nat! a) (nat! n)
    | _ => []

def partConst : Nat := Gen.remotePartChunkK * 1024

def doLine (line : String) : String :=
  let (cs, impl) := match line.splitOn "\t" with
    | [c, i] => (c, i)
    | [c] => (c, "")
    | _ => ("", "")
  match cs.splitOn " | " with
  | [ms, hd, evs] =>
    let msgs := Rem.parseMsgs ms
    let hdf := fields hd " "
    let drained : Nat := match hdf.getD 4 "" with | "" => 0 | x => min (nat! (x.drop 1).toString) msgs.length
    match hdf.take 4 with
    | [kind, fs, a, b] =>
      let fsp := Rem.parseFs fs
      let ka := (msgs.map (Rem.keeps fsp)).toArray
      let keep : Nat → Bool := fun p => ka.getD p false
      let n := msgs.length
      -- arrivals never exceed the file
      let step := fun (acc : SC × List String) (e : Ev) =>
        let e' := match e with | .arrive k => Ev.arrive (min k (n - acc.1.allLen)) | x => x
        let s' := match e' with
          | .tick c => send (procNewD keep partConst acc.1 c drained)
          | x => stepEv keep partConst acc.1 x
        (s', match e with | .tick _ => acc.2 ++ [s!"{s'.filtered.length}:{s'.processed}"] | _ => acc.2)
      let evl := parseEvs evs
      let r := evl.foldl step ({ SC.new (kind == "stream") (!fsp.isEmpty) (nat! a) (nat! b) with allLen := drained }, [])
      let s := r.1
      let mobs := s!"{" ".intercalate r.2} | {showRuns s.filtered} | fa={if s.filtersActive then 1 else 0} p={s.processed}"
      -- oracle on the implementation's own output: its final index is the filtered log below its progress mark
      let parts := impl.splitOn " | "
      let ifilt := unRuns (parts.getD 1 "")
      let tail := fields (parts.getD 2 "") " "
      let ifa := tail.any (· == "fa=1")
      let ip := match tail.find? (·.startsWith "p=") with | some x => nat! (x.drop 2).toString | none => 0
      let lastIsTick := match evl.getLast? with | some (.tick _) => true | _ => false
      let c16 :=
        if impl == "" then "-" else if impl == "PANIC" then "FAIL:panic" else if parts.length != 3 then "FAIL:no-observation"
        else if ip > n then "FAIL:progress-mark-beyond-the-file"
        else if ifa && ifilt != matchRange keep drained (ip - drained) then "FAIL:index-is-not-the-filtered-log-below-the-progress-mark"
        else if !ifa && lastIsTick && s.allLen > drained && ip != s.allLen then "FAIL:unfiltered-progress-mark-is-not-the-number-of-messages-received"
        else "ok"
      let settled := decide (s.filtersActive = true → (s.processed = s.allLen ∨ (s.isStream = false ∧ s.stop ≤ s.filtered.length)))
      let tags : List String :=
        [if kind == "stream" then "stream" else "query"] ++ (if fsp.isEmpty then ["unfiltered"] else ["filtered"]) ++
        (if n > 65536 then ["beyond-part-chunk"] else []) ++ (if drained > 0 then ["created-after-drain"] else []) ++
        (if evl.any (fun | .cw _ _ => true | _ => false) then ["window-change"] else []) ++
        (if !s.filtered.isEmpty then ["matches"] else []) ++
        (if settled then ["settled"] else ["unsettled"]) ++
        (if !s.isStream && s.filtersActive && s.stop ≤ s.filtered.length && s.processed < s.allLen then ["query-cut"] else [])
      s!"{mobs}\tC16={c16}\tC16=ok\t{",".intercalate tags}"
    | _ => "bad\tC16=FAIL:unparsable\tC16=ok\t"
  | _ => "bad\tC16=FAIL:unparsable\tC16=ok\t"

end Inc
