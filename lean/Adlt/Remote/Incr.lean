/-! Model of the incremental stream index (`process_stream_new_msgs`, src/utils/remote_utils.rs) and of the window
    sending step of `process_file_context` (src/bin/adlt/remote.rs), over file positions: `keep p` says whether the message
    at position `p` passes the stream's filters. -/
namespace Inc

structure SC where
  isStream : Bool
  filtersActive : Bool
  filtered : List Nat := []       -- filtered_msgs
  processed : Nat := 0            -- all_msgs_last_processed_len
  start : Nat                     -- msgs_to_send.start = msgs_sent.start
  stop : Nat                      -- msgs_to_send.end
  sentEnd : Nat                   -- msgs_sent.end
  delivered : List Nat := []      -- ghost: file positions sent under the current id, in order
  allLen : Nat := 0               -- ghost: messages parsed so far (all_msgs.len())
deriving Repr

/-- matching positions in `[a, a+n)` -/
def matchRange (keep : Nat → Bool) (a n : Nat) : List Nat := (List.range' a n).filter keep

/-- the query loop: `startIdx` runs over `[0, maxIdx)` in parts of `part` -/
def queryLoop (keep : Nat → Bool) (off maxIdx part stop : Nat) : Nat → Nat → List Nat → Nat → List Nat × Nat
  | 0, _, filtered, processed => (filtered, processed)
  | fuel + 1, startIdx, filtered, processed =>
    if filtered.length < stop ∧ startIdx < maxIdx then
      let nrWanted := stop - filtered.length
      let maxThis := min maxIdx (startIdx + part)
      let m := matchRange keep (off + startIdx) (maxThis - startIdx)
      if m.length ≤ nrWanted then queryLoop keep off maxIdx part stop fuel maxThis (filtered ++ m) (off + maxThis)
      else queryLoop keep off maxIdx part stop fuel maxThis (filtered ++ m.take nrWanted) (m.getD nrWanted 0)
    else (filtered, processed)

/-- `process_stream_new_msgs(stream, offset = processed, all_msgs[processed..allLen], maxChunk)` -/
def procNew (keep : Nat → Bool) (partConst : Nat) (s : SC) (maxChunk : Nat) : SC :=
  let newLen := s.allLen - s.processed
  if newLen = 0 then s
  else if !s.filtersActive then { s with processed := s.processed + newLen }
  else
    let maxIdx := min newLen maxChunk
    if s.isStream then
      { s with filtered := s.filtered ++ matchRange keep s.processed maxIdx, processed := s.processed + maxIdx }
    else
      let r := queryLoop keep s.processed maxIdx (min maxChunk partConst) s.stop (maxIdx + 1) 0 s.filtered s.processed
      { s with filtered := r.1, processed := r.2 }

/-- the stream as the sender sees it now -/
def SC.seqNow (s : SC) : List Nat := if s.filtersActive then s.filtered else List.range s.allLen

/-- send `msgs_sent.end .. min(len, msgs_to_send.end)` -/
def send (s : SC) : SC :=
  let len := s.seqNow.length
  if s.sentEnd < s.stop ∧ s.sentEnd < len then
    let newEnd := min len s.stop
    { s with delivered := s.delivered ++ (s.seqNow.take newEnd).drop s.sentEnd, sentEnd := newEnd }
  else s

inductive Ev where
  | arrive (n : Nat)            -- the parser delivered n more messages
  | tick (maxChunk : Nat)       -- one round of the server loop for this stream
  | cw (a b : Nat)              -- stream_change_window: new id, nothing sent yet under it
deriving Repr

def stepEv (keep : Nat → Bool) (partConst : Nat) (s : SC) : Ev → SC
  | .arrive n => { s with allLen := s.allLen + n }
  | .tick c => send (procNew keep partConst s c)
  | .cw a b => { s with start := a, stop := b, sentEnd := a, delivered := [] }

def runEv (keep : Nat → Bool) (partConst : Nat) (s : SC) (evs : List Ev) : SC := evs.foldl (stepEv keep partConst) s

def SC.new (isStream filtersActive : Bool) (a b : Nat) : SC :=
  { isStream := isStream, filtersActive := filtersActive, start := a, stop := b, sentEnd := a }

end Inc
