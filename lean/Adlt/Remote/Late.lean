import Adlt.Remote.IncrProofs
/-! `process_stream_new_msgs` as `process_file_context` calls it in collect mode `one_pass_streams`, where messages that every
    stream has processed are dropped from the front of `all_msgs`: a stream that is created *after* `drained` messages were
    dropped starts at the first message still available,
    `new_msgs_offset = max(min(all_msgs_last_processed_len, all_msgs_len), drained_all_msgs)`. -/
namespace Inc

def procNewD (keep : Nat → Bool) (partConst : Nat) (s : SC) (maxChunk drained : Nat) : SC :=
  let off := max (min s.processed s.allLen) drained
  let newLen := s.allLen - off
  if newLen = 0 then s
  else if !s.filtersActive then { s with processed := off + newLen }
  else
    let maxIdx := min newLen maxChunk
    if s.isStream then
      { s with filtered := s.filtered ++ matchRange keep off maxIdx, processed := off + maxIdx }
    else
      let r := queryLoop keep off maxIdx (min maxChunk partConst) s.stop (maxIdx + 1) 0 s.filtered s.processed
      { s with filtered := r.1, processed := r.2 }

/-- nothing drained: the call of the ordinary collect mode -/
theorem procNewD_zero (keep : Nat → Bool) (pc : Nat) (s : SC) (c : Nat) (h : s.processed ≤ s.allLen) :
    procNewD keep pc s c 0 = procNew keep pc s c := by
  unfold procNewD procNew
  have e1 : max (min s.processed s.allLen) 0 = s.processed := by omega
  simp only [e1]

/-- **a stream without filters has processed every message it was handed**: after a round its progress mark is the number of
    messages received so far - also when the stream was created after messages had been drained (then its first round starts
    behind them) -/
theorem procNewD_unfiltered_mark (keep : Nat → Bool) (pc : Nat) (s : SC) (c drained : Nat) (hf : s.filtersActive = false)
    (hd : drained < s.allLen) (hp : s.processed ≤ s.allLen) : (procNewD keep pc s c drained).processed = s.allLen := by
  unfold procNewD
  simp only [hf, Bool.not_false, if_true]
  split
  · rename_i h0
    have e0 : min s.processed s.allLen = s.processed := Nat.min_eq_left hp
    rw [e0] at h0
    omega
  · show max (min s.processed s.allLen) drained + (s.allLen - max (min s.processed s.allLen) drained) = s.allLen
    have h2 : min s.processed s.allLen ≤ s.allLen := Nat.min_le_right _ _
    omega

/-- a filtered stream created late indexes exactly the messages behind the drained ones that it has looked at -/
theorem procNewD_stream_index (keep : Nat → Bool) (pc : Nat) (s : SC) (c drained : Nat) (hf : s.filtersActive = true)
    (hs : s.isStream = true) (h0 : s.processed = 0) (hfl : s.filtered = []) (hd : drained < s.allLen) :
    (procNewD keep pc s c drained).filtered = matchRange keep drained ((procNewD keep pc s c drained).processed - drained) ∧
    drained ≤ (procNewD keep pc s c drained).processed ∧ (procNewD keep pc s c drained).processed ≤ s.allLen := by
  unfold procNewD
  have e1 : max (min s.processed s.allLen) drained = drained := by rw [h0]; omega
  simp only [e1, hf, hs, Bool.not_true, Bool.false_eq_true, if_false, if_true, hfl, List.nil_append]
  split
  · omega
  · refine ⟨?_, ?_, ?_⟩
    · show matchRange keep drained (min (s.allLen - drained) c) = matchRange keep drained (drained + min (s.allLen - drained) c - drained)
      congr 1; omega
    · show drained ≤ drained + min (s.allLen - drained) c
      omega
    · show drained + min (s.allLen - drained) c ≤ s.allLen
      omega

end Inc
