import Adlt.Safe.Basic
/-! Checked model of the control-message payload parsers (src/dlt/control_msgs.rs): every slice, `unwrap` and
    `usize` subtraction of the Rust code is a possible `Panic` here. -/
namespace Safe

/-- `parse_payload_int::<T>` for an `n`-byte integer: `Ok(None)` = too short; the inner `get(..).unwrap()` may panic -/
def parseInt (be : Bool) (p : Bytes) (off n : Nat) : R (Option Nat) :=
  if p.length < off + n then .ok none
  else match unwrap (get p off (off + n)) with
    | .ok b => .ok (some (rdNat be b))
    | .error e => .error e

/-- `parse_ctrl_sw_version_payload` (the text conversion is applied to the returned bytes) -/
def swVersion (be : Bool) (p : Bytes) : R (Option Bytes) :=
  if p.length ≥ 4 then
    match unwrap (get p 0 4) with
    | .error e => .error e
    | .ok b =>
      let swLen := rdNat be b
      match slice p 4 p.length with
      | .error e => .error e
      | .ok q =>
        if q.length ≥ swLen then
          match slice q 0 swLen with
          | .error e => .error e
          | .ok s => .ok (some s)
        else .ok none
  else .ok none

def unregisterContext (p : Bytes) : R (Option (Bytes × Bytes × Bytes)) :=
  if p.length = 12 then
    match slice p 0 4, slice p 4 8, slice p 8 12 with
    | .ok a, .ok c, .ok m => .ok (some (a, c, m))
    | .error e, _, _ => .error e
    | _, .error e, _ => .error e
    | _, _, .error e => .error e
  else .ok none

def connectionInfo (p : Bytes) : R (Option (UInt8 × Bytes)) :=
  if p.length = 5 then
    match index p 0, slice p 1 5 with
    | .ok s, .ok c => .ok (some (s, c))
    | .error e, _ => .error e
    | _, .error e => .error e
  else .ok none

def timezone (be : Bool) (p : Bytes) : R (Option (Nat × Bool)) :=
  if p.length = 5 then
    match parseInt be p 0 4 with
    | .error e => .error e
    | .ok o =>
      match unwrap o, index p 4 with
      | .ok g, .ok d => .ok (some (g, d.toNat > 0))
      | .error e, _ => .error e
      | _, .error e => .error e
  else .ok none

/-! ### GET_LOG_INFO -/

structure Cur where
  offset : Nat
  avail : Nat
deriving Repr, DecidableEq

structure CtidInfo where
  ctid : Bytes
  logLevel : Option Nat
  traceStatus : Option Nat
  desc : Option Bytes
deriving Repr, DecidableEq

structure AppInfo where
  apid : Bytes
  ctids : List CtidInfo
  desc : Option Bytes
deriving Repr, DecidableEq

def advance (c : Cur) (n : Nat) : R Cur :=
  match sub c.avail n with
  | .ok a => .ok { offset := c.offset + n, avail := a }
  | .error e => .error e

/-- the `if has_descr { if avail >= 2 {…} else {…} }` block: `none` = the `else` branch (caller breaks / returns) -/
def descBlock (be : Bool) (p : Bytes) (c : Cur) : R (Option (Option Bytes × Cur)) :=
  if c.avail ≥ 2 then
    match parseInt be p c.offset 2 with
    | .error e => .error e
    | .ok o =>
      match unwrap o with
      | .error e => .error e
      | .ok len =>
        match advance c 2 with
        | .error e => .error e
        | .ok c1 =>
          if len > 0 ∧ c1.avail ≥ len then
            match slice p c1.offset (c1.offset + len), advance c1 len with
            | .ok s, .ok c2 => .ok (some (some s, c2))
            | .error e, _ => .error e
            | _, .error e => .error e
          else .ok (some (none, c1))
  else .ok none

/-- optional one-byte field (`log_level` / `trace_status`): `none` = `return vec![]` -/
def byteField (be : Bool) (p : Bytes) (present : Bool) (c : Cur) : R (Option (Option Nat × Cur)) :=
  if present then
    if c.avail < 1 then .ok none
    else
      match parseInt be p c.offset 1, advance c 1 with
      | .ok v, .ok c1 => .ok (some (v, c1))
      | .error e, _ => .error e
      | _, .error e => .error e
  else .ok (some (none, c))

/-- one context-id entry: `none` = `return vec![]` -/
def ctidEntry (be : Bool) (p : Bytes) (hasLl hasTs hasDescr : Bool) (c : Cur) : R (Option (CtidInfo × Cur)) :=
  if c.avail < 4 then .ok none
  else
    match unwrap (get p c.offset (c.offset + 4)), advance c 4 with
    | .error e, _ => .error e
    | _, .error e => .error e
    | .ok id, .ok c1 =>
      match byteField be p hasLl c1 with
      | .error e => .error e
      | .ok none => .ok none
      | .ok (some (ll, c2)) =>
        match byteField be p hasTs c2 with
        | .error e => .error e
        | .ok none => .ok none
        | .ok (some (ts, c3)) =>
          if hasDescr then
            match descBlock be p c3 with
            | .error e => .error e
            | .ok none => .ok none
            | .ok (some (d, c4)) => .ok (some ({ ctid := id, logLevel := ll, traceStatus := ts, desc := d }, c4))
          else .ok (some ({ ctid := id, logLevel := ll, traceStatus := ts, desc := none }, c3))

/-- `for _c in 0..count_context_ids`: `none` = `return vec![]` -/
def ctidLoop (be : Bool) (p : Bytes) (hasLl hasTs hasDescr : Bool) : Nat → Cur → List CtidInfo → R (Option (List CtidInfo × Cur))
  | 0, c, acc => .ok (some (acc, c))
  | n + 1, c, acc =>
    match ctidEntry be p hasLl hasTs hasDescr c with
    | .error e => .error e
    | .ok none => .ok none
    | .ok (some (x, c1)) => ctidLoop be p hasLl hasTs hasDescr n c1 (acc ++ [x])

inductive AppStep where
  | next (a : AppInfo) (c : Cur)     -- entry complete, continue with the next one
  | stop (keep : Option AppInfo)     -- `break` (the entry is dropped, or kept when the break is after it … never: both breaks drop it)
  | abort                            -- `return vec![]`
deriving Repr

/-- one application entry -/
def appEntry (be : Bool) (p : Bytes) (hasLl hasTs hasDescr : Bool) (c : Cur) : R AppStep :=
  if c.avail < 6 then .ok (.stop none)
  else
    match unwrap (get p c.offset (c.offset + 4)) with
    | .error e => .error e
    | .ok id =>
      match parseInt be p (c.offset + 4) 2 with
      | .error e => .error e
      | .ok o =>
        match unwrap o, advance c 6 with
        | .error e, _ => .error e
        | _, .error e => .error e
        | .ok cnt, .ok c1 =>
          match ctidLoop be p hasLl hasTs hasDescr cnt c1 [] with
          | .error e => .error e
          | .ok none => .ok .abort
          | .ok (some (ctids, c2)) =>
            if hasDescr then
              match descBlock be p c2 with
              | .error e => .error e
              | .ok none => .ok (.stop none)
              | .ok (some (d, c3)) => .ok (.next { apid := id, ctids := ctids, desc := d } c3)
            else .ok (.next { apid := id, ctids := ctids, desc := none } c2)

/-- `for _i in 0..count_app_ids` -/
def appLoop (be : Bool) (p : Bytes) (hasLl hasTs hasDescr : Bool) : Nat → Cur → List AppInfo → R (List AppInfo)
  | 0, _, acc => .ok acc
  | n + 1, c, acc =>
    match appEntry be p hasLl hasTs hasDescr c with
    | .error e => .error e
    | .ok .abort => .ok []
    | .ok (.stop _) => .ok acc
    | .ok (.next a c1) => appLoop be p hasLl hasTs hasDescr n c1 (acc ++ [a])

/-- `parse_ctrl_log_info_payload` -/
def logInfo (status : Nat) (be : Bool) (p : Bytes) : R (List AppInfo) :=
  if 3 ≤ status ∧ status ≤ 7 then
    let hasLl := status == 4 || status == 6 || status == 7
    let hasTs := status == 5 || status == 6 || status == 7
    let hasDescr := status == 7
    if p.length ≥ 2 then
      match parseInt be p 0 2 with
      | .error e => .error e
      | .ok o =>
        match unwrap o, sub p.length 2 with
        | .error e, _ => .error e
        | _, .error e => .error e
        | .ok cnt, .ok av => appLoop be p hasLl hasTs hasDescr cnt { offset := 2, avail := av } []
    else .ok []
  else .ok []

end Safe
