import Adlt.Safe.CtrlProofs
import Adlt.Safe.ArgIter
import Adlt.Util.Parse
/-! glue for C03.
    `c03`  case: `<kind> | <base> | <ops>`; obs: `ok n=… lcs=… …` / `PANIC <where>` / `ABORT …` / `TIMEOUT` (isolated worker running the whole chain).
           The model's prediction is the theorem-backed one: no input makes the chain panic.
    `c03f` case: `<fn>,<be>,<status>,<payloadhex>`; obs: the canonical result of the real function, `PANIC` if it panicked. -/
namespace Safe
open Util

def optText (hasNl : Bool) : Option Bytes → String
  | some b => if hasNl then "S*" else s!"S{b.length}"
  | none => "N"

def optNat : Option Nat → String
  | some n => toString n
  | none => "-"

def showApps (hasNl : Bool) (apps : List AppInfo) : String :=
  "L" ++ ";".intercalate (apps.map fun a =>
    let cs := a.ctids.map fun c => s!"{hexOf c.ctid}:{optNat c.logLevel}:{optNat c.traceStatus}:{optText hasNl c.desc}"
    s!"{hexOf a.apid}[{"+".intercalate cs}]{optText hasNl a.desc}")

def runF (f : String) (be : Bool) (status : Nat) (p : Bytes) : String :=
  let hasNl := p.any fun b => b == 10 || b == 13
  let shw {α} (r : R α) (g : α → String) : String := match r with | .ok x => g x | .error _ => "PANIC"
  match f with
  | "sw" => shw (swVersion be p) (optText hasNl)
  | "li" => shw (logInfo status be p) (showApps hasNl)
  | "un" => shw (unregisterContext p) fun
      | some (a, c, m) => s!"U{hexOf a}:{hexOf c}:{hexOf m}"
      | none => "N"
  | "ci" => shw (connectionInfo p) fun
      | some (s, c) => s!"C{s.toNat}:{hexOf c}"
      | none => "N"
  | "tz" => shw (timezone be p) fun
      | some (g, d) => s!"Z{g}:{if d then 1 else 0}"
      | none => "N"
  | "ai" => shw (argIter be p (p.length + 1) 0 []) fun l => "A" ++ ";".intercalate (l.map fun a => s!"{a.ti}:{hexOf a.raw}")
  | "nv" => shw (nonVerboseArgs p) fun l => "A" ++ ";".intercalate (l.map fun a => s!"0:{hexOf a}")
  | _ => "?"

def doLineF (line : String) : String :=
  let (cs, impl) := match line.splitOn "\t" with
    | [c, i] => (c, i)
    | [c] => (c, "")
    | _ => ("", "")
  match cs.splitOn "," with
  | f :: be :: st :: rest =>
    let p := hexBytes (rest.headD "")
    let mobs := runF f (be == "1") (nat! st) p
    let orc (o : String) : String := if o == "PANIC" then "C03=FAIL:panic-in-" ++ f else "C03=ok"
    let tags := [f] ++ (if mobs == "N" || mobs == "L" || mobs == "A" then ["empty-result"] else ["result"]) ++ (if be == "1" then ["big-endian"] else [])
    s!"{mobs}\t{if impl == "" then "-" else orc impl}\t{orc mobs}\t{",".intercalate tags}"
  | _ => "bad\tC03=FAIL:unparsable\tC03=FAIL:unparsable\t"

def firstWord (s : String) : String := (s.splitOn " ").headD ""

def doLine (line : String) : String :=
  let (cs, impl) := match line.splitOn "\t" with
    | [c, i] => (c, i)
    | [c] => (c, "")
    | _ => ("", "")
  let parts := cs.splitOn " | "
  let kind := parts.headD ""
  let base := (parts.getD 1 "")
  let ops := fields (parts.getD 2 "") ";"
  let orc (o : String) : String :=
    if o.startsWith "ok" then "C03=ok"
    else if o.startsWith "PANIC" then "C03=FAIL:panic " ++ ((o.drop 6).toString.map fun c => if c == ';' || c == '=' then ' ' else c)
    else if o.startsWith "ABORT" then "C03=FAIL:abort-or-allocation-failure"
    else if o.startsWith "TIMEOUT" then "C03=FAIL:does-not-terminate"
    else "C03=FAIL:no-result"
  let stat : String → Nat := fun k => match (fields impl " ").find? (·.startsWith (k ++ "=")) with
    | some t => nat! (t.drop (k.length + 1)).toString
    | none => 0
  let tags : List String := [kind] ++ (if base.startsWith "F" then ["repo-file"] else if base.startsWith "Y" then ["synthetic"] else ["literal"]) ++
    (if ops.isEmpty then ["unmodified"] else ["corrupted"]) ++
    (if ops.any (·.startsWith "t") then ["truncated"] else []) ++ (if ops.any (·.startsWith "c") then ["spliced"] else []) ++
    (if ops.any (·.startsWith "b") then ["bit-flip"] else []) ++
    (if stat "n" != 0 then ["messages"] else ["no-message"]) ++ (if stat "lcs" != 0 && stat "lcs" != 1 then ["multi-lc"] else []) ++
    (if stat "args" != 0 then ["args"] else []) ++ (if stat "matched" != 0 then ["filter-match"] else [])
  s!"ok\t{if impl == "" then "-" else orc impl}\tC03=ok\t{",".intercalate tags}\t{firstWord impl}"

end Safe
